// svh: runs the real sv-parser crates (from /repo's working tree, feature `verif`) on case
// files and prints canonical results.  It re-implements nothing of the library.
mod util;
use std::collections::HashSet;
use std::fmt::Write as _;
use std::path::{Path, PathBuf};
use sv_parser::{
    parse_lib, parse_lib_pp, parse_lib_str, parse_sv, parse_sv_pp, parse_sv_str, preprocess,
    preprocess_str, Defines, Error, Locate, NodeEvent, PreprocessedText, RefNode, SyntaxTree,
};
use sv_parser_parser::{Span, SpanInfo};
use sv_parser_pp::range::Range;
use util::*;

fn main() {
    let args: Vec<String> = std::env::args().collect();
    if args.len() < 4 {
        eprintln!("usage: svh <api|originops> <casefile> <outfile> [sandbox]");
        std::process::exit(2);
    }
    let cmd = args[1].clone();
    let cases = read_cases(&args[2]);
    let sandbox = if args.len() > 4 {
        PathBuf::from(&args[4])
    } else {
        PathBuf::from(format!("/verif/build/sandbox/{}", std::process::id()))
    };
    std::fs::create_dir_all(&sandbox).unwrap();
    let mut out = String::new();
    // silence panic messages; they are captured and reported per run
    std::panic::set_hook(Box::new(|_| {}));
    for c in cases {
        let sb = sandbox.clone();
        let cmd2 = cmd.clone();
        // every case on a fresh thread (fresh thread-local parser state), generous stack
        let h = std::thread::Builder::new()
            .stack_size(512 * 1024 * 1024)
            .spawn(move || {
                let mut o = String::new();
                writeln!(o, "case {}", c.id).unwrap();
                match cmd2.as_str() {
                    "api" => run_api(&c, &sb, &mut o),
                    "originops" => run_originops(&c, &mut o),
                    "threads" => run_threads(&c, &sb, &mut o),
                    "packrat" => run_packrat(&c, &mut o),
                    "lex" => run_lex(&c, &mut o),
                    _ => panic!("unknown command"),
                }
                writeln!(o, "end").unwrap();
                o
            })
            .unwrap();
        match h.join() {
            Ok(o) => out.push_str(&o),
            Err(e) => {
                out.push_str(&format!("harness-panic {}\nend\n", hex(panic_msg(e).as_bytes())));
            }
        }
    }
    let _ = std::fs::remove_dir_all(&sandbox);
    std::fs::write(&args[3], out).unwrap();
}

// ---------------------------------------------------------------------------------------
// originops: drive PreprocessedText::{push,merge,origin} directly (hook) with an op tree.
//   push <n> -            |  push <n> <hexpath> <b> <e>
//   merge_begin / merge_end   (nested)
//   probe <pos>...        |  probeall
fn run_originops(c: &Case, o: &mut String) {
    let mut stack: Vec<PreprocessedText> = vec![PreprocessedText::verif_new()];
    for l in &c.lines {
        match l[0].as_str() {
            "push" => {
                let n: usize = l[1].parse().unwrap();
                let s = "a".repeat(n);
                let org = if l[2] == "-" {
                    None
                } else {
                    Some((
                        PathBuf::from(unhex_str(&l[2])),
                        Range::new(l[3].parse().unwrap(), l[4].parse().unwrap()),
                    ))
                };
                stack.last_mut().unwrap().verif_push(&s, org);
            }
            "merge_begin" => stack.push(PreprocessedText::verif_new()),
            "merge_end" => {
                let x = stack.pop().unwrap();
                stack.last_mut().unwrap().verif_merge(x);
            }
            "segs" => {
                let pt = stack.last().unwrap();
                let mut s = String::from("segs");
                for (k, r, src) in pt.verif_segments() {
                    write!(s, " {}:{}:{}:{}:", k.begin, k.end, r.begin, r.end).unwrap();
                    match src {
                        None => s.push('-'),
                        Some((p, rr)) => write!(
                            s,
                            "{}:{}:{}",
                            hex(p.to_string_lossy().as_bytes()),
                            rr.begin,
                            rr.end
                        )
                        .unwrap(),
                    }
                }
                writeln!(o, "{}", s).unwrap();
                writeln!(o, "len {}", pt.text().len()).unwrap();
            }
            "probe" => {
                let pt = stack.last().unwrap();
                let mut s = String::from("probe");
                for p in &l[1..] {
                    let pos: usize = p.parse().unwrap();
                    let r = std::panic::catch_unwind(std::panic::AssertUnwindSafe(|| {
                        pt.origin(pos).map(|(p, o)| (p.clone(), o))
                    }));
                    match r {
                        Err(_) => write!(s, " {}=panic", pos).unwrap(),
                        Ok(None) => write!(s, " {}=-", pos).unwrap(),
                        Ok(Some((p, off))) => write!(
                            s,
                            " {}={}:{}",
                            pos,
                            hex(p.to_string_lossy().as_bytes()),
                            off
                        )
                        .unwrap(),
                    }
                }
                writeln!(o, "{}", s).unwrap();
            }
            _ => panic!("originops: unknown line {:?}", l),
        }
    }
}

// ---------------------------------------------------------------------------------------
// packrat: drive nom_packrat::PackratStorage directly.
//   cap <n|none> | ins <name 0..5> <pos> <flag> <len|none> | get <name> <pos> <flag> | clear
static PACKRAT_NAMES: [&str; 6] = ["p0", "p1", "p2", "p3", "p4", "p5"];
static PACKRAT_TEXT: [u8; 4096] = [0u8; 4096];
fn run_packrat(c: &Case, o: &mut String) {
    let mut st: nom_packrat::PackratStorage<u32, bool> = nom_packrat::PackratStorage::new(None);
    for l in &c.lines {
        match l[0].as_str() {
            "cap" => {
                st = nom_packrat::PackratStorage::new(if l[1] == "none" { None } else { Some(l[1].parse().unwrap()) });
            }
            "clear" => st.clear(),
            "ins" | "get" => {
                let name = PACKRAT_NAMES[l[1].parse::<usize>().unwrap()];
                let pos: usize = l[2].parse().unwrap();
                let ptr = unsafe { PACKRAT_TEXT.as_ptr().add(pos) };
                let flag = l[3] == "1";
                if l[0] == "ins" {
                    let v = if l[4] == "none" { None } else { let n: usize = l[4].parse().unwrap(); Some((n as u32 * 7, n)) };
                    st.insert((name, ptr, flag), v);
                } else {
                    match st.get(&(name, ptr, flag)) {
                        None => writeln!(o, "get miss").unwrap(),
                        Some(None) => writeln!(o, "get rejected").unwrap(),
                        Some(Some((t, n))) => writeln!(o, "get {}:{}", t / 7, n).unwrap(),
                    }
                }
            }
            _ => panic!("packrat: unknown line {:?}", l),
        }
    }
}

// ---------------------------------------------------------------------------------------
// threads: the same jobs run sequentially (reference) and concurrently on N threads.
//   file <hexpath> <hextext>      (written once, read-only afterwards)
//   job <sv|lib|pp|svi> <hexsrc>
//   threads <n> <rounds>
fn job_result(kind: &str, src: &str, path: &str) -> String {
    // kind = base[:include dir[:NAME=value]]  -- the arguments of the call are part of the job
    let mut parts = kind.split(':');
    let kind = parts.next().unwrap_or("sv");
    let mut defs = new_defines();
    let mut inc: Vec<PathBuf> = Vec::new();
    if let Some(d) = parts.next() {
        if !d.is_empty() {
            inc.push(PathBuf::from(d));
        }
    }
    if let Some(nv) = parts.next() {
        if let Some((n, v)) = nv.split_once('=') {
            defs.insert(
                n.to_string(),
                Some(sv_parser::Define::new(n.to_string(), vec![], Some(sv_parser::DefineText::new(v.to_string(), None)))),
            );
        }
    }
    let r = std::panic::catch_unwind(|| match kind {
        "pps" => match preprocess_str(src, path, &defs, &inc, false, true, 0, 0) {
            Ok((t, d)) => format!("ok {} {}", t.text(), canon_defines(&d, true).join("|")),
            Err(e) => format!("err {}", canon_err(&e)),
        },
        "ppi" => match preprocess_str(src, path, &defs, &inc, true, false, 0, 0) {
            Ok((t, d)) => format!("ok {} {}", t.text(), canon_defines(&d, true).join("|")),
            Err(e) => format!("err {}", canon_err(&e)),
        },
        "pp" => match preprocess_str(src, path, &defs, &inc, false, false, 0, 0) {
            Ok((t, d)) => format!("ok {} {}", t.text(), canon_defines(&d, true).join("|")),
            Err(e) => format!("err {}", canon_err(&e)),
        },
        // file entry points: src is a file name -- absolute for "libf" (made so when the job is read), relative for "svf" / "ppf"
        "libf" => match parse_lib(src, &defs, &inc, false, false) {
            Ok((t, d)) => format!("ok {} {}", tree_line((&t).into_iter().event()), canon_defines(&d, true).join("|")),
            Err(e) => format!("err {}", canon_err(&e)),
        },
        "svf" => match parse_sv(src, &defs, &inc, false, false) {
            Ok((t, d)) => format!("ok {} {}", tree_line((&t).into_iter().event()), canon_defines(&d, true).join("|")),
            Err(e) => format!("err {}", canon_err(&e)),
        },
        "ppf" => match preprocess(src, &defs, &inc, false, false) {
            Ok((t, d)) => format!("ok {} {}", t.text(), canon_defines(&d, true).join("|")),
            Err(e) => format!("err {}", canon_err(&e)),
        },
        "lib" => match parse_lib_str(src, path, &defs, &inc, false, false) {
            Ok((t, d)) => format!("ok {} {}", tree_line((&t).into_iter().event()), canon_defines(&d, true).join("|")),
            Err(e) => format!("err {}", canon_err(&e)),
        },
        "svi" => match parse_sv_str(src, path, &defs, &inc, false, true) {
            Ok((t, d)) => format!("ok {} {}", tree_line((&t).into_iter().event()), canon_defines(&d, true).join("|")),
            Err(e) => format!("err {}", canon_err(&e)),
        },
        _ => match parse_sv_str(src, path, &defs, &inc, false, false) {
            Ok((t, d)) => format!("ok {} {}", tree_line((&t).into_iter().event()), canon_defines(&d, true).join("|")),
            Err(e) => format!("err {}", canon_err(&e)),
        },
    });
    match r {
        Ok(s) => s,
        Err(e) => format!("panic {}", panic_msg(e)),
    }
}

fn run_threads(c: &Case, sandbox_root: &Path, o: &mut String) {
    let sb = sandbox_root.join(format!("c{}", c.id));
    let _ = std::fs::remove_dir_all(&sb);
    std::fs::create_dir_all(&sb).unwrap();
    std::env::set_current_dir(&sb).unwrap();
    let mut jobs: Vec<(String, String)> = Vec::new();
    for l in &c.lines {
        match l[0].as_str() {
            "file" => {
                let p = sb.join(unhex_str(&l[1]));
                if let Some(d) = p.parent() {
                    std::fs::create_dir_all(d).unwrap();
                }
                std::fs::write(&p, unhex(&l[2])).unwrap();
            }
            "job" => {
                let src = unhex_str(&l[2]);
                if l[1].starts_with("libf") {
                    jobs.push((l[1].clone(), sb.join(src).to_string_lossy().to_string()));
                } else {
                    jobs.push((l[1].clone(), src));
                }
            }
            "threads" => {
                let n: usize = l[1].parse().unwrap();
                let rounds: usize = l[2].parse().unwrap();
                // sequential reference, each job on a fresh thread
                let mut reference: Vec<String> = Vec::new();
                for (k, src) in &jobs {
                    let (k, src) = (k.clone(), src.clone());
                    let h = std::thread::Builder::new()
                        .stack_size(256 * 1024 * 1024)
                        .spawn(move || job_result(&k, &src, "t.sv"))
                        .unwrap();
                    reference.push(h.join().unwrap_or_else(|_| "thread-panic".to_string()));
                }
                for (i, r) in reference.iter().enumerate() {
                    writeln!(o, "seq {} {} {}", i, r.split_whitespace().next().unwrap_or("?"), r.len()).unwrap();
                }
                let jobs = std::sync::Arc::new(jobs.clone());
                let reference = std::sync::Arc::new(reference);
                let barrier = std::sync::Arc::new(std::sync::Barrier::new(n));
                let mut hs = Vec::new();
                for t in 0..n {
                    let (jobs, reference, barrier) = (jobs.clone(), reference.clone(), barrier.clone());
                    hs.push(
                        std::thread::Builder::new()
                            .stack_size(256 * 1024 * 1024)
                            .spawn(move || {
                                let mut bad: Vec<String> = Vec::new();
                                let mut done = 0usize;
                                barrier.wait();
                                for r in 0..rounds {
                                    for j in 0..jobs.len() {
                                        let i = (j + t + r) % jobs.len();
                                        let got = job_result(&jobs[i].0, &jobs[i].1, "t.sv");
                                        done += 1;
                                        if got != reference[i] {
                                            bad.push(format!("mismatch job={} thread={} round={}", i, t, r));
                                        }
                                    }
                                }
                                (done, bad)
                            })
                            .unwrap(),
                    );
                }
                let mut total = 0;
                for h in hs {
                    match h.join() {
                        Ok((d, bad)) => {
                            total += d;
                            for b in bad.iter().take(3) {
                                writeln!(o, "{}", b).unwrap();
                            }
                        }
                        Err(_) => writeln!(o, "mismatch thread-died").unwrap(),
                    }
                }
                writeln!(o, "concurrent-runs {} threads {}", total, n).unwrap();
            }
            _ => panic!("threads: unknown line {:?}", l),
        }
    }
    std::env::set_current_dir("/").unwrap();
    let _ = std::fs::remove_dir_all(&sb);
}

// ---------------------------------------------------------------------------------------
// api: files + defines + flags + a sequence of entry-point runs on one thread.

struct Ctx {
    sandbox: PathBuf,
    defines: Defines,
    incdirs: Vec<PathBuf>,
    strip: bool,
    ignore: bool,
    incomplete: bool,
    chain: bool,
    want: HashSet<String>,
    last_defs: Option<Defines>,
}

fn origins_line(pt: &PreprocessedText) -> String {
    // run-length encoding: start+len@path:off  (consecutive positions, consecutive offsets)
    let n = pt.text().len();
    let mut s = String::from("origins");
    let mut i = 0;
    while i < n {
        let o = pt.origin(i).map(|(p, x)| (p.clone(), x));
        let mut j = i + 1;
        while j < n {
            let o2 = pt.origin(j).map(|(p, x)| (p.clone(), x));
            let same = match (&o, &o2) {
                (None, None) => true,
                (Some((p, x)), Some((p2, x2))) => p == p2 && *x2 == *x + (j - i),
                _ => false,
            };
            if !same {
                break;
            }
            j += 1;
        }
        match &o {
            None => write!(s, " {}+{}@-", i, j - i).unwrap(),
            Some((p, x)) => write!(
                s,
                " {}+{}@{}:{}",
                i,
                j - i,
                hex(p.to_string_lossy().as_bytes()),
                x
            )
            .unwrap(),
        }
        i = j;
    }
    s
}

fn tree_line<'a, I: Iterator<Item = NodeEvent<'a>>>(it: I) -> String {
    let mut s = String::from("tree");
    for e in it {
        match e {
            NodeEvent::Enter(RefNode::Locate(l)) => {
                write!(s, " @{}:{}:{}", l.offset, l.len, l.line).unwrap()
            }
            NodeEvent::Leave(RefNode::Locate(_)) => {}
            NodeEvent::Enter(x) => write!(s, " +{}", x).unwrap(),
            NodeEvent::Leave(_) => s.push_str(" -"),
        }
    }
    s
}

fn print_pp(ctx: &mut Ctx, r: Result<(PreprocessedText, Defines), Error>, o: &mut String) {
    match r {
        Ok((pt, d)) => {
            writeln!(o, "ok").unwrap();
            if ctx.want.contains("text") {
                writeln!(o, "text {}", hex(pt.text().as_bytes())).unwrap();
            }
            if ctx.want.contains("origins") {
                writeln!(o, "{}", origins_line(&pt)).unwrap();
            }
            if ctx.want.contains("defines") {
                for l in canon_defines(&d, ctx.want.contains("deforg")) {
                    writeln!(o, "{}", l).unwrap();
                }
            }
            ctx.last_defs = Some(d);
        }
        Err(e) => writeln!(o, "err {}", canon_err(&e)).unwrap(),
    }
}

fn t_root<'a>(t: &'a SyntaxTree) -> Vec<RefNode<'a>> {
    match t.into_iter().next() {
        Some(n) => vec![n],
        None => vec![],
    }
}

fn first_leaf_off(t: &SyntaxTree) -> usize {
    for n in t {
        if let RefNode::Locate(l) = n {
            return l.offset;
        }
    }
    0
}

fn tok(n: &RefNode) -> String {
    match n {
        RefNode::Locate(l) => format!("@{}:{}:{}", l.offset, l.len, l.line),
        x => format!("+{}", x),
    }
}

fn first_leaf(n: &RefNode) -> String {
    for x in n.clone() {
        if let RefNode::Locate(l) = x {
            return format!("{}", l.offset);
        }
    }
    "-".to_string()
}

macro_rules! unwrap_line {
    ($o:expr, $label:expr, $it:expr, $( $ty:tt ),+) => {{
        let r = sv_parser::unwrap_node!($it, $( $ty ),+);
        match r {
            Some(x) => writeln!($o, "unwrap {} {}@{}", $label, tok(&x), first_leaf(&x)).unwrap(),
            None => writeln!($o, "unwrap {} -", $label).unwrap(),
        }
    }};
}

fn iter_dump<'a>(root: RefNode<'a>, o: &mut String, want: &HashSet<String>) {
    if want.contains("iter") {
        let mut s = String::from("iter");
        for n in root.clone() {
            s.push(' ');
            s.push_str(&tok(&n));
        }
        writeln!(o, "{}", s).unwrap();
    }
    if want.contains("events") {
        let mut s = String::from("events");
        for e in root.clone().into_iter().event() {
            match e {
                NodeEvent::Enter(x) => {
                    s.push_str(" E");
                    s.push_str(&tok(&x));
                }
                NodeEvent::Leave(x) => {
                    s.push_str(" L");
                    s.push_str(&tok(&x));
                }
            }
        }
        writeln!(o, "{}", s).unwrap();
    }
    if want.contains("events") {
        // event views of iterators that hold SEVERAL pending nodes: an iterator advanced by k steps, and one made
        // from the children of the root
        let evline = |label: String, it: sv_parser::EventIter<'a>| -> String {
            let mut s = label;
            for e in it {
                match e {
                    NodeEvent::Enter(x) => { s.push_str(" E"); s.push_str(&tok(&x)); }
                    NodeEvent::Leave(x) => { s.push_str(" L"); s.push_str(&tok(&x)); }
                }
            }
            s
        };
        for k in 1..=4usize {
            let mut it = root.clone().into_iter();
            for _ in 0..k {
                it.next();
            }
            writeln!(o, "{}", evline(format!("advev {}", k), it.event())).unwrap();
        }
        let two: Vec<RefNode<'a>> = vec![root.clone(), root.clone()];
        writeln!(o, "{}", evline("multiev".to_string(), sv_parser::Iter::new(two.into()).event())).unwrap();
    }
    if want.contains("sub") {
        let all: Vec<RefNode<'a>> = root.clone().into_iter().collect();
        for (i, n) in all.iter().enumerate() {
            if i % 5 == 0 || all.len() < 40 {
                let mut s = format!("sub {}", i);
                for m in n.clone() {
                    s.push(' ');
                    s.push_str(&tok(&m));
                }
                writeln!(o, "{}", s).unwrap();
                let mut s = format!("subev {}", i);
                for e in n.clone().into_iter().event() {
                    match e {
                        NodeEvent::Enter(x) => { s.push_str(" E"); s.push_str(&tok(&x)); }
                        NodeEvent::Leave(x) => { s.push_str(" L"); s.push_str(&tok(&x)); }
                    }
                }
                writeln!(o, "{}", s).unwrap();
                unwrap_line!(o, format!("{}:loc", i), n.clone(), Locate);
                unwrap_line!(o, format!("{}:kwsym", i), n.clone(), Keyword, Symbol);
                unwrap_line!(o, format!("{}:id", i), n.clone(), SimpleIdentifier, EscapedIdentifier);
                unwrap_line!(o, format!("{}:ws", i), n.clone(), WhiteSpace, Comment);
                match sv_parser::unwrap_locate!(n.clone()) {
                    Some(l) => writeln!(o, "unwraploc {} @{}:{}:{}", i, l.offset, l.len, l.line).unwrap(),
                    None => writeln!(o, "unwraploc {} -", i).unwrap(),
                }
                // Locate::try_from is exercised through the node-type specific impls elsewhere
            }
        }
    }
}

fn print_tree(ctx: &mut Ctx, r: Result<(SyntaxTree, Defines), Error>, o: &mut String) {
    match r {
        Ok((t, d)) => {
            writeln!(o, "ok").unwrap();
            if ctx.want.contains("tree") {
                writeln!(o, "{}", tree_line((&t).into_iter().event())).unwrap();
            }
            if let Some(root) = t.into_iter().next() {
                iter_dump(root, o, &ctx.want);
            }
            if ctx.want.contains("tokorg") {
                let mut s = String::from("tokorg");
                for n in &t {
                    if let RefNode::Locate(l) = n {
                        match t.get_origin(l) {
                            None => write!(s, " {}=-", l.offset).unwrap(),
                            Some((p, x)) => write!(
                                s,
                                " {}={}:{}",
                                l.offset,
                                hex(p.to_string_lossy().as_bytes()),
                                x
                            )
                            .unwrap(),
                        }
                    }
                }
                writeln!(o, "{}", s).unwrap();
            }
            if ctx.want.contains("leafstr") {
                // get_str of every leaf, concatenated
                let mut cat = String::new();
                for n in &t {
                    if let RefNode::Locate(l) = n {
                        cat.push_str(t.get_str(l).unwrap());
                    }
                }
                writeln!(o, "leafstr {}", hex(cat.as_bytes())).unwrap();
            }
            if ctx.want.contains("nodeinfo") {
                // get_str / get_str_trim of every node, as byte ranges of the preprocessed text
                let base = match t.get_str(t_root(&t)) {
                    Some(s0) => s0.as_ptr() as usize - first_leaf_off(&t),
                    None => 0,
                };
                let mut i = 0;
                for n in &t {
                    let a = t.get_str(vec![n.clone()]);
                    let b = t.get_str_trim(vec![n.clone()]);
                    let f = |x: Option<&str>| match x {
                        Some(s) => format!("{}:{}", s.as_ptr() as usize - base, s.len()),
                        None => "-".to_string(),
                    };
                    writeln!(o, "n {} {} str={} trim={}", i, n, f(a), f(b)).unwrap();
                    i += 1;
                }
            }
            if ctx.want.contains("nodeinfo") || ctx.want.contains("display") {
                // the derived Locate::try_from of the root: it walks every token of the tree and asserts that each
                // one starts where the previous one ends (so it fires whenever that of any inner node would)
                use std::convert::TryFrom;
                let r = match t.into_iter().next() {
                    Some(RefNode::SourceText(x)) => Some(Locate::try_from(x)),
                    Some(RefNode::LibraryText(x)) => Some(Locate::try_from(x)),
                    _ => None,
                };
                match r {
                    Some(Ok(l)) => writeln!(o, "rootlocate {}:{}:{}", l.offset, l.len, l.line).unwrap(),
                    Some(Err(())) => writeln!(o, "rootlocate -").unwrap(),
                    None => (),
                }
            }
            if ctx.want.contains("display") {
                let s = format!("{}", t);
                writeln!(o, "display {}", s.len()).unwrap();
                let s = format!("{:?}", t);
                writeln!(o, "debug {}", s.len()).unwrap();
            }
            if ctx.want.contains("defines") {
                for l in canon_defines(&d, ctx.want.contains("deforg")) {
                    writeln!(o, "{}", l).unwrap();
                }
            }
            ctx.last_defs = Some(d);
        }
        Err(e) => writeln!(o, "err {}", canon_err(&e)).unwrap(),
    }
}

fn raw_result<'a, T>(
    r: sv_parser_parser::IResult<Span<'a>, T>,
    o: &mut String,
    want: &HashSet<String>,
) where
    &'a T: IntoIterator<Item = RefNode<'a>, IntoIter = sv_parser::Iter<'a>>,
    T: 'a + std::fmt::Debug,
{
    // The tree borrows from the result; print inside.
    match r {
        Ok((rest, x)) => {
            writeln!(o, "ok rest={}", rest.location_offset()).unwrap();
            // SAFETY of lifetimes: x lives until end of this arm.
            let xr: &T = unsafe { &*(&x as *const T) };
            if want.contains("tree") {
                writeln!(o, "{}", tree_line(xr.into_iter().event())).unwrap();
            }
            if want.contains("dbg") {
                writeln!(o, "dbg {}", hex(format!("{:?}", x).as_bytes())).unwrap();
            }
            if let Some(root) = xr.into_iter().next() {
                iter_dump(root, o, want);
            }
        }
        Err(nom::Err::Error(e)) | Err(nom::Err::Failure(e)) => {
            match nom_greedyerror::error_position(&e) {
                Some(p) => writeln!(o, "err pos={}", p).unwrap(),
                None => writeln!(o, "err pos=-").unwrap(),
            }
        }
        Err(nom::Err::Incomplete(_)) => writeln!(o, "err incomplete").unwrap(),
    }
}

fn run_api(c: &Case, sandbox_root: &Path, o: &mut String) {
    let sb = sandbox_root.join(format!("c{}", c.id));
    let _ = std::fs::remove_dir_all(&sb);
    std::fs::create_dir_all(&sb).unwrap();
    std::env::set_current_dir(&sb).unwrap();
    let mut ctx = Ctx {
        sandbox: sb.clone(),
        defines: new_defines(),
        incdirs: Vec::new(),
        strip: false,
        ignore: false,
        incomplete: false,
        chain: false,
        want: HashSet::new(),
        last_defs: None,
    };
    let mut nrun = 0;
    for l in &c.lines {
        match l[0].as_str() {
            "file" => {
                let p = ctx.sandbox.join(unhex_str(&l[1]));
                if let Some(d) = p.parent() {
                    std::fs::create_dir_all(d).unwrap();
                }
                std::fs::write(&p, unhex(&l[2])).unwrap();
            }
            "badfile" => {
                let p = ctx.sandbox.join(unhex_str(&l[1]));
                if let Some(d) = p.parent() {
                    std::fs::create_dir_all(d).unwrap();
                }
                std::fs::write(&p, [0x61u8, 0xff, 0xfe, 0x0a]).unwrap();
            }
            "dir" => {
                std::fs::create_dir_all(ctx.sandbox.join(unhex_str(&l[1]))).unwrap();
            }
            "define" => parse_define(l, &mut ctx.defines),
            "definealias" => parse_define_alias(l, &mut ctx.defines),
            "cleardefines" => ctx.defines.clear(),
            "incdir" => ctx.incdirs.push(PathBuf::from(unhex_str(&l[1]))),
            "clearincdirs" => ctx.incdirs.clear(),
            "opt" => {
                let v = l[2] == "1";
                match l[1].as_str() {
                    "strip" => ctx.strip = v,
                    "ignore" => ctx.ignore = v,
                    "incomplete" => ctx.incomplete = v,
                    "chain" => ctx.chain = v,
                    _ => panic!("unknown opt"),
                }
            }
            "want" => {
                ctx.want = l[1..].iter().cloned().collect();
            }
            "memo" => {
                let cap = if l[1] == "none" {
                    None
                } else {
                    Some(l[1].parse::<usize>().unwrap())
                };
                sv_parser_parser::verif_set_memo_capacity(cap);
            }
            "run" => {
                nrun += 1;
                writeln!(o, "run {}", nrun).unwrap();
                let defs = if ctx.chain && ctx.last_defs.is_some() {
                    ctx.last_defs.clone().unwrap()
                } else {
                    ctx.defines.clone()
                };
                let mut buf = String::new();
                let _ = sv_parser_pp::preprocess::verif_take_parse_log();
                let res = std::panic::catch_unwind(std::panic::AssertUnwindSafe(|| {
                    run_entry(&mut ctx, &defs, l, &mut buf)
                }));
                let pplog = sv_parser_pp::preprocess::verif_take_parse_log();
                match res {
                    Ok(()) => o.push_str(&buf),
                    Err(e) => {
                        writeln!(o, "panic {}", hex(panic_msg(e).as_bytes())).unwrap();
                    }
                }
                if ctx.want.contains("pplog") {
                    // every distinct text the preprocessor handed to pp_parser, re-parsed here
                    let mut seen: HashSet<String> = HashSet::new();
                    for t in pplog {
                        if !seen.insert(t.clone()) {
                            continue;
                        }
                        let span = Span::new_extra(&t, SpanInfo::default());
                        match sv_parser_parser::pp_parser(span) {
                            Ok((rest, x)) => {
                                if rest.location_offset() == t.len() {
                                    writeln!(o, "pplog {} ok {}", hex(t.as_bytes()), hex(format!("{:?}", x).as_bytes())).unwrap();
                                } else {
                                    writeln!(o, "pplog {} err {}", hex(t.as_bytes()), rest.location_offset()).unwrap();
                                }
                            }
                            Err(nom::Err::Error(e)) | Err(nom::Err::Failure(e)) => {
                                match nom_greedyerror::error_position(&e) {
                                    Some(p) => writeln!(o, "pplog {} err {}", hex(t.as_bytes()), p).unwrap(),
                                    None => writeln!(o, "pplog {} err -", hex(t.as_bytes())).unwrap(),
                                }
                            }
                            Err(nom::Err::Incomplete(_)) => writeln!(o, "pplog {} err -", hex(t.as_bytes())).unwrap(),
                        }
                    }
                }
                if ctx.want.contains("state") {
                    let (d, v) = sv_parser_parser::verif_thread_state();
                    writeln!(o, "state {} [{}]", d, v.join(",")).unwrap();
                }
            }
            _ => panic!("api: unknown line {:?}", l),
        }
    }
    std::env::set_current_dir("/").unwrap();
    let _ = std::fs::remove_dir_all(&sb);
}

fn run_entry(ctx: &mut Ctx, defs: &Defines, l: &[String], o: &mut String) {
    let inc = ctx.incdirs.clone();
    let (strip, ignore, incomplete) = (ctx.strip, ctx.ignore, ctx.incomplete);
    match l[1].as_str() {
        "preprocess" => {
            let r = preprocess(unhex_str(&l[2]), defs, &inc, strip, ignore);
            print_pp(ctx, r, o);
        }
        "preprocess_str" => {
            let (rd, id) = if l.len() > 5 {
                (l[4].parse().unwrap(), l[5].parse().unwrap())
            } else {
                (0, 0)
            };
            let r = preprocess_str(
                &unhex_str(&l[2]),
                unhex_str(&l[3]),
                defs,
                &inc,
                ignore,
                strip,
                rd,
                id,
            );
            print_pp(ctx, r, o);
        }
        "parse_sv" => {
            let r = parse_sv(unhex_str(&l[2]), defs, &inc, ignore, incomplete);
            print_tree(ctx, r, o);
        }
        "parse_sv_str" => {
            let r = parse_sv_str(
                &unhex_str(&l[2]),
                unhex_str(&l[3]),
                defs,
                &inc,
                ignore,
                incomplete,
            );
            print_tree(ctx, r, o);
        }
        "parse_lib" => {
            let r = parse_lib(unhex_str(&l[2]), defs, &inc, ignore, incomplete);
            print_tree(ctx, r, o);
        }
        "parse_lib_str" => {
            let r = parse_lib_str(
                &unhex_str(&l[2]),
                unhex_str(&l[3]),
                defs,
                &inc,
                ignore,
                incomplete,
            );
            print_tree(ctx, r, o);
        }
        "two_sv" => {
            let r = preprocess(unhex_str(&l[2]), defs, &inc, false, ignore)
                .and_then(|(t, d)| parse_sv_pp(t, d, incomplete));
            print_tree(ctx, r, o);
        }
        "two_sv_str" => {
            let r = preprocess_str(
                &unhex_str(&l[2]),
                unhex_str(&l[3]),
                defs,
                &inc,
                ignore,
                false,
                0,
                0,
            )
            .and_then(|(t, d)| parse_sv_pp(t, d, incomplete));
            print_tree(ctx, r, o);
        }
        "two_lib" => {
            let r = preprocess(unhex_str(&l[2]), defs, &inc, false, ignore)
                .and_then(|(t, d)| parse_lib_pp(t, d, incomplete));
            print_tree(ctx, r, o);
        }
        "two_lib_str" => {
            let r = preprocess_str(
                &unhex_str(&l[2]),
                unhex_str(&l[3]),
                defs,
                &inc,
                ignore,
                false,
                0,
                0,
            )
            .and_then(|(t, d)| parse_lib_pp(t, d, incomplete));
            print_tree(ctx, r, o);
        }
        // raw parser entry points on a string (no preprocessing)
        "raw" => {
            let src = unhex_str(&l[3]);
            let span = Span::new_extra(&src, SpanInfo::default());
            let wt = &ctx.want;
            match l[2].as_str() {
                "pp" => raw_result(sv_parser_parser::pp_parser(span), o, wt),
                "sv" => raw_result(sv_parser_parser::sv_parser(span), o, wt),
                "svi" => raw_result(sv_parser_parser::sv_parser_incomplete(span), o, wt),
                "lib" => raw_result(sv_parser_parser::lib_parser(span), o, wt),
                "libi" => raw_result(sv_parser_parser::lib_parser_incomplete(span), o, wt),
                _ => panic!("unknown raw parser"),
            }
        }
        _ => panic!("unknown entry {:?}", l),
    }
    let _ = Locate::default();
}

// ---------------------------------------------------------------------------------------
// lex: the hand-written lexers (span primitives of the grammar) applied to a text (hook 5)
//   lex <name> <hextext> <0|1 in_directive>
fn run_lex(c: &Case, o: &mut String) {
    for l in &c.lines {
        if l[0] != "lex" {
            panic!("lex: unknown line {:?}", l);
        }
        let name = l[1].clone();
        let text = unhex_str(&l[2]);
        let dir = l[3] == "1";
        let r = std::panic::catch_unwind(|| sv_parser_parser::verif_lex(&name, &text, dir));
        match r {
            Err(e) => writeln!(o, "lex {} panic {}", l[1], hex(panic_msg(e).as_bytes())).unwrap(),
            Ok(None) => writeln!(o, "lex {} unknown", l[1]).unwrap(),
            Ok(Some(None)) => writeln!(o, "lex {} fail", l[1]).unwrap(),
            Ok(Some(Some((n, off, len, line)))) => {
                if off == usize::MAX {
                    writeln!(o, "lex {} ok {} - - -", l[1], n).unwrap()
                } else {
                    writeln!(o, "lex {} ok {} {} {} {}", l[1], n, off, len, line).unwrap()
                }
            }
        }
    }
}
