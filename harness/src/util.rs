// Shared helpers: hex strings, case files, canonical printing of results.
use std::collections::HashMap;
use std::path::PathBuf;
use sv_parser::{Define, DefineText, Defines, Error};

pub fn hex(b: &[u8]) -> String {
    let mut s = String::with_capacity(b.len() * 2 + 1);
    s.push('x');
    for c in b {
        s.push_str(&format!("{:02x}", c));
    }
    s
}

pub fn unhex(s: &str) -> Vec<u8> {
    let s = s.strip_prefix('x').unwrap_or_else(|| panic!("bad hex token {:?}", s));
    let b = s.as_bytes();
    let mut v = Vec::with_capacity(b.len() / 2);
    let mut i = 0;
    while i + 1 < b.len() {
        let h = (b[i] as char).to_digit(16).unwrap() as u8;
        let l = (b[i + 1] as char).to_digit(16).unwrap() as u8;
        v.push(h * 16 + l);
        i += 2;
    }
    v
}

pub fn unhex_str(s: &str) -> String {
    String::from_utf8(unhex(s)).expect("case string must be utf8")
}

pub fn opt_unhex_str(s: &str) -> Option<String> {
    if s == "-" {
        None
    } else {
        Some(unhex_str(s))
    }
}

pub struct Case {
    pub id: String,
    pub lines: Vec<Vec<String>>,
}

pub fn read_cases(path: &str) -> Vec<Case> {
    let txt = std::fs::read_to_string(path).expect("read case file");
    let mut cases = Vec::new();
    let mut cur: Option<Case> = None;
    for line in txt.lines() {
        let toks: Vec<String> = line.split_whitespace().map(|x| x.to_string()).collect();
        if toks.is_empty() {
            continue;
        }
        match toks[0].as_str() {
            "case" => {
                cur = Some(Case {
                    id: toks[1].clone(),
                    lines: Vec::new(),
                })
            }
            "end" => {
                if let Some(c) = cur.take() {
                    cases.push(c);
                }
            }
            _ => {
                if let Some(c) = cur.as_mut() {
                    c.lines.push(toks);
                }
            }
        }
    }
    cases
}

pub fn io_kind(e: &std::io::Error) -> String {
    format!("{:?}", e.kind())
}

pub fn canon_err(e: &Error) -> String {
    match e {
        Error::Io(x) => format!("Io {}", io_kind(x)),
        Error::File { source, path } => format!(
            "File {} {}",
            hex(path.to_string_lossy().as_bytes()),
            io_kind(source)
        ),
        Error::ReadUtf8(p) => format!("ReadUtf8 {}", hex(p.to_string_lossy().as_bytes())),
        Error::Include { source } => format!("Include( {} )", canon_err(source)),
        Error::Parse(None) => "Parse -".to_string(),
        Error::Parse(Some((p, o))) => {
            format!("Parse {} {}", hex(p.to_string_lossy().as_bytes()), o)
        }
        Error::Preprocess(None) => "Preprocess -".to_string(),
        Error::Preprocess(Some((p, o))) => {
            format!("Preprocess {} {}", hex(p.to_string_lossy().as_bytes()), o)
        }
        Error::DefineArgNotFound(s) => format!("DefineArgNotFound {}", hex(s.as_bytes())),
        Error::DefineNotFound(s) => format!("DefineNotFound {}", hex(s.as_bytes())),
        Error::DefineNoArgs(s) => format!("DefineNoArgs {}", hex(s.as_bytes())),
        Error::ExceedRecursiveLimit => "ExceedRecursiveLimit".to_string(),
        Error::IncludeLine => "IncludeLine".to_string(),
    }
}

pub fn canon_defines(d: &Defines, with_origin: bool) -> Vec<String> {
    let mut names: Vec<&String> = d.keys().collect();
    names.sort();
    let mut out = Vec::new();
    for n in names {
        match &d[n] {
            None => out.push(format!("def {} none", hex(n.as_bytes()))),
            Some(df) => {
                let mut s = format!(
                    "def {} id={} nargs={}",
                    hex(n.as_bytes()),
                    hex(df.identifier.as_bytes()),
                    df.arguments.len()
                );
                for (a, dflt) in &df.arguments {
                    s.push_str(&format!(
                        " {} {}",
                        hex(a.as_bytes()),
                        match dflt {
                            Some(x) => hex(x.as_bytes()),
                            None => "-".to_string(),
                        }
                    ));
                }
                match &df.text {
                    None => s.push_str(" text=-"),
                    Some(t) => {
                        s.push_str(&format!(" text={}", hex(t.text.as_bytes())));
                        if with_origin {
                            match &t.origin {
                                None => s.push_str(" org=-"),
                                Some((p, r)) => s.push_str(&format!(
                                    " org={}:{}:{}",
                                    hex(p.to_string_lossy().as_bytes()),
                                    r.begin,
                                    r.end
                                )),
                            }
                        }
                    }
                }
                out.push(s);
            }
        }
    }
    out
}

// define <name> none | define <name> def <nargs> {<arg> <default|->}* <body|->
pub fn parse_define(toks: &[String], d: &mut Defines) {
    let name = unhex_str(&toks[1]);
    if toks[2] == "none" {
        d.insert(name, None);
        return;
    }
    let nargs: usize = toks[3].parse().unwrap();
    let mut args = Vec::new();
    let mut i = 4;
    for _ in 0..nargs {
        args.push((unhex_str(&toks[i]), opt_unhex_str(&toks[i + 1])));
        i += 2;
    }
    let body = opt_unhex_str(&toks[i]).map(|t| DefineText::new(t, None));
    d.insert(name.clone(), Some(Define::new(name, args, body)));
}

/// like parse_define, but the Define stored under the key carries another identifier
pub fn parse_define_alias(toks: &[String], d: &mut Defines) {
    let key = unhex_str(&toks[1]);
    let ident = unhex_str(&toks[2]);
    let nargs: usize = toks[4].parse().unwrap();
    let mut args = Vec::new();
    let mut i = 5;
    for _ in 0..nargs {
        args.push((unhex_str(&toks[i]), opt_unhex_str(&toks[i + 1])));
        i += 2;
    }
    let body = opt_unhex_str(&toks[i]).map(|t| DefineText::new(t, None));
    d.insert(key, Some(Define::new(ident, args, body)));
}

pub fn new_defines() -> Defines {
    HashMap::new()
}

pub fn pb(s: &str) -> PathBuf {
    PathBuf::from(s)
}

pub fn panic_msg(e: Box<dyn std::any::Any + Send>) -> String {
    if let Some(s) = e.downcast_ref::<&str>() {
        s.to_string()
    } else if let Some(s) = e.downcast_ref::<String>() {
        s.clone()
    } else {
        "<non-string panic>".to_string()
    }
}
