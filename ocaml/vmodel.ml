(* vmodel: runs the extracted Coq models on case files, printing the same canonical format
   as the Rust harness (svh). *)
open Vutil

let buf = Buffer.create 65536
let pr fmt = Printf.bprintf buf fmt

(* ------------------------------------------------------------------ originops *)
let src_str (src : (BinNums.coq_N list * Range.range) option) =
  match src with
  | None -> "-"
  | Some (p, r) ->
      Printf.sprintf "%s:%d:%d" (hex (string_of_nlist p)) (int_of_n r.Range.rb) (int_of_n r.Range.re)

let run_originops (c : case) =
  (* parse op lines into an op tree *)
  let rec parse (ls : string list list) (acc : Origin.op list) : Origin.op list * string list list =
    match ls with
    | ("push" :: n :: "-" :: _) :: r -> parse r (Origin.Push (n_of_int (int_of_string n), None) :: acc)
    | ("push" :: n :: p :: b :: e :: _) :: r ->
        let src = Some (nlist_of_string (unhex p),
                        { Range.rb = n_of_int (int_of_string b); Range.re = n_of_int (int_of_string e) }) in
        parse r (Origin.Push (n_of_int (int_of_string n), src) :: acc)
    | ("merge_begin" :: _) :: r ->
        let inner, rest = parse r [] in
        parse rest (Origin.Merge inner :: acc)
    | ("merge_end" :: _) :: r -> (Stdlib.List.rev acc, r)
    | _ -> (Stdlib.List.rev acc, ls)
  in
  let ops, rest = parse c.lines [] in
  let pt = Origin.run_ops true ops in
  Stdlib.List.iter
    (fun l ->
      match l with
      | "segs" :: _ ->
          pr "segs";
          Stdlib.List.iter
            (fun ((k : Range.range), (o : Origin.origin)) ->
              pr " %d:%d:%d:%d:%s" (int_of_n k.Range.rb) (int_of_n k.Range.re)
                (int_of_n o.Origin.o_range.Range.rb) (int_of_n o.Origin.o_range.Range.re)
                (src_str o.Origin.o_src))
            pt.Origin.pt_map;
          pr "\nlen %d\n" (int_of_n pt.Origin.pt_len)
      | "probe" :: ps ->
          pr "probe";
          Stdlib.List.iter
            (fun p ->
              let pos = int_of_string p in
              match Origin.pt_origin pt (n_of_int pos) with
              | Origin.ONone -> pr " %d=-" pos
              | Origin.OPanic -> pr " %d=panic" pos
              | Origin.OSome (path, off) -> pr " %d=%s:%d" pos (hex (string_of_nlist path)) (int_of_n off))
            ps;
          pr "\n"
      | _ -> failwith "originops: ops after segs/probe are not supported")
    rest


(* ------------------------------------------------------------------ tree (Iter.v) *)
let rec parse_tree (toks : string list) : Tree.tree * string list =
  match toks with
  | "L" :: o :: l :: ln :: r ->
      (Tree.Leaf { Tree.l_off = n_of_int (int_of_string o); Tree.l_len = n_of_int (int_of_string l);
                   Tree.l_line = n_of_int (int_of_string ln) }, r)
  | "(" :: k :: r ->
      let rec kids r acc =
        match r with
        | ")" :: r' -> (Stdlib.List.rev acc, r')
        | _ -> let t, r' = parse_tree r in kids r' (t :: acc)
      in
      let cs, r' = kids r [] in
      (Tree.Node (n_of_int (int_of_string k), cs), r')
  | _ -> failwith "tree syntax"

let run_tree (c : case) =
  let kinds = Hashtbl.create 64 in
  let ws = ref 0 in
  let kidx name = let r = ref (-1) in Hashtbl.iter (fun i n -> if n = name then r := i) kinds; !r in
  let tok (t : Tree.tree) =
    match t with
    | Tree.Leaf l -> Printf.sprintf "@%d:%d:%d" (int_of_n l.Tree.l_off) (int_of_n l.Tree.l_len) (int_of_n l.Tree.l_line)
    | Tree.Node (k, _) -> "+" ^ (try Hashtbl.find kinds (int_of_n k) with Not_found -> "?")
  in
  let kindname (t : Tree.tree) =
    match t with Tree.Leaf _ -> "Locate" | Tree.Node (k, _) -> (try Hashtbl.find kinds (int_of_n k) with Not_found -> "?") in
  let iter_of st = Iter.iter_run (nat_of_int (2 + Stdlib.List.fold_left (fun a t -> a + int_of_nat (Tree.size t)) 0 st)) in
  let first_leaf (t : Tree.tree) =
    match Iter.unwrap_node [BinNums.N0] (Iter.iter_run (nat_of_int (2 + int_of_nat (Tree.size t))) (Iter.node_into_iter t)) with
    | Some (Tree.Leaf l) -> string_of_int (int_of_n l.Tree.l_off)
    | _ -> "-" in
  let evtok e = match e with Tree.Enter x -> "E" ^ tok x | Tree.Leave x -> "L" ^ tok x in
  let range r = match r with None -> "-" | Some (b, e) -> Printf.sprintf "%d:%d" (int_of_n b) (int_of_n e - int_of_n b) in
  Stdlib.List.iter
    (fun l ->
      match l with
      | "kind" :: i :: name :: _ -> Hashtbl.replace kinds (int_of_string i) name
      | "ws" :: i :: _ -> ws := int_of_string i
      | "tree" :: what :: toks ->
          let t, _ = parse_tree toks in
          let sz = int_of_nat (Tree.size t) in
          let all = Iter.iter_run (nat_of_int (sz + 2)) (Iter.node_into_iter t) in
          let wants = Stdlib.String.split_on_char ',' what in
          let want w = Stdlib.List.mem w wants in
          if want "iter" then begin
            pr "iter"; Stdlib.List.iter (fun n -> pr " %s" (tok n)) all; pr "\n" end;
          if want "events" then begin
            pr "events";
            Stdlib.List.iter (fun e -> pr " %s" (evtok e))
              (Iter.ev_run (nat_of_int (2 * sz + 2)) (Iter.iter_event (Iter.node_into_iter t)));
            pr "\n" end;
          if want "events" then begin
            (* event views of iterators that hold several pending nodes *)
            for k = 1 to 4 do
              let st = ref (Iter.node_into_iter t) in
              for _ = 1 to k do st := snd (Iter.iter_next !st) done;
              pr "advev %d" k;
              Stdlib.List.iter (fun e -> pr " %s" (evtok e)) (Iter.ev_run (nat_of_int (2 * sz + 2)) (Iter.iter_event !st));
              pr "\n"
            done;
            pr "multiev";
            Stdlib.List.iter (fun e -> pr " %s" (evtok e))
              (Iter.ev_run (nat_of_int (4 * sz + 4)) (Iter.iter_event (Iter.iter_new [t; t])));
            pr "\n" end;
          if want "sub" then begin
            let n = Stdlib.List.length all in
            Stdlib.List.iteri
              (fun i nd ->
                if i mod 5 = 0 || n < 40 then begin
                  let s = int_of_nat (Tree.size nd) in
                  let sub = Iter.iter_run (nat_of_int (s + 2)) (Iter.node_into_iter nd) in
                  pr "sub %d" i; Stdlib.List.iter (fun m -> pr " %s" (tok m)) sub; pr "\n";
                  pr "subev %d" i;
                  Stdlib.List.iter (fun e -> pr " %s" (evtok e))
                    (Iter.ev_run (nat_of_int (2 * s + 2)) (Iter.iter_event (Iter.node_into_iter nd)));
                  pr "\n";
                  let uw label ks =
                    let ks = Stdlib.List.map (fun k -> n_of_int (if k = "Locate" then 0 else kidx k)) ks in
                    match Iter.unwrap_node ks sub with
                    | Some x -> pr "unwrap %d:%s %s@%s\n" i label (tok x) (first_leaf x)
                    | None -> pr "unwrap %d:%s -\n" i label in
                  uw "loc" ["Locate"]; uw "kwsym" ["Keyword"; "Symbol"];
                  uw "id" ["SimpleIdentifier"; "EscapedIdentifier"]; uw "ws" ["WhiteSpace"; "Comment"];
                  (match Iter.unwrap_node [BinNums.N0] sub with
                   | Some x -> pr "unwraploc %d %s\n" i (tok x)
                   | None -> pr "unwraploc %d -\n" i)
                end)
              all end;
          if want "nodeinfo" then
            Stdlib.List.iteri
              (fun i nd ->
                let s = int_of_nat (Tree.size nd) in
                let st = Iter.iter_new [nd] in
                let a = Iter.get_str_range (Iter.iter_run (nat_of_int (s + 2)) st) in
                let b = Iter.get_str_trim_range (n_of_int !ws) true
                          (Iter.ev_run (nat_of_int (2 * s + 2)) (Iter.iter_event st)) in
                pr "n %d %s str=%s trim=%s\n" i (kindname nd) (range a) (range b))
              all
      | _ -> failwith "tree: unknown line")
    c.lines


(* ------------------------------------------------------------------ pp (Eval.v) *)
let rec canon_perr (e : Eval.perr) : string =
  let hp p = hex (string_of_nlist p) in
  match e with
  | Eval.EPreprocess None -> "Preprocess -"
  | Eval.EPreprocess (Some (p, o)) -> Printf.sprintf "Preprocess %s %d" (hp p) (int_of_n o)
  | Eval.EIncludeLine -> "IncludeLine"
  | Eval.EExceed -> "ExceedRecursiveLimit"
  | Eval.EDefineNotFound n -> "DefineNotFound " ^ hp n
  | Eval.EDefineNoArgs n -> "DefineNoArgs " ^ hp n
  | Eval.EDefineArgNotFound n -> "DefineArgNotFound " ^ hp n
  | Eval.EFile p -> Printf.sprintf "File %s NotFound" (hp p)
  | Eval.EReadUtf8 p -> "ReadUtf8 " ^ hp p
  | Eval.EInclude e -> Printf.sprintf "Include( %s )" (canon_perr e)

let origins_line (n : int) (pt : Origin.ptext) : string =
  let b = Buffer.create 256 in
  Buffer.add_string b "origins";
  let org i = Origin.pt_origin pt (n_of_int i) in
  let i = ref 0 in
  while !i < n do
    let o = org !i in
    let j = ref (!i + 1) in
    let continue = ref true in
    while !continue && !j < n do
      let same =
        match o, org !j with
        | Origin.ONone, Origin.ONone -> true
        | Origin.OSome (p, x), Origin.OSome (p2, x2) -> p = p2 && int_of_n x2 = int_of_n x + (!j - !i)
        | Origin.OPanic, Origin.OPanic -> true
        | _ -> false in
      if same then incr j else continue := false
    done;
    (match o with
     | Origin.ONone -> Printf.bprintf b " %d+%d@-" !i (!j - !i)
     | Origin.OPanic -> Printf.bprintf b " %d+%d@panic" !i (!j - !i)
     | Origin.OSome (p, x) -> Printf.bprintf b " %d+%d@%s:%d" !i (!j - !i) (hex (string_of_nlist p)) (int_of_n x));
    i := !j
  done;
  Buffer.contents b

let canon_defines (d : Eval.defines) (with_org : bool) : string list =
  let ents = Stdlib.List.map (fun (k, v) -> (string_of_nlist k, v)) d in
  let ents = Stdlib.List.sort (fun (a, _) (b, _) -> compare a b) ents in
  Stdlib.List.map
    (fun (n, v) ->
      match v with
      | None -> Printf.sprintf "def %s none" (hex n)
      | Some (df : Eval.define) ->
          let b = Buffer.create 64 in
          Printf.bprintf b "def %s id=%s nargs=%d" (hex n) (hex (string_of_nlist df.Eval.d_id))
            (Stdlib.List.length df.Eval.d_args);
          Stdlib.List.iter
            (fun (a, dflt) ->
              Printf.bprintf b " %s %s" (hex (string_of_nlist a))
                (match dflt with Some x -> hex (string_of_nlist x) | None -> "-"))
            df.Eval.d_args;
          (match df.Eval.d_text with
           | None -> Buffer.add_string b " text=-"
           | Some (t, org) ->
               Printf.bprintf b " text=%s" (hex (string_of_nlist t));
               if with_org then
                 (match org with
                  | None -> Buffer.add_string b " org=-"
                  | Some (p, r) ->
                      Printf.bprintf b " org=%s:%d:%d" (hex (string_of_nlist p)) (int_of_n r.Range.rb)
                        (int_of_n r.Range.re)));
          Buffer.contents b)
    ents

let run_pp (c : case) =
  let fs = ref [] and incs = ref [] and parse = ref [] and defs = ref [] in
  let strip = ref false and ignore_ = ref false and chain = ref false in
  let want = ref [] in
  let last_defs = ref None in
  let nrun = ref 0 in
  let opt_b s = if s = "-" then None else Some (nlist_of_string (unhex s)) in
  Stdlib.List.iter
    (fun l ->
      match l with
      | "file" :: p :: t :: _ -> fs := (nlist_of_string (unhex p), Eval.FText (nlist_of_string (unhex t))) :: !fs
      | "badfile" :: p :: _ | "dir" :: p :: _ -> fs := (nlist_of_string (unhex p), Eval.FUnreadable) :: !fs
      | "incdir" :: p :: _ -> incs := !incs @ [nlist_of_string (unhex p)]
      | "cleardefines" :: _ -> defs := []
      | "define" :: n :: "none" :: _ -> defs := !defs @ [(nlist_of_string (unhex n), None)]
      | "define" :: n :: "def" :: k :: rest ->
          let k = int_of_string k in
          let rec args i r acc =
            if i = 0 then (Stdlib.List.rev acc, r)
            else match r with
              | a :: d :: r' -> args (i - 1) r' ((nlist_of_string (unhex a), opt_b d) :: acc)
              | _ -> failwith "define syntax" in
          let a, r = args k rest [] in
          let body = match r with b :: _ -> opt_b b | [] -> None in
          let name = nlist_of_string (unhex n) in
          defs := !defs @ [(name, Some { Eval.d_id = name; Eval.d_args = a;
                                         Eval.d_text = (match body with Some t -> Some (t, None) | None -> None) })]
      | "opt" :: "strip" :: v :: _ -> strip := (v = "1")
      | "opt" :: "ignore" :: v :: _ -> ignore_ := (v = "1")
      | "opt" :: "chain" :: v :: _ -> chain := (v = "1")
      | "opt" :: _ -> ()
      | "want" :: w -> want := w
      | "parse" :: t :: "err" :: pos :: _ ->
          parse := (nlist_of_string (unhex t), Datatypes.Coq_inr (n_of_int (int_of_string pos))) :: !parse
      | "parse" :: t :: "ok" :: toks ->
          let tr, _ = parse_tree toks in
          parse := (nlist_of_string (unhex t), Datatypes.Coq_inl tr) :: !parse
      | "run" :: what :: args ->
          incr nrun;
          pr "run %d\n" !nrun;
          let cfg = { Eval.cfg_parse = !parse; Eval.cfg_fs = !fs; Eval.cfg_incs = !incs;
                      Eval.cfg_limit = n_of_int 64 } in
          let d = match !chain, !last_defs with true, Some d -> d | _ -> !defs in
          let fuel = nat_of_int 6000 in
          let r =
            match what, args with
            | "preprocess", p :: _ -> Eval.preprocess fuel cfg (nlist_of_string (unhex p)) d !strip !ignore_
            | "preprocess_str", t :: p :: rest ->
                let rd, id = match rest with a :: b :: _ -> (int_of_string a, int_of_string b) | _ -> (0, 0) in
                Eval.pp_str fuel cfg (nlist_of_string (unhex t)) (nlist_of_string (unhex p)) d !ignore_ !strip
                  (n_of_int rd) (n_of_int id)
            | _ -> failwith "pp: unknown run" in
          (match r with
           | Eval.ROk ((text, ops), nd) ->
               pr "ok\n";
               let ts = string_of_nlist text in
               if Stdlib.List.mem "text" !want then pr "text %s\n" (hex ts);
               if Stdlib.List.mem "origins" !want then
                 pr "%s\n" (origins_line (Stdlib.String.length ts) (Origin.run_ops true ops));
               if Stdlib.List.mem "defines" !want then
                 Stdlib.List.iter (fun l -> pr "%s\n" l) (canon_defines nd (Stdlib.List.mem "deforg" !want));
               last_defs := Some nd
           | Eval.RErr e -> pr "err %s\n" (canon_perr e)
           | Eval.RPanic k -> pr "model-panic %d\n" (int_of_n k)
           | Eval.RFuel -> pr "model-fuel\n"
           | Eval.RNeedParse t -> pr "model-needparse %s\n" (hex (string_of_nlist t)));
          (* hypothesis of SkipFacts.skipped_no_effect on every file of the case (and the text of a
             preprocess_str run): every listed node met with skip off is erasable *)
          let okall = ref true and met = ref 0 in
          let one text path =
            let (b, n) = SkipCheck.skip_hyp_file (nat_of_int 6000) cfg text path d !ignore_ !strip in
            if not b then okall := false;
            met := !met + int_of_nat n in
          Stdlib.List.iter (fun (pth, e) -> match e with Eval.FText t -> one t pth | _ -> ()) !fs;
          (match what, args with
           | "preprocess_str", t :: pth :: _ -> one (nlist_of_string (unhex t)) (nlist_of_string (unhex pth))
           | _ -> ());
          pr "skiphyp %d %d\n" (if !okall then 1 else 0) !met
      | _ -> failwith "pp: unknown line")
    c.lines

(* ------------------------------------------------------------------ packrat (Peg.v storage model) *)
let run_packrat (c : case) =
  let st = ref { Peg.ps_map = []; Peg.ps_keys = []; Peg.ps_cap = None; Peg.ps_aux = () } in
  Stdlib.List.iter
    (fun l ->
      match l with
      | "cap" :: n :: _ ->
          st := { Peg.ps_map = []; Peg.ps_keys = []; Peg.ps_aux = ();
                  Peg.ps_cap = (if n = "none" then None else Some (nat_of_int (int_of_string n))) }
      | "clear" :: _ -> st := { !st with Peg.ps_map = []; Peg.ps_keys = [] }
      | "ins" :: n :: p :: f :: v :: _ ->
          let k = ((nat_of_int (int_of_string n), nat_of_int (int_of_string p)), f = "1") in
          let mv = if v = "none" then None else Some ([], nat_of_int (int_of_string v)) in
          st := Peg.memo_insert !st k mv
      | "get" :: n :: p :: f :: _ ->
          let k = ((nat_of_int (int_of_string n), nat_of_int (int_of_string p)), f = "1") in
          (match Peg.map_get !st.Peg.ps_map k with
           | None -> pr "get miss\n"
           | Some None -> pr "get rejected\n"
           | Some (Some (_, n)) -> pr "get %d:%d\n" (int_of_nat n) (int_of_nat n))
      | _ -> failwith "packrat: unknown line")
    c.lines

let () =
  let cmd = Sys.argv.(1) in
  let cases = read_cases Sys.argv.(2) in
  Stdlib.List.iter
    (fun c ->
      pr "case %s\n" c.id;
      (try
         match cmd with
         | "originops" -> run_originops c
         | "tree" -> run_tree c
         | "pp" -> run_pp c
         | "packrat" -> run_packrat c
         | _ -> failwith "unknown command"
       with
       | Stack_overflow -> pr "model-abort stack\n"
       | Failure m -> pr "model-fail %s\n" m);
      pr "end\n")
    cases;
  let oc = open_out Sys.argv.(3) in
  Buffer.output_buffer oc buf;
  close_out oc
