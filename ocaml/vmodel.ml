(* vmodel: runs the extracted Coq models on case files, printing the same canonical format
   as the Rust harness (svh). *)
open Vutil

let buf = Buffer.create 65536
let pr fmt = Printf.bprintf buf fmt

(* ------------------------------------------------------------------ originops *)
let src_str (src : (BinNums.coq_N list * Range.range) option) =
  match src with
  | None -> "-"
  | Some (p, r) ->
      Printf.sprintf "%s:%d:%d" (hex (string_of_nlist p)) (int_of_n r.Range.rb) (int_of_n r.Range.re)

let run_originops (c : case) =
  (* parse op lines into an op tree *)
  let rec parse (ls : string list list) (acc : Origin.op list) : Origin.op list * string list list =
    match ls with
    | ("push" :: n :: "-" :: _) :: r -> parse r (Origin.Push (n_of_int (int_of_string n), None) :: acc)
    | ("push" :: n :: p :: b :: e :: _) :: r ->
        let src = Some (nlist_of_string (unhex p),
                        { Range.rb = n_of_int (int_of_string b); Range.re = n_of_int (int_of_string e) }) in
        parse r (Origin.Push (n_of_int (int_of_string n), src) :: acc)
    | ("merge_begin" :: _) :: r ->
        let inner, rest = parse r [] in
        parse rest (Origin.Merge inner :: acc)
    | ("merge_end" :: _) :: r -> (Stdlib.List.rev acc, r)
    | _ -> (Stdlib.List.rev acc, ls)
  in
  let ops, rest = parse c.lines [] in
  let pt = Origin.run_ops true ops in
  Stdlib.List.iter
    (fun l ->
      match l with
      | "segs" :: _ ->
          pr "segs";
          Stdlib.List.iter
            (fun ((k : Range.range), (o : Origin.origin)) ->
              pr " %d:%d:%d:%d:%s" (int_of_n k.Range.rb) (int_of_n k.Range.re)
                (int_of_n o.Origin.o_range.Range.rb) (int_of_n o.Origin.o_range.Range.re)
                (src_str o.Origin.o_src))
            pt.Origin.pt_map;
          pr "\nlen %d\n" (int_of_n pt.Origin.pt_len)
      | "probe" :: ps ->
          pr "probe";
          Stdlib.List.iter
            (fun p ->
              let pos = int_of_string p in
              match Origin.pt_origin pt (n_of_int pos) with
              | Origin.ONone -> pr " %d=-" pos
              | Origin.OPanic -> pr " %d=panic" pos
              | Origin.OSome (path, off) -> pr " %d=%s:%d" pos (hex (string_of_nlist path)) (int_of_n off))
            ps;
          pr "\n"
      | _ -> failwith "originops: ops after segs/probe are not supported")
    rest

let () =
  let cmd = Sys.argv.(1) in
  let cases = read_cases Sys.argv.(2) in
  Stdlib.List.iter
    (fun c ->
      pr "case %s\n" c.id;
      (try
         match cmd with
         | "originops" -> run_originops c
         | _ -> failwith "unknown command"
       with
       | Stack_overflow -> pr "model-abort stack\n"
       | Failure m -> pr "model-fail %s\n" m);
      pr "end\n")
    cases;
  let oc = open_out Sys.argv.(3) in
  Buffer.output_buffer oc buf;
  close_out oc
