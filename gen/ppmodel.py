"""Bridge between the harness output and the Coq preprocessor model (coq/PP/Eval.v, run through the
extracted driver `vmodel pp`): kind numbering read from Eval.v, pp trees read from derive(Debug) output,
model cases assembled from the implementation's case plus its parse log."""
import os, re
from vlib import *
import dbgtree

_kinds = None
_conv = None


def kinds():
    global _kinds
    if _kinds is None:
        src = open(os.path.join(COQ, "PP", "Eval.v")).read()
        _kinds = {m.group(1): int(m.group(2)) for m in re.finditer(r"Definition K_(\w+) : N := (\d+)\.", src)}
    return _kinds


def conv():
    global _conv
    if _conv is None:
        _conv = dbgtree.Conv(variant_kinds=("WhiteSpace",))
    return _conv


def kind_num(name):
    k = kinds()
    if name in k:
        return k[name]
    c = conv()
    base = name.split("_")[0] if name.startswith("WhiteSpace_") else name
    return 1000 + c.order.index(base)


def sexp(t):
    if t[0] == "L":
        return "L %d %d %d" % t[1:]
    return "( %d %s )" % (kind_num(t[1]), " ".join(sexp(c) for c in t[2]))


def tree_of_debug(dbg_text):
    return conv().tree_of_debug(dbg_text, "PreprocessorText")


PASS = ("file", "badfile", "dir", "incdir", "define", "cleardefines", "opt", "want", "run")


def model_case(case, impl_lines):
    """the model's case: same inputs + the parse table taken from the implementation's pplog lines"""
    m = Case(case.id)
    seen = set()
    for l in impl_lines or []:
        if l.startswith("pplog "):
            p = l.split()
            if p[1] in seen:
                continue
            seen.add(p[1])
            if p[2] == "ok":
                m.add("parse", p[1], "ok", sexp(tree_of_debug(unhx(p[3]).decode("utf-8"))))
            elif p[3] != "-":
                m.add("parse", p[1], "err", p[3])
    for l in case.lines:
        w = l.split()[0]
        if w in PASS:
            m.lines.append(l)
    return m


KEEP = ("run", "ok", "err", "text", "origins", "def", "panic", "model-panic", "model-fuel", "model-needparse")


def observable(lines):
    """lines compared between implementation and model"""
    out = []
    for l in lines or []:
        w = l.split()[0] if l.split() else ""
        if w in KEEP:
            if w == "err":
                # io::ErrorKind of File errors: the model only knows NotFound
                l = re.sub(r"(File x[0-9a-f]*) \w+", r"\1 NotFound", l)
            out.append(l)
    return out


def run_both(cases, tag, timeout=900):
    """-> (impl {id: lines}, model {id: lines}) restricted to the observable lines"""
    impl = run_harness("api", cases, tag, timeout)
    mcases = [model_case(c, impl.get(c.id)) for c in cases]
    model = run_model("pp", mcases, tag, timeout)
    return impl, model
