"""svx part 5: reserved-word tables, the version -> table dispatch of is_keyword, the specifier -> version mapping of
begin_keywords, the pop of end_keywords and the refusal of reserved words by the identifier lexers; regenerated from
/repo on every run -> coq/Gen/GenKeywords.v."""
import os, re, hashlib
from svx_grammar import strip_comments

KW = "/repo/sv-parser-parser/src/keywords.rs"
UT = "/repo/sv-parser-parser/src/utils.rs"
ID = "/repo/sv-parser-parser/src/general/identifiers.rs"


class Shape(Exception):
    pass


def fn_body(src, name):
    m = re.search(r"fn %s\b[^{]*\{" % name, src)
    if not m:
        raise Shape("function %s not found" % name)
    i, depth = m.end(), 1
    while depth:
        depth += src[i] == "{"
        depth -= src[i] == "}"
        i += 1
    return re.sub(r"\s+", " ", src[m.end():i - 1]).strip()


def generate():
    src = strip_comments(open(KW).read())
    tables = {}
    for m in re.finditer(r"pub\(crate\) const (KEYWORDS_\w+): &\[&str\] = &\[(.*?)\];", src, re.S):
        tables[m.group(1)] = re.findall(r'"([^"]*)"', m.group(2))
    ut = strip_comments(open(UT).read())
    # enum Version
    m = re.search(r"enum Version \{(.*?)\}", ut, re.S)
    versions = [v.strip() for v in m.group(1).split(",") if v.strip()]
    # is_keyword: Some(Version::X) => TABLE, None => TABLE
    body = fn_body(ut, "is_keyword")
    disp = dict(re.findall(r"Some\(Version::(\w+)\) => (KEYWORDS_\w+)", body))
    mnone = re.search(r"None => (KEYWORDS_\w+)", body)
    if not mnone or set(disp) != set(versions):
        raise Shape("is_keyword: dispatch does not cover the versions")
    if not re.search(r"for (\w+) in keywords \{ if s\.fragment\(\) == \1 \{ return true; \} \} false", body):
        raise Shape("is_keyword: membership loop")
    # begin_keywords: "spec" => push(Version::X)
    body = fn_body(ut, "begin_keywords")
    arms = re.findall(r'"([^"]+)" => current_version\s*\.borrow_mut\(\)\s*\.push\(Version::(\w+)\)', body)
    rest = re.sub(r'"([^"]+)" => current_version\s*\.borrow_mut\(\)\s*\.push\(Version::(\w+)\),?', "", body)
    if re.sub(r"\s+", "", rest) != "CURRENT_VERSION.with(|current_version|matchversion{_=>(),});":
        raise Shape("begin_keywords: something besides one unconditional push per specifier: %r" % rest[:120])
    body = fn_body(ut, "end_keywords")
    if re.sub(r"\s+", "", body) != "CURRENT_VERSION.with(|current_version|{current_version.borrow_mut().pop();});":
        raise Shape("end_keywords: not a plain pop")
    body = fn_body(ut, "current_version")
    if "current_version.borrow().last()" not in body:
        raise Shape("current_version: not the top of the stack")
    idsrc = strip_comments(open(ID).read())
    lex = {}
    for fn, tail in (("simple_identifier_impl", "AZ09_DOLLAR"), ("c_identifier_impl", "AZ09_")):
        b = fn_body(idsrc, fn)
        want = ("let (s, a) = is_a(AZ_)(s)?; let (s, b) = opt(is_a(%s))(s)?; let a = if let Some(b) = b { concat(a, b).unwrap() } else { a }; "
                "if is_keyword(&a) { Err(Err::Error(make_error(s, ErrorKind::Fix))) } else { Ok((s, into_locate(a))) }" % tail)
        lex[fn] = (b == want)
    sets = dict(re.findall(r'pub\(crate\) const (AZ\w*): &str =\s*"([^"]*)";', idsrc))
    # keyword(t): the word must not be continued by a character of SET
    kb = fn_body(ut.replace('#[cfg(not(feature = "trace"))]', ""), "keyword")
    mk = re.search(r"map\( ws\(alt\(\( all_consuming\(map\(tag\(t\), into_locate\)\), terminated\(map\(tag\(t\), into_locate\), peek\(none_of\((\w+)\)\)\), \)\)\), \|x\| Keyword \{ nodes: x \}, \)\(s\)\?", kb)
    if not mk or mk.group(1) not in sets:
        raise Shape("keyword(): not `tag(t)` followed by peek(none_of(<character set>)) / end of input")
    boundary = sets[mk.group(1)]
    # keyword(t) first asks is_reserved_in_force(t) (both cfg variants), which looks t up in the table of the version
    # in force: a word of the latest table that the table in force lacks is no keyword there
    for variant in re.findall(r"pub\(crate\) fn keyword<'a>.*?\n\}\n", ut, re.S):
        if not re.search(r"if !is_reserved_in_force\(t\) \{\s*return Err\(Err::Error\(make_error\(s, ErrorKind::Fix\)\)\);\s*\}\s*let \(s, x\) = map\(", variant):
            raise Shape("keyword(): does not start by asking is_reserved_in_force(t)")
    body = fn_body(ut, "is_reserved_in_force")
    rdisp = dict(re.findall(r"Some\(Version::(\w+)\) => (KEYWORDS_\w+)", body))
    rest = re.sub(r"Some\(Version::(\w+)\) => (KEYWORDS_\w+),?", "", body)
    # the names of compiler directives are exempt inside a directive (`include is a directive under every set)
    exempt = "ifin_directive()&&KEYWORDS_DIRECTIVE.contains(&t){returntrue;}"
    flat = re.sub(r"\s+", "", rest)
    exempts_directive_names = flat.startswith(exempt)
    if exempts_directive_names:
        flat = flat[len(exempt):]
    if flat != "letkeywords=matchcurrent_version(){_=>returntrue,};!KEYWORDS_1800_2017.contains(&t)||keywords.contains(&t)":
        raise Shape("is_reserved_in_force: not `latest table lacks t or the table in force has it`: %r" % rest[:160])
    if any(disp.get(v) != tb for v, tb in rdisp.items()):
        raise Shape("is_reserved_in_force: a version is mapped to another table than in is_keyword")
    for need in ("AZ_", "AZ09_", "AZ09_DOLLAR"):
        if need not in sets:
            raise Shape("character set %s not found" % need)
    def coq_list(ws):
        return "[" + "; ".join('"%s"' % w for w in ws) + "]"
    out = ["(* GENERATED by gen/svx_keywords.py -- do not edit *)", "From SV Require Import Keywords.", "Open Scope string_scope.", ""]
    for name, ws in tables.items():
        out.append("Definition %s : list string := %s." % (name.lower(), coq_list(ws)))
    out.append("Definition table_of (v : option version) : list string :=\n  match v with")
    for v in versions:
        out.append("  | Some V_%s => %s" % (v, disp[v].lower()))
    out.append("  | None => %s\n  end." % mnone.group(1).lower())
    out.append("Definition guard_table_of (v : option version) : option (list string) :=\n  match v with")
    for v in versions:
        if v in rdisp:
            out.append("  | Some V_%s => Some %s" % (v, rdisp[v].lower()))
    out.append("  | _ => None\n  end.")
    out.append("Definition specifiers : list (string * version) := [%s]." % "; ".join('("%s", V_%s)' % (s, v) for s, v in arms))
    out.append("Definition guard_exempts_directive_names : bool := %s." % ("true" if exempts_directive_names else "false"))
    out.append("Definition lexers_refuse_keywords : bool := %s." % ("true" if all(lex.values()) else "false"))
    out.append('Definition ident_first : string := "%s".' % sets["AZ_"])
    out.append('Definition ident_tail : string := "%s".' % sets["AZ09_DOLLAR"])
    out.append('Definition c_ident_tail : string := "%s".' % sets["AZ09_"])
    out.append('Definition keyword_boundary : string := "%s".' % boundary)
    text = "\n".join(out) + "\n"
    facts = {"tables": {k: len(v) for k, v in tables.items()}, "versions": versions, "dispatch": disp, "none": mnone.group(1),
             "specifiers": arms, "lexers": lex, "char_sets": sets, "keyword_boundary": mk.group(1), "keyword_guard": sorted(rdisp), "guard_exempts_directive_names": exempts_directive_names, "hash": hashlib.sha256(text.encode()).hexdigest()[:16],
             "words": tables}
    return text, facts


def main():
    text, facts = generate()
    os.makedirs("/verif/coq/Gen", exist_ok=True)
    p = "/verif/coq/Gen/GenKeywords.v"
    if not os.path.exists(p) or open(p).read() != text:
        open(p, "w").write(text)
    return facts


if __name__ == "__main__":
    f = main()
    print({k: v for k, v in f.items() if k != "words"})
