"""svx part 7: the hand-written token lexers of sv-parser-parser (numbers, bases, identifiers) -> coq/Gen/GenLexers.v.
Each body must have one of five shapes (head; longest run; into_locate of everything consumed); anything else fails closed."""
import os, re, hashlib
from svx_grammar import strip_comments
from svx_keywords import fn_body, Shape

SRC = "/repo/sv-parser-parser/src"
FILES = {"numbers": SRC + "/expressions/numbers.rs", "identifiers": SRC + "/general/identifiers.rs",
         "directives": SRC + "/general/compiler_directives.rs", "utils": SRC + "/utils.rs"}
LEXERS = [("non_zero_unsigned_number_impl", "numbers"), ("unsigned_number_impl", "numbers"), ("binary_value_impl", "numbers"),
          ("octal_value_impl", "numbers"), ("hex_value_impl", "numbers"), ("decimal_base_impl", "numbers"), ("binary_base_impl", "numbers"),
          ("octal_base_impl", "numbers"), ("hex_base_impl", "numbers"), ("x_number_impl", "numbers"), ("z_number_impl", "numbers"),
          ("simple_identifier_pragma_impl", "directives"), ("c_identifier_impl", "identifiers"), ("simple_identifier_impl", "identifiers"),
          ("system_tf_identifier_impl", "identifiers")]
DIGITS = "0123456789"
FOLD = r"let \(s, a\) = fold_many0\( alt\(\(tag\(\"_\"\), (?P<y>[^)]*\)?)\)\), \|\| a, \|acc, item\| concat\(acc, item\)\.unwrap\(\), \)\(s\)\?;"
END = r"Ok\(\(s, into_locate\(a\)\)\)"
VETO_END = r"if is_keyword\(&a\) \{ Err\(Err::Error\(make_error\(s, ErrorKind::Fix\)\)\) \} else \{ Ok\(\(s, into_locate\(a\)\)\) \}"
JOIN = r"let a = if let Some\(b\) = b \{ concat\(a, b\)\.unwrap\(\) \} else \{ a \};"


def unq(s):
    """a Rust string literal (the few escapes in use) -> text"""
    return s.replace("\\\\", "\\").replace('\\"', '"').replace("\\'", "'")


def consts():
    c = {}
    for f in ("utils", "identifiers"):
        ut = strip_comments(open(FILES[f]).read())
        for m in re.finditer(r'const (\w+): &str =\s*"((?:[^"\\]|\\.)*)";', ut):
            c[m.group(1)] = unq(m.group(2))
    return c


def charset(expr, cs):
    """is_a("..") | is_a(CONST) | digit1  -> the set"""
    expr = expr.strip()
    if expr == "digit1":
        return DIGITS
    m = re.fullmatch(r'is_a\("((?:[^"\\]|\\.)*)"\)', expr)
    if m:
        return unq(m.group(1))
    m = re.fullmatch(r"is_a\((\w+)\)", expr)
    if m and m.group(1) in cs:
        return cs[m.group(1)]
    raise Shape("character set %r" % expr)


def tags(expr):
    """tag(..) | tag_no_case(..) | alt((.., ..))  -> (nocase, [texts])"""
    expr = expr.strip()
    m = re.fullmatch(r"alt\(\((.*)\)\)", expr)
    parts = [expr] if not m else [p.strip() for p in re.split(r",\s*(?=tag)", m.group(1))]
    out, kinds = [], set()
    for p in parts:
        m = re.fullmatch(r'(tag|tag_no_case)\("((?:[^"\\]|\\.)*)"\)', p)
        if not m:
            raise Shape("tag expression %r" % p)
        t = unq(m.group(2))
        if m.group(1) == "tag" and any(ch.isalpha() for ch in t):
            kinds.add("case")
        elif m.group(1) == "tag_no_case":
            kinds.add("nocase")
        out.append(t)
    if kinds == {"case", "nocase"}:
        raise Shape("case-sensitive and case-insensitive tags with letters in one alt: %r" % expr)
    return "nocase" in kinds, out


def shape(body, cs):
    """-> (head, tail set, tail required, veto)"""
    m = re.fullmatch(r"let \(s, a\) = (?P<h>.*?)\(s\)\?; " + FOLD + " " + END, body)
    if m:
        h = m.group("h")
        tail = "_" + charset(m.group("y"), cs)
        if h.startswith("is_a") or h == "digit1":
            return ("set", charset(h, cs)), tail, False, False
        return ("tags",) + tags(h), tail, False, False
    m = re.fullmatch(r"let \(s, a\) = (?P<h>.*?)\(s\)\?; " + END, body)
    if m:
        return ("tags",) + tags(m.group("h")), "", False, False
    m = re.fullmatch(r"let \(s, a\) = (?P<h>is_a\(\w+\))\(s\)\?; let \(s, b\) = opt\((?P<t>is_a\(\w+\))\)\(s\)\?; " + JOIN + " (?P<e>.*)", body)
    if m:
        e = m.group("e")
        if re.fullmatch(END, e):
            veto = False
        elif re.fullmatch(VETO_END, e):
            veto = True
        else:
            raise Shape("identifier lexer ends in %r" % e[:80])
        return ("set", charset(m.group("h"), cs)), charset(m.group("t"), cs), False, veto
    m = re.fullmatch(r"let \(s, a\) = (?P<h>tag\(\"[^\"]*\"\))\(s\)\?; let \(s, b\) = (?P<t>is_a\(\w+\))\(s\)\?; let a = concat\(a, b\)\.unwrap\(\); " + END, body)
    if m:
        return ("tags",) + tags(m.group("h")), charset(m.group("t"), cs), True, False
    raise Shape("body has none of the known shapes: %r" % body[:160])


def coq_bytes(s):
    return "[" + "; ".join(str(b) for b in s.encode("utf-8")) + "]%N"


def generate():
    cs = consts()
    srcs = {k: strip_comments(open(p).read()) for k, p in FILES.items()}
    lines, facts, bad = [], {}, []
    for name, where in LEXERS:
        try:
            body = fn_body(srcs[where], name)
            head, tail, req, veto = shape(body, cs)
        except Shape as e:
            bad.append("%s: %s" % (name, e))
            continue
        if head[0] == "set":
            h = "HSet %s" % coq_bytes(head[1])
        else:
            h = "HTags %s [%s]" % ("true" if head[1] else "false", "; ".join(coq_bytes(t) for t in head[2]))
        lines.append("Definition lx_%s : lexer := mkLexer (%s) %s %s %s." % (name, h, coq_bytes(tail), "true" if req else "false", "true" if veto else "false"))
        facts[name] = {"head": head, "tail": tail, "tail_required": req, "veto": veto}
    names = [n for n, _ in LEXERS if n in facts]
    text = ["(* GENERATED by gen/svx_lexers.py from /repo/sv-parser-parser/src -- do not edit *)", "From SV Require Import HandLex.",
            "From Coq Require Import List NArith.", "Import ListNotations."] + lines
    text.append("Definition token_lexers : list lexer := [%s]." % "; ".join("lx_" + n for n in names))
    text.append("Definition token_lexers_expected : nat := %d." % len(LEXERS))
    text = "\n".join(text) + "\n"
    return text, {"lexers": facts, "bad": bad, "hash": hashlib.sha256(text.encode()).hexdigest()[:16], "names": names}


def main():
    text, facts = generate()
    p = "/verif/coq/Gen/GenLexers.v"
    if not os.path.exists(p) or open(p).read() != text:
        open(p, "w").write(text)
    return facts


if __name__ == "__main__":
    import json
    f = main()
    print(json.dumps({k: v for k, v in f.items() if k != "lexers"}, indent=1))
    for n, v in f["lexers"].items():
        print(n, v)
