"""svx part 8: what every span primitive of the regenerated grammar DOES -> coq/Gen/GenPrims.v (for Nom/Exec.v).
 - tag / is_a / is_not / one_of / none_of / char used directly in productions: from the expression text;
 - the free-text lexers (strings, comments, escaped identifiers, macro text, actual arguments, ...): their bodies must be
   a run of `let (s, x) = EXPR(s)?;` binds over nom span combinators followed by glue that parses nothing more
   (concat / into_locate / the node construction); the consumed span is the sequence of the binds;
 - the 15 token lexers: the tables of svx_lexers (Gen/GenLexers.v);
 - the tag of keyword(t): guarded by is_reserved_in_force; its word-boundary set is read from keyword().
Anything else becomes PUnknown, and the obligation `all primitives known` fails."""
import ast, hashlib, os, re
import svx_grammar, svx_lexers
from svx_grammar import P, lex, Shape, strip_comments, functions

DIGITS = "0123456789"


def bytes_lit(s):
    return "[" + "; ".join(str(b) for b in s.encode("utf-8")) + "]%N"


class Tr:
    def __init__(self, fs, consts):
        self.by = {f["name"]: f for f in fs}
        self.consts = consts
        self.defs = []            # names, in order of first use
        self.bodies = {}

    def text(self, a):
        if a[0] == "str":
            return a[1]
        if a[0] == "chr":
            return a[1]
        if a[0] == "name" and a[1] in self.consts:
            return self.consts[a[1]]
        raise Shape("literal %r" % (a,))

    def ref(self, name):
        if name not in self.defs:
            self.defs.append(name)
            self.bodies[name] = None
            self.bodies[name] = self.lexer(name)
        return "SRef %d" % self.defs.index(name)

    def sx(self, e):
        if e[0] == "name":
            n = e[1]
            if n == "digit1":
                return "SIsA %s" % bytes_lit(DIGITS)
            if n in self.by and self.by[n]["ret"] in ("Locate", "Span"):
                return self.ref(n)
            raise Shape("name %s in a span expression" % n)
        if e[0] != "call" or e[1][0] != "name":
            raise Shape("span expression %r" % (e[0],))
        h, a = e[1][1], e[2]
        if h in ("tag", "char") and len(a) == 1:
            return "STag false %s" % bytes_lit(self.text(a[0]))
        if h == "tag_no_case" and len(a) == 1:
            return "STag true %s" % bytes_lit(self.text(a[0]))
        if h in ("is_a", "is_not", "one_of", "none_of") and len(a) == 1:
            t = self.text(a[0])
            if any(ord(c) > 127 for c in t):
                raise Shape("non-ASCII character set")
            return "%s %s" % ({"is_a": "SIsA", "is_not": "SIsNot", "one_of": "SOneOf", "none_of": "SNoneOf"}[h], bytes_lit(t))
        if h == "take" and len(a) == 1 and a[0][0] == "num":
            return "STake %d" % a[0][1]
        if h in ("many0", "many1", "opt", "peek", "not") and len(a) == 1:
            return "%s (%s)" % ({"many0": "SMany0", "many1": "SMany1", "opt": "SOpt", "peek": "SPeek", "not": "SNot"}[h], self.sx(a[0]))
        if h == "alt":
            items = a[0][1] if len(a) == 1 and a[0][0] == "tuple" else a
            return "SAlt [%s]" % "; ".join(self.sx(x) for x in items)
        if h in ("pair", "triple", "terminated", "preceded") or (h == "tuple" and len(a) == 1 and a[0][0] == "tuple"):
            items = a[0][1] if h == "tuple" else a
            return "SSeq [%s]" % "; ".join(self.sx(x) for x in items)
        if h == "map" and len(a) == 2 and a[1][0] == "closure":
            return self.sx(a[0])
        raise Shape("span combinator %s/%d" % (h, len(a)))

    def lexer(self, name):
        """body of a free-text lexer -> sexp (the sequence of its binds)"""
        f = self.by[name]
        toks = lex(f["body"])
        if toks[:1] == [("t", "{")] and toks[-1:] == [("t", "}")]:
            toks = toks[1:-1]
        p = P(toks)
        binds = []
        while p.peek() == ("t", "let") and p.peek(1) == ("t", "(") and p.peek(2) == ("t", "s") and p.peek(3) == ("t", ","):
            for _ in range(4):
                p.next()
            depth = 0
            pat = []
            while not (p.at(")") and depth == 0):
                x = p.next()
                depth += x == ("t", "(")
                depth -= x == ("t", ")")
                pat.append(x[1])
            p.eat(")")
            p.eat("=")
            e = p.expr()
            p.eat(";")
            if not (e[0] == "try" and e[1][0] == "call" and e[1][2] == [("name", "s")]):
                raise Shape("%s: bind is not EXPR(s)?" % name)
            if "_" in pat:
                raise Shape("%s: a bound span is dropped" % name)
            binds.append(e[1][1])
        rest = toks[p.i:]
        # the glue parses nothing more: no `?`, nothing applied to s, and it ends in Ok((s, ..))
        for j, t in enumerate(rest):
            if t == ("t", "?"):
                raise Shape("%s: `?` in the glue" % name)
            if t == ("t", "s") and j >= 1 and rest[j - 1] == ("t", "(") and j + 1 < len(rest) and rest[j + 1] == ("t", ")"):
                raise Shape("%s: a parser applied in the glue" % name)
        flat = [t[1] for t in rest]
        k = max((i for i in range(len(flat)) if flat[i:i + 5] == ["Ok", "(", "(", "s", ","]), default=None)
        if k is None or not binds:
            raise Shape("%s: no binds or no final Ok((s, ..))" % name)
        if "recursive_parser" in f["attrs"]:
            # the left-recursion guard may be ignored only if something is consumed before the function can meet itself
            first = binds[0]
            while first[0] == "call" and first[1] == ("name", "triple") or first[0] == "call" and first[1] == ("name", "pair"):
                first = first[2][0]
            if not (first[0] == "call" and first[1] == ("name", "tag") and self.text(first[2][0]) != ""):
                raise Shape("%s: recursive lexer that does not start with a tag" % name)
        xs = [self.sx(b) for b in binds]
        return xs[0] if len(xs) == 1 else "SSeq [%s]" % "; ".join(xs)


_cache = {}


def generate():
    if "g" not in _cache:
        _cache["g"] = svx_grammar.generate()
    _, gf = _cache["g"]
    fs = functions()
    consts = svx_lexers.consts()
    tr = Tr(fs, consts)
    token_lexers = {n for n, _ in svx_lexers.LEXERS}
    ut = strip_comments(open(svx_lexers.FILES["utils"]).read())
    m = re.search(r"fn keyword<'a>.*?peek\(none_of\((\w+)\)\)", ut, re.S)
    if not m or m.group(1) not in consts:
        raise Shape("keyword(): word-boundary set not found")
    boundary = consts[m.group(1)]
    kw_guard = bool(re.search(r"fn keyword<'a>[^{]*\{\s*move \|s: Span<'a>\| \{\s*if !is_reserved_in_force\(t\) \{\s*return Err", ut))
    rows, unknown = [], []
    for i, d in enumerate(gf["prims"]):
        try:
            if d[0] == "tag":
                row = "PSpan (STag false %s)" % bytes_lit(d[1])
            elif d[0] == "kwtag":
                if not kw_guard:
                    raise Shape("keyword() does not start with the is_reserved_in_force guard")
                row = "PKeyword %s" % bytes_lit(d[1])
            elif d[0] == "none_of":
                row = "PSpan (SNoneOf %s)" % bytes_lit(boundary)
            elif d[0] == "lex" and len(d) == 3:
                row = "PSpan (%s)" % tr.sx(("call", ("name", d[1]), ast.literal_eval(d[2])))
            elif d[0] == "lex" and d[1] in token_lexers:
                row = "PLex lx_%s" % d[1]
            elif d[0] == "lex":
                row = "PSpan (%s)" % tr.ref(d[1])
            else:
                raise Shape("descriptor %r" % (d,))
        except (Shape, IndexError, KeyError, ValueError) as e:
            row = "PUnknown"
            unknown.append("%d %r: %s" % (i, d, e))
        rows.append("  (* %d *) %s" % (i, row))
    defs = ["  (* %d %s *) %s" % (i, n, tr.bodies[n]) for i, n in enumerate(tr.defs)]
    text = "\n".join([
        "(* GENERATED by gen/svx_prims.py from /repo/sv-parser-parser/src -- do not edit *)",
        "From Coq Require Import List NArith.", "Import ListNotations.", "From SV Require Import HandLex Exec GenLexers.",
        "Definition span_defs : list sexp := [", ";\n".join(defs), "].",
        "Definition prim_table : list pdesc := [", ";\n".join(rows), "].",
        "(* certificate: every free-text lexer consumes when it succeeds (checked against the bodies in Coq: ExecFacts.cert_valid) *)",
        "Definition span_cert : list bool := map (fun _ => true) span_defs."]) + "\n"
    facts = {"hash": hashlib.sha256(text.encode()).hexdigest()[:16], "primitives": len(rows), "unknown": unknown,
             "span_lexers": list(tr.defs), "boundary": boundary, "keyword_guard": kw_guard}
    return text, facts


def main():
    text, facts = generate()
    p = "/verif/coq/Gen/GenPrims.v"
    if not os.path.exists(p) or open(p).read() != text:
        open(p, "w").write(text)
    return facts


if __name__ == "__main__":
    print(main())
