"""Check framework: one run = translate, prove, correspond, decide, evidence (DESIGN 3.2)."""
import hashlib, re
import fcntl, json, os, re, sys, time, traceback, random
from vlib import *

TRUSTED_BASE = [
    "Coq 8.16.1 kernel (coqc full .vo builds; vm_compute used in reflective obligations; no native_compute); thorough tier: coqchk -o on the property files, Axioms: <none>",
    "axioms: none declared; Print Assumptions of every property theorem is compared with the allowlist (target: Closed under the global context)",
    "translators gen/svx_grammar.py svx_keywords.py svx_wiring.py svx_statics.py svx_lexers.py svx_prims.py (read /repo sources, emit coq/Gen/*.v); fail closed; the grammar and primitive translators are cross-checked by running what they emit (extracted Peg.run, Extract/ExtractPeg.v, ocaml_peg/vpeg.ml) against the real parser: whole trees must agree (method-call chains compared flattened)",
    "extraction: Require Extraction + ExtrOcamlBasic only (its Extract Inductive for bool, option, unit, list, prod, sumbool, sumor; no Extract Constant); OCaml 4.13.1, dune 2.9.3, ocaml/*.ml drivers",
    "correspondence harness /verif/harness (Rust, path deps on /repo, feature verif) and the Python driver/generators under /verif/gen",
    "modelled not verified: nom 7.1.3, nom_locate 4.2, nom-greedyerror 0.5, nom-packrat 0.7, nom-recursive 0.5.1, str-concat, std BTreeMap/HashMap/String/fs/Path, threads and thread_local!, rustc/LLVM",
]

FORBIDDEN = re.compile(
    r"\b(Admitted|admit|Axiom|Axioms|Parameter|Parameters|Conjecture|Conjectures|Admit\s+Obligations|bypass_check)\b"
    r"|Unset\s+Guard\s+Checking|Unset\s+Positivity\s+Checking|Unset\s+Universe\s+Checking|type-in-type|impredicative-set")


class Obligation:
    def __init__(self, name, kind, ok, detail=""):
        self.name, self.kind, self.ok, self.detail = name, kind, bool(ok), detail

    def j(self):
        return {"name": self.name, "kind": self.kind, "ok": self.ok, "detail": self.detail[:600]}


class Violation:
    def __init__(self, what, replay, found_input=True, key=None):
        self.what, self.replay, self.found_input, self.key = what, replay, found_input, key


# which source groups a property's behaviour lives in (for change-triggered deepening)
SOURCE_GROUPS = {
    "pp": ["sv-parser-pp/src/*.rs", "sv-parser/src/lib.rs", "sv-parser-error/src/*.rs"],
    "parser": ["sv-parser-parser/src/**/*.rs", "sv-parser-syntaxtree/src/*.rs", "sv-parser-macros/src/*.rs", "sv-parser/src/lib.rs"],
}
DEEPEN = {"C03": ["pp"], "C04": ["pp"], "C05": ["pp"], "C06": ["pp"], "C09": ["pp"], "C10": ["pp"], "C11": ["pp"], "C18": ["pp"],
          "C01": ["parser"], "C02": ["parser"], "C12": ["parser", "pp"], "C13": ["parser"], "C15": ["parser"], "C16": ["parser"],
          "C07": ["parser", "pp"]}


def group_hash(group):
    import glob as _glob
    h = hashlib.sha256()
    for pat in SOURCE_GROUPS[group]:
        for f in sorted(_glob.glob(os.path.join("/repo", pat), recursive=True)):
            if f.endswith("tests.rs"):
                continue
            try:
                src = open(f).read()
            except OSError:
                continue
            src = re.sub(r"//[^\n]*", "", src)
            h.update(re.sub(r"\s+", " ", src).encode())
    return h.hexdigest()[:16]


def sources_changed(pid):
    groups = DEEPEN.get(pid)
    if not groups or os.environ.get("VERIF_NO_DEEPEN"):
        return False
    try:
        val = json.load(open(os.path.join(VERIF, "corpus", "validated-sources.json")))
    except Exception:
        return True
    return any(group_hash(g) != val.get(g) for g in groups)


class Ctx:
    def __init__(self, pid, tier, seed):
        self.pid, self.tier, self.seed = pid, tier, seed
        self.rng = random.Random((seed << 8) ^ int(pid[1:]))
        self.obls = []          # Obligation
        self.viol = []          # Violation
        self.known_printed = []
        self.cov = {}           # extra coverage keys
        self.samples = []
        self.cmds = []
        self.t0 = time.time()
        self.corr_cases = 0
        self.corr_nontrivial = set()
        self.hist = {}
        self.notes = []

    def quick(self):
        """the sizes of the quick tier -- unless the sources this property is about are not the ones the quick sizes were
        validated on: then the sizes of the thorough tier are used (change-triggered deepening; an unchanged tree stays quick)"""
        if self.tier != "quick":
            return False
        if not hasattr(self, "_deep"):
            self._deep = sources_changed(self.pid)
            self.cov["sources_changed_since_validation"] = self._deep
        return not self._deep

    def count(self, key, n=1):
        self.hist[key] = self.hist.get(key, 0) + n

    def obl(self, name, kind, ok, detail=""):
        self.obls.append(Obligation(name, kind, ok, detail))
        return ok

    def sample(self, x, limit=6):
        if len(self.samples) < limit:
            self.samples.append(x)


# ----------------------------------------------------------------------------- build steps
class Lock:
    def __enter__(self):
        os.makedirs(BUILD, exist_ok=True)
        self.f = open(os.path.join(BUILD, ".lock"), "w")
        fcntl.flock(self.f, fcntl.LOCK_EX)
        return self

    def __exit__(self, *a):
        fcntl.flock(self.f, fcntl.LOCK_UN)
        self.f.close()


def scan_forbidden():
    """Admitted / Axiom / ... anywhere in the development; Variable/Hypothesis outside a Section."""
    bad = []
    for root, _, files in os.walk(COQ):
        for f in files:
            if not f.endswith(".v"):
                continue
            p = os.path.join(root, f)
            txt = open(p).read()
            # strip comments (nested) so that prose does not trip the scan
            out, depth, i = [], 0, 0
            while i < len(txt):
                if txt.startswith("(*", i):
                    depth += 1; i += 2
                elif txt.startswith("*)", i) and depth > 0:
                    depth -= 1; i += 2
                else:
                    if depth == 0:
                        out.append(txt[i])
                    i += 1
            code = "".join(out)
            for m in FORBIDDEN.finditer(code):
                bad.append("%s: %s" % (os.path.relpath(p, COQ), m.group(0)))
            sec = 0
            for line in code.split("\n"):
                s = line.strip()
                if re.match(r"Section\b", s): sec += 1
                if re.match(r"End\b", s) and sec > 0: sec -= 1
                if sec == 0 and re.match(r"(Variable|Variables|Hypothesis|Hypotheses|Context)\b", s):
                    bad.append("%s: %s outside a section" % (os.path.relpath(p, COQ), s[:40]))
    return bad


ALLOWED_AXIOMS = set()   # none needed so far; any library axiom would be named here


def prove(ctx, props_file, extra_targets=()):
    """make Props/<file>.vo (and deps), then Print Assumptions of each Theorem in it."""
    with Lock():
        coq_project()
        tgt = ["Props/%s.vo" % props_file] + list(extra_targets)
        t = time.time()
        ok, out = coq_make(tgt, timeout=2400)
        ctx.cmds.append("cd /verif/coq && coq_makefile -f _CoqProject -o Makefile && make -j16 " + " ".join(tgt))
        ctx.cov["coq_make_s"] = round(time.time() - t, 1)
    src = open(os.path.join(COQ, "Props", props_file + ".v")).read()
    thms = re.findall(r"^Theorem\s+(\w+)", src, re.M)
    if not ok:
        # which theorem/file broke
        m = re.search(r'File "([^"]+)", line (\d+)', out)
        where = "%s:%s" % (m.group(1), m.group(2)) if m else "?"
        tail = out[-1500:]
        for th in thms:
            ctx.obl(th, "theorem", False, "coq build failed at %s: %s" % (where, tail))
        ctx.cov["coq_error"] = tail
        return False
    # Print Assumptions, freshly, for every theorem
    q = []
    for d in ["Base", "PP", "Nom", "Tree", "API", "Props", "Gen"]:
        q += ["-Q", os.path.join(COQ, d), "SV"]
    chk = os.path.join(BUILD, "assume_%s.v" % props_file)
    with open(chk, "w") as f:
        f.write("From SV Require Import %s.\n" % props_file)
        for th in thms:
            f.write('Goal True. idtac "BEGIN %s". Abort.\nPrint Assumptions %s.\n' % (th, th))
    rc, out = sh(["coqc"] + q + ["-o", chk + "o", chk], timeout=600)
    ctx.cmds.append("coqc assume_%s.v  (Print Assumptions of %d theorems)" % (props_file, len(thms)))
    parts = re.split(r"BEGIN (\w+)\n", out)
    seen = {}
    for i in range(1, len(parts), 2):
        seen[parts[i]] = parts[i + 1]
    theorems = []
    allok = rc == 0
    for th in thms:
        txt = seen.get(th, "<missing>")
        closed = "Closed under the global context" in txt
        axioms = []
        if not closed:
            axioms = re.findall(r"^(\S+)\s*:", txt, re.M)
        okth = closed or (axioms and all(a in ALLOWED_AXIOMS for a in axioms))
        ctx.obl(th, "theorem", okth, "closed" if closed else "assumptions: " + txt[:300])
        theorems.append({"name": th, "assumptions": "closed" if closed else axioms})
        allok = allok and okth
    ctx.cov["theorems"] = theorems
    bad = scan_forbidden()
    ctx.obl("no-admitted-no-axiom-scan", "scan", not bad, "; ".join(bad[:10]))
    if ctx.tier == "thorough":
        # independent re-check of the compiled files of this property (and everything they depend on) with coqchk
        t = time.time()
        rc, out = sh(["coqchk", "-silent", "-o"] + QFLAGS + ["SV." + props_file], cwd=COQ, timeout=3000)
        ax = re.search(r"\* Axioms:\s*(.*?)\n\s*\n", out, re.S)
        axioms = ax.group(1).strip() if ax else "?"
        clean = rc == 0 and axioms == "<none>" and all(("relying on %s: <none>" % w) in out or ("%s: <none>" % w) in out for w in
                                                      ("type-in-type", "unsafe (co)fixpoints")) and "positivity is assumed: <none>" in out
        ctx.obl("coqchk:%s re-checked by the independent checker, no axioms, no unsafe fixpoints, no assumed positivity" % props_file,
                "coqchk", clean, "rc=%d axioms=%s (%.0fs)" % (rc, axioms[:200], time.time() - t))
        ctx.cmds.append("coqchk -silent -o -Q ... SV.%s" % props_file)
        allok = allok and clean
    return allok and not bad


def build_impl(ctx):
    with Lock():
        t = build_harness()
    ctx.cov["harness_build_s"] = round(t, 1)
    ctx.cmds.append("cd /verif/harness && cargo build --offline   (path deps on /repo, feature verif)")


def ensure_model(ctx):
    with Lock():
        stamp = os.path.join(BUILD, "ocaml", ".stamp")
        h = []
        for f in MODEL_FILES + ["Extract/Extract.v"]:
            h.append(sha(open(os.path.join(COQ, f), "rb").read()))
        for f in sorted(os.listdir(os.path.join(VERIF, "ocaml"))):
            h.append(sha(open(os.path.join(VERIF, "ocaml", f), "rb").read()))
        key = sha("".join(h))
        if os.path.exists(stamp) and open(stamp).read() == key and os.path.exists(VMODEL):
            return
        build_model()
        open(stamp, "w").write(key)
    ctx.cmds.append("coqc Extract/Extract.v (extraction) && dune build vmodel.exe")


# ----------------------------------------------------------------------------- findings
def load_known():
    p = os.path.join(VERIF, "KNOWN_FINDINGS.txt")
    findings, fixed = [], []
    if os.path.exists(p):
        for line in open(p):
            line = line.strip()
            if line.startswith("finding:"):
                d = dict(kv.split("=", 1) for kv in line[8:].split("::")[0].split() if "=" in kv)
                d["desc"] = line.split("::", 1)[1].strip() if "::" in line else ""
                findings.append(d)
            elif line.startswith("fixed:"):
                fixed.append(line)
    return findings, fixed


def write_replay(ctx, name, obj):
    os.makedirs(os.path.join(VERIF, "replays"), exist_ok=True)
    p = os.path.join(VERIF, "replays", "%s-%s.json" % (ctx.pid, name))
    with open(p, "w") as f:
        json.dump(obj, f, indent=1)
    return p


def finish(ctx, level_partial=None):
    """Decide, print VIOLATION / KNOWN-FINDING lines, write evidence, return exit code."""
    findings, _ = load_known()
    mine = [f for f in findings if f.get("property") == ctx.pid]
    reported = []
    for v in ctx.viol:
        if v.key and any(f.get("id") == v.key for f in mine):
            continue   # listed finding: handled below
        reported.append(v)
    for f in mine:
        # a listed finding is printed when the check observed it (key recorded in known_printed)
        if f.get("id") in ctx.known_printed:
            print("KNOWN-FINDING: property=%s %s (%s)" % (ctx.pid, f.get("id"), f.get("desc", "")))
    broken = [o for o in ctx.obls if not o.ok]
    if broken and not reported:
        # an obligation no longer checks and the search found no failing input
        rp = write_replay(ctx, "unproved-" + sha(",".join(o.name for o in broken))[:8], {
            "property": ctx.pid,
            "broken_obligations": [o.j() for o in broken],
            "note": "no failing input found by the search within its budget; the property is no longer shown to hold",
        })
        reported.append(Violation("obligations no longer check: " + ", ".join(o.name for o in broken[:5]), rp, False))
    total = len(ctx.obls)
    done = sum(1 for o in ctx.obls if o.ok)
    ev = {
        "property_id": ctx.pid,
        "tier": ctx.tier,
        "seed": ctx.seed,
        "level": "proof",
        "coverage": dict({
            "obligations": total,
            "discharged": done,
            "checker_cmd": " ; ".join(ctx.cmds) or "none",
            "trusted_base": TRUSTED_BASE,
            "obligation_list": [o.j() for o in ctx.obls],
            "evaluations": ctx.corr_cases,
            "distinct_nontrivial": len(ctx.corr_nontrivial),
            "samples": ctx.samples or ["(no correspondence cases in this run)"],
            "histogram": ctx.hist,
            "partial": level_partial or "",
            "known_findings_printed": ctx.known_printed,
            "notes": ctx.notes,
        }, **ctx.cov),
        "assumptions": TRUSTED_BASE,
        "wall_s": round(time.time() - ctx.t0, 2),
        "violations": len(reported),
    }
    os.makedirs(os.path.join(VERIF, "evidence"), exist_ok=True)
    with open(os.path.join(VERIF, "evidence", ctx.pid + ".json"), "w") as f:
        json.dump(ev, f, indent=1)
    for v in reported:
        tail = "" if v.found_input else " no-failing-input-found"
        print("# %s" % v.what)
        print("VIOLATION property=%s replay=%s%s" % (ctx.pid, v.replay, tail))
    print("%s: %d/%d obligations, %d correspondence cases (%d distinct non-trivial), %d violation(s), %.1fs"
          % (ctx.pid, done, total, ctx.corr_cases, len(ctx.corr_nontrivial), len(reported), time.time() - ctx.t0))
    return 1 if reported else 0


def compare(ctx, name, impl, model, cases_by_id, describe=None):
    """Diff implementation vs model outputs case by case.  Returns list of differing ids."""
    diffs = []
    for cid, c in cases_by_id.items():
        a, b = impl.get(cid), model.get(cid)
        ctx.corr_cases += 1
        if a != b:
            diffs.append(cid)
    ok = not diffs
    detail = ""
    if diffs:
        cid = diffs[0]
        detail = "first difference in case %s: impl=%r model=%r" % (cid, impl.get(cid), model.get(cid))
    ctx.obl("correspondence:" + name, "correspondence", ok, detail)
    return diffs


def crashed(lines):
    """the implementation aborted, panicked or timed out on this case (never acceptable: C08), else None"""
    for l in lines or ["abort (no output)"]:
        w = l.split()[0] if l.split() else ""
        if w in ("abort", "harness-panic"):
            return "the process aborted or the call did not return (%s)" % l[:60]
        if w == "panic":
            try:
                return "panic: " + unhx(l.split()[1]).decode("utf-8", "replace")[:200]
            except Exception:
                return "panic"
    return None
