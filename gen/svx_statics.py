"""svx part 3: every piece of static / thread-local state the parser stack can see, and what init() clears;
regenerated from /repo and from the dependency sources in the cargo registry on every run -> coq/Gen/GenStatics.v."""
import glob, os, re, hashlib
from svx_schema import strip_comments

CRATES = ["/repo/sv-parser", "/repo/sv-parser-pp", "/repo/sv-parser-parser", "/repo/sv-parser-syntaxtree",
          "/repo/sv-parser-error", "/repo/sv-parser-macros"]
DEPS = ["nom-packrat-0.7.0", "nom-packrat-macros-0.7.0", "nom-recursive-0.5.1", "nom-recursive-macros-0.5.1",
        "nom-tracable-0.9.1", "nom-tracable-macros-0.9.1", "nom_locate-4.2.0", "str-concat-0.2.0", "nom-greedyerror-0.5.0"]


class Shape(Exception):
    pass


def registry():
    c = glob.glob(os.path.expanduser("~/.cargo/registry/src/*/"))
    if not c:
        raise Shape("cargo registry not found")
    return c[0]


def rust_files(root):
    for d, _, fs in os.walk(os.path.join(root, "src")):
        for f in fs:
            if f.endswith(".rs"):
                yield os.path.join(d, f)
    b = os.path.join(root, "build.rs")
    if os.path.exists(b):
        yield b


def scan_cells(root, crate):
    """-> list of (crate, name, kind, cfg) ; kind in ThreadLocal / GlobalStatic / GlobalStaticMut"""
    cells = []
    for f in rust_files(root):
        src = strip_comments(open(f, errors="replace").read())
        # thread_local!( [pub(..)] static NAME: T = ...
        tl_spans = []
        for m in re.finditer(r"thread_local!\s*[\(\{]", src):
            j = m.end() - 1
            depth, i = 0, j
            opn, cls = src[j], ")" if src[j] == "(" else "}"
            while i < len(src):
                if src[i] == opn: depth += 1
                elif src[i] == cls:
                    depth -= 1
                    if depth == 0: break
                i += 1
            tl_spans.append((j, i))
            for sm in re.finditer(r"\bstatic\s+(mut\s+)?(\w+)\s*:", src[j:i]):
                pre = src[max(0, m.start() - 120):m.start()]
                cfg = "verif" if 'cfg(feature = "verif")' in pre else ""
                cells.append((crate, sm.group(2), "ThreadLocal", cfg))
        for sm in re.finditer(r"\bstatic\s+(mut\s+)?([A-Z_][A-Z0-9_]*)\s*:\s*([^=;]+)", src):
            if any(a <= sm.start() <= b for a, b in tl_spans):
                continue
            ty = sm.group(3)
            immutable_data = sm.group(1) is None and not re.search(r"Cell|Mutex|RwLock|Atomic|Once|Lazy", ty)
            if immutable_data:
                continue      # plain read-only data (&str, arrays of &str, ...)
            cells.append((crate, sm.group(2), "GlobalStaticMut" if sm.group(1) else "GlobalStatic", ""))
        for sm in re.finditer(r"lazy_static!", src):
            cells.append((crate, "lazy_static@%s" % os.path.basename(f), "GlobalStatic", ""))
    return cells


def generate():
    cells = []
    for c in CRATES:
        cells += scan_cells(c, os.path.basename(c))
    reg = registry()
    for d in DEPS:
        p = os.path.join(reg, d)
        if not os.path.isdir(p):
            raise Shape("dependency source %s not found" % d)
        cells += scan_cells(p, d)
    # de-duplicate the four cfg variants of nom_packrat::storage!
    seen, uniq = set(), []
    for c in cells:
        if (c[0], c[1]) not in seen:
            seen.add((c[0], c[1])); uniq.append(c)
    cells = uniq
    # entries and init() of sv-parser-parser/src/lib.rs
    lib = strip_comments(open("/repo/sv-parser-parser/src/lib.rs").read())
    entries = []
    for m in re.finditer(r"pub fn (\w+)\s*\(s: Span\)\s*->\s*IResult<Span, \w+>\s*\{([^}]*)\}", lib):
        body = re.sub(r"\s+", " ", m.group(2)).strip()
        entries.append((m.group(1), body.startswith("init();"), body))
    m = re.search(r"fn init\(\)\s*\{([^}]*)\}", lib)
    if not m:
        raise Shape("init() not found")
    init_body = re.sub(r"\s+", " ", m.group(1)).strip()
    clears = []
    if "nom_packrat::init!();" in init_body:
        mac = strip_comments(open(os.path.join(reg, "nom-packrat-0.7.0", "src", "lib.rs")).read())
        mm = re.search(r"macro_rules!\s*init\s*\{(.*?)\n\}", mac, re.S)
        if mm and "PACKRAT_STORAGE.with" in mm.group(1) and ".clear()" in mm.group(1):
            clears.append("PACKRAT_STORAGE")
    utils = strip_comments(open("/repo/sv-parser-parser/src/utils.rs").read())
    for fn, cell in (("clear_directive", "IN_DIRECTIVE"), ("clear_version", "CURRENT_VERSION")):
        if fn + "();" in init_body:
            fm = re.search(r"fn %s\(\)\s*\{(.*?)\n\}" % fn, utils, re.S)
            if fm and cell + ".with" in fm.group(1) and ".clear()" in fm.group(1):
                clears.append(cell)
    # the storage cell is declared through nom_packrat::storage!(..)
    if not re.search(r"nom_packrat::storage!\(", lib):
        raise Shape("nom_packrat::storage! not found")
    nrec = 0
    for f in glob.glob("/repo/sv-parser-parser/src/**/*.rs", recursive=True):
        nrec += len(re.findall(r"#\[recursive_parser\]", open(f).read()))
    # every use of pp_parser / sv_parser* / lib_parser* outside the parser crate goes through these entries
    out = ["(* GENERATED by gen/svx_statics.py -- do not edit *)", "From SV Require Import Threads.", "Open Scope string_scope.", ""]
    out.append("Definition cells : list cell :=\n  [ " + ";\n    ".join(
        'mkCell "%s" "%s" %s %s' % (c[0], c[1], c[2], "true" if c[3] else "false") for c in cells) + " ].")
    out.append("Definition entries : list (string * bool) :=\n  [ " + "; ".join('("%s", %s)' % (e[0], "true" if e[1] else "false") for e in entries) + " ].")
    out.append("Definition init_clears : list string := [ " + "; ".join('"%s"' % c for c in clears) + " ].")
    out.append("Definition recursive_parsers : N := %d%%N." % nrec)
    # the size of nom-recursive's flag word is chosen by a cargo feature of the dependency (sv-parser-parser/Cargo.toml)
    ct = open("/repo/sv-parser-parser/Cargo.toml").read()
    m = re.search(r'^nom-recursive\s*=\s*(.*)$', ct, re.M)
    if not m:
        raise Shape("sv-parser-parser/Cargo.toml: no nom-recursive dependency")
    feats = re.findall(r'"(tracer\d+)"', m.group(1))
    cap = 256 if "tracer256" in feats else 128 if "tracer128" in feats else 64
    out.append("Definition recursive_capacity : N := %d%%N." % cap)
    text = "\n".join(out) + "\n"
    facts = {"cells": ["%s::%s %s%s" % (c[0], c[1], c[2], " (verif only)" if c[3] else "") for c in cells],
             "entries": [(e[0], e[1]) for e in entries], "init_clears": clears, "recursive_parsers": nrec, "recursive_capacity": cap,
             "hash": hashlib.sha256(text.encode()).hexdigest()[:16]}
    return text, facts


def main():
    text, facts = generate()
    os.makedirs("/verif/coq/Gen", exist_ok=True)
    p = "/verif/coq/Gen/GenStatics.v"
    if not os.path.exists(p) or open(p).read() != text:
        open(p, "w").write(text)
    return facts


if __name__ == "__main__":
    import json
    print(json.dumps(main(), indent=1))
