"""Structured generator of preprocessor programs with an independent reference evaluation.

A program is a tree of items; `render` gives the file texts, `Ref.eval` gives what IEEE 1800-2017
clause 22 says must come out, as a list of non-blank output characters each with its provenance:
  ('copy', file, offset)            copied from that byte of that file
  ('macro', file, body_begin)       produced by expanding a macro whose body starts there
  ('macro', None, None)             expansion of a caller-supplied macro (no origin)
  ('synth',)                        `__FILE__ / `__LINE__ text
Blank characters are not part of the reference (the standard does not fix them); they are
checked by weaker rules in the property checks.  This evaluator shares no code with the Coq
model or with sv-parser: it is the search oracle of DESIGN 3.3.
"""
import random

IDS = ["a", "b1", "foo", "x_y", "module_x", "end1", "wirex", "Z9", "q$r", "_u"]
PUNCT = [";", "+", "(", ")", "=", ",", "[", "]", "{", "}", "#", "@", ":", "<=", "&&", "'b0", "1", "42", "3.5"]
BLANKS = [" ", "  ", "\n", "\t", " \n", "\n\n", " \n  ", "\r\n"]
KEPT = ["`celldefine", "`endcelldefine", "`resetall", "`timescale 1ns/1ps", "`timescale 10 us / 100 ns",
        "`default_nettype none", "`default_nettype wire", "`unconnected_drive pull0", "`nounconnected_drive",
        "`line 3 \"f.v\" 1", "`pragma foo", "`pragma protect a=1, b", "`begin_keywords \"1364-2001\"",
        "`end_keywords"]
MACROS = ["A", "B", "CC", "D_1", "EE"]
# IEEE 1800-2017 40.3.1: predefined coverage macros (every run starts with them)
SV_COV = [("SV_COV_START", "0"), ("SV_COV_STOP", "1"), ("SV_COV_RESET", "2"), ("SV_COV_CHECK", "3"),
          ("SV_COV_MODULE", "10"), ("SV_COV_HIER", "11"), ("SV_COV_ASSERTION", "20"), ("SV_COV_FSM_STATE", "21"),
          ("SV_COV_STATEMENT", "22"), ("SV_COV_TOGGLE", "23"), ("SV_COV_OVERFLOW", "-2"), ("SV_COV_ERROR", "-1"),
          ("SV_COV_NOCOV", "0"), ("SV_COV_OK", "1"), ("SV_COV_PARTIAL", "2")]


class It:
    def __init__(self, kind, **kw):
        self.kind = kind
        self.__dict__.update(kw)
        self.off = None     # offset of the item's first byte in its file (set by render)


def Tok(t): return It("tok", text=t)
def Ws(t): return It("ws", text=t)
def Cmt(t): return It("cmt", text=t)
def Str(t): return It("str", text=t)
def Esc(t): return It("esc", text=t)
def Kept(t): return It("kept", text=t)
def Define(name, formals, body): return It("define", name=name, formals=formals, body=body)
def Undef(name): return It("undef", name=name)
def UndefAll(): return It("undefall")
def Cond(neg, name, body, elsifs, els): return It("cond", neg=neg, name=name, body=body, elsifs=elsifs, els=els)
def Usage(name, args=None): return It("usage", name=name, args=args)
def Include(path, angle=False): return It("include", path=path, angle=angle)
def Pos(which): return It("pos", which=which)


class File:
    def __init__(self, path, items):
        self.path, self.items = path, items
        self.text = None


def render_items(items, buf, path):
    """Append the text of items to buf (list of str); records offsets (bytes)."""
    def cur():
        return sum(len(s.encode("utf-8")) for s in buf)
    for it in items:
        it.off = cur()
        it.file = path
        k = it.kind
        if k in ("tok", "ws", "cmt", "str", "esc", "kept"):
            buf.append(it.text)
        elif k == "define":
            s = "`define " + it.name
            if it.formals is not None:
                s += "(" + ", ".join(f if d is None else "%s = %s" % (f, d) for f, d in it.formals) + ")"
            if it.body is not None:
                # macro_text begins right after the name / formal list (the blank belongs to it)
                it.body_off = cur() + len(s.encode())
                s += " "
                s += it.body
            else:
                it.body_off = None
            buf.append(s)
        elif k == "undef":
            buf.append("`undef " + it.name)
        elif k == "undefall":
            buf.append("`undefineall")
        elif k == "cond":
            buf.append(("`ifndef " if it.neg else "`ifdef ") + it.name + it.ws0)
            render_items(it.body, buf, path)
            for (n, b, w) in it.elsifs:
                buf.append("`elsif " + n + w)
                render_items(b, buf, path)
            if it.els is not None:
                buf.append("`else" + it.els_ws)
                render_items(it.els, buf, path)
            buf.append("`endif")
        elif k == "usage":
            s = "`" + it.name
            if it.args is not None:
                s += "(" + ",".join(it.args) + ")"
            buf.append(s)
        elif k == "include":
            buf.append("`include " + ("<%s>" % it.path if it.angle else '"%s"' % it.path))
        elif k == "pos":
            buf.append("`__%s__" % it.which)
        else:
            raise ValueError(k)


def render(files):
    for f in files:
        buf = []
        render_items(f.items, buf, f.path)
        f.text = "".join(buf)
    return {f.path: f.text for f in files}


def is_blank(ch):
    return ch in " \t\r\n"


def norm(name):
    """a macro name may be spelled as an escaped identifier (\\NAME followed by white space): same macro"""
    return name[1:] if name.startswith("\\") else name


class RefError(Exception):
    def __init__(self, kind, payload=None):
        self.kind, self.payload = kind, payload


class Ref:
    """Reference evaluation.  defs: name -> None (caller, no body) | dict(formals, body, file, body_off)"""

    def __init__(self, files, predefs, strip=False, ignore_include=False, limit=64):
        self.files = {f.path: f for f in files}
        self.defs = {k: dict(formals=None, body=v, file=None, body_off=None) for k, v in SV_COV}
        self.defs.update(predefs)
        self.strip = strip
        self.ignore = ignore_include
        self.out = []       # (char, prov) non-blank only
        self.limit = limit
        self.cov_gone = False   # `undefineall was executed: whether SV_COV_* are defined is left aside (C11)

    def emit_copy(self, text, file, off):
        b = text.encode("utf-8")
        for i, ch in enumerate(b):
            if chr(ch) not in " \t\r\n":
                self.out.append((ch, ("copy", file, off + i)))

    def emit_other(self, text, prov):
        for ch in text.encode("utf-8"):
            if chr(ch) not in " \t\r\n":
                self.out.append((ch, prov))

    def defined(self, n):
        if self.cov_gone and n.startswith("SV_COV_"):
            # the implementation re-installs the coverage constants whenever it starts on an included file or a
            # macro body; the properties leave them aside
            raise RefError("Unspecified", n)
        return n in self.defs or n in ("__LINE__", "__FILE__")

    def eval_file(self, path, depth=0):
        if depth > self.limit:
            raise RefError("ExceedRecursiveLimit")
        f = self.files.get(path)
        if f is None:
            raise RefError("File", path)
        self.eval_items(f.items, path, depth)

    def line_of(self, it):
        return self.files[it.file].text.encode()[: it.off].count(b"\n") + 1

    def eval_items(self, items, path, depth):
        for it in items:
            k = it.kind
            if k in ("tok", "str", "esc", "kept"):
                self.emit_copy(it.text, path, it.off)
            elif k == "ws":
                pass
            elif k == "cmt":
                if not self.strip:
                    self.emit_copy(it.text, path, it.off)
            elif k == "define":
                if norm(it.name) not in ("__LINE__", "__FILE__"):
                    self.defs[norm(it.name)] = dict(formals=it.formals, body=it.body, file=path, body_off=it.body_off)
                # kept in the output
                self.emit_copy(self.def_text(it), path, it.off)
            elif k == "undef":
                self.defs.pop(norm(it.name), None)
                self.emit_copy("`undef " + it.name, path, it.off)
            elif k == "undefall":
                self.defs.clear()
                self.cov_gone = True
                self.emit_copy("`undefineall", path, it.off)
            elif k == "cond":
                hit = self.defined(norm(it.name)) != it.neg
                if hit:
                    self.eval_items(it.body, path, depth)
                else:
                    done = False
                    for (n, b, w) in it.elsifs:
                        if self.defined(norm(n)):
                            self.eval_items(b, path, depth)
                            done = True
                            break
                    if not done and it.els is not None:
                        self.eval_items(it.els, path, depth)
            elif k == "usage":
                self.expand(it, path)
            elif k == "include":
                if self.ignore:
                    continue
                try:
                    self.eval_file(it.path, depth + 1)
                except RefError as e:
                    if e.kind == "Unspecified":
                        raise
                    raise RefError("Include", e)
            elif k == "pos":
                if it.which == "FILE":
                    self.emit_other('"%s"' % path, ("synth",))
                else:
                    self.emit_other(str(self.line_of(it)), ("synth",))

    def def_text(self, it):
        s = "`define " + it.name
        if it.formals is not None:
            s += "(" + ", ".join(f if d is None else "%s = %s" % (f, d) for f, d in it.formals) + ")"
        if it.body is not None:
            s += " " + it.body
        return s

    def expand_text(self, name, args, depth):
        """Textual expansion of a usage (simple bodies: identifiers, punctuation, nested usages)."""
        if depth > self.limit:
            raise RefError("ExceedRecursiveLimit")
        if name not in self.defs:
            raise RefError("DefineNotFound", name)
        d = self.defs[name]
        if d is None or d["body"] is None:
            return ""
        formals = d["formals"] or []
        if formals and args is None:
            raise RefError("DefineNoArgs", name)
        amap = {}
        for i, (f, dflt) in enumerate(formals):
            if args is not None and i < len(args) and args[i].strip() != "":
                amap[f] = args[i].strip() if True else None
            elif args is not None and i < len(args):
                amap[f] = dflt if dflt is not None else ""
            elif dflt is not None:
                amap[f] = dflt
            else:
                raise RefError("DefineArgNotFound", f)
        # tokenise body into identifier runs and the rest; substitute formals; expand nested usages
        body = d["body"]
        if body.startswith("`undef ") and not formals:
            self.defs.pop(body.split()[1], None)
            return body + ("(" + ",".join(args) + ")" if args is not None else "")
        if body.startswith("`define ") and not formals:
            w = body.split()
            if w[1] not in ("__LINE__", "__FILE__"):
                self.defs[w[1]] = dict(formals=None, body=" ".join(w[2:]), file="<macro>", body_off=None)
            return body + ("(" + ",".join(args) + ")" if args is not None else "")
        out, i = [], 0
        while i < len(body):
            c = body[i]
            if c == "`" and i + 1 < len(body) and (body[i + 1].isalpha() or body[i + 1] == "_"):
                j = i + 1
                while j < len(body) and (body[j].isalnum() or body[j] in "_$"):
                    j += 1
                nm = body[i + 1:j]
                out.append(self.expand_text(nm, None, depth + 1))
                i = j
            elif c.isalnum() or c == "_":
                j = i
                while j < len(body) and (body[j].isalnum() or body[j] == "_"):
                    j += 1
                w = body[i:j]
                out.append(amap.get(w, w))
                i = j
            else:
                out.append(c)
                i += 1
        s = "".join(out)
        if not formals and args is not None:
            s += "(" + ",".join(args) + ")"
        return s

    def expand(self, it, path):
        d = self.defs.get(norm(it.name))
        txt = self.expand_text(norm(it.name), it.args, 1)
        if d is None or d.get("file") is None:
            prov = ("macro", None, None)
        else:
            prov = ("macro", d["file"], d["body_off"])
        self.emit_other(txt, prov)


# ------------------------------------------------------------------------------ generation
class Gen:
    def __init__(self, rng, macros=True, includes=True, conds=True, kept=True, pos=True,
                 strings=True, comments=True, max_depth=3, nonascii=True, scenarios=False, crlf=False):
        self.r = rng
        self.crlf = crlf      # line ends written CR LF (where the generator chooses them)
        self.o = dict(macros=macros, includes=includes, conds=conds, kept=kept, pos=pos,
                      strings=strings, comments=comments, nonascii=nonascii, scenarios=scenarios)
        self.max_depth = max_depth
        self.files = []
        self.nfile = 0
        self.defined = []     # macro names possibly defined (object-like, simple)
        self.funs = {}        # function-like: name -> nformals

    def blank(self, need_nl=False):
        if need_nl:
            w = self.r.choice(["\n", " \n", "\n  ", "\n\n", "  \n"])
            return Ws(w.replace("\n", "\r\n") if self.crlf else w)
        return Ws(self.r.choice(BLANKS))

    def plain(self, n):
        """n plain tokens separated by blanks"""
        items = []
        for _ in range(n):
            t = self.r.choice(IDS + PUNCT)
            items += [Tok(t), self.blank()]
        return items

    def comment(self):
        r = self.r
        body = r.choice(["c", "x y", "`notmacro", "\"q", "é中" if self.o["nonascii"] else "u", "* /", ""])
        if r.random() < 0.5:
            return [Cmt("//" + body.replace("\n", " ")), Ws("\r\n" if self.crlf else "\n")]
        return [Cmt("/*" + body.replace("*/", "* /") + "*/"), self.blank()]

    def items(self, depth, n, top_file):
        r = self.r
        out = []
        for _ in range(n):
            x = r.random()
            if x < 0.30:
                out += self.plain(r.randint(1, 3))
            elif x < 0.38 and self.o["comments"]:
                out += self.comment()
            elif x < 0.44 and self.o["strings"]:
                s = r.choice(['"s"', '"a b"', '"`x"', '"\\""', '"é"' if self.o["nonascii"] else '"e"', '"C:\\\\"', '"\\\\"', '"a\\\\b\\n"'])
                # directly followed by a token: trailing trivia of strings is the known class D6
                out += [Str(s), Tok(";"), self.blank()]
            elif x < 0.47 and self.o["strings"]:
                out += [Esc("\\" + r.choice(["ab", "a+b", "x`y", "q/"])), Ws(" "), Tok(";"), self.blank()]
            elif x < 0.57 and self.o["kept"]:
                out += [Kept(r.choice(KEPT)), self.blank(True)]
            elif x < 0.69 and self.o["macros"]:
                out += self.define(depth)
            elif x < 0.74 and self.o["macros"]:
                out += [Undef(r.choice(MACROS)), self.blank(True)]
            elif x < 0.75 and self.o["macros"]:
                out += [UndefAll(), self.blank(True)]
                self.defined, self.funs = [], {}
            elif x < 0.86 and self.o["conds"] and depth < self.max_depth:
                out += self.cond(depth, top_file)
            elif x < 0.93 and self.o["macros"]:
                out += self.usage()
            elif x < 0.97 and self.o["includes"] and depth < self.max_depth:
                out += self.include(depth)
            elif self.o["pos"]:
                out += [Pos(r.choice(["FILE", "LINE"])), self.blank()]
            else:
                out += self.plain(1)
        return out

    def define(self, depth):
        r = self.r
        name = r.choice(MACROS)
        x = r.random()
        if x < 0.15:
            body = None
        elif x < 0.25:
            body = ""      # `define A<space>` : empty/blank body
        elif x < 0.31 and self.o.get("dirbody", True):
            # a body that is itself a directive: takes effect where the macro is used
            other = r.choice([m for m in MACROS if m != name])
            body = r.choice(["`undef " + other, "`define " + other + " " + r.choice(IDS)])
            self.funs.pop(name, None)
            if name not in self.defined:
                self.defined.append(name)
            if body.startswith("`undef") and other in self.defined:
                pass    # may or may not be used before: usages of `other` stay guarded by the reference evaluator
            return [Define(name, None, body), self.blank(True)]
        else:
            toks = []
            for _ in range(r.randint(1, 3)):
                if self.defined and r.random() < 0.25:
                    toks.append("`" + r.choice(self.defined))
                else:
                    toks.append(r.choice(IDS + ["+", "1", "42", ";"]))
            body = " ".join(toks)
        if r.random() < 0.3 and body:
            nf = r.randint(1, 2)
            # (reserved words are legal names of formal arguments: they are lexed under the directive keyword set)
            pool = ["p0", "p1"] if r.random() < 0.7 else r.sample(["type", "input", "bit", "logic", "wire", "p0"], 2)
            formals = [(pool[i], None if r.random() < 0.6 else r.choice(["7", "d"])) for i in range(nf)]
            body = body + " " + " + ".join(f for f, _ in formals)
            self.funs[name] = formals
            if name in self.defined:
                self.defined.remove(name)
            return [Define(name, formals, body), self.blank(True)]
        self.funs.pop(name, None)
        if name not in self.defined:
            self.defined.append(name)
        if body == "":
            return [Define(name, None, ""), self.blank(True)]
        return [Define(name, None, body), self.blank(True)]

    def usage(self):
        r = self.r
        if self.funs and r.random() < 0.4:
            name = r.choice(sorted(self.funs))
            formals = self.funs[name]
            args = [r.choice(["1", "x", "(a,b)", "{c}", "\"s,t\"", " y "]) for _ in formals]
            return [Usage(name, args), r.choice([self.blank(), Tok(";")]), self.blank()]
        if self.defined:
            name = r.choice(self.defined)
            return [Usage(name), r.choice([self.blank(), Tok(";"), Tok("+")]), self.blank()]
        return []

    def cond(self, depth, top_file):
        r = self.r
        names = MACROS + ["UNDEF1", "SV_COV_OK", "__LINE__"]
        saved = (list(self.defined), dict(self.funs))
        body = self.items(depth + 1, r.randint(0, 3), top_file)
        elsifs = []
        for _ in range(r.choice([0, 0, 1, 2])):
            self.defined, self.funs = list(saved[0]), dict(saved[1])
            elsifs.append((r.choice(names), self.items(depth + 1, r.randint(0, 2), top_file),
                           r.choice([" ", "\n", "  \n "])))
        els = None
        if r.random() < 0.6:
            self.defined, self.funs = list(saved[0]), dict(saved[1])
            els = self.items(depth + 1, r.randint(0, 2), top_file)
        # macros defined inside branches may or may not be active afterwards: forget them
        self.defined, self.funs = [], {}
        c = Cond(r.random() < 0.35, r.choice(names), body, elsifs, els)
        c.ws0 = r.choice([" ", "\n", "  \n "])
        c.els_ws = r.choice([" ", "\n", "  \n"])
        return [c, r.choice([Ws("\n"), Ws("  \n"), Ws(" "), Ws("  \n  ")])]

    def include(self, depth):
        r = self.r
        self.nfile += 1
        path = r.choice(["inc%d.svh", "sub/inc%d.svh"]) % self.nfile
        saved = (list(self.defined), dict(self.funs))
        items = self.items(depth + 1, r.randint(0, 4), False)
        self.files.append(File(path, items + [Ws("\n")]))
        return [Ws("\n"), Include(path, r.random() < 0.3), Ws(r.choice(["\n", " \n", "\n\n"]))]

    def newfile(self, items, sub=None):
        self.nfile += 1
        path = (self.r.choice(["inc%d.svh", "sub/inc%d.svh"]) if sub is None else sub) % self.nfile
        self.files.append(File(path, items + [Ws("\n")]))
        return [Ws("\n"), Include(path, self.r.random() < 0.2), Ws(self.r.choice(["\n", " \n", "\n\n"]))]

    def scenario(self):
        """define / change / observe one macro across files and macro bodies: the multi-step histories
        (undef inside an include or a macro body, identical redefinition elsewhere, escaped spellings)"""
        r = self.r
        # (now and then one of the predefined coverage macros: redefining it is an ordinary definition)
        X = r.choice(MACROS) if r.random() < 0.88 else r.choice(["SV_COV_START", "SV_COV_OK", "SV_COV_ERROR"])
        nl = lambda: self.blank(True)
        sp = lambda n: ("\\" + n) if r.random() < 0.25 else n
        b1 = r.choice(IDS)
        out = []
        how = r.choice(["top", "top", "inc", "none", "nested"])
        if how == "top":
            out += [Define(sp(X), None, b1), nl()]
        elif how == "inc":
            out += self.newfile([Define(sp(X), None, b1), nl()])
        elif how == "nested":
            inner = self.newfile([Define(sp(X), None, b1), nl()])
            out += self.newfile(inner)
        M = r.choice([m for m in MACROS if m != X])
        if X.startswith("SV_COV_") and how == "none":
            out += [Define(X, None, b1), nl()]      # make sure it is redefined by the text
        k = r.choice(["undef", "undef_inc", "undef_macro", "undefall_inc", "redef_same", "redef_same_inc", "redef_diff",
                      "redef_diff_inc", "nothing", "undef_nested_inc", "undef_macro_nested", "undefall_macro_inc",
                      "undef_esc", "redef_same_twice"])
        if k == "undef":
            out += [Undef(sp(X)), nl()]
        elif k == "undef_esc":
            out += [Undef("\\" + X), nl()]
        elif k == "undef_inc":
            out += self.newfile([Tok("in_inc"), nl(), Undef(sp(X)), nl()])
        elif k == "undef_nested_inc":
            out += self.newfile(self.newfile([Undef(sp(X)), nl()]) + [Tok("mid"), nl()])
        elif k == "undef_macro":
            out += [Define(M, None, "`undef " + X), nl(), Usage(M), nl()]
        elif k == "undef_macro_nested":
            M2 = r.choice([m for m in MACROS if m not in (X, M)])
            out += [Define(M, None, "`undef " + X), nl(), Define(M2, None, "`" + M), nl(), Usage(M2), nl()]
        elif k == "undefall_inc":
            out += self.newfile([UndefAll(), nl()])
        elif k == "undefall_macro_inc":
            out += self.newfile([Define(M, None, "`undef " + X), nl()]) + [Usage(M), nl()]
        elif k == "redef_same":
            out += [Define(sp(X), None, b1), nl()]
        elif k == "redef_same_twice":
            out += [Tok("pad"), nl(), Define(X, None, b1), nl(), Tok("pad2"), nl(), Define(X, None, b1), nl()]
        elif k == "redef_same_inc":
            out += self.newfile([Tok("hdr"), nl(), Define(sp(X), None, b1), nl()])
        elif k == "redef_diff":
            out += [Define(sp(X), None, r.choice(IDS) + " + 1"), nl()]
        elif k == "redef_diff_inc":
            out += self.newfile([Define(sp(X), None, r.choice(IDS) + " + 2"), nl()])
        # observe
        for _ in range(r.randint(1, 2)):
            c = Cond(r.random() < 0.4, sp(X), [Tok("on_" + X), nl()], [], [Tok("off_" + X), nl()])
            c.ws0, c.els_ws = r.choice([" ", "\n", " \n"]), r.choice([" ", "\n"])
            if r.random() < 0.3:
                c.elsifs = [(sp(r.choice(MACROS)), [Tok("alt"), nl()], r.choice([" ", "\n"]))]
            out += [c, nl()]
            if r.random() < 0.5:
                out += [Usage(X), Ws(" "), Tok(";"), nl()]
            elif r.random() < 0.3:
                out += [Usage("\\" + X), Ws(" "), Tok(";"), nl()]
        self.defined, self.funs = [], {}
        return out

    def program(self, n=None):
        r = self.r
        n = n if n is not None else r.randint(1, 8)
        if self.o.get("scenarios"):
            items = []
            for _ in range(r.randint(1, 3)):
                items += self.items(0, r.randint(0, 2), True) + self.scenario()
            top = File("top.sv", items)
            return [top] + self.files
        items = self.items(0, n, True)
        top = File("top.sv", items)
        return [top] + self.files
