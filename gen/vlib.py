"""Shared helpers for the check driver: case files, harness/model runners, evidence."""
import json, os, subprocess, sys, time, hashlib, random, shutil

VERIF = os.path.dirname(os.path.dirname(os.path.abspath(__file__)))
BUILD = os.path.join(VERIF, "build")
REPO = "/repo"
SVH = os.path.join(BUILD, "cargo", "debug", "svh")
ENV = dict(os.environ, CARGO_NET_OFFLINE="true")


def hx(s):
    if isinstance(s, str):
        s = s.encode("utf-8")
    return "x" + s.hex()


def unhx(t):
    assert t.startswith("x"), t
    return bytes.fromhex(t[1:])


def ohx(s):
    return "-" if s is None else hx(s)


class Case:
    def __init__(self, cid):
        self.id = str(cid)
        self.lines = []

    def add(self, *toks):
        self.lines.append(" ".join(str(t) for t in toks))
        return self

    def text(self):
        return "case %s\n%s\nend\n" % (self.id, "\n".join(self.lines))


def write_cases(path, cases):
    with open(path, "w") as f:
        for c in cases:
            f.write(c.text())


def parse_out(path):
    """-> {case id: [lines]}"""
    res, cur, cid = {}, None, None
    with open(path) as f:
        for line in f:
            line = line.rstrip("\n")
            if line.startswith("case "):
                cid = line[5:].strip()
                cur = []
            elif line == "end":
                if cid is not None:
                    res[cid] = cur
                cid, cur = None, None
            elif cur is not None:
                cur.append(line)
    return res


def sh(cmd, timeout=None, cwd=None, env=None, check=False):
    p = subprocess.run(cmd, shell=isinstance(cmd, str), cwd=cwd, env=env or ENV,
                       stdout=subprocess.PIPE, stderr=subprocess.STDOUT, timeout=timeout)
    out = p.stdout.decode("utf-8", "replace")
    if check and p.returncode != 0:
        raise RuntimeError("command failed (%d): %s\n%s" % (p.returncode, cmd, out[-4000:]))
    return p.returncode, out


def build_harness():
    """Rebuild the harness against /repo's current working tree (hooks on)."""
    t = time.time()
    rc, out = sh("cargo build --offline 2>&1", cwd=os.path.join(VERIF, "harness"), timeout=3000)
    if rc != 0:
        raise RuntimeError("harness build failed:\n" + out[-6000:])
    return time.time() - t


def run_harness(cmd, cases, tag, timeout=600, mem_kb=None):
    """Run svh on a list of cases; returns {id: lines}.  A crash/timeout of the whole batch is
    bisected so that one aborting case (stack overflow) does not hide the others."""
    os.makedirs(os.path.join(BUILD, "cases"), exist_ok=True)
    inp = os.path.join(BUILD, "cases", "%s.%s.in" % (tag, cmd))
    outp = os.path.join(BUILD, "cases", "%s.%s.impl.out" % (tag, cmd))
    write_cases(inp, cases)
    if os.path.exists(outp):
        os.remove(outp)
    sb = os.path.join(BUILD, "sandbox", "%s.%d" % (tag, os.getpid()))
    try:
        if mem_kb:
            # address-space limit for inputs known to grow without bound (an allocation failure aborts the process)
            rc, out = sh("ulimit -v %d; exec %s %s %s %s %s" % (mem_kb, SVH, cmd, inp, outp, sb), timeout=timeout)
        else:
            rc, out = sh([SVH, cmd, inp, outp, sb], timeout=timeout)
    except subprocess.TimeoutExpired:
        rc, out = -9, "timeout"
    shutil.rmtree(sb, ignore_errors=True)
    if rc == 0 and os.path.exists(outp):
        return parse_out(outp)
    if len(cases) == 1:
        return {cases[0].id: ["abort rc=%s" % rc]}
    mid = len(cases) // 2
    r = run_harness(cmd, cases[:mid], tag + "a", timeout, mem_kb)
    r.update(run_harness(cmd, cases[mid:], tag + "b", timeout, mem_kb))
    return r


def seed():
    try:
        return int(os.environ.get("VERIF_SEED", "20260926"))
    except ValueError:
        return 20260926


def sha(s):
    if isinstance(s, str):
        s = s.encode()
    return hashlib.sha256(s).hexdigest()[:16]


# ---------------------------------------------------------------------------- Coq / OCaml
COQ = os.path.join(VERIF, "coq")
QFLAGS = ["-Q", "Base", "SV", "-Q", "PP", "SV", "-Q", "Nom", "SV", "-Q", "Tree", "SV",
          "-Q", "API", "SV", "-Q", "Props", "SV", "-Q", "Gen", "SV"]
VMODEL = os.path.join(BUILD, "ocaml", "_build", "default", "vmodel.exe")


def coq_project():
    """(Re)write _CoqProject with every .v present and refresh the Makefile."""
    os.makedirs(os.path.join(COQ, "Gen"), exist_ok=True)
    files = []
    for d in ["Base", "PP", "Nom", "Tree", "API", "Props", "Gen"]:
        dd = os.path.join(COQ, d)
        if os.path.isdir(dd):
            for f in sorted(os.listdir(dd)):
                if f.endswith(".v"):
                    files.append("%s/%s" % (d, f))
    body = "".join("-Q %s SV\n" % d for d in ["Base", "PP", "Nom", "Tree", "API", "Props", "Gen"])
    body += "\n".join(files) + "\n"
    p = os.path.join(COQ, "_CoqProject")
    old = open(p).read() if os.path.exists(p) else ""
    if old != body or not os.path.exists(os.path.join(COQ, "Makefile")):
        open(p, "w").write(body)
        sh("coq_makefile -f _CoqProject -o Makefile", cwd=COQ, check=True)
    return files


def coq_make(targets=None, timeout=3000):
    """make the given .vo targets (default: all).  Returns (ok, output)."""
    coq_project()
    t = " ".join(targets) if targets else ""
    rc, out = sh("timeout %d make -j16 %s 2>&1" % (timeout, t), cwd=COQ, timeout=timeout + 60)
    return rc == 0, out


# the files the executable (extracted) models consist of: definitions only, no proofs
MODEL_FILES = ["PP/Range.v", "PP/Origin.v", "PP/Bytes.v", "PP/Eval.v", "PP/SkipCheck.v", "Tree/Tree.v", "Tree/Iter.v", "Nom/Peg.v"]
MODEL_TARGETS = [f + "o" for f in MODEL_FILES]


def build_model():
    """Extract the executable models and build the OCaml driver."""
    ob = os.path.join(BUILD, "ocaml")
    os.makedirs(ob, exist_ok=True)
    # only what the extraction needs: a proof that no longer checks (or a file under construction) elsewhere in the
    # development must not take the executable model down with it
    ok, out = coq_make(MODEL_TARGETS)
    if not ok:
        raise RuntimeError("coq build of the executable model failed:\n" + out[-6000:])
    q = []
    for d in ["Base", "PP", "Nom", "Tree", "API", "Props", "Gen"]:
        q += ["-Q", os.path.join(COQ, d), "SV"]
    for f in os.listdir(ob):
        if f.endswith(".ml") or f.endswith(".mli"):
            os.remove(os.path.join(ob, f))
    sh(["coqc"] + q + ["-o", os.path.join(ob, "Extract.vo"), os.path.join(COQ, "Extract", "Extract.v")],
       cwd=ob, check=True, timeout=1200)
    for f in os.listdir(os.path.join(VERIF, "ocaml")):
        shutil.copy(os.path.join(VERIF, "ocaml", f), os.path.join(ob, f))
    env = dict(ENV, DUNE_CACHE="disabled")
    sh("dune build ./vmodel.exe 2>&1", cwd=ob, env=env, check=True, timeout=1200)


VPEG = os.path.join(BUILD, "ocaml_peg", "_build", "default", "vpeg.exe")
PEG_TARGETS = ["Nom/Exec.vo", "Gen/GenGrammar.vo", "Gen/GenPrims.vo"]


def build_peg():
    """Extract the executable interpretation of the regenerated grammar (Nom/Exec.v) and build its driver."""
    ob = os.path.join(BUILD, "ocaml_peg")
    os.makedirs(ob, exist_ok=True)
    ok, out = coq_make(PEG_TARGETS)
    if not ok:
        raise RuntimeError("coq build of the executable grammar failed:\n" + out[-6000:])
    q = []
    for d in ["Base", "PP", "Nom", "Tree", "API", "Props", "Gen"]:
        q += ["-Q", os.path.join(COQ, d), "SV"]
    for f in os.listdir(ob):
        if f.endswith(".ml") or f.endswith(".mli"):
            os.remove(os.path.join(ob, f))
    sh(["coqc"] + q + ["-o", os.path.join(ob, "ExtractPeg.vo"), os.path.join(COQ, "Extract", "ExtractPeg.v")],
       cwd=ob, check=True, timeout=1200)
    for f in os.listdir(os.path.join(VERIF, "ocaml_peg")):
        shutil.copy(os.path.join(VERIF, "ocaml_peg", f), os.path.join(ob, f))
    env = dict(ENV, DUNE_CACHE="disabled")
    sh("ulimit -s unlimited; dune build ./vpeg.exe 2>&1", cwd=ob, env=env, check=True, timeout=1800)


def run_peg(cases, tag, timeout=600):
    inp = os.path.join(BUILD, "cases", "%s.peg.in" % tag)
    outp = os.path.join(BUILD, "cases", "%s.peg.model.out" % tag)
    os.makedirs(os.path.dirname(inp), exist_ok=True)
    write_cases(inp, cases)
    if os.path.exists(outp):
        os.remove(outp)
    try:
        rc, out = sh("ulimit -s unlimited; exec %s %s %s" % (VPEG, inp, outp), timeout=timeout)
    except subprocess.TimeoutExpired:
        rc, out = -9, "timeout"
    if rc == 0 and os.path.exists(outp):
        return parse_out(outp)
    if len(cases) == 1:
        return {cases[0].id: ["model-abort rc=%s %s" % (rc, out[-200:].replace("\n", " "))]}
    mid = len(cases) // 2
    r = run_peg(cases[:mid], tag + "a", timeout)
    r.update(run_peg(cases[mid:], tag + "b", timeout))
    return r


def run_model(cmd, cases, tag, timeout=600):
    inp = os.path.join(BUILD, "cases", "%s.%s.in" % (tag, cmd))
    outp = os.path.join(BUILD, "cases", "%s.%s.model.out" % (tag, cmd))
    os.makedirs(os.path.dirname(inp), exist_ok=True)
    write_cases(inp, cases)
    if os.path.exists(outp):
        os.remove(outp)
    try:
        rc, out = sh("ulimit -s unlimited; exec %s %s %s %s" % (VMODEL, cmd, inp, outp), timeout=timeout)
    except subprocess.TimeoutExpired:
        rc, out = -9, "timeout"
    if rc == 0 and os.path.exists(outp):
        return parse_out(outp)
    if len(cases) == 1:
        return {cases[0].id: ["model-abort rc=%s %s" % (rc, out[-200:].replace("\n", " "))]}
    mid = len(cases) // 2
    r = run_model(cmd, cases[:mid], tag + "a", timeout)
    r.update(run_model(cmd, cases[mid:], tag + "b", timeout))
    return r
