"""Reference reading of IEEE 1800-2017 22.5.1 (text macros) for the generated define/usage programs:
an independent scanner-based evaluator used as the search oracle of C05.  Shares no code with the Coq
model or with sv-parser.  Output: the text with directives processed; compared on non-blank characters."""
import re

ID0 = "ABCDEFGHIJKLMNOPQRSTUVWXYZabcdefghijklmnopqrstuvwxyz_"
IDC = ID0 + "0123456789"
IDD = IDC + "$"


class RefErr(Exception):
    def __init__(self, kind, payload=None):
        self.kind, self.payload = kind, payload


def skip_string(t, i):
    j = i + 1
    while j < len(t):
        if t[j] == "\\":
            j += 2
        elif t[j] == '"':
            return j + 1
        else:
            j += 1
    return len(t)


def split_args(t, i):
    """t[i] == '(' : -> (list of raw args, index after ')') or None if unbalanced"""
    depth, j, cur, args = 0, i, [], []
    close = {"(": ")", "[": "]", "{": "}"}
    stack = []
    j = i + 1
    stack.append(")")
    while j < len(t):
        c = t[j]
        if c == '"':
            k = skip_string(t, j)
            cur.append(t[j:k]); j = k; continue
        if c in close:
            stack.append(close[c]); cur.append(c)
        elif c in ")]}":
            if not stack or stack[-1] != c:
                return None
            stack.pop()
            if not stack:
                args.append("".join(cur))
                return args, j + 1
            cur.append(c)
        elif c == "," and len(stack) == 1:
            args.append("".join(cur)); cur = []
        else:
            cur.append(c)
        j += 1
    return None


def substitute(body, amap):
    out, i = [], 0
    n = len(body)
    # white space (and line continuations) between the name and the body are not part of it
    while i < n and (body[i] in " \t\f\r\n" or (body[i] == "\\" and i + 1 < n and body[i + 1] == "\n")):
        i += 2 if body[i] == "\\" else 1
    while i < n:
        c = body[i]
        if body.startswith("``", i):
            i += 2
        elif body.startswith('`\\`"', i):
            out.append('\\"'); i += 4
        elif body.startswith('`"', i):
            out.append('"'); i += 2
        elif c == '"':
            k = skip_string(body, i)
            out.append(body[i:k]); i = k
        elif body.startswith("/*", i):
            k = body.find("*/", i + 2)
            k = n if k < 0 else k + 2
            out.append(body[i:k]); i = k        # a block comment is ordinary macro text
        elif body.startswith("//", i):
            k = body.find("\n", i)
            i = n if k < 0 else k
        elif c == "\\" and body.startswith("\\\r\n", i):
            out.append("\r\n"); i += 3
        elif c == "\\" and i + 1 < n and body[i + 1] in "\r\n":
            out.append(body[i + 1]); i += 2
        elif c in IDC:
            k = i
            while k < n and body[k] in IDC:
                k += 1
            w = body[i:k]
            out.append(amap.get(w, w)); i = k
        else:
            out.append(c); i += 1
    return "".join(out)


class Ref:
    def __init__(self, defs=None, limit=64):
        self.defs = dict(defs or {})     # name -> None | (formals [(name, default)], body or None)
        self.limit = limit
        self.d6 = False      # a string literal / escaped identifier is followed by a comment or a directive (known class D6)

    def note_trivia(self, t, k):
        while k < len(t) and t[k] in " \t\r\n\f":
            k += 1
        if t.startswith("`", k) or t.startswith("//", k) or t.startswith("/*", k):
            self.d6 = True

    def run(self, t, depth=0):
        out, i, n = [], 0, len(t)
        while i < n:
            c = t[i]
            if c == '"':
                k = skip_string(t, i); out.append(t[i:k]); i = k
                self.note_trivia(t, k)
            elif t.startswith("//", i):
                k = t.find("\n", i); k = n if k < 0 else k + 1
                out.append(t[i:k]); i = k
            elif t.startswith("/*", i):
                k = t.find("*/", i + 2); k = n if k < 0 else k + 2
                out.append(t[i:k]); i = k
            elif c == "\\":
                k = i
                while k < n and t[k] not in " \t\r\n":
                    k += 1
                out.append(t[i:k]); i = k
                self.note_trivia(t, k)
            elif c == "`":
                m = re.compile(r"`define[ \t]+([A-Za-z_][A-Za-z0-9_$]*)").match(t, i)
                if m:
                    i = self.do_define(t, i, m, out)
                    continue
                m = re.compile(r"`undef[ \t]+([A-Za-z_][A-Za-z0-9_$]*)").match(t, i)
                if m:
                    self.defs.pop(m.group(1), None)
                    out.append(m.group(0)); i = m.end(); continue
                m = re.compile(r"`([A-Za-z_][A-Za-z0-9_$]*)").match(t, i)
                if not m:
                    out.append(c); i += 1; continue
                i = self.do_usage(t, m, out, depth)
            else:
                out.append(c); i += 1
        return "".join(out)

    def do_define(self, t, i, m, out):
        name = m.group(1)
        j = m.end()
        formals = None
        if j < len(t) and t[j] == "(":
            r = split_args(t, j)
            ok = r is not None
            fl = []
            if ok:
                for a in r[0]:
                    f, d = (a.split("=", 1) + [None])[:2] if "=" in a else (a, None)
                    if not re.fullmatch(r"\s*[A-Za-z_][A-Za-z0-9_$]*\s*", f):
                        ok = False      # 22.5.1: a formal list holds at least one simple identifier; else it is macro text
                        break
                    fl.append((f.strip(), None if d is None else d.strip()))
            if ok:
                formals, j = fl, r[1]
        # body: to the end of the line, continuation lines included
        k = j
        while k < len(t):
            if t[k] == "\\" and k + 1 < len(t):
                k += 3 if t.startswith("\\\r\n", k) else 2
            elif t[k] in "\r\n":
                break
            else:
                k += 1
        body = t[j:k]
        if name not in ("__LINE__", "__FILE__"):
            self.defs[name] = (formals or [], body if body.strip(" \t") != "" or body else None)
        out.append(t[i:k])
        return k

    def do_usage(self, t, m, out, depth):
        name = m.group(1)
        j = m.end()
        if depth + 1 > self.limit:
            raise RefErr("ExceedRecursiveLimit")
        args = None
        # optional white space, then an argument list
        k = j
        while k < len(t) and t[k] in " \t\r\n":
            k += 1
        if k < len(t) and t[k] == "(":
            r = split_args(t, k)
            if r is not None:
                args, j2 = r
                args = [a.strip() for a in args]
            else:
                j2 = j
        else:
            j2 = j
        if name not in self.defs:
            raise RefErr("DefineNotFound", name)
        d = self.defs[name]
        if d is None:
            return j2 if args is not None else j
        formals, body = d
        if formals and args is None:
            raise RefErr("DefineNoArgs", name)
        amap = {}
        for idx, (f, dflt) in enumerate(formals):
            if args is not None and idx < len(args):
                amap[f] = args[idx] if args[idx] != "" else (dflt if dflt is not None else "")
            elif dflt is not None:
                amap[f] = dflt
            else:
                raise RefErr("DefineArgNotFound", f)
        if body is None:
            return j2 if args is not None else j
        text = substitute(body, amap)
        if not formals and args is not None:
            text += t[k:j2]          # the parenthesis is ordinary text after an object-like macro
        out.append(self.run(text, depth + 1))
        return j2 if args is not None else j
