"""Trees as printed by the harness (`tree` line: +Kind ... - / @off:len:line) and the direct oracles on them."""


def parse_tree_line(line):
    """-> root node ('N', kind, children) ; leaves ('L', off, len, line)"""
    toks = line.split()[1:]
    stack = [("N", "<root>", [])]
    for t in toks:
        if t[0] == "+":
            n = ("N", t[1:], [])
            stack[-1][2].append(n)
            stack.append(n)
        elif t == "-":
            stack.pop()
        elif t[0] == "@":
            o, l, ln = t[1:].split(":")
            stack[-1][2].append(("L", int(o), int(l), int(ln)))
    return stack[0][2][0] if stack[0][2] else None


def leaves(t):
    if t[0] == "L":
        return [t]
    return [x for c in t[2] for x in leaves(c)]


def preorder(t):
    yield t
    if t[0] == "N":
        for c in t[2]:
            yield from preorder(c)


def tiling_fault(tree, text, whole):
    """None | description.  text: bytes of the preprocessed text"""
    if tree is None:
        return "no tree"
    pos = 0
    for l in leaves(tree):
        _, off, ln, line = l
        if ln == 0:
            return "empty leaf at offset %d" % off
        if off != pos:
            return "leaf at offset %d does not follow the previous leaf (which ends at %d)" % (off, pos)
        if off + ln > len(text):
            return "leaf %d+%d runs past the end of the text (%d)" % (off, ln, len(text))
        for b in (off, off + ln):
            if b < len(text) and (text[b] & 0xC0) == 0x80:
                return "leaf boundary %d is inside a multi-byte character" % b
        exp = 1 + text[:off].count(b"\n")
        if line != exp:
            return "leaf at offset %d records line %d, %d newlines precede it" % (off, line, exp - 1)
        pos = off + ln
    if whole and pos != len(text):
        return "the leaves end at %d, the text has %d bytes" % (pos, len(text))
    return None


def skeleton(t, drop=("WhiteSpace",), text=None):
    """whitespace-free shape: nested (kind, [children]) with token texts for leaves"""
    if t[0] == "L":
        return text[t[1]:t[1] + t[2]].decode("utf-8", "replace") if text is not None else ("L", t[2])
    if t[1] in drop:
        return None
    return (t[1], [s for s in (skeleton(c, drop, text) for c in t[2]) if s is not None])
