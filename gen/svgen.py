"""Reference sentences of the covered Annex A subset with the classification each construct must receive.
A sentence is a token list (text, kind) rendered with random layout; expectations are (node kind, identifier)."""
import random

KW_PREFIXED = ["module_x", "end1", "wirex", "begin$x", "endmodule2", "posedge1", "join5", "end$1", "endcase4", "endtask3", "reg_", "inputs",
               "for1", "if_", "case0", "assign1", "logic$", "int9", "fork2", "always_x", "endfunction7", "generate0", "wire$"]
PLAIN = ["a", "b1", "clk", "rst_n", "data", "q", "d", "sel", "Z9", "_u", "x_y"]
ESC = ["\\esc+x", "\\a.b", "\\1st", "\\end"]
# words that are units, system names or method names elsewhere in the grammar but plain identifiers here
UNITLIKE = ["s", "ms", "us", "ns", "ps", "fs", "step", "std", "randomize", "sample", "PATHPULSE", "e1", "x1", "z0", "b0", "h1", "d2", "o7"]


class Gen:
    def __init__(self, r):
        self.r = r
        self.toks = []          # (text, kind) kind in id / kw / sym / num / str
        self.exp = []           # (node kind, identifier text)
        self.used = set()

    # ------------------------------------------------------------ names
    def name(self, esc_ok=True):
        r = self.r
        for _ in range(50):
            x = r.random()
            n = (r.choice(KW_PREFIXED) if x < 0.4 else r.choice(UNITLIKE) if x < 0.48 else r.choice(PLAIN) + str(r.randint(0, 99)) if x < 0.9
                 else (r.choice(ESC) if esc_ok else "p"))
            if n not in self.used:
                self.used.add(n)
                return n
        n = "n%d" % len(self.used); self.used.add(n); return n

    def id(self, n):
        self.toks.append((n, "id"))

    def kw(self, *ws):
        for w in ws:
            self.toks.append((w, "kw"))

    def sym(self, *ss):
        for s in ss:
            self.toks.append((s, "sym"))

    def num(self):
        """a number per Annex A.8.7: every base in both cases, the signedness marker s/S, x/z/? digits, underscores,
        blanks between size, base and value, unbased unsized literals, fixed-point and exponent reals"""
        r = self.r
        x = r.random()
        if x < 0.3:
            t = r.choice(["0", "1", "42", "1_000", "007"])
        elif x < 0.75:
            base = r.choice("dDbBoOhH")
            sgn = r.choice(["", "", "s", "S"])
            digs = {"d": "0123456789", "b": "01", "o": "01234567", "h": "0123456789abcdefABCDEF"}[base.lower()]
            if base.lower() == "d" and r.random() < 0.2:
                val = r.choice(["x", "X", "z", "Z", "?", "x_", "z__"])
            else:
                val = r.choice(digs) + "".join(r.choice(digs + "_" + ("xXzZ?" if base.lower() != "d" else "")) for _ in range(r.randint(0, 5)))
            size = r.choice(["", "", "8", "16", "1_6", "32"])
            sp = lambda: r.choice(["", "", "", " "])
            t = size + (sp() if size else "") + "'" + sgn + base + sp() + val
        elif x < 0.85:
            t = r.choice(["'0", "'1", "'x", "'X", "'z", "'Z"])
        else:
            t = r.choice(["3.5", "1e3", "1.2E3", "2.5e-3", "1_0.0_1e+2", "0.1", "12E0"])
        self.toks.append((t, "num"))

    # ------------------------------------------------------------ expressions
    def expr(self, names, depth=0):
        r = self.r
        x = r.random()
        if depth > 2 or x < 0.35:
            if names and r.random() < 0.7:
                self.id(r.choice(names))
            else:
                self.num()
        elif x < 0.55:
            self.sym("(") ; self.expr(names, depth + 1); self.sym(")")
        elif x < 0.8:
            self.expr(names, depth + 1); self.sym(r.choice(["+", "-", "&", "|", "^", "==", "&&", "<", "<<"])); self.expr(names, depth + 1)
        elif x < 0.88:
            # unary_operator primary: the operand is a primary, not another unary expression
            self.sym(r.choice(["~", "!", "-", "&"]))
            if names and r.random() < 0.6:
                self.id(r.choice(names))
            else:
                self.sym("("); self.expr(names, depth + 2); self.sym(")")
        elif x < 0.92:
            self.expr(names, depth + 1); self.sym("?"); self.expr(names, depth + 1); self.sym(":"); self.expr(names, depth + 1)
        elif x < 0.95:
            self.sym("{"); self.expr(names, depth + 1); self.sym(","); self.expr(names, depth + 1); self.sym("}")
        else:
            self.primary_zoo(names, depth)

    def primary_zoo(self, names, depth):
        """the less common primaries of A.8.4: casts (literal, type and signing sized), replication, selects, calls"""
        r = self.r
        y = r.random()
        v = r.choice(names) if names else None
        if y < 0.3:
            # casting_type ' ( expression ): a literal size, a simple type, a signing
            self.toks.append((r.choice(["8", "16", "1"]), "num")) if r.random() < 0.5 else self.kw(r.choice(["int", "signed", "unsigned", "byte"]))
            self.sym("'"); self.sym("("); self.expr(names, depth + 2); self.sym(")")
        elif y < 0.45:
            self.sym("{"); self.toks.append((r.choice(["2", "3"]), "num")); self.sym("{")
            z = r.random()
            if z < 0.3 and v:        # an operand that no constant expression can be (A.8.3: inc_or_dec_expression)
                self.id(v); self.sym(r.choice(["++", "--"]))
            elif z < 0.45 and v:
                self.sym(r.choice(["++", "--"])); self.id(v)
            else:
                self.expr(names, depth + 2)
            self.sym("}"); self.sym("}")
        elif y < 0.65 and v:
            self.id(v); self.sym("[")
            if r.random() < 0.5:
                self.toks.append((r.choice(["3", "7"]), "num")); self.sym(":"); self.toks.append(("0", "num"))
            else:
                self.expr(names, depth + 2); self.sym(r.choice(["+:", "-:"])); self.toks.append(("2", "num"))
            self.sym("]")
        elif y < 0.8:
            self.id(r.choice(PLAIN) + "_f"); self.sym("(")
            for i in range(r.randint(0, 2)):
                if i:
                    self.sym(",")
                self.expr(names, depth + 2)
            self.sym(")")
        elif y < 0.9:
            self.toks.append((r.choice(["$clog2", "$bits", "$signed"]), "id")); self.sym("("); self.expr(names, depth + 2); self.sym(")")
        else:
            self.toks.append(('"s %d"', "str"))

    # ------------------------------------------------------------ statements
    def stmt(self, vars_, depth=0):
        r = self.r
        x = r.random()
        if not vars_:
            self.sym(";"); return
        if depth > 2 or x < 0.45:
            self.id(r.choice(vars_)); self.sym(r.choice(["=", "<="])); self.expr(vars_); self.sym(";")
        elif x < 0.6:
            self.kw("begin")
            for _ in range(r.randint(1, 3)):
                self.stmt(vars_, depth + 1)
            self.kw("end")
        elif x < 0.75:
            self.kw("if"); self.sym("("); self.expr(vars_); self.sym(")"); self.stmt(vars_, depth + 1)
            if r.random() < 0.5:
                self.kw("else"); self.stmt(vars_, depth + 1)
        elif x < 0.85:
            self.kw("case"); self.sym("("); self.expr(vars_); self.sym(")")
            for _ in range(r.randint(1, 2)):
                if r.random() < 0.5:
                    self.id(r.choice(vars_))
                else:
                    self.num()
                self.sym(":"); self.stmt(vars_, depth + 2)
            self.kw("default"); self.sym(":"); self.stmt(vars_, depth + 2)
            self.kw("endcase")
        elif x < 0.92:
            self.kw("fork")
            for _ in range(r.randint(1, 2)):
                self.stmt(vars_, depth + 2)
            self.kw("join")
        else:
            self.sym("@"); self.sym("("); self.kw(r.choice(["posedge", "negedge"])); self.id(r.choice(vars_)); self.sym(")"); self.stmt(vars_, depth + 1)

    # ------------------------------------------------------------ module items
    def module(self):
        r = self.r
        kind = r.choice(["module", "module", "module", "interface", "program"])
        name = self.name(esc_ok=False)
        nports = r.randint(0, 3)
        ansi = r.random() < 0.7 or nports == 0       # `()` is an (empty) ANSI port list
        self.kw(kind); self.id(name)
        self.exp.append(({"module": "ModuleDeclarationAnsi" if ansi else "ModuleDeclarationNonansi",
                          "interface": "InterfaceDeclarationAnsi" if ansi else "InterfaceDeclarationNonansi",
                          "program": "ProgramDeclarationAnsi" if ansi else "ProgramDeclarationNonansi"}[kind], name))
        params, ports, vars_ = [], [], []
        if r.random() < 0.5:
            self.sym("#", "(")
            for i in range(r.randint(1, 2)):
                if i:
                    self.sym(",")
                p = self.name(esc_ok=False)
                self.kw("parameter"); self.id(p); self.sym("="); self.num()
                params.append(p); self.exp.append(("ParamAssignment", p))
            self.sym(")")
        pn = [self.name() for _ in range(nports)]
        self.sym("(")
        for i, p in enumerate(pn):
            if i:
                self.sym(",")
            if ansi:
                self.kw(r.choice(["input", "output", "inout"]))
                if r.random() < 0.5:
                    self.kw(r.choice(["wire", "logic"]))
                if r.random() < 0.4:
                    self.sym("["); self.num(); self.sym(":"); self.num(); self.sym("]")
                self.exp.append(("AnsiPortDeclaration", p))
            self.id(p)
        self.sym(")"); self.sym(";")
        if not ansi:
            for p in pn:
                self.kw(r.choice(["input", "output"])); self.id(p); self.sym(";")
        vars_ += pn
        for _ in range(r.randint(1, 6)):
            x = r.random()
            if x < 0.2:
                n = self.name(); self.kw(r.choice(["wire", "tri"]));
                if r.random() < 0.4:
                    self.sym("["); self.num(); self.sym(":"); self.num(); self.sym("]")
                self.id(n); self.sym(";"); vars_.append(n); self.exp.append(("NetDeclAssignment", n))
            elif x < 0.4:
                n = self.name(); self.kw(r.choice(["reg", "logic", "integer", "bit"])); self.id(n)
                if r.random() < 0.3:
                    self.sym("="); self.num()
                self.sym(";"); vars_.append(n); self.exp.append(("VariableDeclAssignment", n))
            elif x < 0.5 and vars_:
                self.kw("assign")
                if r.random() < 0.35:      # a delay: integer, fixed-point or exponent real, or a time literal
                    self.sym("#"); self.toks.append((r.choice(["1", "2.5", "0.5", "3.0", "1e3", "2.5e-1", "10ns", "1.5ps", "7"]), "num"))
                self.id(r.choice(vars_)); self.sym("="); self.expr(vars_ + params); self.sym(";")
                self.exp.append(("ContinuousAssign", None))
            elif x < 0.62 and vars_:
                self.kw(r.choice(["always", "always_comb", "always_ff"]) if kind != "program" else "initial")
                if self.toks[-1][0] in ("always", "always_ff"):
                    self.sym("@"); self.sym("("); self.kw("posedge"); self.id(r.choice(vars_)); self.sym(")")
                self.stmt(vars_)
            elif x < 0.7 and vars_:
                self.kw("initial"); self.stmt(vars_)
            elif x < 0.78 and kind == "module":
                self.instantiation(vars_, params)
            elif x < 0.86:
                f = self.name(esc_ok=False); arg = self.name()
                self.kw("function"); self.kw(r.choice(["automatic", "logic", "int"])) if r.random() < 0.5 else None
                self.id(f); self.sym("("); self.kw("input"); self.id(arg); self.sym(")"); self.sym(";")
                self.id(f); self.sym("="); self.expr([arg]); self.sym(";")
                self.kw("endfunction")
                self.exp.append(("FunctionDeclaration", f))
            elif x < 0.92:
                t = self.name(esc_ok=False); arg = self.name()
                self.kw("task"); self.id(t); self.sym("("); self.kw("input"); self.id(arg); self.sym(")"); self.sym(";")
                self.stmt([arg] + vars_)
                self.kw("endtask")
                self.exp.append(("TaskDeclaration", t))
            elif kind == "module" and vars_ and r.random() < 0.5:
                g = self.name(esc_ok=False)
                self.kw("generate"); self.kw("if"); self.sym("("); self.num(); self.sym(")"); self.kw("begin"); self.sym(":"); self.id(g)
                n = self.name(); self.kw("wire"); self.id(n); self.sym(";"); self.exp.append(("NetDeclAssignment", n))
                if r.random() < 0.5:
                    self.instantiation(vars_, params)
                self.kw("end"); self.kw("endgenerate")
                self.exp.append(("GenerateBlock", g))
            elif kind == "module" and vars_:
                self.misc_item(vars_, params)
        self.kw("end" + kind)

    def connections(self, vars_):
        r = self.r
        self.sym("(")
        x = r.random()
        if not vars_ or x < 0.15:
            pass
        elif x < 0.5:
            for i in range(r.randint(1, 2)):
                if i:
                    self.sym(",")
                self.sym("."); self.id(r.choice(PLAIN)); self.sym("("); self.expr(vars_); self.sym(")")
        elif x < 0.8:
            for i in range(r.randint(1, 3)):
                if i:
                    self.sym(",")
                self.expr(vars_)
        elif x < 0.9:
            self.sym(".*")
        else:
            self.sym("."); self.id(r.choice(vars_))
        self.sym(")")

    def instantiation(self, vars_, params):
        """module_instantiation: [#(...)] instance [range] (connections) {, instance ...}"""
        r = self.r
        m = self.name(esc_ok=False)
        self.id(m)
        self.exp.append(("ModuleInstantiation", m))
        x = r.random()
        if x < 0.2:
            self.sym("#", "("); self.num(); self.sym(")")
        elif x < 0.4:
            self.sym("#", "("); self.sym("."); self.id(r.choice(PLAIN)); self.sym("("); self.num(); self.sym(")"); self.sym(")")
        for i in range(r.choice([1, 1, 1, 2])):
            if i:
                self.sym(",")
            inst = self.name()
            self.id(inst)
            if r.random() < 0.35:
                self.sym("["); self.num(); self.sym(":"); self.num(); self.sym("]")
            self.connections(vars_)
            self.exp.append(("HierarchicalInstance", inst))
        self.sym(";")

    def misc_item(self, vars_, params):
        r = self.r
        x = r.random()
        if x < 0.2:
            p = self.name(esc_ok=False)
            self.kw("localparam"); self.id(p); self.sym("="); self.num(); self.sym(";")
            self.exp.append(("ParamAssignment", p)); params.append(p)
        elif x < 0.4:
            g = self.name()
            self.kw(r.choice(["and", "or", "nand", "xor"])); self.id(g); self.sym("(")
            self.id(r.choice(vars_)); self.sym(","); self.id(r.choice(vars_)); self.sym(","); self.id(r.choice(vars_))
            self.sym(")"); self.sym(";")
            self.exp.append(("NInputGateInstance", g))
        elif x < 0.6:
            gv, blk = self.name(esc_ok=False), self.name(esc_ok=False)
            self.kw("genvar"); self.id(gv); self.sym(";")
            self.kw("for"); self.sym("("); self.id(gv); self.sym("="); self.num(); self.sym(";"); self.id(gv); self.sym("<"); self.num()
            self.sym(";"); self.id(gv); self.sym("="); self.id(gv); self.sym("+"); self.num(); self.sym(")")
            self.kw("begin"); self.sym(":"); self.id(blk)
            self.instantiation(vars_, params)
            self.kw("end")
            self.exp.append(("GenerateBlock", blk))
        elif x < 0.8:
            t = self.name(esc_ok=False)
            a, b = self.name(esc_ok=False), self.name(esc_ok=False)
            self.kw("typedef"); self.kw("enum"); self.sym("{"); self.id(a); self.sym(","); self.id(b); self.sym("}"); self.id(t); self.sym(";")
            self.exp.append(("TypeDeclaration", t))
        else:
            t, f = self.name(esc_ok=False), self.name()
            self.kw("typedef"); self.kw("struct"); self.kw("packed"); self.sym("{"); self.kw("logic"); self.id(f); self.sym(";"); self.sym("}")
            self.id(t); self.sym(";")
            self.exp.append(("TypeDeclaration", t))

    def package(self):
        name = self.name(esc_ok=False)
        self.kw("package"); self.id(name); self.sym(";")
        self.exp.append(("PackageDeclaration", name))
        for _ in range(self.r.randint(0, 2)):
            p = self.name(esc_ok=False)
            self.kw(self.r.choice(["parameter", "localparam"])); self.id(p); self.sym("="); self.num(); self.sym(";")
            self.exp.append(("ParamAssignment", p))
        t = self.name(esc_ok=False)
        self.kw("typedef"); self.kw("logic"); self.sym("["); self.num(); self.sym(":"); self.num(); self.sym("]"); self.id(t); self.sym(";")
        self.exp.append(("TypeDeclaration", t))
        self.kw("endpackage")

    def klass(self):
        name = self.name(esc_ok=False)
        self.kw("class"); self.id(name); self.sym(";")
        self.exp.append(("ClassDeclaration", name))
        v = self.name()
        self.kw("int"); self.id(v); self.sym(";")
        f = self.name(esc_ok=False)
        self.kw("function"); self.kw("int"); self.id(f); self.sym("("); self.sym(")"); self.sym(";")
        self.kw("return"); self.id(v); self.sym(";"); self.kw("endfunction")
        self.kw("endclass")

    def program(self):
        r = self.r
        for _ in range(r.randint(1, 3)):
            x = r.random()
            if x < 0.7:
                self.module()
            elif x < 0.85:
                self.package()
            else:
                self.klass()
        return self

    def render(self):
        """-> (source text, [(offset, length, text, kind)])"""
        r = self.r
        out, pos, spans = [], 0, []
        for i, (t, k) in enumerate(self.toks):
            if i:
                prev = self.toks[i - 1]
                need = (prev[1] in ("id", "kw", "num") and k in ("id", "kw", "num")) or prev[0].startswith("\\")
                # operators that would glue into another token
                glue = (prev[1] == "sym" and k == "sym") or (prev[1] == "num" and k == "sym") or (prev[1] == "sym" and k == "num")
                if glue and prev[1] == "sym" and k == "sym" and not fuses(prev[0], t) and r.random() < 0.35:
                    glue = False           # two operators that cannot be read as another one may stand side by side: a=-b, a<=~b
                    tight = r.random() < 0.6
                else:
                    tight = False
                ws = r.choice([" ", " ", "\n", "  ", "\t", "\n  ", " /* c */ ", " // c\n"]) if (need or glue or (r.random() < 0.5 and not tight)) else ""
                if tight and r.random() < 0.3:
                    ws = r.choice(["/* c */", "//c\n"])     # a comment directly behind an operator
                if prev[0].startswith("\\") and not ws[:1].isspace():
                    ws = " " + ws
                out.append(ws); pos += len(ws.encode())
            spans.append((pos, len(t.encode()), t, k))
            out.append(t); pos += len(t.encode())
        out.append("\n")
        return "".join(out), spans


# every operator / punctuation token of more than one character (IEEE 1800-2017 Annex A.8.6 and the delimiters)
MULTI_OPS = {"+=", "-=", "*=", "/=", "%=", "&=", "|=", "^=", "<<=", ">>=", "<<<=", ">>>=", "==", "!=", "===", "!==", "==?", "!=?",
             "&&", "||", "**", "<=", ">=", "^~", "~^", ">>", "<<", ">>>", "<<<", "->", "<->", "->>", "++", "--", "~&", "~|", "::", ":=", ":/",
             "+:", "-:", "##", "#-#", "#=#", "|->", "|=>", "@@", "(*", "*)", "'{", "/*", "*/", "//", "&&&", "[*", "[=", "[->", "*>", "=>",
             ".*", "@*", "+/-", "+%-", "1step", "$"}


def fuses(a, b):
    """could the characters of two adjacent symbols be read as (part of) another token?"""
    s = a + b
    for i in range(len(a)):
        for j in range(len(a) + 1, len(s) + 1):
            if s[i:j] in MULTI_OPS:
                return True
    # a prefix of a longer operator that continues into b (e.g. "<" "<=" ...)
    return any(op.startswith(s[i:]) and len(op) > len(s) - i and i < len(a) for i in range(len(a)) for op in MULTI_OPS if len(s) - i > len(a) - i)


# ----------------------------------------------------------------------------- qualifier orders
def _perms(quals, kmax):
    import itertools
    out = []
    for k in range(1, kmax + 1):
        for sub in itertools.permutations(quals, k):
            out.append(" ".join(sub))
    return out


def qualifier_orders(r=None, n=None):
    """Declarations whose leading qualifiers come in EVERY order (most are not SystemVerilog and are rejected): whatever the
    parser accepts must still be a tree whose leaves stand in source order.  -> [("sv", source)]"""
    out = []
    for q in _perms(["const", "var", "static", "automatic"], 3):
        for ctxt in ("module m; %s endmodule\n", "module m; initial begin %s end endmodule\n", "package p; %s endpackage\n",
                     "module m; function void f(); %s endfunction endmodule\n", "class c; %s endclass\n", "%s\n"):
            out.append(ctxt % ("%s int a = 1;" % q))
    for q in _perms(["static", "protected", "local", "rand", "randc", "const", "var"], 3):
        out.append("class c; %s int a; endclass\n" % q)
    for q in _perms(["extern", "pure", "virtual", "static", "protected", "local"], 3):
        out.append("class c; %s function void f(); endclass\n" % q)
        out.append("class c; %s function void f(); endfunction endclass\n" % q)
        out.append("virtual class c; %s task t(); endclass\n" % q)
    for q in _perms(["input", "output", "ref", "var", "wire", "logic", "signed", "[3:0]"], 3):
        out.append("module m(%s a); endmodule\n" % q)
    for q in _perms(["wire", "vectored", "scalared", "signed", "(strong0, strong1)", "#1", "[3:0]"], 3):
        out.append("module m; %s w; endmodule\n" % q)
    for q in _perms(["parameter", "localparam", "type", "int", "signed", "[3:0]"], 3):
        out.append("module m #(%s P = 1) (); %s Q = 2; endmodule\n" % (q, q))
    for q in _perms(['"DPI-C"', "pure", "context", "function", "task", "int"], 3):
        out.append("module m; import %s f(); export %s f; endmodule\n" % (q, q))
    for q in _perms(["typedef", "enum", "struct", "union", "packed", "tagged", "signed"], 3):
        out.append("module m; %s { int a; } t; endmodule\n" % q)
        out.append("module m; %s { A, B } t; endmodule\n" % q)
    for q in _perms(["unique", "unique0", "priority", "case", "casez", "if"], 2):
        out.append("module m; initial %s (a) 1: x = 1; endcase endmodule\n" % q)
        out.append("module m; initial %s (a) x = 1; else x = 2; endmodule\n" % q)
    for q in _perms(["always", "always_ff", "@(posedge c)", "@*", "#1"], 2):
        out.append("module m; %s x <= 1; endmodule\n" % q)
    out = [("sv", s) for s in out]
    if n is not None and r is not None and n < len(out):
        out = r.sample(out, n)
    return out


def attribute_zoo():
    """An attribute instance (one or two) in front of every kind of item of every container -- many are not SystemVerilog
    (a parameter declaration in a class takes no attribute, nor does an empty item): whatever the parser accepts must
    still list every byte of the attribute in its tree.  -> [("sv", source)]"""
    items = ["localparam int P = 1;", "parameter int Q = 2;", ";", "int x;", "rand bit [3:0] r;", "function void f(); endfunction",
             "task t(); endtask", "constraint k { x > 0; }", "class d; endclass", "covergroup cg; endgroup", "typedef int t_t;",
             "import p::*;", "extern function void g();", "static int s;", "wire w;", "assign w = 1;", "initial x = 1;", "always_comb x = 1;",
             "genvar g;", "m2 u();", "defparam u.P = 1;", "specify endspecify", "timeunit 1ns;", "modport mp(input w);", "clocking cb @(posedge w); endclocking",
             "default clocking cb2 @(posedge w); endclocking", "property pr; 1; endproperty", "sequence sq; 1; endsequence", "assert property (pr);",
             "export p::*;", "let l1 = 1;", "nettype int nt;", "bind m2 m3 b();", "if (1) begin end", "for (genvar i = 0; i < 2; i++) begin end",
             "begin end", "x = 1;", "x <= 1;", "if (x) x = 0;", "case (x) 0: x = 1; endcase", "return;", "fork join", "#1;", "@(x);", "wait (x);", "x++;",
             "forever begin end", "disable f;", "-> e;", "int y = 2;"]
    conts = ["class c; %s endclass\n", "module m; %s endmodule\n", "interface i; %s endinterface\n", "package p; %s endpackage\n",
             "program pg; %s endprogram\n", "module m; generate %s endgenerate endmodule\n", "module m; initial begin %s end endmodule\n",
             "module m; function void f(); %s endfunction endmodule\n", "%s\n", "checker ch; %s endchecker\n",
             "module m; if (1) begin %s end endmodule\n", "class c; function void f(); %s endfunction endclass\n"]
    out = []
    for c in conts:
        for it in items:
            out.append(("sv", c % ("(* keep *) " + it)))
            out.append(("sv", c % ("int q0; (* a = 1 *) (* b *) " + it)))
    return out


def literal_zoo():
    """Number literals in odd spellings (sizes padded with zeros or holding underscores, blanks around the base, odd digits) --
    most are not SystemVerilog: whatever the parser accepts must list every byte of the literal in its tree.  -> [("sv", source)]"""
    out = []
    for size in ["", "8", "08", "032", "004", "1_0", "0", "00", "0_8", "8_"]:
        for base in ["'h", "'sb", "'d", "'o", " 'H ", "'Sd ", " 'b"]:
            for val in ["ff", "1x0z", "0", "17", "_1", "?", "1_", "z"]:
                out.append(("sv", "module m; assign x = %s%s%s; endmodule\n" % (size, base, val)))
    for real in ["1.5", "01.5", "1.50e3", "1e-3", "1_0.0_1", "1.", ".5", "1.5E+0_1", "0x1", "1'b1", "'1", "'x", "'Z", "1step", "2.5ns", "02ns", "1_0ps"]:
        out.append(("sv", "module m; initial #%s x = %s; endmodule\n" % (real, real)))
    return out
