"""C14 -- rejection and error location (DESIGN 5.14)."""
import json
from framework import *
import svx_grammar, snippets, svtree, lexcheck, pegexec

PARTIAL = ("proved over the regenerated grammar: a byte that no primitive consumes is a barrier for every expression "
           "(C14_barrier) and strict source_text / library_text, which end in many_till(description, eof), never succeed "
           "with such a byte before the end of the text (C14_stop_byte_rejected_*); an interpreter instrumented with the greatest "
           "position at which any expression was applied computes the same parse (C14_trace_is_the_parse) and never applies "
           "anything beyond the byte (C14_never_looks_past_the_byte, C14_error_position_at_or_before_the_byte), which bounds "
           "every position an error report can carry in the preprocessed text. Not proved: which of those positions "
           "GreedyError selects and its translation to (file, offset) through the origin map (the file named), "
           "rejection after deleting a delimiter, and the preprocessor-level faults: search oracle only")

STOP = ["\x01", "\x7f", "\x1b", "\x0b", "\x08", "\u00a0", "\u0085", "\u2028", "\u3000", "\ufeff"]
CLOSERS = {"end", "endmodule", "endcase", "endfunction", "endtask", "endgenerate", "join", "endclass", "endpackage",
           "endinterface", "endprogram", "endproperty", "endsequence", "endspecify", "endtable", "endprimitive", "endconfig",
           "endgroup", "endchecker", "endclocking", "join_any", "join_none"}
BRACKETS = set("()[]{}")


def leaf_info(tree):
    """[(off, len, under_directive, kind of the enclosing token node, is escaped identifier)] in order"""
    out = []
    def walk(t, in_dir, parent):
        if t[0] == "L":
            out.append((t[1], t[2], in_dir, parent))
            return
        d = in_dir or t[1] in ("CompilerDirective", "WhiteSpace") and False
        if t[1] == "CompilerDirective":
            d = True
        for c in t[2]:
            walk(c, d, t[1])
    walk(tree, False, None)
    return out


def boundaries(tree, text):
    """token boundaries outside compiler directives where a stop byte cannot become part of a neighbouring token"""
    li = leaf_info(tree)
    res = []
    for i, (off, ln, in_dir, parent) in enumerate(li):
        prev = li[i - 1] if i else None
        if in_dir or (prev and prev[2]):
            continue
        if prev and prev[3] == "EscapedIdentifier":
            continue        # an escaped identifier runs up to the next blank: the byte would join it
        if prev and text[prev[0]:prev[0] + 2] == b"//" and not text[prev[0]:prev[0] + prev[1]].endswith(b"\n"):
            continue        # inside an unterminated line comment at the end of the text
        res.append(off)
    if li and not li[-1][2] and li[-1][3] != "EscapedIdentifier" and not (text[li[-1][0]:li[-1][0] + 2] == b"//" and not text.endswith(b"\n")):
        res.append(len(text))
    return res


def delimiters(tree, text):
    """(off, len, text) of bracket symbols and block-closing keywords, outside directives"""
    res = []
    for off, ln, in_dir, parent in leaf_info(tree):
        if in_dir:
            continue
        w = text[off:off + ln].decode("utf-8", "replace")
        if (parent == "Symbol" and w in BRACKETS) or (parent == "Keyword" and w in CLOSERS):
            res.append((off, ln, w))
    return res


def check(ctx):
    try:
        facts = svx_grammar.main()
        ctx.obl("regenerated:grammar (strict start symbols end with many_till(.., eof))", "regenerated", facts["n_bad"] == 0,
                json.dumps({k: facts[k] for k in ("functions", "n_bad", "hash")}))
    except Exception as e:
        ctx.obl("regenerated:grammar (strict start symbols end with many_till(.., eof))", "regenerated", False, "translator failed: %r" % (e,))
    prove(ctx, "C14")
    build_impl(ctx)
    lexcheck.obligation(ctx, "C14", {"stop", "pos"})
    lexcheck.correspond(ctx)
    r = ctx.rng
    q = ctx.quick()
    deep = any(not o.ok for o in ctx.obls)
    pool = [(k, s) for k, s in snippets.sv_sources() if "`" not in s]
    base = r.sample(pool, min(len(pool), 25 if (q and not deep) else 300))
    # rejection in the executable grammar: a stop byte anywhere in an accepted source -- the regenerated grammar, run, must
    # reject exactly when the real strict parser does (and give the same tree when the byte fell into a comment or string)
    gtexts = []
    for k, s in r.sample(pool, min(len(pool), 50 if q else 300)):
        for _ in range(2):
            if len(s) < 1500:
                p = r.randrange(len(s) + 1)
                gtexts.append((k, s[:p] + r.choice(STOP) + s[p:]))
    pegexec.correspond(ctx, gtexts, "c14peg", minimum=60)
    base += [("sv", "module m #(parameter P = 1) (input [P-1:0] a, output reg b);\n  always @(posedge a[0]) begin b <= {a[0], 1'b0} == 2'b10; end\n"
                    "  function f; input x; begin f = (x) ? 1 : 0; end endfunction\n  generate if (P) begin : g wire w; end endgenerate\nendmodule\n"),
             ("lib", "library l \"*.v\" -incdir \"a\";\nconfig c; design d; endconfig\n")]
    # characters of several bytes in front of everything (positions are byte offsets, in the text and in the files)
    base = [(k, ("// caf\u00e9 \u2014 \u4e2d\u6587 \U0001F600\n/* \u00f1\u2014\u2014\u2014 */ " + s) if (i % 3 == 1 and k == "sv") else s) for i, (k, s) in enumerate(base)]
    # 1. accepted sources and their trees
    c0 = []
    for i, (k, s) in enumerate(base):
        c = Case("b%d" % i).add("want", "tree", "text")
        c.add("run", "preprocess_str", hx(s), hx("t.sv")).add("run", "parse_%s_str" % k, hx(s), hx("t.sv"))
        c0.append(c)
    impl0 = run_harness("api", c0, "c14a", timeout=1800)
    cases, meta = [], {}
    n = 0
    for bi, (c, (k, s)) in enumerate(zip(c0, base)):
        lines = impl0.get(c.id) or []
        tl = [l for l in lines if l.startswith("tree ")]
        tx = [l for l in lines if l.startswith("text ")]
        if not tl or not tx:
            continue
        text = unhx(tx[0].split()[1])
        if text != s.encode("utf-8"):
            continue           # positions are computed on the source: only sources the preprocessor leaves unchanged
        tree = svtree.parse_tree_line(tl[0])
        bs = boundaries(tree, text)
        if k == "lib":
            # an unquoted file path of a library map may start with ANY byte but blank, ',' and ';' (is_not(",; ")): no
            # byte "cannot start a token" there, the stop-byte clause is about SystemVerilog source text
            bs = []
        for b in (bs if not q or deep else r.sample(bs, min(len(bs), 6))):
            stop = r.choice(STOP)
            mutated = (text[:b] + stop.encode() + text[b:]).decode("utf-8")
            for via_include in (False, True) if (n % 4 == 0) else (False,):
                cc = Case("m%d" % n); n += 1
                cc.add("want", "tree")
                if via_include:
                    cc.add("file", hx("inc.svh"), hx(mutated))
                    cc.add("run", "parse_%s_str" % k, hx("\n`include \"inc.svh\"\n"), hx("top.sv"))
                    meta[cc.id] = ("stop", k, mutated, b, "inc.svh", s)
                else:
                    cc.add("run", "parse_%s_str" % k, hx(mutated), hx("t.sv"))
                    meta[cc.id] = ("stop", k, mutated, b, "t.sv", s)
                cases.append(cc)
        # the same faults behind macro usages whose expansion is empty or directly followed by text: the reported
        # location goes through the origin map of the preprocessor
        if bs and (bi % 3 == 0 or deep):
            for hdr, extra_files in (("`define E(x) x\n`E()", {}), ("`define D(msg) // compiled out\n`D(\"start\")", {}),
                                     ("`include \"hdr.svh\"\n`H()", {"hdr.svh": "`define H(x) x\n"}),
                                     ("`define V /* c */\n`V ", {})):
                for b in r.sample(bs, min(len(bs), 2 if q and not deep else 8)):
                    stop = r.choice(STOP)
                    mutated = hdr + (text[:b] + stop.encode() + text[b:]).decode("utf-8")
                    cc = Case("m%d" % n); n += 1
                    cc.add("want", "tree")
                    for fp, ft in extra_files.items():
                        cc.add("file", hx(fp), hx(ft))
                    cc.add("run", "parse_%s_str" % k, hx(mutated), hx("t.sv"))
                    meta[cc.id] = ("stop", k, mutated, len(hdr.encode()) + b, "t.sv", s)
                    cases.append(cc)
        # the fault inside a file that is included in the MIDDLE of a construct: the stretch between two token boundaries
        # around the fault moves into part.svh (whatever blocks are open at that point were opened in the parent file)
        if len(bs) >= 3:
            for _ in range(2 if q and not deep else 10):
                i1, i2 = sorted(r.sample(range(len(bs)), 2))
                if i2 - i1 < 2:
                    continue
                b1, b2 = bs[i1], bs[i2]
                # at least one whole token of the included part stands before the fault, so that "at or before the
                # fault" cannot mean the white space in front of the part (which belongs to the including file)
                b = r.choice(bs[i1 + 2:i2 + 1])
                stop = r.choice(STOP)
                part_ok = text[b1:b2].decode("utf-8", "replace")
                part_bad = (text[b1:b] + stop.encode() + text[b:b2]).decode("utf-8", "replace")
                top = text[:b1].decode("utf-8", "replace") + "\n`include \"part.svh\"\n" + text[b2:].decode("utf-8", "replace")
                whole_bad = (text[:b] + stop.encode() + text[b:]).decode("utf-8", "replace")
                for tag, part in (("ctl", part_ok), ("whole", None), ("split", part_bad)):
                    cc = Case("m%d" % n); n += 1
                    if tag == "whole":       # the same faulty text in one file: where does the parser locate the error?
                        cc.add("want", "tree").add("run", "parse_%s_str" % k, hx(whole_bad), hx("t.sv"))
                        meta[cc.id] = (tag, k, whole_bad, b1, "t.sv", s)
                    else:
                        cc.add("want", "tree").add("file", hx("part.svh"), hx(part))
                        cc.add("run", "parse_%s_str" % k, hx(top), hx("top.sv"))
                        meta[cc.id] = (tag, k, top + "\n---- part.svh ----\n" + part, b - b1, "part.svh", s)
                    cases.append(cc)
        ds = delimiters(tree, text)
        for off, ln, w in (ds if not q or deep else r.sample(ds, min(len(ds), 5))):
            mutated = (text[:off] + text[off + ln:]).decode("utf-8")
            cc = Case("m%d" % n); n += 1
            cc.add("want", "tree").add("run", "parse_%s_str" % k, hx(mutated), hx("t.sv"))
            meta[cc.id] = ("delim", k, mutated, off, w, s)
            cases.append(cc)
    # 1b. many origin segments (k leading comments): the fault is the last byte of its segment -- directly followed by a
    # skipped `ifdef group, by the end of an included file, by a macro usage
    for kk in range(0, 26):
        lead = "".join("/* c%d */\n" % j for j in range(kk))
        trail = "".join("/* t%d */\n" % j for j in range(16))      # enough later segments for the map's B-tree to split
        stop = r.choice(STOP)
        for shape in range(3):
            cc = Case("m%d" % n); n += 1
            cc.add("want", "tree")
            if shape == 0:
                pre = lead + "module m; wire a"
                src = pre + stop + "`ifdef UNDEF_\n wire x;\n`endif\n; wire b; endmodule\n" + trail
                cc.add("run", "parse_sv_str", hx(src), hx("t.sv"))
                meta[cc.id] = ("stop", "sv", src, len(pre.encode()), "t.sv", src)
            elif shape == 1:
                inc = "wire q"
                src = lead + "module m;\n`include \"i.svh\"\n; wire b; endmodule\n" + trail
                cc.add("file", hx("i.svh"), hx(inc + stop))
                cc.add("run", "parse_sv_str", hx(src), hx("top.sv"))
                meta[cc.id] = ("stop", "sv", src + "\n---- i.svh ----\n" + inc + stop, len(inc.encode()), "i.svh", src)
            else:
                pre = lead + "`define W 8\nmodule m; wire [7:0] a"
                src = pre + stop + "`W ; endmodule\n" + trail
                cc.add("run", "parse_sv_str", hx(src), hx("t.sv"))
                meta[cc.id] = ("stop", "sv", src, len(pre.encode()), "t.sv", src)
            cases.append(cc)
    # 1c. the boundary behind a compiler directive (its last token takes the white space that follows, in directive mode):
    # a byte that is not white space per 5.3 must not vanish into it
    DIRS = ["`timescale 1ns/1ps\n", "`default_nettype none\n", "`celldefine\n", "`define W 1\n`undef W\n", "`resetall\n", "`line 3 \"x.v\" 0\n",
            "`begin_keywords \"1800-2017\"\n", "`pragma protect\n", "`unconnected_drive pull0\n", "`nounconnected_drive\n", "`endcelldefine \t\n",
            "`define D\n`ifdef D\n", "`ifndef U_\n", "`ifdef U_\n`else\n", "`ifdef U_\n`elsif V_\n`else\n", "`ifndef U_\n`endif\n", "`undefineall\n",
            "`define E\n`E\n", "`define F(x)\n`F(1)\n", "`include \"empty.svh\"\n", "`default_nettype wire \r\n\x0c "]
    for di, d in enumerate(DIRS):
        for stop in (STOP if not q or deep else r.sample(STOP, 3) + ["\x0b"]):
            closing = "`endif\n" if d.count("`if") > d.count("`endif") else ""
            closing += "`end_keywords\n" if "begin_keywords" in d else ""
            for shape in range(3):
                cc = Case("m%d" % n); n += 1
                cc.add("want", "tree").add("file", hx("empty.svh"), hx(""))
                if shape == 0:
                    src = d + stop + "module m; endmodule\n" + closing
                    cc.add("run", "parse_sv_str", hx(src), hx("t.sv"))
                    meta[cc.id] = ("stop", "sv", src, len(d.encode()), "t.sv", src)
                elif shape == 1:
                    pre = "module m;\n" + d
                    src = pre + stop + "wire w;\n" + closing + "endmodule\n"
                    cc.add("run", "parse_sv_str", hx(src), hx("t.sv"))
                    meta[cc.id] = ("stop", "sv", src, len(pre.encode()), "t.sv", src)
                else:
                    inc = d + stop + "module m; endmodule\n" + closing
                    cc.add("file", hx("inc.svh"), hx(inc))
                    cc.add("run", "parse_sv_str", hx("/* top */\n`include \"inc.svh\"\n"), hx("top.sv"))
                    meta[cc.id] = ("stop", "sv", "---- inc.svh ----\n" + inc, len(d.encode()), "inc.svh", inc)
                cases.append(cc)
    # 1d. two levels of include: top includes mid, mid includes leaf, the fault stands in mid behind its `include line; every
    # length of leaf (the origin entries of leaf and of the rest of mid touch, with whatever source offsets they happen to have)
    for pre in (("", "/* 7b */\n") if q and not deep else ("", "/* 7b */\n", "wire before_the_include;\n", "// c\n// d\n")):
        inc_line = pre + "`include \"leaf.svh\"\n"
        for L in range(7, len(inc_line.encode()) + (24 if q and not deep else 60)):
            leaf = "wire " + "x" * (L - 6) + ";"
            stop = r.choice(STOP)
            for tail_nl in (("",) if q and not deep else ("", "\n")):
                mid_pre = inc_line + "wire m1;\n"
                mid = mid_pre + stop + "wire m2;\n"
                cc = Case("m%d" % n); n += 1
                cc.add("want", "tree").add("file", hx("leaf.svh"), hx(leaf + tail_nl)).add("file", hx("mid.svh"), hx(mid))
                top = "module m;\n`include \"mid.svh\"\nendmodule\n"
                cc.add("run", "parse_sv_str", hx(top), hx("top.sv"))
                meta[cc.id] = ("stop", "sv", top + "\n---- mid.svh ----\n" + mid + "\n---- leaf.svh ----\n" + leaf + tail_nl, len(mid_pre.encode()), "mid.svh", top)
                cases.append(cc)
    # 1e. the line behind an `include of a file that has no final line break (a kept `define, a one-line comment, a token last)
    for form in ('"i.svh"', "<i.svh>"):
        for tailtxt in ("`define W 8", "wire q; // c", "wire q;", "`timescale 1ns/1ps", "wire q; /* c */"):
            stop = r.choice(STOP)
            pre = "module m;\n`include %s\nwire a" % form
            src = pre + stop + "b;\nendmodule\n"
            cc = Case("m%d" % n); n += 1
            cc.add("want", "tree").add("file", hx("i.svh"), hx(tailtxt)).add("incdir", hx("."))
            cc.add("run", "parse_sv_str", hx(src), hx("top.sv"))
            meta[cc.id] = ("stop", "sv", src + "\n---- i.svh ----\n" + tailtxt, len(pre.encode()), "top.sv", src)
            cases.append(cc)
            # and a deleted delimiter on that line
            src2 = "module m;\n`include %s\nassign x = (a + b;\nendmodule\n" % form
            cc = Case("m%d" % n); n += 1
            cc.add("want", "tree").add("file", hx("i.svh"), hx(tailtxt)).add("incdir", hx("."))
            cc.add("run", "parse_sv_str", hx(src2), hx("top.sv"))
            meta[cc.id] = ("delim", "sv", src2, 0, ")", src2)
            cases.append(cc)
    # 2. preprocessor-level lexical faults
    for t, fault in [("a \"unterminated\n", 2), ("x /* open\n", 2), ("y \\ z\n", 2), ("module m; \"s\" wire \"q\n", 19), ("ok\n`include \"i.svh\"\n", None)]:
        cc = Case("m%d" % n); n += 1
        cc.add("want", "tree")
        if fault is None:
            cc.add("file", hx("i.svh"), hx("fine /* open\n"))
            meta[cc.id] = ("pp", "sv", t, 5, "i.svh", t)
        else:
            meta[cc.id] = ("pp", "sv", t, fault, "t.sv", t)
        cc.add("run", "parse_sv_str", hx(t), hx("t.sv"))
        cases.append(cc)
    impl = run_harness("api", cases, "c14b", timeout=1800)
    bad = None
    ctl_ok, whole_off, whole_b1 = True, None, 0
    for cc in cases:
        kind, k, mutated, pos, extra, orig = meta[cc.id]
        lines = impl.get(cc.id) or []
        if kind == "ctl":          # the unfaulted split: if it is not accepted the split itself is unusable
            ctl_ok = any(l.startswith("tree ") for l in lines)
            ctx.count("split_control_%s" % ("ok" if ctl_ok else "rejected"))
            continue
        if kind == "whole":
            # known class error-file-across-include: the parser locates the error at the start of the construct that holds
            # the fault; when that start lies before the included part the error is (rightly, position-wise) in the parent
            e = [x for x in ([l for l in lines if l.startswith("err ")] or [""])[0].split() if x not in ("err", "Include(", ")")]
            whole_off = int(e[2]) if len(e) >= 3 and e[0] == "Parse" and e[1] != "-" else None
            whole_b1 = pos
            continue
        if kind == "split":
            if not ctl_ok:
                continue
            # (offset b1 of the split's preprocessed text is the line break put in front of `include: a byte of the parent)
            if whole_off is None or whole_off <= whole_b1:
                ctx.count("split_error_located_before_the_included_part")
                continue
            kind = "stop"
        ctx.corr_cases += 1
        cr = crashed(lines)
        if cr:
            bad = bad or (kind, k, mutated, cr); continue
        err = [l for l in lines if l.startswith("err ")]
        ctx.count(kind)
        ctx.corr_nontrivial.add(sha(mutated + str(pos)))
        if kind == "stop":
            if not err:
                bad = bad or (kind, k, mutated, "a byte that cannot start a token, inserted at offset %d, was accepted" % pos); continue
            e = err[0].split()
            inner = [x for x in e if x not in ("err", "Include(", ")")]
            if inner[0] != "Parse":
                bad = bad or (kind, k, mutated, "expected Error::Parse, got %s" % err[0][:80]); continue
            if len(inner) < 3 or inner[1] == "-":
                bad = bad or (kind, k, mutated, "Error::Parse carries no location"); continue
            path, off = unhx(inner[1]).decode(), int(inner[2])
            if path != extra:
                bad = bad or (kind, k, mutated, "the error names %s, the byte is in %s" % (path, extra)); continue
            if off > pos:
                bad = bad or (kind, k, mutated, "the reported offset %d is after the inserted byte at %d" % (off, pos))
        elif kind == "delim":
            if not err:
                bad = bad or (kind, k, mutated, "deleting %r at offset %d still parses" % (extra, pos)); continue
            if "Parse" not in err[0]:
                bad = bad or (kind, k, mutated, "expected Error::Parse after deleting %r, got %s" % (extra, err[0][:80]))
        else:
            if not err or "Preprocess" not in err[0]:
                bad = bad or (kind, k, mutated, "expected Error::Preprocess, got %s" % (err or lines[:1])); continue
            e = [x for x in err[0].split() if x not in ("err", "Include(", ")")]
            if len(e) < 3 or unhx(e[1]).decode() != extra or int(e[2]) > pos:
                bad = bad or (kind, k, mutated, "Preprocess error location %s, fault in %s at %d" % (e[1:], extra, pos))
    ctx.sample({"kind": "stop byte / deleted delimiter at every token boundary", "source": base[0][1][:160]})
    ctx.obl("search-oracle:stop byte -> Parse(file, offset <= byte); deleted delimiter -> Parse; lexical fault -> Preprocess(path, offset)",
            "oracle", bad is None, bad[3] if bad else "")
    if bad:
        rp = write_replay(ctx, "src-" + sha(bad[2])[:8], {"property": "C14", "kind": bad[0], "grammar": bad[1], "source": bad[2], "why": bad[3]})
        ctx.viol.append(Violation("invalid source: " + bad[3], rp))
    # corpus of splits that the validated tree reports in the included file: every one of them must stay so
    sp = json.load(open(os.path.join(VERIF, "corpus", "C14-splits.json")))
    sc = []
    for i, e in enumerate(sp if not q else r.sample(sp, 150)):
        sc.append((Case("c%d" % i).add("want", "tree").add("file", hx("part.svh"), hx(e["part"]))
                   .add("run", "parse_sv_str", hx(e["top"]), hx("top.sv")), e))
    impl3 = run_harness("api", [c for c, _ in sc], "c14sp", timeout=1800)
    bad3 = None
    for c, e in sc:
        lines = impl3.get(c.id) or []
        ctx.corr_cases += 1
        x = [w for w in ([l for l in lines if l.startswith("err ")] or [""])[0].split() if w not in ("err", "Include(", ")")]
        if crashed(lines):
            bad3 = bad3 or (e, crashed(lines))
        elif len(x) < 3 or x[0] != "Parse" or x[1] == "-":
            bad3 = bad3 or (e, "expected Error::Parse with a location, got %s" % (lines[1:2] or lines[:1]))
        elif unhx(x[1]).decode() != "part.svh":
            bad3 = bad3 or (e, "the error names %s, the byte is in part.svh (included in the middle of nested blocks)" % unhx(x[1]).decode())
        elif int(x[2]) > e["pos"]:
            bad3 = bad3 or (e, "the reported offset %s is after the inserted byte at %d" % (x[2], e["pos"]))
    ctx.obl("search-oracle:faults inside a file included in the middle of nested blocks are reported in that file (corpus/C14-splits.json)",
            "oracle", bad3 is None, bad3[1] if bad3 else "")
    if bad3:
        rp = write_replay(ctx, "split-" + sha(bad3[0]["top"] + bad3[0]["part"])[:8], {
            "property": "C14", "kind": "stop", "grammar": "sv", "source": bad3[0]["top"] + "\n---- part.svh ----\n" + bad3[0]["part"],
            "files": {"top.sv": bad3[0]["top"], "part.svh": bad3[0]["part"]}, "why": bad3[1]})
        ctx.viol.append(Violation("invalid source: " + bad3[1], rp))
    findings, _ = load_known()
    if any(f.get("property") == "C14" and f.get("id") == "error-file-across-include" for f in findings):
        w = json.load(open(os.path.join(VERIF, "corpus", "C14-across-include.json")))
        c = Case("kf").add("want", "tree").add("file", hx("part.svh"), hx(w["part.svh"])).add("run", "parse_sv_str", hx(w["top.sv"]), hx("top.sv"))
        lines = run_harness("api", [c], "c14kf").get("kf", [])
        e = [x for x in ([l for l in lines if l.startswith("err ")] or [""])[0].split() if x not in ("err", "Include(", ")")]
        if len(e) >= 3 and e[0] == "Parse" and e[1] != "-" and unhx(e[1]).decode() == "top.sv":
            ctx.known_printed.append("error-file-across-include")
        else:
            ctx.notes.append("known finding error-file-across-include no longer reproduces: %s" % lines[:2])


def replay(ctx, path):
    build_impl(ctx)
    d = json.load(open(path))
    if "files" in d:
        c = Case("r").add("want", "tree")
        for pth, t in d["files"].items():
            if pth != "top.sv":
                c.add("file", hx(pth), hx(t))
        c.add("run", "parse_%s_str" % d["grammar"], hx(d["files"]["top.sv"]), hx("top.sv"))
    else:
        c = Case("r").add("want", "tree").add("run", "parse_%s_str" % d["grammar"], hx(d["source"]), hx("t.sv"))
    lines = run_harness("api", [c], "c14rp").get("r", [])
    print([l[:120] for l in lines[:3]])
    print("replay:", d["why"])
    return 1
