"""C07 -- history independence (DESIGN 5.7)."""
import json
from framework import *
import svx_statics, snippets, ppgen

PARTIAL = None

POOL = [
    ("parse_sv_str", "module a; endmodule\n"),
    ("parse_sv_str", "module a; wire\n"),                                            # rejected half-way
    ("parse_sv_str", "`begin_keywords \"1364-2001\"\nmodule m; wire logic; endmodule\n"),   # leaves a keywords region open
    ("parse_sv_str", "`begin_keywords \"1364-1995\"\n`begin_keywords \"1800-2005\"\nmodule m; endmodule\n"),
    ("parse_sv_str", "module m; `timescale 1ns/1ps\n wire x; `celldefine\nendmodule `resetall\n"),
    ("parse_sv_str", "`define R `R\n`R\n"),                                          # recursion limit
    ("parse_sv_str", "`include \"missing.svh\"\n"),
    ("parse_sv_str", "module m; initial begin a = \"unterminated; end endmodule\n"),   # pp lexical failure
    ("parse_sv_str", "`define M(a\nmodule\n"),                                       # directive cut short
    ("parse_sv_str", "module m; wire [`UNDEF:0] x; endmodule\n"),
    ("parse_sv_str", "`begin_keywords \"1364-2001\"\nmodule m; wire `define\n"),     # fails inside a region, inside a directive
    ("parse_lib_str", "library l \"*.v\" -incdir \"a\";\n"),
    ("parse_lib_str", "library ; garbage\n"),
    ("preprocess_str", "`ifdef A\n`begin_keywords \"1364-2001\"\n`endif\nx `__LINE__\n"),
    ("preprocess_str", "`define A 1\n`A `A\n`undefineall\n"),
    ("parse_sv_str_incomplete", "module a; endmodule module b; wire ("),
    ("parse_sv_str_incomplete", "`begin_keywords \"1364-2001\"\nmodule m; wire logic; endmodule garbage"),
]
PROBES = [
    ("parse_sv_str", "module m; wire logic; endmodule\n"),          # accepted only if an old keyword set leaked
    ("parse_sv_str", "module module; endmodule\n"),
    ("parse_sv_str", "module m; wire priority, logic1; endmodule\n"),
    ("parse_sv_str", "module a; wire x; // c\n`define D 1\n wire [`D:0] y; endmodule\n"),
    ("parse_lib_str", "library l \"*.v\";\n"),
    ("preprocess_str", "`define define 1\n"),                       # macro name lexed under the directive keyword set
    ("preprocess_str", "a `ifdef X b `endif c\n"),
    ("parse_sv_str_incomplete", "module a; endmodule junk ("),
    # the preprocessor lexes macro names with the keyword set in force: sensitive to a leaked version stack
    ("preprocess_str", "`ifdef logic\na\n`endif\n"),
    ("preprocess_str", "`undef bit\n`ifndef int\nx\n`endif\n"),
    ("parse_sv_str", "`ifndef logic\nmodule m; endmodule\n`endif\n"),
    # comments are white space only outside directive mode: sensitive to a leaked directive stack
    ("parse_sv_str", "module m; /* c */ wire /* d */ x; // e\nendmodule\n"),
    ("parse_lib_str", "library /* c */ l \"*.v\"; // d\n"),
    # errors with a payload chosen among several candidates: the choice is part of the result
    ("preprocess_str", "`define PAIR(lhs, rhs, tail) lhs rhs tail\n`PAIR(1)\n"),
    ("preprocess_str", "`define Q4(a, b, c, d, e, f) a b c d e f\n`Q4()\n"),
    ("parse_sv_str", "`define T3(x, y, z) x y z\nmodule m; `T3(1)\nendmodule\n"),
    ("preprocess_str", "`U1 `U2 `U3\n"),
    ("preprocess_str", "`include \"m1.svh\"\n`include \"m2.svh\"\n"),
]


# calls whose arguments (include paths, caller's defines) differ from call to call: the result of a call is a
# function of ITS arguments
INC = '`include "inc.svh"\nw = `W;\n'
CFG_POOL = [
    ("preprocess_str", INC, {"incdirs": ["da"]}), ("preprocess_str", INC, {"incdirs": ["db"]}),
    ("preprocess_str", INC, {"incdirs": ["db", "da"]}), ("parse_sv_str", "module m;\n" + INC + "endmodule\n", {"incdirs": ["da"]}),
    ("parse_sv_str", "module m;\n" + INC + "wire (\n", {"incdirs": ["db"]}),          # fails after the include
    ("preprocess_str", INC, {"incdirs": []}),                                          # not found
    ("preprocess_str", "`ifdef PRE\nyes `PRE\n`else\nno\n`endif\n", {"defines": [("PRE", "1")]}),
    ("preprocess_str", "`ifdef PRE\nyes `PRE\n`else\nno\n`endif\n", {"defines": [("PRE", "2")]}),
    ("preprocess_str", "`ifdef PRE\nyes\n`else\nno\n`endif\n", {}),
    ("preprocess_str", "`define PRE 3\n`define Q 4\n", {}),
]
CFG_FILES = {"da/inc.svh": "`define W 8\n", "db/inc.svh": "`define W 16\n"}


def add_run(c, call, src, cfg=None):
    inc = call.endswith("_incomplete")
    cfg = cfg or {}
    c.add("clearincdirs")
    c.add("cleardefines")
    for d in cfg.get("incdirs", []):
        c.add("incdir", hx(d))
    for n, v in cfg.get("defines", []):
        c.add("define", hx(n), "def", 0, hx(v))
    c.add("opt", "incomplete", int(inc))
    c.add("run", call.replace("_incomplete", ""), hx(src), hx("t.sv"))


def last_run(lines):
    ks = [i for i, l in enumerate(lines or []) if l.startswith("run ")]
    return (lines[ks[-1] + 1:] if ks else lines) or ["<no output>"]


def check(ctx):
    try:
        facts = svx_statics.main()
        ctx.obl("regenerated:entry points, init() and the state cells it clears", "regenerated",
                all(e[1] for e in facts["entries"]) and len(facts["entries"]) >= 5, json.dumps(facts)[:600])
        ctx.cov["regenerated"] = facts
    except svx_statics.Shape as e:
        ctx.obl("regenerated:entry points, init() and the state cells it clears", "regenerated", False, str(e))
    prove(ctx, "C07")
    build_impl(ctx)
    r = ctx.rng
    q = ctx.quick()
    pool = list(POOL) + [("parse_sv_str" if k == "sv" else "parse_lib_str", s) for k, s in r.sample(snippets.sv_sources(), 10 if q else 100)]
    pool = [x + (None,) for x in pool] + CFG_POOL * 2
    probes = [x + (None,) for x in PROBES] + CFG_POOL
    # fresh-thread references
    ref_cases = []
    def files(c):
        for p, t in CFG_FILES.items():
            c.add("file", hx(p), hx(t))
    for i, (call, src, cfg) in enumerate(probes):
        c = Case("f%d" % i)
        files(c)
        c.add("want", "tree", "defines", "text")
        add_run(c, call, src, cfg)
        ref_cases.append(c)
    hist_cases, meta = [], {}
    nh = 60 if q else 1500
    for n in range(nh):
        k = r.randint(1, 6)
        h = [r.choice(pool) for _ in range(k)]
        pi = r.randrange(len(probes))
        if r.random() < 0.2:
            h.append(probes[pi])       # the call itself repeated
        c = Case("h%d" % n)
        files(c)
        c.add("want", "tree", "defines", "text", "state")
        for call, src, cfg in h:
            add_run(c, call, src, cfg)
        add_run(c, *probes[pi])
        hist_cases.append(c)
        meta[c.id] = (h, pi)
    # a very long accepted text first (anything sized by the longest input seen so far), then probes whose result is sensitive to
    # the size of per-thread tables: keyword directives in white space that is lexed under several alternatives (classes D11 / D12)
    def sens(nsum):
        e = "+".join("x%d" % i for i in range(nsum))
        return ("parse_sv_str", "module top;\nsub `begin_keywords \"1364-2001\"\n #(%s, 1) (a, b);\n`end_keywords\nwire logic;\nendmodule\n" % e, None)
    long_text = "/*\n" + " * lorem ipsum dolor sit amet, consectetur adipiscing elit, sed do eiusmod\n" * 2800 + " */\nmodule a;\nendmodule\n"
    long_mods = "".join("module lm%d; wire w%d; endmodule\n" % (i, i) for i in range(2600))
    sens_probes = [sens(20), sens(40), sens(60)] + [("parse_sv_str", w["source"], None) for w in
                   json.load(open(os.path.join(VERIF, "corpus", "C17-D12.json")))["witnesses"][:6]]
    base_n = len(probes)
    probes += sens_probes
    for j in range(len(sens_probes)):
        c = Case("f%d" % (base_n + j))
        files(c)
        c.add("want", "tree", "defines", "text")
        add_run(c, *sens_probes[j])
        ref_cases.append(c)
    nh2 = nh
    for lt in (long_text, long_mods):
        for j in range(len(sens_probes)):
            if q and j not in (1, 3):
                continue
            c = Case("hL%d" % nh2); nh2 += 1
            files(c)
            c.add("want", "tree", "defines", "text", "state")
            h = [("parse_sv_str", lt, None)]
            add_run(c, *h[0])
            add_run(c, *probes[base_n + j])
            hist_cases.append(c)
            meta[c.id] = ([("parse_sv_str", lt[:60] + "... (%d bytes)" % len(lt), None)], base_n + j)
    # every hand-written call of the pool once in front of every probe (two-call histories, exhaustively)
    hand_pool = [x + (None,) for x in POOL]
    for hi, hcall in enumerate(hand_pool):
        for pi2 in range(len(PROBES)):
            c = Case("hP%d_%d" % (hi, pi2))
            files(c)
            c.add("want", "tree", "defines", "text", "state")
            add_run(c, *hcall)
            add_run(c, *probes[pi2])
            hist_cases.append(c)
            meta[c.id] = ([hcall], pi2)
    # long histories over many different constructs (per-thread tables that only ever fill up)
    allsn = snippets.sv_sources()
    for n in range(nh, nh + (2 if q else 12)):
        h = [("parse_sv_str" if k == "sv" else "parse_lib_str", s, None) for k, s in r.sample(allsn, min(len(allsn), 120))]
        pi = r.randrange(len(probes))
        c = Case("h%d" % n)
        files(c)
        c.add("want", "tree", "defines", "text", "state")
        for call, src, cfg in h:
            add_run(c, call, src, cfg)
        add_run(c, *probes[pi])
        hist_cases.append(c)
        meta[c.id] = (h, pi)
    impl = run_harness("api", ref_cases + hist_cases, "c07", timeout=1800)
    ref = {i: last_run(impl.get("f%d" % i)) for i in range(len(probes))}
    bad = None
    residues = set()
    for c in hist_cases:
        h, pi = meta[c.id]
        lines = impl.get(c.id)
        ctx.corr_cases += 1
        cr = crashed([l for l in (lines or []) if not l.startswith("panic")] or ["abort"])
        for l in lines or []:
            if l.startswith("state "):
                residues.add(l)
        if len(h) > 50:
            # every call of a long history is an accepted spec snippet: a panic in the middle of the history is a result
            # that the same call on a fresh thread does not have
            pn = [l for l in (lines or []) if l.startswith("panic")]
            if pn:
                msg = unhx(pn[0].split()[1]).decode("utf-8", "replace")[:120] if len(pn[0].split()) > 1 else "panic"
                bad = bad or (c, [(x[0], x[1][:40]) for x in h[:3]] + ["..."], pi,
                              "a call that parses on a fresh thread panicked after %d earlier calls: %s" % (len(h), msg))
        got = [l for l in last_run(lines) if not l.startswith("state ")]
        ctx.corr_nontrivial.add(sha(json.dumps(h) + str(pi)))
        ctx.count("history_len_%d" % len(h))
        if got != ref[pi]:
            # shortest polluting suffix is found by the replay; report the history as is
            d = next((i for i, (x, y) in enumerate(zip(got + [""] * 9, ref[pi] + [""] * 9)) if x != y), 0)
            bad = bad or (c, h, pi, "after %d earlier call(s) the probe returned %s, on a fresh thread %s" % (
                len(h), (got[d] if d < len(got) else "<nothing>")[:90], (ref[pi][d] if d < len(ref[pi]) else "<nothing>")[:90]))
    ctx.cov["residues_seen_after_calls"] = sorted(residues)[:12]
    ctx.sample({"history": [x[1][:50] for x in meta[hist_cases[0].id][0]], "probe": probes[meta[hist_cases[0].id][1]][1]})
    ctx.obl("search-oracle:probe after a random history = probe on a fresh thread", "oracle", bad is None, bad[3] if bad else "")
    if bad:
        rp = write_replay(ctx, "hist-" + sha(bad[0].text())[:8], {"property": "C07", "history": bad[1], "probe": probes[bad[2]],
                          "why": bad[3], "case": bad[0].text()})
        ctx.viol.append(Violation("result depends on the thread's history: " + bad[3], rp))


def replay(ctx, path):
    build_impl(ctx)
    d = json.load(open(path))
    p = os.path.join(BUILD, "cases", "c07rp.in")
    open(p, "w").write(d["case"])
    sh([SVH, "api", p, p + ".out"], timeout=600)
    print(open(p + ".out").read()[-1500:])
    print("replay:", d["why"])
    return 1
