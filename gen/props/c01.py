"""C01 -- lossless CST (DESIGN 5.1)."""
import json
from framework import *
import svgen, lexcheck, pegexec
import svx_grammar, svx_schema, snippets, svtree

PARTIAL = ("run_tiles is proved for every grammar passing the static check and every behaviour of the span primitives / hand "
           "lexers (they are oracles of the interpreter); the regenerated grammar passes the check by computation. Not "
           "proved: that each hand lexer returns exactly the span it consumed (tested on the real functions through hook 5 on "
           "every run, and tied by the tiling oracle on real trees) and get_str's slice arithmetic on the real String; "
           "non-emptiness of leaves is proved (C01_leaves_nonempty) under the hypothesis that primitives consume at least one "
           "byte when they succeed -- a theorem for the 15 token lexers written by hand (C01_token_lexers_consume, over their "
           "regenerated tables, model run against the real functions), tested for the 13 free-text lexers")

HAND = [
    ("sv", "module m; initial begin x = obj.a().b().c(); y = o.f(1).g(2, 3).h().i(); end endmodule\n"),
    ("sv", "module m; initial root.m1().m2().m3();\nendmodule\n"),
    ("sv", "// é中 comment\nmodule m; /* ü */ string s = \"é\\\"中\"; // x\n`timescale 1ns/1ps\nendmodule\n"),
    ("sv", "`define W 8\n`define M(a) a+`W\nmodule m #(parameter P = `M(1)) (input [`W-1:0] a);\n`ifdef X\n`else\n wire w; `endif\nendmodule\n"),
    ("sv", "\n\n  \t// only\n/* trivia */\n"),
    ("sv", ""),
    ("sv", "`celldefine\n`default_nettype none\nmodule m;\nendmodule\n`endcelldefine\n`resetall\n"),
    ("sv", "module m; wire \\esc+id , \\other ; assign \\esc+id = 1'b0; endmodule"),
    ("lib", "library rtlLib \"*.v\" -incdir \"a\", b;\ninclude \"x\";\nconfig c; design d; endconfig\n"),
    ("lib", "// c\nlibrary é \"ü\";\n"),
    # tokens that span several lines: the recorded line is that of the token's first byte
    ("sv", "module m; initial $display(\"first \\\nsecond\", 1); // c\n initial $display(\"a\nb\\\n\\\nc\"); wire w;\nendmodule\n"),
    ("sv", "/* a\n b\n c */ module m; /* x\n y */ wire /* \n\n */ w; /**/\n/*\n*/endmodule /* end\n */\n"),
    ("sv", "`define M(a) a + \\\n 1 + \\\n 2\nmodule m; wire [7:0] w = `M(3);\n`define S \"x \\\n y\"\n string s = `S;\nendmodule\n"),
    ("sv", "module m;\n`pragma protect begin\n`line 3 \"f.v\" 1\n`timescale 1ns\n  /  1ps\n wire w;\nendmodule\n"),
    ("sv", "module m; initial begin s = {\"a\\\nb\", \"c\"}; t = \"\\\n\"; end\r\n wire \\e$c ;\r\nendmodule\r\n"),
    ("lib", "library l \"a\\\nb\",\n  \"c\";\n/* x\n */ include \"y\";\n"),
    # both orders of the two-clause timeunits declaration, in a module and at compilation-unit level
    ("sv", "timeprecision 1ps; timeunit 1ns;\nmodule m; timeprecision 1ps;\n timeunit 1ns; wire w; endmodule\n"),
    ("sv", "timeunit 1ns; timeprecision 1ps;\npackage p; timeunit 1ns / 1ps; endpackage\ninterface i; timeunit 1ns;\n timeprecision 1ps; endinterface\n"),
    # formal arguments with an empty default (the directive is kept and parsed again by the main parser)
    ("sv", "`define M(a=, b) a b\n`define N(x, y = ) x y\n`define O(p =\t, q=) p q\nmodule m; wire `N(w1,) ; endmodule\n"),
    ("sv", "`define E()\n`define F( )  body\n`define G(a,\n  b) a b\nmodule m; endmodule\n"),
    ("sv", "class c; function new(int a); x = a; endfunction : new\nendclass\nmodule m(.*); wire w; endmodule : m\ninterface i(.*); endinterface : i\n"),
    ("sv", "module m; initial begin x = a.b().c().d(); y = q.f(1).g(2).h(3).k; end endmodule\n"),
    # a byte order mark in front of the text: whether such text is accepted or not, an accepted tree covers it from offset 0
    ("sv", "\ufeffmodule m; endmodule\n"), ("lib", "\ufefflibrary l a.v;\n"), ("sv", "\ufeff// c\n`define W 1\nmodule m; wire [`W:0] w; endmodule\n"),
    # unquoted paths of a library map followed by a line break, a tab, CRLF instead of a blank
    ("lib", "library rtlLib rtl/top.v, rtl/sub.v\n        -incdir rtl/inc;\ninclude other.map\n;\nlibrary g gate/cells.vg\t;\r\nlibrary h a/b.v,\r\n  c/d.v\r\n  -incdir e\t,\tf\n;\n"),
    ("lib", "library l *.v\n;\nconfig cfg;\n  design lib.top\n;\n  default liblist a\tb\n c;\n  instance top.u use lib.cell\n;\nendconfig\n"),
]


def check(ctx):
    try:
        facts = svx_grammar.main()
        small = {k: v for k, v in facts.items() if k not in ("index", "kinds", "lexer_hashes", "override_hashes")}
        ctx.obl("regenerated:grammar (every parser function of sv-parser-parser) with no spot the translator cannot vouch for",
                "regenerated", facts["n_bad"] == 0 and facts["functions"] >= 1200, json.dumps(small)[:700])
        pinned = json.load(open(os.path.join(COQ, "Nom", "lexer_hashes.json")))
        changed = sorted(n for n, h in facts["lexer_hashes"].items() if pinned.get(n) != h)
        ctx.cov["regenerated"] = small
        ctx.cov["hand_lexers_changed_since_validation"] = changed
    except Exception as e:
        ctx.obl("regenerated:grammar (every parser function of sv-parser-parser) with no spot the translator cannot vouch for",
                "regenerated", False, "translator failed: %r" % (e,))
        changed = ["<translator failed>"]
    prove(ctx, "C01")
    co = svx_schema.conv_orders()
    badc = [k for k, v in co.items() if v["bound"] and v["appended"] != v["bound"]]
    dfacts, dh = svx_schema.derive_shape()
    ctx.obl("regenerated:children are enumerated in declaration order (derive(Node) and the hand-written RefNodes conversions)",
            "regenerated", not badc and all(dfacts.values()) and len(co) >= 20, "not identity: %s %s" % (badc, dfacts))
    build_impl(ctx)
    lexcheck.obligation(ctx, "C01", {"pos", "span"})
    lexcheck.correspond(ctx)
    r = ctx.rng
    q = ctx.quick()
    deep = bool(changed) or any(not o.ok for o in ctx.obls)      # change-triggered deepening
    pool = snippets.sv_sources()
    n = len(pool) if (deep or not q) else 120
    srcs = list(HAND) + r.sample(pool, min(n, len(pool)))
    n_main = len(srcs)
    # the regenerated grammar, run by the interpreter the theorems are about, against the real parser: same trees
    pegexec.correspond(ctx, [(k, s) for k, s in srcs if len(s) < 4000], "c01peg", minimum=100)
    # declarations with their qualifiers in every order (mostly not SystemVerilog): whatever is accepted must tile
    srcs += svgen.qualifier_orders()
    srcs += svgen.attribute_zoo()
    srcs += svgen.literal_zoo()
    ctx.cov["deepened"] = deep
    cases, meta = [], {}
    for i, (k, src) in enumerate(srcs):
        for inc in (0, 1):
            if inc and (i >= n_main or (i % 3 and q and not deep)):
                continue
            c = Case("s%d_%d" % (i, inc))
            s2 = src + ("\n) garbage ( endmodule" if inc else "")
            c.add("opt", "incomplete", inc)
            c.add("want", "tree", "leafstr", "nodeinfo", "text")
            c.add("run", "preprocess_str", hx(s2), hx("t.sv"))
            c.add("run", "parse_%s_str" % k, hx(s2), hx("t.sv"))
            cases.append(c)
            meta[c.id] = (k, s2, inc)
    impl = run_harness("api", cases, "c01", timeout=1800)
    bad = None
    for c in cases:
        k, src, inc = meta[c.id]
        lines = impl.get(c.id) or []
        ctx.corr_cases += 1
        cr = crashed(lines)
        if cr:
            bad = bad or (k, src, inc, cr); continue
        tl = [l for l in lines if l.startswith("tree ")]
        tx = [l for l in lines if l.startswith("text ")]
        if not tl or not tx:
            ctx.count("rejected" if not tl else "no_text")
            if inc and tx and any(l.startswith("err Parse") for l in lines):
                pass   # C15 judges this
            continue
        text = unhx(tx[0].split()[1])
        tree = svtree.parse_tree_line(tl[0])
        ctx.count("accepted_%s%s" % (k, "_incomplete" if inc else ""))
        if len(svtree.leaves(tree)) >= 5:
            ctx.corr_nontrivial.add(sha(src))
        why = svtree.tiling_fault(tree, text, whole=not inc)
        if not why:
            ls = [l for l in lines if l.startswith("leafstr ")]
            lv = svtree.leaves(tree)
            end = lv[-1][1] + lv[-1][2] if lv else 0
            if ls and unhx(ls[0].split()[1]) != text[:end]:
                why = "concatenating get_str over the leaves does not reproduce the text"
        if not why:
            # get_str of every node = the slice spanned by its own leaves
            nodes = [t for t in svtree.preorder(tree)]
            ni = [l for l in lines if l.startswith("n ")]
            for t, l in zip(nodes, ni):
                p = l.split()
                lv = svtree.leaves(t)
                exp = "str=-" if not lv else "str=%d:%d" % (lv[0][1], lv[-1][1] + lv[-1][2] - lv[0][1])
                if p[3] != exp:
                    why = "get_str of node #%s (%s) gives %s, its leaves span %s" % (p[1], p[2], p[3], exp)
                    break
        if why:
            bad = bad or (k, src, inc, why)
    ctx.sample({"grammar": srcs[0][0], "source": srcs[0][1][:200]})
    ctx.obl("search-oracle:leaves tile the preprocessed text; get_str of leaves/nodes = slices; lines", "oracle",
            bad is None, bad[3] if bad else "")
    if bad:
        rp = write_replay(ctx, "src-" + sha(bad[1])[:8], {"property": "C01", "grammar": bad[0], "source": bad[1],
                          "allow_incomplete": bool(bad[2]), "why": bad[3]})
        ctx.viol.append(Violation("the tree does not tile the text: " + bad[3], rp))


def replay(ctx, path):
    build_impl(ctx)
    d = json.load(open(path))
    c = Case("r")
    c.add("opt", "incomplete", int(d.get("allow_incomplete", False))).add("want", "tree", "text")
    c.add("run", "preprocess_str", hx(d["source"]), hx("t.sv")).add("run", "parse_%s_str" % d["grammar"], hx(d["source"]), hx("t.sv"))
    lines = run_harness("api", [c], "c01rp").get("r", [])
    tl = [l for l in lines if l.startswith("tree ")]
    tx = [l for l in lines if l.startswith("text ")]
    why = "rejected"
    if tl and tx:
        why = svtree.tiling_fault(svtree.parse_tree_line(tl[0]), unhx(tx[0].split()[1]), not d.get("allow_incomplete"))
    print("replay:", why or "no failure")
    return 1 if why else 0
