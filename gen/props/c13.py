"""C13 -- reserved words (DESIGN 5.13)."""
import json
import pegexec
from framework import *
import svx_keywords, svtree

PARTIAL = ("proved: the regenerated tables/dispatch/specifier mapping (by computation), the identifier lexers' refusal of the "
           "table in force, and the stack discipline of regions for every nesting (C13_region_in_force, "
           "C13_region_closed_restores, C13_outside_regions). Not proved: that the parser executes each begin/end_keywords "
           "exactly once and only on the derivation it finally takes (it does not, on backtracked paths: known class D11); "
           "programs with directives between descriptions and between items are tied by the tree-walk oracle")

SPECS = ["1364-1995", "1364-2001", "1364-2001-noconfig", "1364-2005", "1800-2005", "1800-2009", "1800-2012", "1800-2017"]
WORDS = ["foo", "x1", "bar_z", "logic", "bit", "int", "priority", "unique", "implements", "interconnect", "nettype", "soft", "checker",
         "global", "config", "generate", "signed", "automatic", "uwire", "accept_on", "untyped", "let", "restrict", "string", "type",
         "wire", "module", "reg", "begin", "always", "incdir", "cell", "final", "inside", "ref", "tagged", "var", "void", "shortint"]


def table_name(spec):
    return "KEYWORDS_" + spec.upper().replace("-", "_")


class G:
    def __init__(self, r, words):
        self.r, self.words = r, words      # words: table name -> set
        self.stack = []
        self.uses = []                     # (word, allowed?)
        self.n = 0

    def kw(self):
        return self.words[table_name(self.stack[-1])] if self.stack else self.words["KEYWORDS_1800_2017"]

    def ident(self, force_ok=False):
        r = self.r
        if force_ok or r.random() < 0.7:
            self.n += 1
            w = "id%d" % self.n
        else:
            w = r.choice(WORDS)
        self.uses.append((w, w not in self.kw()))
        return w

    def directives(self, out, depth_limit=3):
        r = self.r
        while r.random() < 0.3:
            if r.random() < 0.25:
                # directives that have nothing to do with the keyword set: the stack stays as it is
                out.append(r.choice(["`resetall\n", "`celldefine\n", "`endcelldefine\n", "`default_nettype wire\n", "`timescale 1ns/1ps\n",
                                     "`define KWX%d 1\n" % self.n, "`undefineall\n", "`nounconnected_drive\n"] if depth_limit == 3 else
                                    ["`define KWY%d 1\n" % self.n, "`undefineall\n", "`line 1 \"f.v\" 0\n"]))
                continue
            if self.stack and r.random() < 0.5:
                self.stack.pop()
                out.append("`end_keywords\n")
            elif len(self.stack) < depth_limit:
                v = r.choice(SPECS)
                self.stack.append(v)
                out.append("`begin_keywords \"%s%s\"\n" % (v, r.choice(["", "", "", " ", "\t", "  "])))

    def program(self):
        r = self.r
        out = []
        for _ in range(r.randint(1, 4)):
            self.directives(out)
            out.append("module %s;\n" % self.ident(force_ok=True))
            for _ in range(r.randint(0, 4)):
                if r.random() < 0.3:
                    self.directives(out, 2)
                k = r.choice(["wire %s;\n", "reg %s;\n", "wire [3:0] %s;\n", "reg %s = 1'b0;\n"])
                out.append("  " + k % self.ident())
            out.append("endmodule\n")
        while self.stack and r.random() < 0.7:
            self.stack.pop()
            out.append("`end_keywords\n")
        return "".join(out)


def tree_oracle(tree, text, words):
    """None | description: no SimpleIdentifier carries a reserved word of the set in force where it stands (tree order)"""
    stack = []
    bad = []
    def first_leaf_text(t):
        lv = svtree.leaves(t)
        return text[lv[0][1]:lv[0][1] + lv[0][2]].decode("utf-8", "replace") if lv else ""
    def walk(t, ctx):
        if t[0] == "L":
            return
        k = t[1]
        if k == "KeywordsDirective":
            vs = [x for x in svtree.preorder(t) if x[0] == "N" and x[1] == "VersionSpecifier"]
            if vs:
                stack.append(first_leaf_text(vs[0]))
            return
        if k == "EndkeywordsDirective":
            if stack:
                stack.pop()
            return
        if k in ("TextMacroName", "TextMacroIdentifier"):
            ctx = "directive"
        if k == "SimpleIdentifier":
            w = first_leaf_text(t)
            tab = words["KEYWORDS_DIRECTIVE"] if ctx == "directive" else (words[table_name(stack[-1])] if stack else words["KEYWORDS_1800_2017"])
            if w in tab:
                bad.append("simple identifier %r is reserved in the set in force (%s)" % (w, ctx or (stack[-1] if stack else "1800-2017 default")))
        for c in t[2]:
            walk(c, ctx)
    walk(tree, None)
    return bad[0] if bad else None


FIXED = [
    # words joined by `$` that the grammar takes apart again (PATHPULSE$in$out): a reserved word is no terminal name
    ("module m; specify specparam PATHPULSE$module$q = (2, 9); endspecify endmodule\n", False),
    ("module m; specify specparam PATHPULSE$clk$begin = (2, 9); endspecify endmodule\n", False),
    ("`begin_keywords \"1800-2005\"\nmodule m; specify specparam PATHPULSE$logic$q = (2, 9); endspecify endmodule\n`end_keywords\n", False),
    ("module module; endmodule\n", False), ("module m; wire logic; endmodule\n", False),
    ("`begin_keywords \"1364-2001\"\nmodule m; wire logic; endmodule\n`end_keywords\n", True),
    ("`begin_keywords \"1364-2001\"\nmodule m; endmodule\n`end_keywords\nmodule n; wire logic; endmodule\n", False),
    ("`begin_keywords \"1800-2017\"\n`begin_keywords \"1800-2017\"\n`end_keywords\nmodule m; reg logic; endmodule\n`end_keywords\n", False),
    ("`begin_keywords \"1364-2001\"\n`begin_keywords \"1364-2001\"\n`end_keywords\nmodule m; reg logic; endmodule\n`end_keywords\n", True),
    ("`begin_keywords \"1364-2001\"\n`begin_keywords \"1800-2017\"\n`begin_keywords \"1800-2017\"\n`end_keywords\nmodule m; reg logic; endmodule\n`end_keywords\n`end_keywords\n", False),
    ("`begin_keywords \"1800-2005\"\nmodule m; wire checker; endmodule\n`end_keywords\n", True),
    ("`begin_keywords \"1364-2001-noconfig\"\nmodule m; wire config; endmodule\n`end_keywords\n", True),
    ("`begin_keywords \"1364-2001\"\nmodule m; wire config; endmodule\n`end_keywords\n", False),
    # a word reserved only in a later standard is no keyword either (fixed in 7a74a81: corpus/C13-later-keyword.sv)
    ("`begin_keywords \"1364-1995\"\nmodule m;\n  reg signed;\n  wire [3:0] tagged;\nendmodule\n`end_keywords\n", True),
    ("`begin_keywords \"1364-1995\"\nmodule m; reg signed [3:0] x; endmodule\n`end_keywords\n", False),
    ("`begin_keywords \"1364-2001\"\nmodule m; reg signed [3:0] x; endmodule\n`end_keywords\n", True),
    ("`begin_keywords \"1364-2001\"\n`resetall\nmodule m; wire logic; endmodule\n`end_keywords\n", True),
    ("`begin_keywords \"1364-2001\"\n`begin_keywords \"1800-2017\"\n`resetall\n`end_keywords\nmodule m; wire logic; endmodule\n`end_keywords\n", True),
    ("`begin_keywords \"1364-2001\"\n`resetall\n`end_keywords\nmodule m; wire logic; endmodule\n", False),
    # white space between the specifier and the closing quote (the keyword lexer takes trailing white space): the same set
    ("`begin_keywords \"1364-2001 \"\nmodule m; wire logic; endmodule\n`end_keywords\n", True),
    ("`begin_keywords \"1800-2005\t \"\nmodule m; wire checker; endmodule\n`end_keywords\n", True),
    ("`begin_keywords \"1364-2001\"\n`begin_keywords \"1800-2005 \"\nmodule m; reg logic; endmodule\n`end_keywords\n`end_keywords\n", False),
    ("`begin_keywords \"1364-2001\"\n`begin_keywords \"1800-2005 \"\n`end_keywords\nmodule m; reg logic; endmodule\n`end_keywords\nmodule n; reg logic; endmodule\n", False),
    # a keywords directive in text that is NOT compiled (an untaken branch), or one whose region was closed: no effect on what follows
    ("`ifdef UNDEF_\n`begin_keywords \"1364-2001\"\n`endif\nmodule m; wire logic; endmodule\n", False),
    ("`ifndef UNDEF_\n`else\n`begin_keywords \"1364-1995\"\n`endif\nmodule m; reg signed [3:0] x; wire logic; endmodule\n", False),
    ("`ifdef UNDEF_\n`begin_keywords \"1364-2001\"\n`begin_keywords \"1364-2001\"\n`endif\nmodule m; endmodule\nmodule n; wire logic; endmodule\n", False),
    ("`define OPENS `begin_keywords \"1364-2001\"\nmodule m; wire logic; endmodule\n", False),
    # the names of compiler directives are directives under every set (fixed: `include was refused where include is not reserved)
    ("`begin_keywords \"1364-1995\"\n`define W 1\n`ifdef W\n`timescale 1ns/1ps\n`endif\n`celldefine\n`undef W\nmodule m; reg include; endmodule\n`endcelldefine\n`end_keywords\n", True),
    ("`begin_keywords \"1364-2001-noconfig\"\n`line 3 \"f.v\" 0\n`default_nettype none\nmodule m; wire config, include, library; endmodule\n`resetall\n`end_keywords\n", True),
    # the set in force where the WORD stands decides, not the one a directive behind it selects
    ("module m;\nendmodule : logic\n`begin_keywords \"1364-2001\"\nmodule n; endmodule\n`end_keywords\n", False),
    ("`begin_keywords \"1364-2001\"\nmodule logic;\nendmodule : logic\n`end_keywords\n", True),
    ("`begin_keywords \"1364-2001\"\nmodule m; wire logic\n`end_keywords\n; endmodule\n", True),
    ("`begin_keywords \"1364-2001\"\n`begin_keywords \"1800-2017\"\nmodule m; endmodule : logic\n`end_keywords\n`end_keywords\n", False),
    ("`resetall\nmodule module; endmodule\n", False), ("`define X 1\nmodule m; wire wire; endmodule\n", False),
    ("`timescale 1ns/1ps\n`celldefine\nmodule m; reg always; endmodule\n", False),
]


def check(ctx):
    try:
        facts = svx_keywords.main()
        words = {k: set(v) for k, v in facts["words"].items()}
        small = {k: v for k, v in facts.items() if k != "words"}
        ctx.obl("regenerated:keyword tables, is_keyword dispatch, begin/end_keywords, identifier lexers", "regenerated",
                all(facts["lexers"].values()) and len(facts["specifiers"]) == 9, json.dumps(small)[:600])
        ctx.cov["regenerated"] = small
    except Exception as e:
        ctx.obl("regenerated:keyword tables, is_keyword dispatch, begin/end_keywords, identifier lexers", "regenerated", False,
                "a function no longer has the shape the translator understands: %s" % (e,))
        import re as _re
        from svx_grammar import strip_comments
        src = strip_comments(open(svx_keywords.KW).read())
        words = {m.group(1): set(_re.findall(r'"([^"]*)"', m.group(2)))
                 for m in _re.finditer(r"pub\(crate\) const (KEYWORDS_\w+): &\[&str\] = &\[(.*?)\];", src, _re.S)}
    prove(ctx, "C13")
    build_impl(ctx)
    r = ctx.rng
    q = ctx.quick()
    progs = [(t, exp, None) for t, exp in FIXED]
    for _ in range(150 if q else 3000):
        g = G(r, words)
        t = g.program()
        progs.append((t, all(ok for _, ok in g.uses), [w for w, ok in g.uses if not ok]))
    # sweep: every word of every table where only an identifier can stand (inside a region naming the table, and by
    # default), and every word reserved only later as an identifier
    latest = words.get("KEYWORDS_1800_2017", set())
    for spec in [None] + SPECS:
        tab = words.get(table_name(spec) if spec else "KEYWORDS_1800_2017", set())
        ws_in = sorted(tab)
        ws_later = sorted(latest - tab)
        if q:
            ws_in = ws_in if spec is None else r.sample(ws_in, min(40, len(ws_in)))
            ws_later = r.sample(ws_later, min(25, len(ws_later)))
        for w, exp in [(w, False) for w in ws_in] + [(w, True) for w in ws_later]:
            t = "module m; wire %s; endmodule\n" % w
            if spec:
                t = "`begin_keywords \"%s\"\n%s`end_keywords\n" % (spec, t)
            progs.append((t, exp, [w]))
    # keyword regions in the executable grammar (Nom/Exec.v: version stack, is_keyword veto, is_reserved_in_force guard over
    # the regenerated tables) against the real parser
    plain = [t for t, _, _ in progs if "`define" not in t and "`include" not in t and len(t) < 1500]
    pegexec.correspond(ctx, [("sv", t) for t in plain[:len(FIXED)] + r.sample(plain, min(len(plain), 80 if q else 500))], "c13peg", minimum=60)
    # the words each standard adds, by name from IEEE 1800-2017 22.14 (not from the code's tables; the same lists as in
    # C13_what_each_standard_adds): reserved inside the region of the standard that adds them, identifiers in the one before
    ADDED = [("1364-1995", "1364-2001-noconfig", ["automatic", "endgenerate", "generate", "genvar", "localparam", "noshowcancelled",
                                                   "pulsestyle_ondetect", "pulsestyle_onevent", "showcancelled", "signed", "unsigned"]),
             ("1364-2001-noconfig", "1364-2001", ["cell", "config", "design", "endconfig", "incdir", "include", "instance", "liblist", "library", "use"]),
             ("1364-2001", "1364-2005", ["uwire"]),
             ("1800-2005", "1800-2009", ["accept_on", "checker", "endchecker", "eventually", "global", "implies", "let", "nexttime", "reject_on",
                                         "restrict", "s_always", "s_eventually", "s_nexttime", "s_until", "s_until_with", "strong", "sync_accept_on",
                                         "sync_reject_on", "unique0", "until", "until_with", "untyped", "weak"]),
             ("1800-2009", "1800-2012", ["implements", "interconnect", "nettype", "soft"])]
    for before, spec, ws in ADDED:
        for w in ws:
            progs.append(("`begin_keywords \"%s\"\nmodule m; wire %s; endmodule\n`end_keywords\n" % (spec, w), False, [w]))
            progs.append(("`begin_keywords \"%s\"\nmodule m; wire %s; endmodule\n`end_keywords\n" % (before, w), True, [w]))
    cases = []
    for i, (t, exp, _) in enumerate(progs):
        c = Case("k%d" % i)
        c.add("want", "tree", "text", "state")
        c.add("run", "preprocess_str", hx(t), hx("t.sv")).add("run", "parse_sv_str", hx(t), hx("t.sv"))
        cases.append(c)
    impl = run_harness("api", cases, "c13", timeout=1800)
    bad = None
    for c, (t, exp, why_rej) in zip(cases, progs):
        lines = impl.get(c.id) or []
        ctx.corr_cases += 1
        cr = crashed(lines)
        if cr:
            bad = bad or (t, cr); continue
        tl = [l for l in lines if l.startswith("tree ")]
        tx = [l for l in lines if l.startswith("text ")]
        ctx.count("accepted" if tl else "rejected")
        ctx.corr_nontrivial.add(sha(t))
        if bool(tl) != exp:
            if exp:
                bad = bad or (t, "a word reserved only in a later standard than the one in force was refused as an identifier (source rejected)")
            else:
                bad = bad or (t, "a reserved word of the set in force was accepted where only an identifier can stand: %s" % (why_rej or ""))
            continue
        if tl and tx:
            w = tree_oracle(svtree.parse_tree_line(tl[0]), unhx(tx[0].split()[1]), words)
            if w:
                bad = bad or (t, w)
    ctx.sample({"source": progs[len(FIXED)][0], "expected_accept": progs[len(FIXED)][1]})
    ctx.obl("search-oracle:identifiers vs the keyword set in force (all eight specifiers, nested and sequential regions)", "oracle",
            bad is None, bad[1] if bad else "")
    if bad:
        rp = write_replay(ctx, "src-" + sha(bad[0])[:8], {"property": "C13", "source": bad[0], "why": bad[1]})
        ctx.viol.append(Violation("reserved words: " + bad[1], rp))
    # known finding D11
    findings, _ = load_known()
    if any(f.get("property") == "C13" and f.get("id") == "D11-backtracked-keywords" for f in findings):
        w = open(os.path.join(VERIF, "corpus", "C13-D11.sv")).read()
        c = Case("kf").add("want", "tree").add("run", "parse_sv_str", hx(w), hx("t.sv"))
        lines = run_harness("api", [c], "c13kf").get("kf", [])
        if not any(l.startswith("tree ") for l in lines):
            ctx.known_printed.append("D11-backtracked-keywords")


def replay(ctx, path):
    build_impl(ctx)
    d = json.load(open(path))
    c = Case("r").add("want", "tree").add("run", "parse_sv_str", hx(d["source"]), hx("t.sv"))
    lines = run_harness("api", [c], "c13rp").get("r", [])
    print("accepted" if any(l.startswith("tree ") for l in lines) else lines[:3])
    print("replay:", d["why"])
    return 1
