"""C15 -- incomplete mode (DESIGN 5.15)."""
import json
from framework import *
import lexcheck, pegexec
import svx_grammar, snippets, svtree

PARTIAL = ("proved over the regenerated grammar, for every behaviour of the primitives that consumes at least one byte and stays "
           "inside the text: the incomplete start symbols never end in Err (C15_never_fails_*), many0(d) returns what "
           "many_till(d, eof) returned (C15_agree) and the returned prefix tiles (C15_prefix_tiles); that the hand lexers do "
           "consume on success is an assumption on the oracles; 'appending unparsable text leaves the tree unchanged' is by "
           "the search oracle only")

JUNK = ["\n)", "\n]]", "\n\x01", "\n@@@ ???", "\nendmodule", "\n\"unterminated", "\n`undefined_macro_is_a_pp_error"]
# unparsable text that starts like a continuation of the last description (label colon, parameter hash, ...)
JUNK2 = [": 1", ":;", ": (", " : ", "\n: 1", "#", "# (", "(", "[", ".x", "= 1", "::", ",", "@ (", "begin", "; ;;", "else", "'", "1", "? :",
         "`celldefine\n: 1", "/* c */ : 2",
         # text that no token can start with, directly behind the last token of the source
         "é", "ü x", "≠ 1", "中文", "😀", "\u00a0x", "\x7f", "\x01 y", "×", "ÿ("]
HEADS = ["timeunit 1ns\nmodule m; endmodule\n", "timeunit 1ns / ;", "timeprecision ;", "timeunit", "timeunit 1ns; timeprecision 1ps\n",
         "timeunit 1ns/1ps;\nmodule m; endmodule\n", "   // c\n  timeunit 1ns", "module", "module m", "module m;", "module m; wire",
         "library", "library l", "include", "config c; design", ";", ")", "`resetall", "package p; endpackage module", "bind"]


def mutate(r, s):
    x = r.random()
    if x < 0.35 and len(s) > 2:
        return s[:r.randrange(1, len(s))]                      # truncation
    if x < 0.6 and len(s) > 4:
        i = r.randrange(len(s) - 2)
        return s[:i] + s[i + r.randint(1, 3):]                   # deletion
    if x < 0.8:
        i = r.randrange(len(s) + 1)
        return s[:i] + r.choice([")", "(", ";", " endmodule ", " begin ", "]", "@", "'"]) + s[i:]
    return s + r.choice(JUNK)


def check(ctx):
    try:
        facts = svx_grammar.main()
        small = {k: v for k, v in facts.items() if k in ("functions", "n_bad", "how", "nonnull", "hash")}
        ctx.obl("regenerated:grammar with non-nullability certificate", "regenerated", facts["n_bad"] == 0, json.dumps(small))
        ctx.cov["regenerated"] = small
    except Exception as e:
        ctx.obl("regenerated:grammar with non-nullability certificate", "regenerated", False, "translator failed: %r" % (e,))
    prove(ctx, "C15")
    build_impl(ctx)
    lexcheck.obligation(ctx, "C15", {"pos"})
    r = ctx.rng
    q = ctx.quick()
    deep = any(not o.ok for o in ctx.obls)
    pool = snippets.sv_sources()
    base = r.sample(pool, min(len(pool), 60 if (q and not deep) else 500))
    srcs = [("sv", h) for h in HEADS] + [("lib", h) for h in HEADS] + base + [("sv", t) for t in snippets.KW_REGIONS]
    # incomplete mode in the executable grammar: prefixes and sources with junk behind them -- the regenerated
    # source_text_incomplete / library_text_incomplete, run, must return the real parser's tree
    gtexts = []
    for k, s in r.sample(srcs, min(len(srcs), 40 if q else 250)):
        if len(s) < 1500:
            gtexts.append((k + "i", s[:r.randrange(len(s) + 1)]))
            gtexts.append((k + "i", s + "\n) garbage ( endmodule"))
    pegexec.correspond(ctx, gtexts, "c15peg", minimum=50)
    # long sources (more descriptions than the memo holds) whose last description stands in a keyword region that is still open
    # at the end of the text: junk behind them must not change what is returned for the descriptions in front
    for nmod in (6, 14, 40):
        body = "".join("module m%d; logic [3:0] a%d; always_comb a%d = %d; endmodule\n" % (i, i, i, i % 7) for i in range(nmod))
        for spec in ("1364-1995", "1364-2001", "1800-2005"):
            srcs.append(("sv", body + "`begin_keywords \"%s\"\nmodule z; reg r; endmodule\n" % spec))
        srcs.append(("sv", "`begin_keywords \"1364-2001\"\n" + "".join("module n%d; reg logic; endmodule\n" % i for i in range(nmod))))
    # texts the preprocessor cannot finish: a used macro whose text does not lex on its own, directly, nested, in an included file
    for t in ["`define OPEN \"abc\n`OPEN\nmodule m; endmodule\n", "`define CM /* never closed\nmodule m; endmodule\n`CM\n", "`define BS a \\ b\n`BS\n",
              "`define INC `include\n`INC\n", "`define OUTER `INNER\n`define INNER \"open\nmodule m; endmodule\n`OUTER\n",
              "`define A(x) x\n`A(\"open)\n", "module m;\n`undefined_macro\nendmodule\n", "`define R `R\n`R\n", "`include \"nofile.svh\"\n"]:
        srcs.append(("sv", t)); srcs.append(("lib", t))
    srcs.append(("lib", "".join("library l%d \"a%d/*.v\" -incdir \"i%d\";\n" % (i, i, i) for i in range(200)) + "`begin_keywords \"1364-1995\"\nconfig c; design d; endconfig\n"))
    for k, s in list(base):
        for _ in range(1 if q else 3):
            srcs.append((k, mutate(r, s)))
    for k, s in base[: (10 if q else 100)]:
        srcs.append((k, s + r.choice(JUNK)))
    # every prefix of short sources that are dense in token kinds (the text may end inside any token: a DPI name, a based
    # number, a string, a system task, an escaped identifier, an attribute)
    for t in ["module m; import \"DPI-C\" pure function int fu(input int a); export \"DPI-C\" task c_name; endmodule\n",
              "module m; wire [3:0] w = 4'hF; initial $display(\"s\", \\esc , 1.5e3, `__LINE__); (* a = 1 *) reg r; endmodule\n",
              "package p; typedef enum {A, B} e_t; import \"DPI\" context task tk(); endpackage\nclass c; extern function void f(); endclass\n"]:
        tb = t.encode("utf-8")
        for n in range(1, len(tb)):
            try:
                srcs.append(("sv", tb[:n].decode("utf-8")))
            except UnicodeDecodeError:
                pass
    cases, meta = [], {}
    for i, (k, s) in enumerate(srcs):
        c = Case("i%d" % i)
        c.add("want", "tree", "text")
        c.add("run", "preprocess_str", hx(s), hx("t.sv"))
        c.add("opt", "incomplete", 0).add("run", "parse_%s_str" % k, hx(s), hx("t.sv"))
        c.add("opt", "incomplete", 1).add("run", "parse_%s_str" % k, hx(s), hx("t.sv"))
        c.add("opt", "incomplete", 1).add("run", "parse_%s_str" % k, hx(s + "\n) \x01 garbage"), hx("t.sv"))
        j2 = r.choice(JUNK2)
        j2 = r.choice([" ", "\n"] if (j2[0].isascii() and (j2[0].isalnum() or j2[0] in "_$")) else ["", "", " ", "\n"]) + j2   # never glue two words
        # junk that no token can start with is put directly behind the last token of the source (its final white space goes)
        s2 = s.rstrip(" \t\r\n") if not j2[0].isascii() and "`" not in s.splitlines()[-1:][0:1].__str__() else s
        c.add("opt", "incomplete", 1).add("run", "parse_%s_str" % k, hx(s2 + j2), hx("t.sv"))
        c.add("opt", "incomplete", 0).add("run", "parse_%s_str" % k, hx(s2 + j2), hx("t.sv"))
        cases.append(c)
        meta[c.id] = (k, s, j2)
    impl = run_harness("api", cases, "c15", timeout=1800)
    bad = None
    second = []     # (kind, prefix text, incomplete tree line) to check that the prefix is made of complete descriptions
    for c in cases:
        k, s, j2 = meta[c.id]
        lines = impl.get(c.id) or []
        ctx.corr_cases += 1
        cr = crashed(lines)
        if cr:
            bad = bad or (k, s, cr); continue
        ks = [i for i, l in enumerate(lines) if l.startswith("run ")] + [len(lines)]
        runs = [lines[ks[j] + 1:ks[j + 1]] for j in range(len(ks) - 1)]
        if len(runs) < 4:
            continue
        pp, strict, inc, incj = runs[0], runs[1], runs[2], runs[3]
        if "ok" not in pp:
            ctx.count("preprocess_error")
            # whatever the preprocessor objects to is the preprocessor's error, in both modes: never a parse error
            for rn in (inc, incj):
                if any(l.startswith("err Parse") for l in rn):
                    bad = bad or (k, s, "the preprocessor rejects the text, allow_incomplete reported %s" % [l for l in rn if l.startswith("err")][0])
            continue
        text = unhx([l for l in pp if l.startswith("text ")][0].split()[1])
        if any(l.startswith("err Parse") for l in inc):
            bad = bad or (k, s, "allow_incomplete reported %s" % [l for l in inc if l.startswith("err")][0]); continue
        it = [l for l in inc if l.startswith("tree ")]
        if not it:
            bad = bad or (k, s, "allow_incomplete returned neither a tree nor a parse error: %s" % inc[:1]); continue
        tree = svtree.parse_tree_line(it[0])
        why = svtree.tiling_fault(tree, text, whole=False)
        if why:
            bad = bad or (k, s, "incomplete-mode tree: " + why); continue
        st = [l for l in strict if l.startswith("tree ")]
        ctx.count("%s_strict_%s" % (k, "ok" if st else "rejected"))
        ctx.corr_nontrivial.add(sha(s))
        if st and st[0] != it[0]:
            bad = bad or (k, s, "strict mode accepts but the two modes return different trees"); continue
        if st:
            jt = [l for l in incj if l.startswith("tree ")]
            if not jt:
                if not any(l.startswith("err Preprocess") or l.startswith("err Define") for l in incj):
                    bad = bad or (k, s, "appending unparsable text made incomplete mode fail: %s" % incj[:1])
            else:
                a = svtree.skeleton(svtree.parse_tree_line(it[0]))
                b = svtree.skeleton(svtree.parse_tree_line(jt[0]))
                if a != b:
                    bad = bad or (k, s, "appending unparsable text changed the tree (white space aside)")
            # a second suffix, one that starts like a continuation; it counts as unparsable when strict mode rejects
            # the extended text
            if len(runs) >= 6 and not any(l.startswith("tree ") for l in runs[5]):
                jt2 = [l for l in runs[4] if l.startswith("tree ")]
                if not jt2:
                    if not any(l.startswith("err Preprocess") or l.startswith("err Define") for l in runs[4]):
                        bad = bad or (k, s + j2, "appending unparsable text %r made incomplete mode fail: %s" % (j2, runs[4][:1]))
                elif svtree.skeleton(svtree.parse_tree_line(it[0])) != svtree.skeleton(svtree.parse_tree_line(jt2[0])):
                    bad = bad or (k, s + j2, "appending the unparsable text %r changed the tree (white space aside)" % j2)
                else:
                    ctx.count("continuation_like_junk_ok")
        lv = svtree.leaves(tree)
        end = lv[-1][1] + lv[-1][2] if lv else 0
        if not st and 0 < end:
            second.append((k, text[:end].decode("utf-8", "replace"), it[0], s))
    # the prefix consists of complete descriptions: strict mode accepts it and yields the same tree
    c2 = []
    for i, (k, pre, tl, s) in enumerate(second[: (80 if q else 2000)]):
        c = Case("p%d" % i)
        c.add("want", "tree").add("opt", "incomplete", 0).add("run", "parse_%s_str" % k, hx(pre), hx("t.sv"))
        c2.append(c)
    impl2 = run_harness("api", c2, "c15b", timeout=1800) if c2 else {}
    for c, (k, pre, tl, s) in zip(c2, second):
        lines = impl2.get(c.id) or []
        ctx.corr_cases += 1
        st = [l for l in lines if l.startswith("tree ")]
        if "`" in pre or "\\" in pre or '"' in pre:
            continue       # the prefix of a preprocessed text is preprocessed again here: D6 / directives may change it
        if not st:
            bad = bad or (k, s, "the prefix covered by the incomplete-mode tree is not accepted in strict mode: %r" % pre[-60:])
        elif st[0] != tl:
            bad = bad or (k, s, "strict parse of the covered prefix gives another tree")
        else:
            ctx.count("prefix_reparsed_ok")
    ctx.sample({"grammar": srcs[0][0], "source": srcs[0][1]})
    ctx.obl("search-oracle:never Parse error; prefix tiles and is made of complete descriptions; agrees with strict; junk-insensitive",
            "oracle", bad is None, bad[2] if bad else "")
    if bad:
        rp = write_replay(ctx, "src-" + sha(bad[1])[:8], {"property": "C15", "grammar": bad[0], "source": bad[1], "why": bad[2]})
        ctx.viol.append(Violation("incomplete mode: " + bad[2], rp))
    d11_tail_known(ctx)


def d11_tail_known(ctx):
    findings, _ = load_known()
    if not any(f.get("property") == "C15" and f.get("id") == "D11-keywords-in-tail" for f in findings):
        return
    w = json.load(open(os.path.join(VERIF, "corpus", "C15-D11-tail.json")))
    c = Case("kf").add("want", "tree").add("opt", "incomplete", 1)
    c.add("run", "parse_sv_str", hx(w["source"]), hx("t.sv")).add("run", "parse_sv_str", hx(w["source"] + w["tail"]), hx("t.sv"))
    lines = run_harness("api", [c], "c15kf").get("kf", [])
    tl = [l for l in lines if l.startswith("tree ")]
    if len(tl) == 2 and "TimeunitsDeclaration" in tl[0] and "TimeunitsDeclaration" not in tl[1]:
        ctx.known_printed.append("D11-keywords-in-tail")
    else:
        ctx.notes.append("known finding D11-keywords-in-tail no longer reproduces: %s" % [l[:80] for l in lines[:4]])


def replay(ctx, path):
    build_impl(ctx)
    d = json.load(open(path))
    c = Case("r")
    c.add("want", "tree")
    for inc in (0, 1):
        c.add("opt", "incomplete", inc).add("run", "parse_%s_str" % d["grammar"], hx(d["source"]), hx("t.sv"))
    for l in run_harness("api", [c], "c15rp").get("r", []):
        print(l[:200])
    print("replay:", d["why"])
    return 1
