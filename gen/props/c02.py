"""C02 -- Annex A sentences accepted and classified (DESIGN 5.2)."""
import json
from framework import *
import svx_keywords, svgen, svtree

PARTIAL = ("proved over the regenerated character sets and keyword() shape: a reserved word is recognised only as a whole word "
           "(C02_keyword_is_whole_word, C02_keyword_of_word) and the identifier lexers read the whole word "
           "(C02_identifier_is_whole_word), for every text and position. Acceptance and classification of the generated "
           "Annex A sentences (up to the generator's size bound) are covered by the classification oracle on the real parser, "
           "not by a theorem")

IDENT_OF = {   # node kind -> kind of the node that carries its own identifier
    "ModuleDeclarationAnsi": "ModuleIdentifier", "ModuleDeclarationNonansi": "ModuleIdentifier",
    "InterfaceDeclarationAnsi": "InterfaceIdentifier", "InterfaceDeclarationNonansi": "InterfaceIdentifier",
    "ProgramDeclarationAnsi": "ProgramIdentifier", "ProgramDeclarationNonansi": "ProgramIdentifier",
    "PackageDeclaration": "PackageIdentifier", "ClassDeclaration": "ClassIdentifier", "AnsiPortDeclaration": "PortIdentifier",
    "ParamAssignment": "ParameterIdentifier", "NetDeclAssignment": "NetIdentifier", "VariableDeclAssignment": "VariableIdentifier",
    "HierarchicalInstance": "InstanceIdentifier", "FunctionDeclaration": "FunctionIdentifier", "TaskDeclaration": "TaskIdentifier",
    "GenerateBlock": "GenerateBlockIdentifier", "TypeDeclaration": "TypeIdentifier",
    "ModuleInstantiation": "ModuleIdentifier", "NInputGateInstance": "InstanceIdentifier",
}


def first_text(t, text):
    lv = svtree.leaves(t)
    return text[lv[0][1]:lv[0][1] + lv[0][2]].decode("utf-8", "replace") if lv else None


def classify(tree, text):
    """[(kind, own identifier)] for the kinds of IDENT_OF, in tree order"""
    out = []
    def own_ident(t, want):
        # breadth-limited search: the first node of kind `want` not below another classified construct
        stack = list(t[2])
        while stack:
            n = stack.pop(0)
            if n[0] != "N":
                continue
            if n[1] == want:
                return first_text(n, text)
            if n[1] in IDENT_OF and n[1] != t[1]:
                continue
            stack = list(n[2]) + stack
        return None
    def walk(n, in_block_decl):
        if n[0] != "N":
            return
        if n[1] == "BlockItemDeclaration":
            in_block_decl = True        # known class: `x = e;` at the head of a block is read as an implicit-type declaration
        if n[1] in IDENT_OF and not (in_block_decl and n[1] == "VariableDeclAssignment"):
            out.append((n[1], own_ident(n, IDENT_OF[n[1]])))
        for c in n[2]:
            walk(c, in_block_decl)
    walk(tree, False)
    counts = {}
    for n in svtree.preorder(tree):
        if n[0] == "N" and n[1] in ("ContinuousAssign",):
            counts[n[1]] = counts.get(n[1], 0) + 1
    return out, counts


SHAPES = os.path.join(VERIF, "corpus", "C02-shapes.json")


def shape_of(tree):
    """the white-space-free skeleton of a tree: node kinds in pre-order with the leaf lengths"""
    return sha(repr(svtree.skeleton(tree)))


def run_shapes(srcs, tag):
    """{sha(source): shape} for the accepted ones, through the real parser"""
    cases = []
    for i, (k, src) in enumerate(srcs):
        cases.append(Case("q%d" % i).add("want", "tree").add("run", "parse_%s_str" % k, hx(src), hx("t.sv")))
    impl = run_harness("api", cases, tag, timeout=1800)
    out = {}
    for c, (k, src) in zip(cases, srcs):
        tl = [l for l in (impl.get(c.id) or []) if l.startswith("tree ")]
        out[sha(k + src)] = shape_of(svtree.parse_tree_line(tl[0])) if tl else "rejected"
    return out


def shapes_check(ctx, grammar_hash):
    """the spec snippets of tests.rs keep the classification (tree skeleton) recorded when the grammar was validated;
    all of them when the regenerated grammar differs from the validated one, a sample otherwise"""
    import snippets
    ref = json.load(open(SHAPES))
    pool = snippets.sv_sources()
    deep = (grammar_hash != ref.get("grammar_hash")) or not ctx.quick()
    srcs = pool if deep else ctx.rng.sample(pool, 150)
    got = run_shapes(srcs, "c02shape")
    bad = None
    for k, src in srcs:
        h = sha(k + src)
        ctx.corr_cases += 1
        if h in ref["shapes"] and got.get(h) != ref["shapes"][h]:
            bad = bad or (src, "the tree of a spec snippet (white space aside) differs from the one recorded for the validated grammar"
                          if got.get(h) != "rejected" else "a spec snippet is no longer accepted")
    ctx.cov["shape_snapshot"] = {"snippets": len(srcs), "all": deep, "validated_grammar_hash": ref.get("grammar_hash"),
                                 "grammar_hash_now": grammar_hash}
    ctx.obl("search-oracle:spec snippets keep the node kinds recorded for the validated grammar (corpus/C02-shapes.json)",
            "oracle", bad is None, bad[1] if bad else "")
    if bad:
        rp = write_replay(ctx, "shape-" + sha(bad[0])[:8], {"property": "C02", "source": bad[0], "why": bad[1]})
        ctx.viol.append(Violation("Annex A classification: " + bad[1], rp))


def check(ctx):
    try:
        import svx_grammar
        ghash = svx_grammar.main().get("hash")
    except Exception as e:
        ghash = "translator failed"
    try:
        facts = svx_keywords.main()
        ctx.obl("regenerated:character sets of the identifier lexers and the word-boundary test of keyword()", "regenerated",
                all(facts["lexers"].values()), json.dumps({k: facts[k] for k in ("keyword_boundary", "lexers", "hash")}))
    except Exception as e:
        ctx.obl("regenerated:character sets of the identifier lexers and the word-boundary test of keyword()", "regenerated", False,
                "a function no longer has the shape the translator understands: %s" % (e,))
    prove(ctx, "C02")
    build_impl(ctx)
    r = ctx.rng
    q = ctx.quick()
    deep = any(not o.ok for o in ctx.obls)
    gens = []
    for _ in range(120 if (q and not deep) else 2500):
        g = svgen.Gen(r).program()
        src, spans = g.render()
        gens.append((g, src, spans))
    cases = []
    for i, (g, src, spans) in enumerate(gens):
        c = Case("g%d" % i).add("want", "tree", "text").add("run", "preprocess_str", hx(src), hx("t.sv")).add("run", "parse_sv_str", hx(src), hx("t.sv"))
        cases.append(c)
    impl = run_harness("api", cases, "c02", timeout=1800)
    bad = None
    for c, (g, src, spans) in zip(cases, gens):
        lines = impl.get(c.id) or []
        ctx.corr_cases += 1
        cr = crashed(lines)
        if cr:
            bad = bad or (src, cr); continue
        tl = [l for l in lines if l.startswith("tree ")]
        tx = [l for l in lines if l.startswith("text ")]
        if not tl:
            bad = bad or (src, "a sentence of the covered grammar subset was rejected: %s" % [l for l in lines if l.startswith("err")][:1]); continue
        text = unhx(tx[0].split()[1]) if tx else src.encode()
        tree = svtree.parse_tree_line(tl[0])
        ctx.count("tokens_%s" % ("<50" if len(spans) < 50 else "<150" if len(spans) < 150 else "150+"))
        ctx.corr_nontrivial.add(sha(src))
        got, counts = classify(tree, text)
        for kind, ident in g.exp:
            if ident is None:
                continue
            n = sum(1 for k, t in got if k == kind and t == ident)
            if kind == "ParamAssignment" and n == 0:
                n = sum(1 for k, t in got if k == "ParamAssignment" and t == ident)
            if n != 1:
                bad = bad or (src, "%s %r appears %d times as that node kind (kinds with that name: %s)" % (
                    kind, ident, n, sorted({k for k, t in got if t == ident})))
                break
        nca = sum(1 for k, _ in g.exp if k == "ContinuousAssign")
        if counts.get("ContinuousAssign", 0) != nca:
            bad = bad or (src, "%d continuous assignments generated, %d ContinuousAssign nodes" % (nca, counts.get("ContinuousAssign", 0)))
        # every identifier / keyword token is exactly one leaf
        leafset = {(l[1], l[2]) for l in svtree.leaves(tree)}
        if text == src.encode():
            for off, ln, t, k in spans:
                if k in ("id", "kw") and (off, ln) not in leafset:
                    bad = bad or (src, "%s %r at offset %d is not exactly one leaf" % ("identifier" if k == "id" else "keyword", t, off))
                    break
    ctx.sample({"source": gens[0][1][:300], "expected": gens[0][0].exp[:8]})
    ctx.obl("search-oracle:generated Annex A sentences are accepted, each construct classified once with its identifier, each word one leaf",
            "oracle", bad is None, bad[1] if bad else "")
    if bad:
        rp = write_replay(ctx, "src-" + sha(bad[0])[:8], {"property": "C02", "source": bad[0], "why": bad[1]})
        ctx.viol.append(Violation("Annex A sentence: " + bad[1], rp))
    # sentences in which an identifier is spelled like a word that means something else elsewhere (time units, scale
    # characters, method names): accepted, whatever stands in front of them
    extra = ["module m; wire s, a; assign #2.5 s = a; endmodule\n", "module m; reg ns; initial begin #0.5 ns = 1'b1; end endmodule\n",
             "module m; reg ps, d; always @(d) #1.5 // c\n ps <= d; endmodule\n", "module m; wire [3:0] #3.0 us; endmodule\n",
             "module m; wire fs, ms; assign #1 fs = 1; assign #(2.5) ms = fs; endmodule\n", "module m; reg s; initial #1.5e3 s = 0; endmodule\n",
             "module m; reg step; initial #1 step = 1; endmodule\n", "module m; wire e1, x; assign x = 2.5 + e1; endmodule\n",
             "module m; wire b0, h1; assign b0 = 4 'b0 + h1; endmodule\n", "module m; int std, randomize, sample; initial std = randomize + sample; endmodule\n",
             "module m; reg x1, z0; initial x1 = 1'b x | z0; endmodule\n", "module m; wire ns; assign #1.0ns ns = 0; endmodule\n"]
    extra += ["module m; initial begin x = a.b().c().d(); y = q.f(1).g(2).h(3).k; z = this.q.a().b().c().d().e(); end endmodule\n",
              "module m; initial r = obj.m1().m2(p.q().r()).m3; endmodule\n"]
    # operator assignments (A.6.2 / A.6.4): each of the thirteen assignment operators and the nonblocking one, with what may
    # follow it directly -- a unary operator, an increment, a parenthesis, a concatenation, a comment -- in a statement, a
    # for step and an expression in parentheses
    for op in ["=", "+=", "-=", "*=", "/=", "%=", "&=", "|=", "^=", "<<=", ">>=", "<<<=", ">>>=", "<="]:
        for rhs in ["-b", "+b", "~b", "!b", "&b", "|b", "^b", "(b)", "{b}", "/* c */b", "//c\nb", " b"] + (["++i", "--i"] if op == "=" else []):
            if svgen.fuses(op, rhs.lstrip()[:1]) and not rhs.startswith(("/", " ")):
                continue
            extra.append("module m; int a, b, i; always_comb begin i = 1; a%s%s; end endmodule\n" % (op, rhs))
            if op not in ("<=",):
                extra.append("module m; int a, b, i; initial for (i = 0; i < 4; a%s%s) b = 1; endmodule\n" % (op, rhs))
    # delays (A.2.2.3) of every shape -- a value, one to three expressions, min:typ:max, parentheses nested inside -- in every
    # place a delay can stand: nets with and without a data type, continuous assignments, gates, statements
    DELAYS = ["#1", "#1.5", "#D", "#(1)", "#(1, 2)", "#(1, 2, 3)", "#(1:2:3)", "#(1:2:3, 4:5:6)", "#((1+2), 3)", "#(1:(2):3)", "#((D)*2)",
              "#($clog2(8))", "#(f(1, 2), (3))", "#((((1))))"]
    def arity(d):
        depth, n = 0, 1
        for ch in d:
            depth += ch == "("
            depth -= ch == ")"
            n += ch == "," and depth == 1
        return n
    for d in DELAYS:
        # delay3 for nets and continuous assignments, delay2 for an and-gate, one mintypmax expression in a delay control
        extra += [t for t, most in [
                  ("module m; parameter D = 1; wire %s w; endmodule\n" % d, 3), ("module m; parameter D = 1; wire logic [3:0] %s v = 4'd1, u; endmodule\n" % d, 3),
                  ("module m; parameter D = 1; tri1 [1:0] %s x, y; endmodule\n" % d, 3), ("module m; parameter D = 1; wire a, b; assign %s a = b; endmodule\n" % d, 3),
                  ("module m; parameter D = 1; wire a, b; and %s g(a, b, b); endmodule\n" % d, 2), ("module m; parameter D = 1; reg r; initial %s r = 1; endmodule\n" % d, 1),
                  ("module m; parameter D = 1; reg r; always @(r) r <= %s 1; endmodule\n" % d, 1)] if arity(d) <= most]
    xc = [Case("x%d" % i).add("want", "tree", "text").add("run", "parse_sv_str", hx(t), hx("t.sv")) for i, t in enumerate(extra)]
    ximpl = run_harness("api", xc, "c02x", timeout=600)
    badx = None
    for c, t in zip(xc, extra):
        lines = ximpl.get(c.id) or []
        ctx.corr_cases += 1
        if crashed(lines) or not any(l.startswith("tree ") for l in lines):
            badx = badx or (t, "a sentence whose identifiers are spelled like units / scale characters / method names was rejected: %s" % [l for l in lines if l.startswith("err")][:1])
            continue
        # every word of the sentence is in the tree: the leaves spell the text
        tl = [l for l in lines if l.startswith("tree ")][0]
        why = svtree.tiling_fault(svtree.parse_tree_line(tl), t.encode(), whole=True)
        if why:
            badx = badx or (t, "the tree of an accepted sentence does not spell the sentence: " + why)
    ctx.obl("search-oracle:identifiers spelled like time units, scale characters or method names are identifiers", "oracle", badx is None, badx[1] if badx else "")
    if badx:
        rp = write_replay(ctx, "src-" + sha(badx[0])[:8], {"property": "C02", "source": badx[0], "why": badx[1]})
        ctx.viol.append(Violation("Annex A sentence: " + badx[1], rp))
    shapes_check(ctx, ghash)
    libpath_known(ctx)
    findings, _ = load_known()
    if any(f.get("property") == "C02" and f.get("id") == "block-head-assignment-as-declaration" for f in findings):
        w = open(os.path.join(VERIF, "corpus", "C02-block-head.sv")).read()
        c = Case("kf").add("want", "tree").add("run", "parse_sv_str", hx(w), hx("t.sv"))
        lines = run_harness("api", [c], "c02kf").get("kf", [])
        if any(l.startswith("tree ") and "+BlockItemDeclaration" in l for l in lines):
            ctx.known_printed.append("block-head-assignment-as-declaration")


def libpath_known(ctx):
    findings, _ = load_known()
    if not any(f.get("property") == "C02" and f.get("id") == "lib-path-block-comment" for f in findings):
        return
    w = open(os.path.join(VERIF, "corpus", "C02-libpath.lib")).read()
    c = Case("kf2").add("want", "tree").add("run", "parse_lib_str", hx(w), hx("t.map")).add("run", "raw", "lib", hx(w))
    lines = run_harness("api", [c], "c02kf2").get("kf2", [])
    if any(l.startswith("err Preprocess") for l in lines):
        ctx.known_printed.append("lib-path-block-comment")
    else:
        ctx.notes.append("known finding lib-path-block-comment no longer reproduces: %s" % lines[:3])


def replay(ctx, path):
    build_impl(ctx)
    d = json.load(open(path))
    c = Case("r").add("want", "tree").add("run", "parse_sv_str", hx(d["source"]), hx("t.sv"))
    lines = run_harness("api", [c], "c02rp").get("r", [])
    print([l[:150] for l in lines[:3]])
    print("replay:", d["why"])
    return 1
