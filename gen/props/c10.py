"""C10 -- `include (DESIGN 5.10)."""
from framework import *
import ppx

PARTIAL = ("proved: the search rule (C10_resolve, C10_first_include_path), File/ReadUtf8 for missing/unreadable files, that with ignore_include "
           "nothing of the file system is consulted at any macro depth (C10_ignore_reads_nothing), the splice of a literal include "
           "(C10_include_splices, C10_include_error_wrapped) and the same-line rule step by step (C10_include_behind_an_item_rejected, "
           "C10_text_/C10_directive_behind_an_include_rejected, C10_blank_behind_an_include_accepted, C10_item_line_recorded, "
           "C10_item_end_line); that whole runs compose these steps as the property reads them (the line numbers are the "
           "parser's) is tied by correspondence of the evaluator model and by the reference expectations of the generated include graphs")

DIRS = ["i0", "i1", "i2"]


def toks(b):
    return b.decode("utf-8", "replace").split()


class G:
    def __init__(self, r):
        self.r = r
        self.files = {}
        self.n = 0
        self.incdirs = r.sample(DIRS, r.randint(0, 3))
        self.exp = []          # expected tokens, or ('err', ...)
        self.err = None
        self.defs = set()

    def place(self, name, depth):
        """create copies of `name` in a random set of places; -> (resolved path or None)"""
        r = self.r
        places = [p for p in ["", "i0", "i1", "i2", "other"] if r.random() < 0.4]
        for d in places:
            self.n += 1
            path = (d + "/" if d else "") + name
            body = ["T%d_%s" % (self.n, d or "cwd")]
            self.files[path] = body  # finalised later
        order = [""] + self.incdirs
        for d in order:
            if d in places:
                return (d + "/" if d else "") + name
        return None

    def build(self):
        r = self.r
        top = []
        for k in range(r.randint(1, 3)):
            name = r.choice(["x%d.svh", "sub/y%d.svh", "z%d.vh", "a/b/w%d.svh"]) % k
            style = r.choice(["dq", "dq", "angle", "macro"])
            pre = "p%d" % k
            top.append(pre + "\n")
            self.exp.append(pre)
            res = self.place(name, 0)
            if style == "dq":
                top.append('`include "%s"\n' % name)
            elif style == "angle":
                top.append("`include <%s>\n" % name)
            else:
                top.append('`define FN%d "%s"\n`include `FN%d\n' % (k, name, k))
                self.exp += ["`define", "FN%d" % k, '"%s"' % name]
            if res is None:
                self.err = (1, "File", name)
                break
            self.exp.append(self.files[res][0])
            # the included file defines a macro that is used afterwards, and uses one defined before
            self.files[res] += ["`define", "Q%d" % k, "q%d_%s" % (k, res.replace("/", "_"))]
            self.exp += ["`define", "Q%d" % k, "q%d_%s" % (k, res.replace("/", "_"))]
            top.append("`Q%d\n" % k)
            self.exp.append("q%d_%s" % (k, res.replace("/", "_")))
        text = {}
        for p, body in self.files.items():
            out, i = [], 0
            while i < len(body):
                if body[i] == "`define":
                    out.append("`define %s %s\n" % (body[i + 1], body[i + 2])); i += 3
                else:
                    out.append(body[i] + "\n"); i += 1
            text[p] = "".join(out)
        text["top.sv"] = "".join(top)
        return text


def nested_case(r):
    """mid.svh lives in lib/ and includes "leaf.svh": the search starts again from cwd and the include paths"""
    incs = r.choice([["first", "lib"], ["lib", "first"], ["lib"], ["first"], []])
    files = {"top.sv": 'a\n`include "lib/mid.svh"\nz\n', "lib/mid.svh": 'm1\n`include "leaf.svh"\nm2\n'}
    have = [d for d in ["", "first", "lib"] if r.random() < 0.6]
    for d in have:
        files[(d + "/" if d else "") + "leaf.svh"] = "leaf_%s\n" % (d or "cwd")
    res = next((d for d in [""] + incs if d in have), None)
    if res is None:
        return ppx.PC(files, incdirs=incs, tag="nested"), ("err", 2, "File", "leaf.svh")
    return ppx.PC(files, incdirs=incs, tag="nested"), ("ok", ["a", "m1", "leaf_%s" % (res or "cwd"), "m2", "z"])


LINE_CASES = [
    # (text, IncludeLine expected?)
    ('`include "i.svh"\nx\n', False), ('  `include "i.svh"  \nx\n', False), ('/* c */ `include "i.svh" // c\nx\n', False),
    ('x `include "i.svh"\n', True), ('`include "i.svh" x\n', True), ('x\ny `include "i.svh"\n', True),
    ('x\ny\n   `include "i.svh"\n', False), ('"s" `include "i.svh"\n', True), ('`include "i.svh" "s"\n', True),
    ('\\esc `include "i.svh"\n', True), ('`include "i.svh" \\esc \n', True), ('"s"\n`include "i.svh"\n', False),
    ('`define A 1\n`include "i.svh"\n', False), ('`celldefine `include "i.svh"\n', True),
    ('`ifdef U\n`endif `include "i.svh"\n', True), ('`ifdef U\n`endif\n`include "i.svh"\n', False),
    ('`include "i.svh" `celldefine\n', True), ('`include "i.svh" `include "i.svh"\n', True),
    ('x /* c\n */ `include "i.svh"\n', False), ('"a\\\nb" `include "i.svh"\n', True),
    ('`include "i.svh"\n`include "i.svh"\n', False), ('x;\n`include "i.svh" /* c */\n/* d */ y\n', False),
    # the token in front of the `include stands in a run of text that BEGINS with line breaks
    ('`define A 1\nwire x; `include "i.svh"\n', True), ('/* c */\nx `include "i.svh"\n', True), ('\n\nx `include "i.svh"\n', True),
    ('`celldefine\n\n y `include "i.svh"\n', True), ('`define A 1\n\n\nwire x;\n`include "i.svh"\n', False),
    ('\n\nx\n`include "i.svh"\n', False), ('\r\n\r\nx `include "i.svh"\r\n', True), ('`define A 1\n\n\nx\n\ny `include "i.svh"\n', True),
    ('/* c */\n\n"s" `include "i.svh"\n', True), ('`undef A\n  \n\t`A2 `include "i.svh"\n', None),
]


def check(ctx):
    prove(ctx, "C10")
    build_impl(ctx)
    ensure_model(ctx)
    r = ctx.rng
    q = ctx.quick()
    pcs, exp = [], []
    for _ in range(120 if q else 2500):
        g = G(r)
        files = g.build()
        pcs.append(ppx.PC(files, incdirs=g.incdirs, tag="search"))
        exp.append(("err",) + g.err if g.err else ("ok", g.exp))
    for _ in range(40 if q else 600):
        pc, e = nested_case(r)
        pcs.append(pc); exp.append(e)
    for t, bad_line in LINE_CASES:
        if bad_line is None:
            continue
        for pre in ("", "q\n"):
            pcs.append(ppx.PC({"top.sv": pre + t, "i.svh": "inc\n"}, tag="sameline"))
            exp.append(("err", 0, "IncludeLine") if bad_line else ("any",))
    # the same lines inside an included file
    for t, bad_line in LINE_CASES[-10:-1]:
        pcs.append(ppx.PC({"top.sv": 'a\n`include "m.svh"\nz\n', "m.svh": t, "i.svh": "inc\n"}, tag="sameline"))
        exp.append(("err", 1, "IncludeLine") if bad_line else ("any",))
    # defines in and out, same file twice
    pcs.append(ppx.PC({"top.sv": '`define P 1\n`include "d.svh"\n`Q `ifdef P p_still `endif\n`include "d.svh"\n',
                       "d.svh": "`ifdef P saw_p `endif\n`define Q from_d\n`undef P\n"}, tag="flow"))
    exp.append(("ok", ["`define", "P", "1", "saw_p", "`define", "Q", "from_d", "`undef", "P", "from_d", "`define", "Q", "from_d", "`undef", "P"]))
    # a file of zero bytes: nothing comes out, everything in force stays in force (also the caller's names)
    pcs.append(ppx.PC({"top.sv": '`define P 1\n`include "empty.svh"\n`ifdef P\nstill_p `P\n`endif\n`ifdef PRE\nstill_pre\n`endif\n', "empty.svh": ""},
                      predefs=[("PRE", None)], tag="flow"))
    exp.append(("ok", ["`define", "P", "1", "still_p", "1", "still_pre"]))
    pcs.append(ppx.PC({"top.sv": 'a\n`include "m.svh"\n`Q z\n', "m.svh": '`define Q from_m\n`include "empty.svh"\n`include "nl.svh"\n', "empty.svh": "", "nl.svh": "\n"}, tag="flow"))
    exp.append(("ok", ["a", "`define", "Q", "from_m", "from_m", "z"]))
    # names with one, two and three leading ".." components, found through an include path, a same-named decoy below it
    for ups, hit in ((1, "p/q/hdr.svh"), (2, "p/hdr.svh"), (3, "hdr3.svh")):
        name = "../" * ups + ("hdr3.svh" if ups == 3 else "hdr.svh")
        files = {"top.sv": 'a\n`include "%s"\nz\n' % name, "p/q/r/hdr.svh": "decoy_r\n", "p/q/r/hdr3.svh": "decoy_r3\n", hit: "target_%d\n" % ups}
        if ups == 1:
            files["p/hdr.svh"] = "decoy_p\n"
        pcs.append(ppx.PC(files, incdirs=["p/q/r"], tag="dotdot")); exp.append(("ok", ["a", "target_%d" % ups, "z"]))
        pcs.append(ppx.PC({"top.sv": 'a\n`define H "%s"\n`include `H\nz\n' % name, "p/q/r/hdr.svh": "decoy_r\n", "p/q/r/hdr3.svh": "decoy_r3\n", hit: "target_%d\n" % ups},
                          incdirs=["p/q/r"], tag="dotdot"))
        exp.append(("ok", ["a", "`define", "H", '"%s"' % name, "target_%d" % ups, "z"]))
    # faults
    pcs.append(ppx.PC({"top.sv": 'a\n`include "bad.svh"\n'}, bad=["bad.svh"], tag="fault")); exp.append(("err", 1, "ReadUtf8", "bad.svh"))
    pcs.append(ppx.PC({"top.sv": 'a\n`include "m.svh"\n', "m.svh": '`include "bad.svh"\n'}, bad=["bad.svh"], tag="fault")); exp.append(("err", 2, "ReadUtf8", "bad.svh"))
    pcs.append(ppx.PC({"top.sv": 'a\n`include "adir"\n'}, dirs=["adir"], tag="fault")); exp.append(("err", 1, "ReadUtf8", "adir"))
    pcs.append(ppx.PC({"x.sv": "a"}, tag="fault")); exp.append(("err", 0, "File", "top.sv"))
    pcs.append(ppx.PC({}, bad=["top.sv"], tag="fault")); exp.append(("err", 0, "ReadUtf8", "top.sv"))
    # ignore_include: nothing is read, a literal directive contributes no tokens (also when produced by a macro)
    for t in ['a `include "nofile.svh" b\n', 'a\n`include <nofile>\nb\n', '`define M `include "nofile.svh"\na\n`M\nb\n',
              'a\n`include "bad.svh"\nb\n']:
        pcs.append(ppx.PC({"top.sv": t}, ignore=True, bad=["bad.svh"], tag="ignore"))
        e = [w for w in t.replace('`include "nofile.svh"', "").replace("`include <nofile>", "").replace('`include "bad.svh"', "").replace("`M\n", "").split()]
        if t.startswith("`define"):
            e = ["`define", "M", "`include", '"nofile.svh"', "a", "b"]
        exp.append(("ok", e))
    # names with ".." need a real file system (the model's is a finite map from spellings to files): implementation only
    dd = [i for i, pc in enumerate(pcs) if pc.tag == "dotdot"]
    rest = [i for i in range(len(pcs)) if i not in set(dd)]
    cases, res, diffs = ppx.correspond(ctx, "preprocess (include graphs) vs PP/Eval.v", [pcs[i] for i in rest], "c10")
    dcases, dimpl = ppx.run_impl([pcs[i] for i in dd], "c10dd", timeout=120)
    ctx.corr_cases += len(dcases)
    order = rest + dd
    pcs, exp, res = [pcs[i] for i in order], [exp[i] for i in order], list(res) + [ppx.Res(dimpl.get(c.id)) for c in dcases]
    bad = None
    for pc, e, rr in zip(pcs, exp, res):
        if rr.crash:
            bad = bad or (pc, "crash: " + rr.crash); continue
        if e[0] == "any":
            if not rr.ok:
                bad = bad or (pc, "an `include alone on its line (blanks/comments aside) was rejected: %s" % rr.err)
        elif e[0] == "ok":
            if not rr.ok:
                bad = bad or (pc, "expected the splice %s, got %s" % (e[1][:8], rr.err))
            elif toks(rr.text) != e[1]:
                bad = bad or (pc, "expected tokens %s, got %s" % (e[1][:12], toks(rr.text)[:12]))
        else:
            k = rr.err_kind() if rr.err else None
            want = (e[1], e[2], [hx(x) for x in e[3:]])
            if rr.ok:
                bad = bad or (pc, "expected %s, got Ok %s" % (e[1:], toks(rr.text)[:8]))
            elif (k[0], k[1], [x for x in k[2] if x.startswith("x")][:len(want[2])]) != want:
                bad = bad or (pc, "expected %s, got %s" % (e[1:], rr.err))
    ppx.scenario_batch(ctx, "C10", 60 if ctx.quick() else 1000, "c10sc")
    ctx.obl("search-oracle:search order, splice, defines in/out, same-line rule, faults, ignore_include", "oracle",
            bad is None, bad[1] if bad else "")
    if bad:
        ppx.report(ctx, "C10", "`include", bad[0], bad[1])


def replay(ctx, path):
    build_impl(ctx)
    d, pc = ppx.replay_pc(ctx, path)
    cases, impl = ppx.run_impl([pc], "c10rp")
    print("\n".join(l[:200] for l in impl.get(cases[0].id, [])[:4]))
    print("replay:", d.get("why"))
    return 1
