"""C17 -- memo transparency (DESIGN 5.17)."""
import json
from framework import *
import snippets, ppgen

PARTIAL = ("proved: nom-packrat's storage is a transparent cache of any function of its key for every capacity and call sequence "
           "(C17_cache_transparent), respects its capacity, and only ever holds forests that tile their own span "
           "(C17_hits_are_well_formed); packrat correctness for the interpreter: without left-recursion guard and with state "
           "actions that change nothing, two memoised runs of any capacities that both finish return the result of the "
           "memo-free interpreter (C17_capacity_independent_without_hidden_state), and a finished run does not depend on its "
           "fuel (C17_result_independent_of_fuel). The real parser's results are NOT a function of the key (the guard's flag "
           "set and the keyword-version stack are outside it): acceptance of some inputs depends on the capacity -- known "
           "finding D12, listed by witness. Everything else is compared across capacities on the implementation")

CAPS_SMALL = ["1", "2", "7", "64", "1024", "none"]
CAPS_BIG = ["64", "1024", "none"]


def gen_ops(r):
    ops = ["cap %s" % r.choice(["none", "1", "2", "3", "8"])]
    for _ in range(r.randint(1, 40)):
        x = r.random()
        n, p, f = r.randint(0, 3), r.choice([0, 1, 2, 5, 9]), r.randint(0, 1)
        if x < 0.5:
            ops.append("ins %d %d %d %s" % (n, p, f, r.choice(["none", "1", "4", "17"])))
        elif x < 0.97:
            ops.append("get %d %d %d" % (n, p, f))
        else:
            ops.append("clear")
    return ops


def memo_keys_unique(ctx):
    """the memo key starts with the NAME of the parser function: two memoised functions of one name would share entries"""
    import svx_grammar, glob, re
    try:
        fs = [f for f in svx_grammar.functions() if "packrat_parser" in f["attrs"]]
        names = {}
        for f in fs:
            names.setdefault(f["name"], []).append(f["file"])
        dup = {n: fl for n, fl in names.items() if len(fl) > 1}
        inmacro = []
        for path in sorted(glob.glob(svx_grammar.SRC + "/**/*.rs", recursive=True)):
            src = svx_grammar.strip_comments(open(path).read())
            for m in re.finditer(r"macro_rules!\s*\w+\s*\{", src):
                j = svx_grammar.match_brace(src, m.end() - 1)
                if "packrat_parser" in src[m.end():j]:
                    inmacro.append(os.path.relpath(path, svx_grammar.SRC))
        ctx.obl("regenerated:every memoised parser function has a name of its own (the memo key starts with the name) and none is stamped out by a macro",
                "regenerated", not dup and not inmacro and len(fs) > 500, ("duplicates %s; in macros %s" % (dup, inmacro))[:300] if (dup or inmacro) else "%d memoised parsers" % len(fs))
    except Exception as e:
        ctx.obl("regenerated:every memoised parser function has a name of its own (the memo key starts with the name) and none is stamped out by a macro",
                "regenerated", False, "scan failed: %r" % (e,))


def check(ctx):
    prove(ctx, "C17")
    memo_keys_unique(ctx)
    build_impl(ctx)
    ensure_model(ctx)
    r = ctx.rng
    q = ctx.quick()
    # 1. storage model vs nom_packrat::PackratStorage, operation sequences
    cases = []
    for i in range(300 if q else 5000):
        c = Case("o%d" % i)
        for o in gen_ops(r):
            c.add(o)
        cases.append(c)
    impl = run_harness("packrat", cases, "c17op")
    model = run_model("packrat", cases, "c17op")
    compare(ctx, "nom_packrat::PackratStorage vs Peg.map_get / Peg.memo_insert on operation sequences", impl, model, {c.id: c for c in cases})
    for c in cases[:200]:
        ctx.corr_nontrivial.add(sha(c.text()))
    ctx.sample({"ops": cases[0].lines[:12], "impl": impl.get(cases[0].id, [])[:6]})
    # 2. results across capacities on the implementation
    known = json.load(open(os.path.join(VERIF, "corpus", "C17-D12.json")))
    known_pairs = {(k["sha"], k["cap"]) for k in known["witnesses"]}
    pool = snippets.sv_sources()
    srcs = [("sv", known["witness_source"])]
    srcs += [(k, s) for k, s in pool if len(s) <= 400][: (40 if q else 400)]
    for _ in range(20 if q else 300):
        g = ppgen.Gen(r, includes=False)
        srcs.append(("pp", ppgen.render(g.program())["top.sv"]))
    srcs += [("lib", "library l \"*.v\" -incdir \"a\", b;\ninclude \"x\";\nconfig c; design d; default liblist a b; endconfig\n")]
    # keyword regions of every version, with comments and kept directives right after directives (white space is lexed in
    # two modes at those positions: the extra memo key in_directive matters there)
    for spec in ["1364-1995", "1364-2001", "1364-2001-noconfig", "1364-2005", "1800-2005", "1800-2009", "1800-2012", "1800-2017"]:
        srcs.append(("sv", "`begin_keywords \"%s\" // comment\n`default_nettype none /* c */\n`timescale 1ns/1ps\n// c\nmodule m; wire x; // d\n"
                           "`celldefine\n/* e */ endmodule\n`end_keywords // f\n/* g */\nmodule n; endmodule\n" % spec))
        srcs.append(("sv", "`begin_keywords \"%s\"\n\n  `pragma foo\n// c\nmodule m; endmodule `end_keywords\n" % spec))
    # operator zoo: every binary operator, nested in an operand, in the contexts where expressions are re-parsed by
    # several alternatives (constraints, assignments, conditions, properties): short, so all capacities are run
    OPS = ["+", "->", "-", "**", "*", "/", "%", "===", "==?", "==", "!==", "!=?", "!=", "&&", "||", "&", "|", "^~", "^", "~^",
           ">>>", ">>", "<<<", "<<", "<->", "<=", "<", ">=", ">"]
    CTX = ["class c; constraint k { x == (a %s b); } endclass\n", "module m; assign x = (a %s b) == c; endmodule\n",
           "module m; initial if ((a %s b)) x = 1; endmodule\n", "class c; constraint k { (a %s b) -> { x == 1; } } endclass\n",
           "module m; initial x = f(a %s b); endmodule\n", "class c; constraint k { x inside {[(a %s b):3]}; } endclass\n"]
    zoo = [("sv", cx % op) for op in OPS for cx in CTX]
    srcs += zoo if not q else r.sample(zoo, 12) + [("sv", CTX[0] % "->"), ("sv", CTX[3] % "->")]
    # speculation zoo: expressions that are NOT constant-syntax, inside replications / selects, at places where the grammar tries a
    # constant reading first and where the hand-written list() helper looks ahead (gate terminals, second and later assignments,
    # port connections): a failure that is hard on a memo miss and soft on a hit shows as a dependence on the capacity
    NONCONST = ["i++", "--j", "f(x)", "a.b", "$urandom", "c ? d : e", "obj.m()", "a inside {1}", "int'(y)", "{a, b}", "q[r++]"]
    REPL = ["{2{%s}}", "{N{%s}}", "{2{%s, 1'b0}}", "%s", "{%s}"]
    CTX2 = ["module m; buf b1 (o, in[a0][%s]); endmodule\n", "module m; not n1 (o1, o2, in[%s]); endmodule\n",
            "module m; assign a = x, b[%s] = y; endmodule\n", "module m; assign a = x, b[a0][%s] = y, c[1] = z; endmodule\n",
            "module m; sub u (.p(q[%s]), .r(s)); endmodule\n", "module m; initial begin a[%s] = 1; end endmodule\n",
            "module m; and g (o, i1, i2[%s]); endmodule\n", "module m; assign y = %s; endmodule\n"]
    spec_zoo = [("sv", cx % (rp % nc)) for cx in CTX2 for rp in REPL for nc in NONCONST]
    spec_set = set(spec_zoo)
    srcs += spec_zoo if not q else r.sample(spec_zoo, 16) + [("sv", CTX2[0] % "{2{i++}}"), ("sv", CTX2[2] % "{2{i++}}"), ("sv", CTX2[7] % "{2{i++}}")]
    # instantiation zoo: texts that several instantiation productions (module / interface / program / checker / udp / gate) try in
    # turn at the same position, with connections that only one of them can read
    INST = ["chk c1(.p(a |-> b));", "chk c1(.s(a ##1 b[*2]), .q(x));", "chk c2(a |=> b, c);", "sub u1(.p(a), .q(b + 1));", "sub u2(.*);", "sub #(3) u3(a, b), u4(c, d);",
            "prim p1(o, a, b);", "sub u5 [1:0] (.p(a));", "chk c3(.p(@(posedge clk) a |-> b), .*);", "ifc i1(.clk, .rst(r));", "and (o, a, b);", "sub u6(.p(), .q(1'b0));"]
    inst_zoo = [("sv", "module m; %s endmodule\n" % t) for t in INST] + [("sv", "module m; generate if (1) begin : g %s end endgenerate endmodule\n" % t) for t in INST[:6]]
    spec_set |= set(inst_zoo)
    srcs += inst_zoo
    # deep nesting (anything counted per activation): the speculative paths of the grammar are several times deeper than the path
    # that succeeds
    deep_zoo = [("sv", "module m; assign x = " + "(" * k + "a" + ")" * k + "; endmodule\n") for k in (40, 86, 100, 130)]
    deep_zoo += [("sv", "module m; assign x = " + "(b + " * k + "a" + ")" * k + "; endmodule\n") for k in (30, 52, 60)]
    deep_zoo += [("sv", "module m; assign x = " + "(c ? " * k + "a" + " : d)" * k + "; endmodule\n") for k in (30, 64, 70)]
    deep_zoo += [("sv", "module m; initial " + "begin " * k + "x = 1; " + "end " * k + "endmodule\n") for k in (60, 120)]
    deep_set = set(deep_zoo)
    srcs += deep_zoo if not q else [deep_zoo[1], deep_zoo[2], deep_zoo[5], deep_zoo[8]]
    # long operands: enough memo insertions between two uses of an entry to evict it at the default capacity
    longs = []
    for n in ((7, 9, 20) if q else (5, 6, 7, 8, 9, 12, 18, 19, 20, 24, 40)):
        terms = ["b%d" % j for j in range(n)]
        longs += [("sv", "module m; assign x = a ? (%s) : c; endmodule\n" % "+".join(terms)),
                  ("sv", "module m; assign x = a ? {%s} : c; endmodule\n" % ",".join(terms)),
                  ("sv", "module m; assign x = a ? %s : c; endmodule\n" % "+".join(terms)),
                  ("sv", "module m; assign x = a ? c : %s; endmodule\n" % "+".join(terms)),
                  ("sv", "module m; initial x = f(%s) + g[%s] ? y : z; endmodule\n" % (",".join(terms), "+".join(terms))),
                  ("sv", "module m; always @(%s) x = 1; endmodule\n" % " or ".join(terms))]
    srcs += longs
    # compiler directives standing in white space that is read more than once (behind a module header that is first tried as
    # an ANSI header, behind an attribute instance each alternative re-reads), with little and with much text behind them:
    # what a directive does to the tokens behind it must not depend on whether that white space came from the memo
    dir_zoo = []
    for d in ('`line 100 "gen.v" 0', "`timescale 1ns/1ps", "`default_nettype none", "`celldefine", '`begin_keywords "1800-2012"'):
        for fill in (0, 70):
            wires = "".join("wire t%d;\n" % j for j in range(fill))
            dir_zoo.append(("sv", "module m(a, y);\n%s\nwire t;\n%sinput a; output y;\nendmodule\n" % (d, wires)))
            dir_zoo.append(("sv", "module m;\n(* keep *)\n%s\nwire w;\n%swire v;\nendmodule\n" % (d, wires)))
    srcs += dir_zoo if not q else dir_zoo[:8]
    spec_set |= set(dir_zoo)
    c2, meta = [], {}
    for i, (k, s) in enumerate(srcs):
        small = (len(s) <= 120 or k == "pp") and (k, s) not in longs     # the long operands are exponential at tiny capacities
        caps = CAPS_SMALL if small else CAPS_BIG
        if (k, s) in deep_set:
            caps = ("256", "1024", "none")
        elif (k, s) in spec_set:
            caps = ("8", "16", "48", "64", "200", "1024", "none") if (k, s) in set(inst_zoo) else ("16", "48", "64", "200", "1024", "none")   # backtracking-heavy: tiny capacities take minutes
        for cap in caps:
            c = Case("m%d_%s" % (i, cap))
            c.add("want", "tree", "text").add("memo", cap)
            if k == "pp":
                c.add("run", "raw", "pp", hx(s))
            else:
                c.add("run", "parse_%s_str" % k, hx(s), hx("t.sv"))
            c2.append(c)
            meta[c.id] = (i, k, s, cap)
    # each case in its own child-process batch would be slow: batches of 40 with a time limit, bisected on timeout
    impl2 = {}
    for j in range(0, len(c2), 40):
        impl2.update(run_harness("api", c2[j:j + 40], "c17cap%d" % (j // 40), timeout=120))
    bad, seen_known = None, set()
    byinput = {}
    for c in c2:
        i, k, s, cap = meta[c.id]
        lines = [l for l in (impl2.get(c.id) or []) if not l.startswith("run ")]
        if lines and lines[0].startswith("abort"):
            ctx.count("timeout_or_abort_cap_" + cap)
            continue
        byinput.setdefault(i, {})[cap] = lines
        ctx.corr_cases += 1
    for i, res in byinput.items():
        k, s = srcs[i]
        ref = res.get("none")
        if ref is None:
            continue
        ctx.corr_nontrivial.add(sha(s))
        for cap, lines in res.items():
            if lines != ref:
                if (sha(s), cap) in known_pairs:
                    seen_known.add((sha(s), cap)); continue
                a = "accepted" if any(l.startswith("tree") or l.startswith("ok") for l in ref) else "rejected"
                b = "accepted" if any(l.startswith("tree") or l.startswith("ok") for l in lines) else "rejected"
                bad = bad or (k, s, cap, "with memo capacity %s the source is %s, with an unbounded memo it is %s%s" % (
                    cap, b, a, "" if a != b else " with a different tree"))
    ctx.count("known_D12_pairs_reproduced", len(seen_known))
    if seen_known:
        ctx.known_printed.append("D12-capacity-dependent")
    ctx.obl("search-oracle:same result for memo capacities 1, 2, 7, 64, 1024, unbounded (all three grammars)", "oracle",
            bad is None, bad[3] if bad else "")
    if bad:
        rp = write_replay(ctx, "cap-" + sha(bad[1] + bad[2])[:8], {"property": "C17", "grammar": bad[0], "source": bad[1], "capacity": bad[2], "why": bad[3]})
        ctx.viol.append(Violation("memo capacity changes the result: " + bad[3], rp))


def replay(ctx, path):
    build_impl(ctx)
    d = json.load(open(path))
    out = {}
    for cap in (d["capacity"], "none"):
        c = Case("r").add("want", "tree").add("memo", cap)
        if d["grammar"] == "pp":
            c.add("run", "raw", "pp", hx(d["source"]))
        else:
            c.add("run", "parse_%s_str" % d["grammar"], hx(d["source"]), hx("t.sv"))
        out[cap] = [l[:80] for l in run_harness("api", [c], "c17rp", timeout=120).get("r", [])]
    print(out)
    print("replay:", d["why"])
    return 1 if out[d["capacity"]] != out["none"] else 0
