"""C19 -- thread isolation (DESIGN 5.19)."""
import json
from framework import *
import svx_statics, snippets, ppgen

PARTIAL = ("full in the model: every state cell found in the sources of sv-parser and of nom-packrat/-recursive/-tracable/"
           "nom_locate/str-concat is thread_local (regenerated, checked by computation) and the frame rule C19_isolated "
           "holds for every schedule; partial against reality: allocator, file system and scheduler are outside the model, "
           "the stress runs only sample schedules")


def check(ctx):
    try:
        facts = svx_statics.main()
        ctx.obl("regenerated:state cells of the parser stack (thread_local!/static/lazy_static scan)", "regenerated",
                len(facts["cells"]) >= 4, json.dumps(facts["cells"]))
        ctx.cov["regenerated"] = facts
    except svx_statics.Shape as e:
        ctx.obl("regenerated:state cells of the parser stack (thread_local!/static/lazy_static scan)", "regenerated", False, str(e))
    prove(ctx, "C19")
    build_impl(ctx)
    r = ctx.rng
    q = ctx.quick()
    pool = snippets.sv_sources()
    jobs = [("sv", "module a; endmodule\n"), ("sv", "module a; wire\n"), ("sv", "`begin_keywords \"1364-2001\"\nmodule m; wire logic; endmodule\n"),
            ("sv", "module m; wire logic; endmodule\n"), ("lib", "library l \"*.v\";\n"), ("svi", "module a; endmodule garbage ("),
            ("pp", "`define A(x) x+x\n`A(1) `A(`A(2))\n`ifdef A y `endif\n"), ("pp", "`define R `R\n`R\n"),
            ("sv", "`define W 8\nmodule m; wire [`W-1:0] w; endmodule\n")]
    # calls that differ in their ARGUMENTS (include paths, caller's defines) while naming the same include / macro
    inc = '`include "cfg.svh"\nw = `WIDTH;\n'
    jobs += [("pp:da", inc), ("pp:db", inc), ("sv:da", "module m;\n" + inc + "endmodule\n"), ("sv:db", "module m;\n" + inc + "endmodule\n"),
             ("pp:dc", inc), ("pp::PRE=1", "`ifdef PRE\np `PRE\n`endif\n"), ("pp::PRE=2", "`ifdef PRE\np `PRE\n`endif\n"),
             ("pp", "`ifdef PRE\np\n`else\nq\n`endif\n")]
    # the same text under different flags (strip_comments, ignore_include): the flags are arguments of the call
    cm = "`define M(a) a /* c */ + 1\n`M(x /* d */)\n`M(y // e\n)\nz // f\n`include \"cfg.svh\"\n"
    jobs += [("pp:da", cm), ("pps:da", cm), ("ppi:da", cm), ("pps:db", cm)]
    # legal deep nesting (macro chains of 41 and 60 levels, an include chain of 20) shared by all threads
    def chain(n, leaf):
        return "".join("`define L%d `L%d\n" % (j, j + 1) for j in range(n)) + "`define L%d %s\nx = `L0 ;\n" % (n, leaf)
    jobs += [("pp", chain(41, "8'd1")), ("sv", "module m;\n" + chain(41, "8'd2").replace("x = `L0 ;", "wire [7:0] x = `L0 ;") + "endmodule\n"),
             ("pps", chain(60, "leaf")), ("pp", chain(41, "8'd3"))]
    # deeply nested brackets, every job a different text (and one that is rejected): what comes back belongs to the text handed in
    def deep(k, v, close=None):
        return "module d%d; wire w; assign w = %s%d%s; endmodule\n" % (k, "(" * k, v, ")" * (k if close is None else close))
    jobs += [("sv", deep(14, 1)), ("sv", deep(15, 2)), ("sv", deep(17, 3)), ("sv", deep(20, 4)), ("sv", deep(16, 5, 15)),
             ("sv", "module e; wire [7:0] v; assign v = {{{{{{{{{{{{{{8'd1}}}}}}}}}}}}}}; endmodule\n"),
             ("sv", "module f; wire v; assign v = a[b[c[d[e[f[g[h[i[j[k[l[m[n[0]]]]]]]]]]]]]]; endmodule\n")]
    # include chains 40 deep through files shared by all threads (whatever is held per open file is held 40 times per call)
    jobs += [("pp", '`include "ch1.svh"\nafter_chain\n'), ("sv", 'module ic;\n`include "ch1.svh"\nendmodule\n')]
    # file entry points: a library map named by an absolute path, sources and include paths named relative to the working directory
    jobs += [("libf", "libs/lib.map"), ("svf:da", "rel_top.sv"), ("ppf:db", "rel_top.sv"), ("libf", "libs/lib2.map"), ("svf", "rel_plain.sv")]
    jobs += r.sample(pool, 6 if q else 60)
    for _ in range(3 if q else 30):
        g = ppgen.Gen(r, includes=False)
        jobs.append(("pp", ppgen.render(g.program())["top.sv"]))
    cases = []
    for n in (2, 4, 16):
        c = Case("t%d" % n)
        c.add("file", hx("da/cfg.svh"), hx("`define WIDTH 8\n"))
        c.add("file", hx("db/cfg.svh"), hx("`define WIDTH 16\n"))
        c.add("file", hx("libs/lib.map"), hx("".join("library l%d \"src%d/*.v\";\n" % (i, i) for i in range(400)) + 'include "more.map";\n'))
        c.add("file", hx("libs/lib2.map"), hx("".join("library k%d \"k%d/*.v\" -incdir \"inc%d\";\n" % (i, i, i) for i in range(300))))
        c.add("file", hx("libs/more.map"), hx("library more \"m/*.v\";\n"))
        c.add("file", hx("rel_top.sv"), hx('module rel;\n`include "cfg.svh"\nwire [`WIDTH-1:0] w;\nendmodule\n'))
        c.add("file", hx("rel_plain.sv"), hx('module plain;\n`include "da/cfg.svh"\nwire [`WIDTH-1:0] w;\nendmodule\n'))
        for j in range(1, 41):
            c.add("file", hx("ch%d.svh" % j), hx("wire chain_%d;\n" % j + ('`include "ch%d.svh"\n' % (j + 1) if j < 40 else "")))
        for k, s in jobs:
            c.add("job", k, hx(s))
        c.add("threads", n, 2 if q else 12)
        cases.append(c)
    # one process per thread count, each with a limit far above what the jobs take: a call that never comes back (threads waiting
    # for one another) ends the process, which is a result no call has alone
    impl = {}
    for c in cases:
        impl.update(run_harness("threads", [c], "c19", timeout=(400 if q else 1800)))
    bad = None
    for c in cases:
        lines = impl.get(c.id) or []
        cr = crashed(lines)
        mism = [l for l in lines if l.startswith("mismatch")]
        done = [l for l in lines if l.startswith("concurrent-runs")]
        if done:
            ctx.corr_cases += int(done[0].split()[1])
            ctx.count("concurrent_runs_%s_threads" % done[0].split()[3], int(done[0].split()[1]))
        for l in lines:
            if l.startswith("seq "):
                ctx.count("job_" + l.split()[2])
        if cr or mism or not done:
            bad = bad or (c, cr or (mism[0] if mism else "no summary line"))
    for k, s in jobs:
        ctx.corr_nontrivial.add(sha(s))
    ctx.sample({"jobs": [j[1][:60] for j in jobs[:4]], "threads": [2, 4, 16]})
    ctx.obl("search-oracle:results under 2/4/16 concurrent threads = sequential reference", "oracle", bad is None, bad[1] if bad else "")
    if bad:
        rp = write_replay(ctx, "threads-" + sha(bad[0].text())[:8], {"property": "C19", "why": bad[1], "case": bad[0].text(),
                          "seed": ctx.seed, "note": "replay runs the same jobs and thread count again; a race may need several attempts"})
        ctx.viol.append(Violation("a concurrent call returned something else than alone: " + bad[1], rp))


def replay(ctx, path):
    build_impl(ctx)
    d = json.load(open(path))
    p = os.path.join(BUILD, "cases", "c19rp.in")
    open(p, "w").write(d["case"])
    for attempt in range(5):
        sh([SVH, "threads", p, p + ".out"], timeout=1200)
        out = open(p + ".out").read()
        if "mismatch" in out:
            print(out[:2000]); print("replay: reproduced"); return 1
    print("replay: not reproduced in 5 attempts"); return 0
