"""C20 -- entry points agree (DESIGN 5.20)."""
import json
from framework import *
import svx_wiring, snippets, ppgen

PARTIAL = None

SV = [
    "// header\nmodule m;\n`include \"inc.svh\"\n  wire a; /* c */\nendmodule\n",
    "`define W 4\nmodule m #(parameter P = `W) (input [`W-1:0] a); // c\n`include \"inc.svh\"\nendmodule\n",
    "module m;\n`ifdef X\n wire x;\n`else\n wire y; // c\n`endif\n`include \"inc.svh\"\nendmodule\nmodule broken\n",
    "module a; endmodule // c\n`include \"nofile.svh\"\n",
    "/* only a comment */\n",
    "module m; initial $display(\"s\", `__LINE__); endmodule `include \"inc.svh\"\n",
]
LIB = ["// c\nlibrary rtlLib \"*.v\" -incdir \"aaa\";\n`include \"inc.svh\"\ninclude \"bbb\";;\n",
       "library a b; /* c */ garbage (\n"]


def run_lines(lines):
    """split harness output into runs; drop the 'run N' headers"""
    runs, cur = [], None
    for l in lines or []:
        if l.startswith("run "):
            cur = []
            runs.append(cur)
        elif cur is not None:
            cur.append(l)
    return runs


def big_text(kb, step, ch):
    """a long one-line comment in which the multi-byte character [ch] straddles every multiple of [step] bytes
    (a reader that decodes the file block by block must not split it)"""
    b = bytearray(b"// ")
    e = ch.encode("utf-8")
    while len(b) < kb * 1024:
        nxt = (len(b) // step + 1) * step
        b += b"a" * (nxt - 1 - len(b)) + e
    return b.decode("utf-8") + "\nmodule big; wire w; endmodule\n"


def check(ctx):
    try:
        facts = svx_wiring.main()
        ctx.obl("regenerated:entry-point wiring read from lib.rs / preprocess.rs", "regenerated", True, json.dumps(facts)[:500])
        ctx.cov["regenerated"] = facts
    except svx_wiring.Shape as e:
        ctx.obl("regenerated:entry-point wiring read from lib.rs / preprocess.rs", "regenerated", False,
                "a wrapper no longer has the shape the translator understands: %s" % e)
    prove(ctx, "C20")
    build_impl(ctx)
    r = ctx.rng
    q = ctx.quick()
    srcs = [("sv", t) for t in SV] + [("lib", t) for t in LIB]
    pool = snippets.sv_sources()
    for k, t in r.sample(pool, 10 if q else 200):
        srcs.append((k, "// c\n" + t + "`include \"inc.svh\"\n"))
    for _ in range(6 if q else 120):
        g = ppgen.Gen(r, includes=True, max_depth=2)
        files = ppgen.render(g.program())
        srcs.append(("pp", files))
    for kb, step, ch in [(20, 1024, "é"), (70, 4096, "中"), (140, 8192, "é"), (40, 4096, "😀")] if not q else [(70, 4096, "中"), (20, 1024, "é")]:
        bt = big_text(kb, step, ch)
        srcs.append(("sv", bt))
        srcs.append(("pp", {"top.sv": "`include \"big.svh\"\n", "big.svh": bt}))
    # a byte order mark in front of the top file / an included file: file and string entry points see the same bytes
    srcs.append(("pp", {"top.sv": "\ufeffa b\n`include \"b.svh\"\nc\n", "b.svh": "\ufeffq // d\n"}))
    srcs.append(("sv", "\ufeffmodule m; endmodule\n"))
    # the top file in a directory of its own, an included file next to it and / or in an include path: both entry points
    # search the same places (the directory of the top file is not one of them)
    srcs.append(("pp", {"sub/top.sv": "a\n`include \"sib.svh\"\nz\n", "sub/sib.svh": "`define WIDTH 8\nsib\n"}))
    srcs.append(("pp", {"sub/top.sv": "a\n`include \"sib.svh\"\nz `WIDTH\n", "sub/sib.svh": "`define WIDTH 8\n", "lib/sib.svh": "`define WIDTH 16\n"}))
    # a top file (and an included file) whose last line has no line end and holds a one-line comment
    srcs.append(("sv", "module m; endmodule // m"))
    srcs.append(("pp", {"top.sv": "a // c", "x.svh": ""}))
    srcs.append(("pp", {"top.sv": '`include "t.svh"\nb // last', "t.svh": "inc // tail"}))
    srcs.append(("lib", "library l \"*.v\"; // last"))
    # the path of the top file spelled in a way that is not normal form: both entry points work under the spelling they are given
    # (`__FILE__, origins, the origin of a definition)
    for sp in ("sub//top.sv", "sub/./top.sv", "./sub/top.sv", "sub/../sub/top.sv", ".//top.sv"):
        key = "sub/top.sv" if "sub" in sp else "top.sv"
        srcs.append(("pp", {key: "`define HERE `__FILE__\na `__FILE__ b `HERE `__LINE__\n`include \"i.svh\"\n", "i.svh": "in `__FILE__\n", "@top": sp}))
    # include chains around the recursion limit: the file and the string entry points stop at the same level
    for depth in ((64, 65) if q else (1, 15, 63, 64, 65, 66)):
        fs = {"top.sv": "// top\nt0\n`include \"c1.svh\"\n"}
        for i in range(1, depth + 1):
            fs["c%d.svh" % i] = "x%d\n" % i + ("`include \"c%d.svh\"\n" % (i + 1) if i < depth else "leaf\n")
        srcs.append(("pp", fs))
    cases, meta = [], {}
    n = 0
    for k, t in srcs:
        for flags in range(8):
            ig, ai, sc = flags & 1, flags >> 1 & 1, flags >> 2 & 1
            if k != "pp" and sc:
                continue
            c = Case("e%d" % n); n += 1
            toppath = "top.sv"
            if k == "pp":
                for p, tx in t.items():
                    if p != "@top":
                        c.add("file", hx(p), hx(tx))
                topkey = "sub/top.sv" if "sub/top.sv" in t else "top.sv"
                toppath = t.get("@top", topkey)          # the spelling of the path handed to both entry points
                top = t[topkey]
            else:
                c.add("file", hx("top.sv"), hx(t))
                c.add("file", hx("inc.svh"), hx("wire inc_w; // ic\n" if k == "sv" else "library inc c;\n"))
                top = t
            c.add("define", hx("PRE"), "none")
            c.add("opt", "ignore", ig).add("opt", "incomplete", ai).add("opt", "strip", sc)
            c.add("want", "tree", "defines", "deforg", "text", "origins")
            if k == "pp":
                if "sub/top.sv" in t:
                    c.add("incdir", hx("lib"))
                c.add("run", "preprocess", hx(toppath))
                c.add("run", "preprocess_str", hx(top), hx(toppath), 0, 0)
                groups = [(0, 1)]
            else:
                c.add("run", "parse_%s" % k, hx("top.sv"))
                c.add("run", "parse_%s_str" % k, hx(top), hx("top.sv"))
                c.add("run", "two_%s" % k, hx("top.sv"))
                c.add("run", "two_%s_str" % k, hx(top), hx("top.sv"))
                groups = [(0, 1), (0, 2), (1, 3)]
            cases.append(c)
            meta[c.id] = (k, t, (ig, ai, sc), groups)
    # unreadable / missing top file
    for k in ("sv", "lib"):
        c = Case("e%d" % n); n += 1
        c.add("want", "tree", "defines")
        c.add("run", "parse_%s" % k, hx("missing.sv")).add("run", "two_%s" % k, hx("missing.sv"))
        cases.append(c); meta[c.id] = (k, "<missing file>", (0, 0, 0), [(0, 1)])
        c = Case("e%d" % n); n += 1
        c.add("badfile", hx("bad.sv")).add("want", "tree", "defines")
        c.add("run", "parse_%s" % k, hx("bad.sv")).add("run", "two_%s" % k, hx("bad.sv"))
        cases.append(c); meta[c.id] = (k, "<invalid utf-8>", (0, 0, 0), [(0, 1)])
    impl = run_harness("api", cases, "c20")
    bad = None
    names = {"sv": ["parse_sv", "parse_sv_str", "preprocess+parse_sv_pp", "preprocess_str+parse_sv_pp"],
             "lib": ["parse_lib", "parse_lib_str", "preprocess+parse_lib_pp", "preprocess_str+parse_lib_pp"],
             "pp": ["preprocess", "preprocess_str"]}
    for c in cases:
        k, t, flags, groups = meta[c.id]
        lines = impl.get(c.id)
        ctx.corr_cases += 1
        cr = crashed(lines)
        if cr:
            bad = bad or (c, k, t, flags, cr); continue
        runs = run_lines(lines)
        ctx.count("%s:%s" % (k, (runs[0][0].split() or ["?"])[0] if runs and runs[0] else "?"))
        if runs and runs[0] and len(runs[0]) > 1:
            ctx.corr_nontrivial.add(sha(c.text()))
        for a, b in groups:
            if a >= len(runs) or b >= len(runs) or runs[a] != runs[b]:
                d = next((i for i, (x, y) in enumerate(zip(runs[a] + [""] * 99, runs[b] + [""] * 99)) if x != y), 0) if a < len(runs) and b < len(runs) else -1
                la = runs[a][d][:100] if d >= 0 and d < len(runs[a]) else "<nothing>"
                lb = runs[b][d][:100] if d >= 0 and d < len(runs[b]) else "<nothing>"
                bad = bad or (c, k, t, flags, "%s and %s disagree (ignore_include=%d allow_incomplete=%d strip_comments=%d): %s  vs  %s"
                              % (names[k][a], names[k][b], flags[0], flags[1], flags[2], la, lb))
    ctx.sample({"source": SV[0], "flags": "all 4 (ignore_include x allow_incomplete) combinations; preprocess also x strip_comments"})
    ctx.obl("search-oracle:file, string and two-step entry points return equal results for every flag combination", "oracle",
            bad is None, bad[4] if bad else "")
    if bad:
        rp = write_replay(ctx, "entry-" + sha(bad[0].text())[:8], {"property": "C20", "grammar": bad[1], "source": bad[2],
                          "flags": {"ignore_include": bad[3][0], "allow_incomplete": bad[3][1], "strip_comments": bad[3][2]},
                          "why": bad[4], "case": bad[0].text()})
        ctx.viol.append(Violation("entry points disagree: " + bad[4], rp))


def replay(ctx, path):
    build_impl(ctx)
    d = json.load(open(path))
    p = os.path.join(BUILD, "cases", "c20rp.in")
    open(p, "w").write(d["case"])
    outp = p + ".out"
    sh([SVH, "api", p, outp], timeout=300)
    print(open(outp).read()[:3000])
    print("replay:", d["why"])
    return 1
