"""C09 -- bounded recursion (DESIGN 5.9)."""
from framework import *
import ppx

PARTIAL = ("termination with a structured result is proved for every input (C09_total: fuel is a function of the limit "
           "alone; lexicographic measure over include_depth, resolve_depth) and the two limit checks are proved to fire "
           "above the limit; that chains within the limit yield the fully expanded text is tied by correspondence and the "
           "chain/cycle families 1..70, not by a theorem; real stack use is runtime behaviour outside the model")
LIMIT = 64


def macro_chain(n, cyc=False, pre=""):
    """M0 <- M1 <- ... <- M(n-1); usage of M(n-1): nesting depth n.  cyc: M0 uses M(n-1)"""
    s = pre
    s += "`define M0 %s\n" % ("`M%d" % (n - 1) if cyc else "LEAF")
    for k in range(1, n):
        s += "`define M%d `M%d\n" % (k, k - 1)
    s += "a `M%d b\n" % (n - 1)
    return s


def inc_chain(n, cyc=False, via=None, leaf="LEAF\n"):
    """f0 includes f1 ... includes fn (n include levels).  via: None | 'macro' (`define N `include "..") | 'name' (`include `F)"""
    files = {}
    for k in range(n + 1):
        name = "top.sv" if k == 0 else "f%d.svh" % k
        if k == n and not cyc:
            files[name] = leaf
            break
        nxt = "f%d.svh" % (k + 1) if k < n else ("top.sv")
        if via == "macro":
            body = "`define NX%d `include \"%s\"\nh%d\n`NX%d\nt%d\n" % (k, nxt, k, k, k)
        elif via == "name":
            body = "`define FN%d \"%s\"\nh%d\n`include `FN%d\nt%d\n" % (k, nxt, k, k, k)
        else:
            body = "h%d\n`include \"%s\"\nt%d\n" % (k, nxt, k)
        files[name] = body
    return files


def expect(kind, n, cyc, base_inc=0):
    """-> ('ok',) | ('err', wraps)"""
    if kind == "macro":
        if cyc or n > LIMIT:
            return ("err", base_inc)
        return ("ok",)
    if cyc or n > LIMIT:
        return ("err", LIMIT + 1)
    return ("ok",)


def check(ctx):
    prove(ctx, "C09")
    build_impl(ctx)
    ensure_model(ctx)
    r = ctx.rng
    q = ctx.quick()
    depths = sorted(set([1, 2, 15, 63, 64, 65, 66, 70] + ([r.randint(3, 62) for _ in range(2)] if q else list(range(1, 81)))))
    pcs, exp = [], []
    for n in depths:
        pcs.append(ppx.PC({"top.sv": macro_chain(n)}, tag="macro-chain")); exp.append(expect("macro", n, False))
        for via in (None, "macro", "name"):
            pcs.append(ppx.PC(inc_chain(n, via=via), tag="include-chain-%s" % (via or "plain"))); exp.append(expect("inc", n, False))
    for n in ([1, 2, 3, 7] if q else list(range(1, 12)) + [33, 64, 65]):
        pcs.append(ppx.PC({"top.sv": macro_chain(n, cyc=True)}, tag="macro-cycle")); exp.append(expect("macro", n, True))
        for via in (None, "macro", "name"):
            pcs.append(ppx.PC(inc_chain(n - 1, cyc=True, via=via), tag="include-cycle-%s" % (via or "plain"))); exp.append(expect("inc", n, True))
    # include cycles whose files are reachable both relative to the working directory and through an include path
    for n in ([1, 2] if q else [1, 2, 3, 5]):
        for via in (None, "macro"):
            pc = ppx.PC(inc_chain(n - 1, cyc=True, via=via), incdirs=[".", "./"], tag="include-cycle-two-routes")
            pcs.append(pc); exp.append(expect("inc", n, True))
    for n in ([64] if q else [1, 30, 64]):
        pcs.append(ppx.PC(inc_chain(n), incdirs=["."], tag="include-chain-two-routes")); exp.append(expect("inc", n, False))
    # mixed: a macro chain of depth m inside an include chain of depth a
    for a, m in ([(3, 64), (3, 65), (64, 64), (10, 70)] if q else [(a, m) for a in (1, 3, 30, 63, 64) for m in (1, 63, 64, 65, 70)]):
        files = inc_chain(a, leaf=macro_chain(m))
        pcs.append(ppx.PC(files, tag="mixed"))
        exp.append(("ok",) if m <= LIMIT else ("err", a))
    # recursion that arrives through an actual argument (no macro body names a macro)
    for t in ["`define APPLY(f) f(f)\n`APPLY(`APPLY)\n", "`define CALL(f, x) f(f, x)\n`CALL(`CALL, 1)\n",
              "`define P(f, g) g(g, f)\n`define Q(f, g) f(g, f)\n`P(`P, `Q)\n", "`define SELF(x) x\n`define R `SELF(`R)\n`R\n"]:
        pcs.append(ppx.PC({"top.sv": t}, tag="self-application")); exp.append(("err", 0))
    # legal expansions in which a macro's own name stands behind a backquote in its definition without being an
    # unconditional call of itself: bounded by a condition, pasted into a longer name, pasted as a suffix, nested in arguments
    for t in ["`define GO\n`define STEP `ifdef GO `undef GO `STEP `else LEAF `endif\n`STEP\n",
              "`define SEL_IMPL LEAF\n`define SEL `SEL``_IMPL\n`SEL\n", "`define REG(p) p``REG\n`REG(LEAF_)\n",
              "`define A(x) x\n`define B `A(`A(`A(LEAF)))\n`B\n", "`define NAME NAME_is_LEAF\n`NAME\n"]:
        pcs.append(ppx.PC({"top.sv": t}, tag="own-name-no-cycle")); exp.append(("ok",))
    # chains and cycles that pass through a name the preprocessor predefines (the SV_COV_* constants may be redefined like
    # any macro; caller-supplied or source-level, the redefinition holds in nested expansions and included files too)
    for nm in ("SV_COV_OK", "SV_COV_START", "SV_COV_PARTIAL"):
        pcs.append(ppx.PC({"top.sv": "`define %s `A\n`define A `%s\nx `A y\n" % (nm, nm)}, tag="cycle-through-predefined")); exp.append(("err", 0))
        pcs.append(ppx.PC({"top.sv": "`define %s `%s\n`%s\n" % (nm, nm, nm)}, tag="cycle-through-predefined")); exp.append(("err", 0))
        pcs.append(ppx.PC({"top.sv": "`define %s LEAF\n`define B `%s\n`define C `B\nx `C y\n" % (nm, nm)}, tag="chain-through-predefined")); exp.append(("ok",))
        pcs.append(ppx.PC({"top.sv": "`define %s `include \"top.sv\"\nh\n`%s\n" % (nm, nm)}, tag="include-cycle-through-predefined")); exp.append(("err", LIMIT + 1))
        pcs.append(ppx.PC({"top.sv": "`define %s LEAF\n`include \"i.svh\"\n" % nm, "i.svh": "`define D `%s\n`D\n" % nm}, tag="chain-through-predefined")); exp.append(("ok",))
        pcs.append(ppx.PC({"top.sv": "`define E `%s\nx `E y\n" % nm}, predefs=[(nm, [], "LEAF")], tag="chain-through-predefined")); exp.append(("ok",))
    # short chains that carry a long text (the limit is on nesting, not on size)
    big = ", ".join("item_%d" % i for i in range(9000))          # ~100 KiB
    pcs.append(ppx.PC({"top.sv": "`define M1(x) `M2(x)\n`define M2(x) [x] LEAF\n`M1(%s)\n" % big}, tag="long-text")); exp.append(("ok",))
    pcs.append(ppx.PC({"top.sv": "`define TABLE %s LEAF\n`define T2 `TABLE\n`define T3 `T2\n`T3\n" % big}, tag="long-text")); exp.append(("ok",))
    pcs.append(ppx.PC({"top.sv": '`include "m.svh"\n`M1(%s)\n' % big, "m.svh": "`define M1(x) `M2(x)\n`define M2(x) `M3(x)\n`define M3(x) x LEAF\n"}, tag="long-text")); exp.append(("ok",))
    # the same families with the other flags on
    extra = []
    for pc, e in list(zip(pcs, exp))[:: (7 if q else 3)]:
        extra.append((ppx.PC(pc.files, strip=True, predefs=list(pc.predefs) + [("Q", None)], incdirs=pc.incdirs, tag=pc.tag + "+strip"), e))
    pcs += [x[0] for x in extra]; exp += [x[1] for x in extra]
    # every case ends within seconds or not at all: a short limit, so that a run that does not return is found by bisection quickly
    slow = [i for i, pc in enumerate(pcs) if "two-routes" in (pc.tag or "")]
    longs = [i for i, pc in enumerate(pcs) if (pc.tag or "").startswith("long-text")]     # implementation only: the list-based model takes minutes on 100 KiB
    fast = [i for i in range(len(pcs)) if i not in set(slow) and i not in set(longs)]
    cases, res, diffs = ppx.correspond(ctx, "preprocess (chains and cycles) vs PP/Eval.v", [pcs[i] for i in fast], "c09", timeout=90)
    # the families in which a wrong search order can make a cycle explode are run apart, one case per process, with a tight limit
    res_slow = []
    for i in slow:
        _, r1, _ = ppx.correspond(ctx, "preprocess (cycles reachable by two routes) vs PP/Eval.v", [pcs[i]], "c09b", timeout=25)
        res_slow += r1
    lcases, limpl = ppx.run_impl([pcs[i] for i in longs], "c09l", timeout=120)
    res_long = [ppx.Res(limpl.get(c.id)) for c in lcases]
    ctx.corr_cases += len(lcases)
    order = fast + slow + longs
    pcs, exp, res = [pcs[i] for i in order], [exp[i] for i in order], list(res) + res_slow + res_long
    bad = None
    for pc, e, rr in zip(pcs, exp, res):
        if rr.crash:
            bad = bad or (pc, "did not return (stack overflow / abort): " + rr.crash); continue
        if e[0] == "ok":
            if not rr.ok:
                bad = bad or (pc, "legal depth was rejected: %s" % rr.err[:80])
            else:
                body = b"\n".join(l for l in rr.text.split(b"\n") if not l.startswith(b"`define"))
                if body.count(b"LEAF") != 1:
                    bad = bad or (pc, "legal chain did not yield the fully expanded text (LEAF x%d)" % body.count(b"LEAF"))
        else:
            k = rr.err_kind()
            if rr.ok:
                bad = bad or (pc, "nesting beyond the limit / a cycle was accepted")
            elif k[1] != "ExceedRecursiveLimit" or k[0] != e[1]:
                bad = bad or (pc, "expected ExceedRecursiveLimit wrapped in %d Include, got %d x Include( %s )" % (e[1], k[0], k[1]))
    ctx.obl("search-oracle:limit 64 exact for macros, includes, macros expanding to includes, mixed", "oracle",
            bad is None, bad[1] if bad else "")
    if bad:
        ppx.report(ctx, "C09", "recursion bound", bad[0], bad[1])
    from props.c08 import growth_known
    growth_known(ctx, "C09")


def replay(ctx, path):
    build_impl(ctx)
    d, pc = ppx.replay_pc(ctx, path)
    cases, impl = ppx.run_impl([pc], "c09rp")
    print("\n".join(l[:200] for l in impl.get(cases[0].id, [])[:4]))
    print("replay:", d.get("why"))
    return 1
