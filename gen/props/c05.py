"""C05 -- macro expansion (DESIGN 5.5)."""
from framework import *
import ppx, macroref
import pegexec
from props import c06

PARTIAL = ("proved for every usage, table and text: the binding rule of formals (C05_binding), the three misuse errors with "
           "their payloads, expansion to nothing for body-less macros, and that the substituted body is preprocessed again "
           "with the table at the point of use (C05_expands_with_current_table); whole-word substitution on bodies without "
           "quote, slash, backslash, backtick (C05_split_plain, C05_whole_word_substitution); on bodies of plain stretches and "
           "string literals each literal is one piece and is copied as it stands (C05_string_literal_is_one_piece, "
           "C05_string_literals_untouched). The textual substitution on bodies with comments, escapes inside strings, paste and "
           "stringification is tied by correspondence of the evaluator model and by an independent reference reading of "
           "22.5.1 on generated define/usage programs, not by a theorem")

NAMES = ["M", "N1", "add", "cat", "str", "W"]
FORMALS = ["a", "b", "x", "y1", "_z", "type", "input", "bit", "logic", "wire", "begin"]   # reserved words are legal names of formals
ACTUALS = ["1", "p", "q+1", "(r,s)", "{t,u}", "[3:0]", "\"s,t\"", "f(g,h)", "", " ", "w x", "`K", "8'hff", "\"a\"",
           # groups nested in groups, every opener inside every other
           "(x == {a, b})", "mem[{hi, lo}]", "{ {2{s}}, t }", "f({a,b}, [c:{d}])", "((a),(b))", "[{a},(b)]", "{(a),[b]}", "({[a]})",
           "{\"x,}\", y}", "(\")\", 1)"]


def gen_body(r, formals, known):
    parts = []
    for _ in range(r.randint(1, 6)):
        x = r.random()
        if formals and x < 0.4:
            parts.append(r.choice(formals))
        elif x < 0.5 and formals:
            parts.append(r.choice(formals) + "``" + r.choice(["_s", r.choice(formals), "2"]))
        elif x < 0.58 and formals:
            parts.append('`"' + r.choice(formals) + r.choice(["", " is ", "="]) + '`"')
        elif x < 0.63 and formals:
            parts.append(r.choice(['"' + r.choice(formals) + ' lit"', '""', '"\\""', '"' + r.choice(formals) + '\\\\"',
                                   '"", ' + r.choice(formals)]))       # plain strings (empty, with escapes): untouched
        elif x < 0.7 and known:
            k = r.choice(known)
            parts.append("`" + k[0] + ("(" + ",".join(r.choice(["1", "z"] + formals) for _ in k[1]) + ")" if k[1] else ""))
        elif x < 0.75:
            parts.append("\\\n")
        elif x < 0.78:
            parts.append("// note\n" if False else "/* n */")
        else:
            parts.append(r.choice(["+", "-", ";", "1", "wire", "foo", "(", ")", ",", "=="]))
        parts.append(r.choice([" ", " ", "", "  "]))
    body = "".join(parts).replace("( ", "(").strip(" ") or "1"
    if r.random() < 0.12:
        body = "\\\n" + r.choice(["", "  "]) + body          # the body starts on the continuation line
    return body


def gen_program(r, errors=False):
    lines, known = [], []      # known: (name, formals)
    for _ in range(r.randint(1, 6)):
        x = r.random()
        if x < 0.5 or not known:
            name = r.choice(NAMES)
            nf = r.choice([0, 0, 1, 2, 3])
            formals = r.sample(FORMALS, nf)
            body = gen_body(r, formals, [k for k in known if k[0] != name])
            balanced = body.count("(") == body.count(")")
            if not balanced:
                body = body.replace("(", "").replace(")", "")
            fl = []
            for f in formals:
                fl.append(f + (" = " + r.choice(["7", "dflt", "(1,2)", "\"d\""]) if r.random() < 0.35 else ""))
            head = "`define " + name + ("(" + ", ".join(fl) + ")" if formals else "")
            if r.random() < 0.1:
                lines.append(head + "\n")        # no body
            else:
                lines.append(head + " " + body + "\n")
            known = [k for k in known if k[0] != name] + [(name, [(f.split(" = ")[0], " = " in f) for f in fl])]
        elif x < 0.58:
            k = r.choice(known)
            lines.append("`undef " + k[0] + "\n")
            known = [q for q in known if q[0] != k[0]]
        else:
            k = r.choice(known)
            fs = k[1]
            if fs:
                n_args = len(fs)
                if errors and r.random() < 0.3:
                    n_args = r.randint(0, len(fs))
                args = [r.choice(ACTUALS) for _ in range(n_args)]
                args = [a for a in args if a != "`K"] if True else args
                while len(args) < n_args:
                    args.append("1")
                use = "`" + k[0] + ("(" + r.choice(["", " "]) + ",".join(args) + ")" if not (errors and r.random() < 0.15) else "")
            else:
                use = "`" + k[0] + (r.choice(["", "", "(3)", " (4,5)"]))
            lines.append(r.choice(["x = ", "", "a "]) + use + r.choice([";", " ;", "", " + 1;"]) + r.choice(["\n", " // c\n"]))
        if errors and r.random() < 0.08:
            lines.append("`" + r.choice(["UNDEF_X", "nope"]) + "\n")
    return "".join(lines)


HAND = [
    # white space between the macro name and its argument list may hold line breaks (22.5.1)
    "`define ADD(a,b) a+b\nx = `ADD\n(1,2);\ny = `ADD \r\n  (3, 4);\n`define TWICE(z) `ADD\\\n(z,z)\n`TWICE(5)\n",
    # a default text spelled like another formal (or like the formal itself) is text, not a usage of that formal
    "`define M(a, b=a) [a|b]\n`M(1)\n`M(1,2)\n`M(1,)\n",
    "`define N(x=y, y=x) <x y>\n`N()\n`N(1)\n`N(,2)\n`N(1,2)\n",
    "`define P(a, b=a+a, c=b) a b c\n`P(7)\n`P(7,8)\n`define R(s=s) s s\n`R()\n`R(q)\n",
    "`define W(y) \"\\\"\" y y``y\n`W(p)\n",                              # escaped quote inside a body string (fixed in 88521f3)
    "`define L(tag,msg) \\\n$display(\"\",tag,\": msg=\",msg);\n`L(id,val)\n",     # body starts on the continuation line, empty string first
    "`define Q(a) \"a\\\\\" a \"\\\\\\\"a\" a\n`Q(z)\n",                         # \\ before the closing quote, \\\" inside
    "`define D(x,y) initial $display(\"start\", x , y, \"end\");\n`D( \"msg1\" , \"msg2\" )\n`D( \" msg1\", )\n`D(, \"msg2 \")\n`D(,)\n`D(  ,  )\n",
    "`define MACRO1(a=5,b=\"B\",c) $display(a,,b,,c);\n`MACRO1 ( , 2, 3 )\n`MACRO1 ( 1 , , 3 )\n`MACRO1 ( , 2, )\n",
    "`define MACRO2(a=5, b, c=\"C\") $display(a,,b,,c);\n`MACRO2 (1, , 3)\n`MACRO2 (, 2, )\n`MACRO2 (, 2)\n",
    "`define MACRO3(a=5, b=0, c=\"C\") $display(a,,b,,c);\n`MACRO3 ( 1 )\n`MACRO3 ( )\n",
    "`define msg(x,y) `\"x: `\\`\"y`\\`\"`\"\n$display(`msg(left side,right side));\n",
    "`define append(f) f``_master\n`append(clock)\n",
    "`define max(a,b)((a) > (b) ? (a) : (b))\nn = `max(p+q, r+s) ;\n",
    "`define TOP(a,b) a + b\n`TOP( `TOP(b,1), `TOP(42,a) )\n",
    "`define home(filename) `\"/home/mydir/filename`\"\n`define F `home(myfile)\n`F\n",
    "`define A 1\n`define B `A\n`define A 2\n`B\n",
    "`define A(x) x\n`define B(y) `A(y) `A( y ) y``y\n`B(q)\n",
    "`define E\n`define E2()\nx `E y `E2() z\n",
    "`define L a \\\n b \\\r\n c\n`L\n",
    "`define S(x) \"x\" x\n`S(v)\n",
    # continuation lines in a text with CR LF line ends
    "`define M(a,b) a \\\r\n b\r\n`M(1,2) ;\r\n", "`define N(a) a \\\r\n + a \\\r\n + 1\r\nx = `N(q) ;\r\n", "`define O a \\\r b\r`O\r",
    # a macro without formals whose text ends in the name of one with formals: the parenthesis behind the usage is its argument list
    "`define ADD(a,b) ((a)+(b))\n`define PLUS `ADD\ny = `PLUS(p, q) ;\n",
    "`define SEL(v, i) v[i]\n`define PICK `SEL\n`define PICK2 `PICK\nz = `PICK2(w, 3) ;\n",
    "`define ID(x) x\n`define ALIAS `ID\n`ALIAS(`ALIAS(k)) ;\n",
]
HAND_ERR = [
    ("`A\n", ("DefineNotFound", "A")), ("`define A(x) x\n`A\n", ("DefineNoArgs", "A")),
    ("`define A(x,y) x y\n`A(1)\n", ("DefineArgNotFound", "y")), ("`define A(x,y=2,z) x y\n`A(1)\n", ("DefineArgNotFound", "z")),
    ("`define A(x=1) x\n`A\n", ("DefineNoArgs", "A")), ("`define W(n=8, m=2) n m\nq `W r\n", ("DefineNoArgs", "W")),
    ("`define A `B\n`A\n", ("DefineNotFound", "B")), ("`define A(x) x\n`undef A\n`A(1)\n", ("DefineNotFound", "A")),
    ("`define O(x) `I(x)\n`define I(p,q) p q\n`O(1)\n", ("DefineArgNotFound", "q")),
]


def nb(s):
    return [ch for ch in s if ch not in " \t\r\n"]


def oracle(text, rr):
    ref = macroref.Ref()
    try:
        exp = ref.run(text)
    except macroref.RefErr as e:
        if rr.ok:
            return "expected %s(%s), the implementation returned Ok" % (e.kind, e.payload)
        k = rr.err_kind()
        if k[1] != e.kind or (e.payload is not None and k[2][:1] != [hx(e.payload)]):
            return "expected %s(%s), got %s" % (e.kind, e.payload, rr.err)
        return None
    if not rr.ok:
        return "expected an expansion, got %s" % rr.err
    if ref.d6:
        return "D6"
    got = rr.text.decode("utf-8", "replace")
    a, b = nb(got), nb(exp)
    if a != b:
        k = next((i for i, (x, y) in enumerate(zip(a + [None] * len(b), b + [None] * len(a))) if x != y), 0)
        return "expansion differs at non-blank character %d: got %r, 22.5.1 reading gives %r" % (
            k, "".join(a[max(0, k - 12):k + 12]), "".join(b[max(0, k - 12):k + 12]))
    return None


def check(ctx):
    prove(ctx, "C05")
    build_impl(ctx)
    ensure_model(ctx)
    r = ctx.rng
    q = ctx.quick()
    texts = [(t, "hand") for t in HAND] + [(t, "hand-error") for t, _ in HAND_ERR]
    texts += [(gen_program(r), "macro") for _ in range(200 if q else 4000)]
    texts += [(gen_program(r, True), "macro-misuse") for _ in range(80 if q else 1500)]
    pcs = [ppx.PC({"top.sv": t}, tag=tag) for t, tag in texts]
    cases, res, diffs = ppx.correspond(ctx, "preprocess (define/usage programs) vs PP/Eval.v", pcs, "c05")
    # the oracle of that model, pp_parser: the regenerated grammar run by Peg.run must give the real trees
    small = [t for t, _ in texts if len(t.encode("utf-8")) <= 1500]
    pegexec.correspond(ctx, [("pp", t) for t in small[:len(HAND) + len(HAND_ERR)] + r.sample(small, min(len(small), 150 if q else 900))], "c05peg", minimum=100)
    bad, nd6 = None, 0
    for (t, tag), pc, rr in zip(texts, pcs, res):
        if rr.crash:
            bad = bad or (pc, "crash: " + rr.crash); continue
        why = oracle(t, rr)
        if why == "D6":
            # duplicated trivia after string literals (D6) shows as blanks, which the comparison ignores; comments and
            # directives in that position are duplicated visibly: the known class
            nd6 += 1
        elif why:
            bad = bad or (pc, why)
    for (t, e), rr in zip(HAND_ERR, res[len(HAND):len(HAND) + len(HAND_ERR)]):
        k = rr.err_kind() if rr.err else None
        if rr.ok or k[1] != e[0] or k[2][:1] != [hx(e[1])]:
            bad = bad or (ppx.PC({"top.sv": t}), "expected %s(%s), got %s" % (e[0], e[1], rr.err or "Ok"))
    ppx.scenario_batch(ctx, "C05", 80 if q else 1500, "c05sc")
    ctx.count("skipped_comment_after_string_D6", nd6)
    ctx.obl("search-oracle:expansion and misuse errors = independent reading of IEEE 22.5.1", "oracle", bad is None, bad[1] if bad else "")
    if bad:
        ppx.report(ctx, "C05", "macro expansion", bad[0], bad[1])


def replay(ctx, path):
    build_impl(ctx)
    d, pc = ppx.replay_pc(ctx, path)
    cases, impl = ppx.run_impl([pc], "c05rp")
    rr = ppx.Res(impl.get(cases[0].id))
    print(rr.text or rr.err)
    print("replay:", oracle(pc.files["top.sv"], rr) or d.get("why"))
    return 1
