"""C03 -- origin map (DESIGN 5.3)."""
import json, os
from framework import *
import ppgen

PARTIAL = ("map part proved in full (C03_origin_refines: lookup = per-byte provenance array for every "
           "operation tree); every emission site of the event loop is proved to push exactly the source range it copied "
           "(C03_site_text/_string/_kept_directive/_blank/_comment), synthesised text without origin (C03_site_synthesised) "
           "and a macro expansion with the definition's file at an offset not before its text "
           "(C03_expansion_chunk_provenance); the composition over whole runs (which sites fire, in which order, "
           "through includes and expansions) is tied by correspondence + the per-position search oracle")


# ------------------------------------------------------------------ operation-level
def gen_ops(r, depth=0):
    ops = []
    for _ in range(r.randint(0, 5 if depth else 7)):
        x = r.random()
        if x < 0.72 or depth >= 3:
            n = r.choice([0, 1, 1, 2, 3, 5, 17])
            if r.random() < 0.25:
                ops.append(("push", n, None))
            else:
                b = r.randint(0, 40)
                e = b + r.choice([n, n, 0, 1, n + 3])
                ops.append(("push", n, (r.choice(["f.sv", "g.svh", "d/é.v"]), b, e)))
        else:
            ops.append(("merge", gen_ops(r, depth + 1)))
    return ops


def ops_lines(c, ops):
    for o in ops:
        if o[0] == "push":
            if o[2] is None:
                c.add("push", o[1], "-")
            else:
                c.add("push", o[1], hx(o[2][0]), o[2][1], o[2][2])
        else:
            c.add("merge_begin")
            ops_lines(c, o[1])
            c.add("merge_end")


def ops_array(ops):
    """the abstract spec, independently in Python: per-byte provenance"""
    arr = []
    for o in ops:
        if o[0] == "push":
            for i in range(o[1]):
                arr.append(None if o[2] is None else (o[2][0], o[2][1] + i))
        else:
            arr += ops_array(o[1])
    return arr


def ops_case(cid, ops):
    c = Case(cid)
    ops_lines(c, ops)
    n = len(ops_array(ops))
    c.add("segs")
    c.add("probe", *range(0, n + 3))
    return c


def probe_of(lines):
    d = {}
    for l in lines or []:
        if l.startswith("probe"):
            for t in l.split()[1:]:
                k, v = t.split("=", 1)
                d[int(k)] = v
    return d


def ops_oracle(ops, lines):
    """direct oracle of the property at hook level: every byte maps to what it was pushed with"""
    arr = ops_array(ops)
    got = probe_of(lines)
    for i in range(len(arr) + 3):
        exp = "-" if i >= len(arr) or arr[i] is None else "%s:%d" % (hx(arr[i][0]), arr[i][1])
        if got.get(i) != exp:
            return "position %d: origin=%s expected=%s" % (i, got.get(i), exp)
    return None


def shrink_ops(ops, fails):
    changed = True
    while changed:
        changed = False
        for i in range(len(ops)):
            cand = ops[:i] + ops[i + 1:]
            if fails(cand):
                ops, changed = cand, True
                break
            if ops[i][0] == "merge":
                cand = ops[:i] + list(ops[i][1]) + ops[i + 1:]
                if fails(cand):
                    ops, changed = cand, True
                    break
    return ops


def op_level(ctx, n):
    r = ctx.rng
    cases, byid = [], {}
    corpus = [
        [("push", 11, ("t.sv", 0, 11)), ("push", 0, ("t.sv", 9, 10)), ("push", 2, ("t.sv", 13, 15))],  # D3
        [("push", 0, None), ("push", 3, None), ("merge", [("push", 0, None)]), ("push", 1, ("f", 5, 6))],
        [("merge", [("merge", [("push", 2, ("f", 1, 3))]), ("push", 0, None)]), ("merge", [])],
    ]
    allops = corpus + [gen_ops(r) for _ in range(n)]
    for i, ops in enumerate(allops):
        c = ops_case("o%d" % i, ops)
        cases.append(c)
        byid[c.id] = ops
        arr = ops_array(ops)
        ctx.count("oplevel_len_%s" % ("0" if not arr else "1-9" if len(arr) < 10 else "10+"))
        if len(arr) >= 2 and len(ops) >= 2:
            ctx.corr_nontrivial.add(sha(c.text()))
    impl = run_harness("originops", cases, "c03op")
    model = run_model("originops", cases, "c03op")
    diffs = compare(ctx, "origin-map operations (hook) vs Origin.v", impl, model, byid)
    ctx.sample({"ops": allops[3 if len(allops) > 3 else 0], "impl": impl.get("o3", impl.get("o0"))})
    # direct oracle on every case (cheap), shrink the first failure
    for cid, ops in byid.items():
        why = ops_oracle(ops, impl.get(cid))
        if why:
            def fails(o):
                cc = ops_case("s", o)
                return ops_oracle(o, run_harness("originops", [cc], "c03shr").get("s")) is not None
            small = shrink_ops(ops, fails)
            rp = write_replay(ctx, "ops-" + sha(json.dumps(small))[:8], {
                "property": "C03", "kind": "origin-map operation sequence (hook verif_push/verif_merge/origin)",
                "ops": small, "why": ops_oracle(small, run_harness("originops", [ops_case("s", small)], "c03shr").get("s")),
                "replay": "bin/vcheck C03 --replay <this file>"})
            ctx.viol.append(Violation("origin map returns a wrong origin: " + why, rp))
            break
    return diffs


# ------------------------------------------------------------------ API-level oracle
def parse_origins(line):
    """origins line -> list per position of None | (path, off)"""
    res = []
    for t in line.split()[1:]:
        head, src = t.split("@", 1)
        start, ln = head.split("+")
        ln = int(ln)
        if src == "-":
            res += [None] * ln
        else:
            p, o = src.rsplit(":", 1)
            p = unhx(p).decode()
            res += [(p, int(o) + k) for k in range(ln)]
    return res


def api_oracle(files, ref_out, text, org, strip=False):
    """None if fine, else a description.  files: path -> text"""
    fb = {p: t.encode("utf-8") for p, t in files.items()}
    nb = [(i, ch) for i, ch in enumerate(text) if chr(ch) not in " \t\r\n"]
    if len(nb) != len(ref_out) or any(a[1] != b[0] for a, b in zip(nb, ref_out)):
        return "text"    # output text differs from the reference (C04/C05 matter), not judged here
    kind = {}
    for (i, ch), (_, prov) in zip(nb, ref_out):
        kind[i] = prov
        o = org[i]
        if prov[0] == "copy":
            if o != (prov[1], prov[2]):
                return "byte %d (%r) copied from %s:%d but origin says %r" % (i, chr(ch), prov[1], prov[2], o)
        elif prov[0] == "macro":
            if prov[1] == "<macro>":
                continue      # defined by expanding another macro: the standard does not say where that text lives
            if prov[1] is None:
                if o is not None:
                    return "byte %d from a caller-supplied macro has origin %r" % (i, o)
            elif o is None or o[0] != prov[1] or o[1] < prov[2]:
                return "byte %d from macro defined in %s (body at %d) has origin %r" % (i, prov[1], prov[2], o)
        else:
            if o is not None:
                return "synthesised byte %d has origin %r" % (i, o)
    # blanks: a copied blank must map to an equal byte; blanks inside expansions follow the expansion
    idx = sorted(kind)
    import bisect
    for i, ch in enumerate(text):
        if i in kind:
            continue
        o = org[i]
        k = bisect.bisect_left(idx, i)
        near = []
        if k > 0: near.append(kind[idx[k - 1]])
        if k < len(idx): near.append(kind[idx[k]])
        if o is not None and o[0] in fb and o[1] < len(fb[o[0]]) and fb[o[0]][o[1]] == ch:
            continue
        if strip and ch == 32 and o is not None and o[0] in fb and fb[o[0]][o[1]:o[1] + 2] == b"/*":
            continue      # the blank that stands for a stripped block comment carries the position of the comment
        if any(p[0] in ("macro", "synth") for p in near):
            continue
        return "blank byte %d has origin %r which is not a copy of it" % (i, o)
    return None


def api_level(ctx, n):
    r = ctx.rng
    progs, cases = {}, []
    import ppx
    for i in range(n):
        g = ppgen.Gen(r, max_depth=2, scenarios=(i % 3 == 2), pos=(i % 3 != 2), crlf=(i % 5 == 4))
        files = g.program()
        texts = ppgen.render(files)
        pc = ppx.PC(texts, predefs=ppx.predefs_random(r) if i % 3 == 2 else [], meta=files, strip=(i % 5 >= 3))
        ppx.twin_predef(r, pc)
        c = pc.case("p%d" % i, ("text", "origins"))
        cases.append(c)
        progs[c.id] = (files, texts, pc)
    # files that begin with a byte order mark (top file, included file, a macro defined in such a file): the mark is
    # three bytes of the file like any others, every later offset counts them
    P = ppgen
    bom_progs = [
        [P.File("top.sv", [P.Tok("\ufeff"), P.Tok("a"), P.Ws("\n"), P.Include("b.svh"), P.Ws("\n"), P.Usage("M"), P.Ws(" "), P.Tok(";"), P.Ws("\n")]),
         P.File("b.svh", [P.Tok("\ufeff"), P.Tok("q"), P.Ws("\n"), P.Define("M", None, "body + 1"), P.Ws("\n")])],
        [P.File("top.sv", [P.Tok("\ufeff"), P.Define("K", None, "k1"), P.Ws("\n"), P.Cmt("// c"), P.Ws("\n"), P.Usage("K"), P.Ws(" "), P.Tok("z"), P.Ws("\n")])],
    ]
    for j, files in enumerate(bom_progs):
        texts = ppgen.render(files)
        pc = ppx.PC(texts, meta=files)
        c = pc.case("bom%d" % j, ("text", "origins"))
        cases.append(c)
        progs[c.id] = (files, texts, pc)
    impl = run_harness("api", cases, "c03api")
    bad = None
    for cid, (files, texts, pc) in progs.items():
        lines = impl.get(cid, [])
        ctx.corr_cases += 1
        if "ok" not in lines:
            ctx.count("api_" + (lines[1].split()[1] if len(lines) > 1 and lines[1].startswith("err") else "other"))
            continue
        text = unhx([l for l in lines if l.startswith("text ")][0].split()[1])
        org = parse_origins([l for l in lines if l.startswith("origins")][0])
        if ppx.in_D4(pc):
            ctx.count("api_known_class_D4")     # the branch taken differs from the reference by the known finding of C04
            continue
        ref = ppgen.Ref(files, ppx.ref_predefs(pc), strip=pc.strip)
        try:
            ref.eval_file("top.sv")
        except ppgen.RefError:
            ctx.count("api_ref_error")
            continue
        why = api_oracle(texts, ref.out, text, org, strip=pc.strip)
        if why == "text" and cid.startswith("bom") and bad is None:
            bad = (cid, "the output of a file that begins with a byte order mark is not the text of the file (bytes dropped or moved, so every origin is off)", texts, pc)
            continue
        if why == "text":
            ctx.count("api_text_differs_from_reference")
            continue
        ctx.count("api_ok_checked")
        if len(text) > 8:
            ctx.corr_nontrivial.add(sha(repr(sorted(texts.items()))))
        if why and bad is None:
            bad = (cid, why, texts, pc)
    if progs:
        k = sorted(progs)[0]
        ctx.sample({"files": progs[k][1], "impl": impl.get(k)})
    if bad:
        rp = write_replay(ctx, "pp-" + sha(repr(bad[2]))[:8], {
            "property": "C03", "kind": "preprocess(top.sv) then origin(i) for every i",
            "files": bad[2], "predefs": bad[3].predefs, "why": bad[1], "replay": "bin/vcheck C03 --replay <this file>"})
        ctx.viol.append(Violation("origin lookup disagrees with where the byte came from: " + bad[1], rp))
    ctx.obl("search-oracle:per-position provenance on generated programs", "oracle", bad is None,
            bad[1] if bad else "")


# macros whose expansion changes the define table -- their own entry included: the expansion is still text of the definition
# that was in force when it was made.  (text of top.sv, needle in the output, the needle's place in the source)
SELF_CHANGING = [
    ("`define ONCE wire once_w; `undef ONCE\n`ONCE\nwire tail;\n", "once_w"),
    ("`define GONE wire gone_w; `undefineall\n`GONE\nwire tail;\n", "gone_w"),
    ("`define RE wire first_w; \\\n`define RE wire second_w;\n`RE\nwire tail;\n", "first_w"),
    ("`define A1 wire a1_w; `undef A1 `define A1 wire again_w;\n`A1\n`A1\n", "a1_w"),
]


def self_changing(ctx):
    import ppx
    bad = None
    for t, needle in SELF_CHANGING:
        pc = ppx.PC({"top.sv": t})
        c = pc.case("sc", ("text", "origins"))
        lines = run_harness("api", [c], "c03sc").get("sc", [])
        ctx.corr_cases += 1
        if "ok" not in lines:
            ctx.count("self_changing_" + (lines[1].split()[1] if len(lines) > 1 and lines[1].startswith("err") else "other"))
            continue
        text = unhx([l for l in lines if l.startswith("text ")][0].split()[1])
        org = parse_origins([l for l in lines if l.startswith("origins")][0])
        src = t.encode()
        # the LAST occurrence in the output is the expansion (the kept `define line comes first)
        k = text.rfind(needle.encode())
        d = src.find(needle.encode())
        if k < 0:
            ctx.count("self_changing_needle_not_expanded"); continue
        ctx.corr_nontrivial.add(sha(t))
        for j in range(len(needle)):
            o = org[k + j]
            line_start = src.rfind(b"`define", 0, d)
            if o is None or o[0] != "top.sv" or not (line_start <= o[1] <= d + len(needle)):
                bad = bad or (t, "byte %d of the expansion (%r) has origin %r; the text of the definition stands at %d..%d of top.sv" % (
                    k + j, needle, o, line_start, d + len(needle)))
    ctx.obl("search-oracle:expansions of macros that change the define table (their own entry included) keep the origin of the definition they were made from",
            "oracle", bad is None, bad[1] if bad else "")
    if bad:
        rp = write_replay(ctx, "pp-" + sha(bad[0])[:8], {"property": "C03", "kind": "preprocess(top.sv) then origin(i) for every i",
                          "files": {"top.sv": bad[0]}, "predefs": [], "why": bad[1]})
        ctx.viol.append(Violation("origin lookup disagrees with where the byte came from: " + bad[1], rp))


# directive-free texts: every byte of the output is a copy of a source byte, also the white space and comments that the loop
# emits together with a string literal or an escaped identifier (and, by the known class D6, once more)
COPIED = ['import "DPI-C" function void f();\n', 'string s = "abc" /* note */ ;\n', 'wire \\bus+1 ;\n', '"s"  b\n', '\\esc   // c\nx\n',
          'x = "a\\"b"   +   "c" ; // d\n', 'y \\e1 \t \\e2\n\n z\n', '"é"  /* é */  \\é \n']


def copy_equal(ctx):
    import ppx
    bad = None
    for t in COPIED:
        pc = ppx.PC({"top.sv": t})
        c = pc.case("ce", ("text", "origins"))
        lines = run_harness("api", [c], "c03ce").get("ce", [])
        ctx.corr_cases += 1
        if "ok" not in lines:
            ctx.count("copy_equal_rejected"); continue
        text = unhx([l for l in lines if l.startswith("text ")][0].split()[1])
        org = parse_origins([l for l in lines if l.startswith("origins")][0])
        src = t.encode()
        ctx.corr_nontrivial.add(sha(t))
        for i, ch in enumerate(text):
            o = org[i] if i < len(org) else None
            if o is None or o[0] != "top.sv" or o[1] >= len(src) or src[o[1]] != ch:
                bad = bad or (t, "output byte %d (%r) has origin %r, where the source holds %r" % (i, chr(ch), o, chr(src[o[1]]) if o and o[1] < len(src) else None))
                break
    ctx.obl("search-oracle:in directive-free text every output byte maps to an equal source byte (strings and escaped identifiers with their trivia included)",
            "oracle", bad is None, bad[1] if bad else "")
    if bad:
        rp = write_replay(ctx, "pp-" + sha(bad[0])[:8], {"property": "C03", "kind": "preprocess(top.sv) then origin(i) for every i",
                          "files": {"top.sv": bad[0]}, "predefs": [], "why": bad[1]})
        ctx.viol.append(Violation("origin lookup disagrees with where the byte came from: " + bad[1], rp))


SV_TEMPLATES = [
    "`define W 8\nmodule m;\n  wire [`W-1:0] w;\n`include \"inc.svh\"\nendmodule\n",
    "module m;\n`ifdef X\n wire a;\n`else\n wire b;  \n`endif   \n  wire c;\nendmodule\n",
    "`define M(x) wire x;\nmodule m; `M(q) `M(r)\n  initial $display(`__LINE__, `__FILE__);\nendmodule\n",
    "`timescale 1ns/1ps\n`celldefine\nmodule m;\nendmodule\n`endcelldefine\n",
]


def token_level(ctx):
    """SyntaxTree::get_origin(token) = origin(first byte)."""
    cases = []
    # tokens that start in one piece of the map and end in the next (a name or number written in the file and completed by
    # a macro expansion), in texts with so many pieces that the map is a tree of several levels: the token's origin is
    # that of its FIRST byte, whichever piece a wider probe would meet first
    straddle = []
    for n in (3, 14, 40, 150):
        t = "".join("`define T%d a%d\n" % (i, i) for i in range(n)) + "`define H ff\nmodule m;\n"
        t += "".join("wire x%d`T%d ;\nlocalparam p%d = 8'h`H ;\n" % (i, i, i) for i in range(n)) + "endmodule\n"
        straddle.append(t)
    for i, t in enumerate(SV_TEMPLATES + straddle):
        c = Case("t%d" % i)
        c.add("file", hx("inc.svh"), hx("wire inc_w;\n"))
        c.add("want", "text", "origins", "tokorg")
        c.add("run", "preprocess_str", hx(t), hx("top.sv"))
        c.add("run", "parse_sv_str", hx(t), hx("top.sv"))
        cases.append(c)
    impl = run_harness("api", cases, "c03tok")
    bad = None
    for c in cases:
        lines = impl.get(c.id, [])
        ctx.corr_cases += 1
        try:
            org = parse_origins([l for l in lines if l.startswith("origins")][0])
            tk = [l for l in lines if l.startswith("tokorg")][0].split()[1:]
        except IndexError:
            bad = bad or (c.id, "template did not preprocess/parse: %r" % lines[:4])
            continue
        ctx.corr_nontrivial.add(sha(c.text()))
        for t in tk:
            off, v = t.split("=", 1)
            off = int(off)
            exp = "-" if org[off] is None else "%s:%d" % (hx(org[off][0]), org[off][1])
            if v != exp and bad is None:
                bad = (c.id, "token at %d: get_origin=%s origin(first byte)=%s" % (off, v, exp))
    if bad:
        rp = write_replay(ctx, "tok-" + sha(bad[1])[:8], {"property": "C03", "case": bad[0], "why": bad[1],
                                                          "templates": SV_TEMPLATES + straddle})
        ctx.viol.append(Violation("get_origin differs from the origin of the token's first byte: " + bad[1], rp))
    ctx.obl("search-oracle:get_origin = origin(first byte)", "oracle", bad is None, bad[1] if bad else "")


def check(ctx):
    prove(ctx, "C03")
    build_impl(ctx)
    ensure_model(ctx)
    op_level(ctx, 400 if ctx.quick() else 6000)
    api_level(ctx, 200 if ctx.quick() else 3000)
    self_changing(ctx)
    copy_equal(ctx)
    token_level(ctx)


def replay(ctx, path):
    build_impl(ctx)
    d = json.load(open(path))
    if "ops" in d:
        ops = [tuple(o) for o in d["ops"]]
        def fix(o):
            return ("push", o[1], tuple(o[2]) if o[2] else None) if o[0] == "push" else ("merge", [fix(x) for x in o[1]])
        ops = [fix(o) for o in ops]
        why = ops_oracle(ops, run_harness("originops", [ops_case("s", ops)], "c03rp").get("s"))
    elif "files" in d:
        import ppx
        c = ppx.PC(d["files"], predefs=[tuple(x) for x in d.get("predefs", [])]).case("r", ("text", "origins"))
        print("\n".join(run_harness("api", [c], "c03rp").get("r", [])))
        why = d.get("why")
    else:
        why = d.get("why")
    print("replay:", why or "no failure")
    return 1 if why else 0
