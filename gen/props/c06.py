"""C06 -- identity on directive-free text; fixed point (DESIGN 5.6)."""
import re
from framework import *
import ppgen, ppx, ppmodel, dbgtree

PARTIAL = ("C06_identity is proved for every directive-free pp tree whose items are single leaves tiling the text "
           "(text, per-byte origins, define table); that pp_parser produces such a tree for every lexically sound "
           "directive-free text is checked per case on the real parser's tree (the parser is an oracle of the model); "
           "the fixed-point half is covered by correspondence and search only; the class D6 (string literal / escaped "
           "identifier with trailing trivia) is a known finding")

ALPHA = ["a", "b1", " ", "  ", "\n", "\t", "\r\n", ";", "+", "/", "*", "(", ")", "'", "é", "中", "\"s\"", "\"a b\"",
         "\"\\\"\"", "\"é`x\"", "\"\\\\\"", "// c\n", "//\n", "/* c */", "/**/", "/* * / \n */", "\\esc ", "\\a+b\n", "1'b0", "$x",
         "/ /", "* /", "\"//\"", "\"/*\"", "/*\"*/", "//\"\n",
         # comments may hold anything: backticks, quotes, backslashes, bare CR; CR alone is a blank
         "\r", "// a\rb\n", "// `X `__LINE__ \"q \\\n", "// c\r`undefined_macro\n", "// \r\"\n", "/* `Y \" \\ */",
         "/* `include \"nofile\" */", "// `define Z 1\n", "//`ifdef Q\r\n", "\"`__FILE__ `Z\"", "\v", "\f"]
BROKEN = ["\"abc", "/* open", "\\", "\\ x", "\"a\\", "\\\n"]


def gen_text(r, broken=False):
    n = r.randint(0, 12)
    parts = [r.choice(ALPHA) for _ in range(n)]
    if broken:
        parts.insert(r.randint(0, len(parts)), r.choice(BROKEN))
    return "".join(parts)


def lex_fault(s):
    """offset of the first lexical fault of a directive-free text, or None (independent scanner)"""
    i, n = 0, len(s)
    while i < n:
        c = s[i]
        if s.startswith("//", i):
            j = s.find("\n", i)
            i = n if j < 0 else j + 1
        elif s.startswith("/*", i):
            j = s.find("*/", i + 2)
            if j < 0:
                return i
            i = j + 2
        elif c == '"':
            j = i + 1
            while True:
                if j >= n:
                    return i
                if s[j] == "\\":
                    if j + 1 >= n:
                        return i
                    j += 2
                elif s[j] == '"':
                    break
                else:
                    j += 1
            i = j + 1
        elif c == "\\":
            if i + 1 >= n or s[i + 1] in " \t\r\n":
                return i
            j = i + 1
            while j < n and s[j] not in " \t\r\n":
                j += 1
            i = j
        else:
            i += 1
    return None


def exposed_backtick(s):
    """a backtick outside comments, strings and escaped identifiers: the text is not directive-free after all
    (the alphabet only puts backticks inside comments and strings, but a preceding backslash or quote can open them up)"""
    i, n = 0, len(s)
    while i < n:
        c = s[i]
        if s.startswith("//", i):
            j = s.find("\n", i); i = n if j < 0 else j + 1
        elif s.startswith("/*", i):
            j = s.find("*/", i + 2)
            if j < 0:
                return False
            i = j + 2
        elif c == '"':
            j = i + 1
            while j < n and s[j] != '"':
                j += 2 if s[j] == "\\" else 1
            if j >= n:
                return False
            i = j + 1
        elif c == "\\":
            j = i + 1
            while j < n and s[j] not in " \t\r\n":
                j += 1
            i = j
        elif c == "`":
            return True
        else:
            i += 1
    return False


# the known class D6: the trivia behind a string literal / escaped identifier is emitted twice -- unless it is ONE run of white
# space that starts with a line break and no comment follows (WhiteSpace::Newline is emitted by no arm of its own)
D6 = re.compile(r'("(?:[^"\\]|\\.)*"|\\[^ \t\r\n]+)(?=[ \t\f]|//|/\*|[\r\n][ \t\r\n\f]*(?://|/\*|`))', re.S)
# the wider shape (any trivia behind such a token): there the item of the pp tree has two leaves, so the hypothesis of
# C06_identity does not apply -- the identity itself is still checked
D6_WIDE = re.compile(r'("(?:[^"\\]|\\.)*"|\\[^ \t\r\n]+)(?=[ \t\r\n\f]|//|/\*)', re.S)


def strip_cmt_str(s):
    """positions of string literals / escaped identifiers outside comments, followed by trivia"""
    i, n = 0, len(s)
    while i < n:
        if s.startswith("//", i):
            j = s.find("\n", i); i = n if j < 0 else j + 1
        elif s.startswith("/*", i):
            j = s.find("*/", i + 2); i = n if j < 0 else j + 2
        elif s[i] == '"' or s[i] == "\\":
            m = D6.match(s, i)
            if m:
                return True
            if s[i] == '"':
                j = i + 1
                while j < n and s[j] != '"':
                    j += 2 if s[j] == "\\" else 1
                i = j + 1
            else:
                while i < n and s[i] not in " \t\r\n":
                    i += 1
        else:
            i += 1
    return False


def in_D6(s):
    return strip_cmt_str(s)


def flat_tiling(tree, nbytes):
    """hypotheses of C06_identity on the real parser's tree"""
    if tree[0] != "N":
        return False
    o = 0
    for it in tree[2]:
        if it[0] != "N" or it[1] != "SourceDescription" or len(it[2]) != 1:
            return False
        ch = it[2][0]
        if ch[0] != "N" or ch[1] not in ("SourceDescriptionNotDirective", "Comment", "StringLiteral", "EscapedIdentifier"):
            return False
        if len(ch[2]) != 1 or ch[2][0][0] != "L":
            return False
        l = ch[2][0]
        if l[1] != o:
            return False
        o += l[2]
    return o == nbytes


def long_text(kb, step, ch):
    """directive-free text of kb KiB in which the multi-byte character ch straddles every multiple of step bytes"""
    b = bytearray(b"wire w; /* ")
    e = ch.encode("utf-8")
    while len(b) < kb * 1024:
        nxt = (len(b) // step + 1) * step
        b += b"a" * (nxt - 1 - len(b)) + e
    return b.decode("utf-8") + " */ x = y;\n"


def check(ctx):
    prove(ctx, "C06")
    build_impl(ctx)
    ensure_model(ctx)
    r = ctx.rng
    q = ctx.quick()
    texts = ["", "a", "a \"s\";b\n", "é中 /* é */ \"é\"\n",
             # escaped identifiers made of anything but white space, ended by a line break
             "wire \\été\n;\n", "wire \\\x0bx\n;\n", "wire \\中\n , \\\x01\n;\n", "wire \\a\x7fb\n;\n", "x \\\u00a0y\n z\n", "wire \\a\x0cb\n;\n",
             "endmodule // m", "//", "a // c\r\n// last", "x /* c */ // d", "// only\r"]
    texts += [gen_text(r) for _ in range(250 if q else 4000)] + [gen_text(r, True) for _ in range(60 if q else 800)]
    # long files read through the file entry point: multi-byte characters across every multiple of 1 / 4 / 8 KiB
    for kb, step, ch in ([(20, 1024, "é"), (36, 8192, "中")] if q else [(20, 1024, "é"), (70, 4096, "中"), (140, 8192, "é"), (40, 8192, "😀")]):
        texts.append(long_text(kb, step, ch))
    pcs = [ppx.PC({"top.sv": t}, predefs=ppx.predefs_random(r) if r.random() < 0.2 else [], tag="lexical") for t in texts]
    cases, res, diffs = ppx.correspond(ctx, "preprocess (directive-free texts) vs PP/Eval.v", pcs, "c06")
    impl = {c.id: rr for c, rr in zip(cases, res)}
    bad, nflat, nd6 = None, 0, 0
    for pc, c, rr in zip(pcs, cases, res):
        t = pc.files["top.sv"]
        tb = t.encode("utf-8")
        if rr.crash:
            bad = bad or (pc, "crash: " + rr.crash); continue
        if exposed_backtick(t):
            ctx.count("not_directive_free_after_all"); continue
        fault = lex_fault(t)
        if fault is not None:
            if rr.ok:
                bad = bad or (pc, "text with a lexical fault at %d was accepted" % fault)
            elif rr.err_kind()[1] != "Preprocess":
                bad = bad or (pc, "lexical fault reported as %s" % rr.err)
            continue
        if not rr.ok:
            bad = bad or (pc, "lexically sound directive-free text was rejected: %s" % rr.err); continue
        if in_D6(t):
            nd6 += 1
            continue
        # hypotheses of the theorem on the real tree
        pl = [l for l in rr.lines if l.startswith("pplog " + hx(t) + " ok")]
        if pl:
            tree = ppmodel.tree_of_debug(unhx(pl[0].split()[3]).decode("utf-8"))
            if flat_tiling(tree, len(tb)):
                nflat += 1
            elif not D6_WIDE.search(t):
                bad = bad or (pc, "pp tree of a directive-free text is not a tiling by single-leaf items")
        if rr.text != tb:
            bad = bad or (pc, "output differs from the input: %r" % rr.text[:60]); continue
        exp = "origins" + (" 0+%d@%s:0" % (len(tb), hx("top.sv")) if tb else "")
        if rr.origins != exp:
            bad = bad or (pc, "origin map is not the identity: %s" % rr.origins[:120])
    ctx.count("theorem_hypotheses_hold_on_real_tree", nflat)
    ctx.count("in_known_class_D6", nd6)
    ctx.obl("search-oracle:identity, identity origins, rejection iff lexical fault", "oracle", bad is None, bad[1] if bad else "")
    if bad:
        ppx.report(ctx, "C06", "directive-free text is not passed through", bad[0], bad[1])
    # fixed point on outputs of successful runs of general programs
    gp = ppx.gen_general(r, 80 if q else 1200, tag="fixpoint")
    cases1, impl1 = ppx.run_impl(gp, "c06fp1", wants=("text", "defines"))
    second, idx = [], []
    for pc, c in zip(gp, cases1):
        rr = ppx.Res(impl1.get(c.id))
        if rr.ok and rr.text is not None:
            out = rr.text.decode("utf-8", "replace")
            if in_D6(out) or "`include" in out:
                ctx.count("fixpoint_skipped_D6_or_ignored_include")
                continue
            second.append(ppx.PC({"top.sv": out}, strip=pc.strip, ignore=pc.ignore, predefs=pc.predefs, tag="fixpoint2"))
            idx.append((pc, rr))
    cases2, res2, _ = ppx.correspond(ctx, "second pass over outputs vs PP/Eval.v", second, "c06fp2")
    bad2 = None
    for (pc, r1), pc2, r2 in zip(idx, second, res2):
        if not r2.ok or r2.text != r1.text:
            bad2 = bad2 or (pc2, "preprocessing an output again changed it: %r -> %r" % (r1.text[:80], (r2.text or r2.err or "")[:80]))
    ctx.obl("search-oracle:outputs are fixed points", "oracle", bad2 is None, bad2[1] if bad2 else "")
    if bad2:
        ppx.report(ctx, "C06", "output is not a fixed point", bad2[0], bad2[1])
    ppx.known_finding_replay(ctx, "C06", "D6-dup-trivia", ppx.PC({"top.sv": "a \"s\"  b\n"}),
                             lambda rr: rr.ok and rr.text != b"a \"s\"  b\n")


def replay(ctx, path):
    build_impl(ctx)
    d, pc = ppx.replay_pc(ctx, path)
    cases, impl = ppx.run_impl([pc], "c06rp")
    print("\n".join(impl.get(cases[0].id, [])[:6]))
    print("replay:", d.get("why"))
    return 1
