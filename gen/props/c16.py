"""C16 -- tree traversal (DESIGN 5.16)."""
import json
from framework import *
import dbgtree, snippets, svx_schema, ppgen

PARTIAL = None

HAND = [
    ("sv", "module a;\n`timescale 1ns/1ps\nendmodule\n", True),      # kept directives pass through unchanged
    ("sv", "module a; wire x /* c */ ; // d\n`celldefine\n `default_nettype none\nendmodule\n", True),
    ("sv", "\n// header\n\n  module a;\n wire b; // t\nendmodule\n", True),
    ("sv", ""),
    ("sv", "  // only a comment\n"),
    ("sv", "module m #(parameter P = 1) (input logic [P-1:0] a, output b); assign b = |a; endmodule"),
    ("lib", "library rtlLib \"*.v\" -incdir \"aaa\";\ninclude \"bbb\";;"),
    ("pp", "`ifdef A\n x\n`elsif B\n`else\n y `M(1, (2,3)) \n`endif\n`define M(a, b=2) a+b \\\n c\n\"s\" \\e \n"),
    ("pp", ""),
    ("sv", "timeprecision 1ps; timeunit 1ns;\nmodule m; timeprecision 1ps;\n timeunit 1ns; wire w; endmodule\n"),
    ("sv", "module m; clocking cb @(posedge clk); input #1 output #2 d; default input #1step output negedge; endclocking endmodule\n"),
    ("sv", "class c; function new(int a); x = a; endfunction : new\nendclass\nmodule m(.*); wire w; endmodule : m\ninterface i(.*); endinterface : i\n"),
    ("sv", "module m; initial begin x = a.b().c().d(); y = q.f(1).g(2).h(3).k; end endmodule\n"),
    # every kind of bracket group, ending a declaration / a statement
    ("sv", "module m; int a [2] = '{1, 2}; int b [2][2] = '{'{1, 2}, '{default:0}}; initial begin c = '{2{3}}; '{x, y} = '{1, 2}; if (e matches '{.p, .q}) z = {a, {b}}; w = v[u[1]]; end endmodule\n"),
    # nodes with many fields, all of them present (the widest tuples of the tree)
    ("sv", "interface class I; endclass\ninterface class J; endclass\nclass B; endclass\nvirtual class automatic C #(int P = 1) extends B implements I, J; int x; endclass : C\n"),
    ("sv", "module automatic m import p::*; #(parameter P = 1) (input logic a, output logic b); timeunit 1ns; endmodule : m\n"),
    ("sv", "package p; endpackage\nprogram automatic pr import p::*; #(parameter Q = 2) (input a); endprogram : pr\ninterface automatic it import p::*; #(parameter R = 3) (input a); endinterface : it\n"),
    ("sv", "module m; function automatic int f(input int a, output int b); return a; endfunction : f\n task automatic t(input int a); endtask : t\n covergroup cg @(posedge c); endgroup : cg endmodule\n"),
    # constructs whose nodes are assembled by hand-written folds (chains, left-recursive expressions)
    ("sv", "module m; initial begin x = obj.a().b().c().d(); y = o.f(1).g(2, 3).h().i(); end endmodule\n"),
    ("sv", "module m; assign z = a + b * c - d / e % f ** g; assign w = p ? q : r ? s : t; assign v = a[1][2].b[3].c; endmodule\n"),
    ("sv", "module m; initial begin a.b.c.d = 1; e[1].f[2].g = h::i::j; end endmodule\n"),
]
ROOT = {"sv": "SourceText", "lib": "LibraryText", "pp": "PreprocessorText"}


def py_events_ok(line):
    """direct oracle: the event line is properly nested, Enter sequence = given iter"""
    st, enters = [], []
    for t in line.split()[1:]:
        if t[0] == "E":
            st.append(t[1:]); enters.append(t[1:])
        else:
            if not st or st.pop() != t[1:]:
                return None
    return enters if not st else None


def oracle(tree, lines):
    """Property oracle on the implementation's output, against the Debug-derived tree."""
    pre = list(dbgtree.preorder(tree))
    exp = [dbgtree.tok(t) for t in pre]
    for l in lines:
        if l.startswith("iter "):
            # source order: the tokens come out at increasing offsets
            last = 0
            for w in l.split()[1:]:
                if w.startswith("@"):
                    off, ln = int(w[1:].split(":")[0]), int(w[1:].split(":")[1])
                    if off < last:
                        return "iteration is not in source order: a token at offset %d comes after one that ends at %d" % (off, last)
                    last = off + ln
            if l.split()[1:] != exp:
                return "iteration is not the pre-order of the tree (first difference at index %d)" % next(
                    (i for i, (a, b) in enumerate(zip(l.split()[1:] + ["?"] * len(exp), exp + ["?"])) if a != b), -1)
        elif l.startswith("events "):
            en = py_events_ok(l)
            if en is None:
                return "event sequence is not properly nested"
            if en != exp:
                return "Enter sequence differs from the pre-order"
            if len(l.split()) - 1 != 2 * len(exp):
                return "event count is not 2 x nodes"
        elif l.startswith("advev ") or l.startswith("multiev"):
            # the event view of an iterator with several pending nodes: its Enter sequence is what plain iteration
            # of the same iterator yields (the rest of the pre-order after k steps; the root twice)
            w = l.split()
            k = int(w[1]) if w[0] == "advev" else None
            en = py_events_ok("events " + " ".join(w[2:] if k is not None else w[1:]))
            want = exp[k:] if k is not None else exp + exp
            if en is None:
                return "event view of an iterator with several pending nodes is not properly nested (%s)" % " ".join(w[:2])
            if en != want:
                return "event view of an iterator with several pending nodes: its Enter sequence differs from the plain iteration (%s)" % " ".join(w[:2])
        elif l.startswith("sub "):
            p = l.split()
            i = int(p[1])
            sub = [dbgtree.tok(t) for t in dbgtree.preorder(pre[i])]
            if p[2:] != sub:
                return "iterating node #%d (%s) does not yield it followed by its descendants" % (i, exp[i])
        elif l.startswith("subev "):
            p = l.split()
            en = py_events_ok("events " + " ".join(p[2:]))
            if en is None or en != [dbgtree.tok(t) for t in dbgtree.preorder(pre[int(p[1])])]:
                return "event view of node #%s is not the bracketing of its pre-order" % p[1]
        elif l.startswith("unwrap "):
            p = l.split()
            i, label = p[1].split(":")
            ks = {"loc": None, "kwsym": ("Keyword", "Symbol"), "id": ("SimpleIdentifier", "EscapedIdentifier"),
                  "ws": ("WhiteSpace", "Comment")}[label]
            found = "-"
            for t in dbgtree.preorder(pre[int(i)]):
                if (ks is None and t[0] == "L") or (ks is not None and t[0] == "N" and t[1] in ks):
                    fl = next((x for x in dbgtree.preorder(t) if x[0] == "L"), None)
                    found = "%s@%s" % (dbgtree.tok(t), fl[1] if fl else "-")
                    break
            if p[2] != found:
                return "unwrap_node!(%s) on node #%s returned %s, first match in pre-order is %s" % (label, i, p[2], found)
        elif l.startswith("n "):
            p = l.split()
            t = pre[int(p[1])]
            lv = [x for x in dbgtree.preorder(t) if x[0] == "L"]
            s = "-" if not lv else "%d:%d" % (lv[0][1], lv[-1][1] + lv[-1][2] - lv[0][1])
            def nws(t):
                if t[0] == "L":
                    return [t]
                if t[1] == "WhiteSpace":
                    return []
                return [y for c in t[2] for y in nws(c)]
            nv = nws(t)
            tr = "-" if not nv else "%d:%d" % (nv[0][1], nv[-1][1] + nv[-1][2] - nv[0][1])
            if p[3] != "str=" + s:
                return "get_str of node #%s gives %s, leaves span %s" % (p[1], p[3], s)
            if p[4] != "trim=" + tr:
                return "get_str_trim of node #%s gives %s, non-whitespace leaves span %s" % (p[1], p[4], tr)
    return None


def check(ctx):
    prove(ctx, "C16")
    facts, h = svx_schema.derive_shape()
    ctx.obl("regenerated:derive(Node) shape (enum -> variant payload, struct -> nodes, singleton into_iter)", "regenerated",
            all(facts.values()), json.dumps(facts))
    co = svx_schema.conv_orders()
    bad = [k for k, v in co.items() if v["bound"] and v["appended"] != v["bound"]]
    ctx.obl("regenerated:hand-written RefNodes conversions append their parts in declaration order", "regenerated",
            not bad and len(co) >= 20, "not identity: %s" % bad)
    ctx.cov["regenerated"] = {"derive_hash": h, "conversions": len(co)}
    build_impl(ctx)
    ensure_model(ctx)
    r = ctx.rng
    pool = snippets.sv_sources()
    n = 60 if ctx.quick() else len(pool)
    srcs = list(HAND) + r.sample(pool, min(n, len(pool)))
    for i in range(10 if ctx.quick() else 150):
        g = ppgen.Gen(r, includes=False)
        srcs.append(("pp", ppgen.render(g.program())["top.sv"]))
    conv = dbgtree.Conv()
    kinds = {name: i + 1 for i, name in enumerate(conv.order)}
    cases, meta = [], {}
    for i, ent in enumerate(srcs):
        k, src = ent[0], ent[1]
        c = Case("s%d" % i)
        c.add("want", "dbg", "iter", "events", "sub")
        c.add("run", "raw", k, hx(src))
        plain = (len(ent) > 2 and ent[2]) or k != "pp" and not any(ch in src for ch in "`\"\\")  # D6 (dup. trivia after strings) changes the text
        if plain:
            c.add("want", "nodeinfo", "iter")
            c.add("run", "parse_%s_str" % k, hx(src), hx("t.sv"))
        cases.append(c)
        meta[c.id] = (k, src, plain)
    # two handcrafted API cases where kept directives sit in trivia (nested WhiteSpace)
    impl = run_harness("api", cases, "c16")
    mcases, first_bad = [], None
    implsel = {}
    for cid, (k, src, plain) in meta.items():
        lines = impl.get(cid, [])
        cr = crashed(lines)
        if cr:
            ctx.count("crashed")
            implsel[cid] = [cr]
            mcases.append(Case(cid))
            if first_bad is None:
                first_bad = (k, src, cr)
            continue
        # the second run goes through the preprocessor: a text it rejects (a library path like ./*.v reads as an
        # unterminated block comment there) has no API tree to compare
        k2 = [i for i, l in enumerate(lines) if l.startswith("run 2")]
        if plain and k2 and any(l.startswith("err ") for l in lines[k2[0]:]):
            plain = False
            ctx.count("api_run_rejected_by_preprocessor")
        dbg = [l for l in lines if l.startswith("dbg ")]
        if not dbg:
            ctx.count("rejected_or_no_tree")
            continue
        tree = conv.tree_of_debug(unhx(dbg[0].split()[1]).decode(), ROOT[k])
        nnodes = sum(1 for _ in dbgtree.preorder(tree))
        ctx.count("tree_nodes_%s" % ("<20" if nnodes < 20 else "<200" if nnodes < 200 else "200+"))
        if nnodes >= 8:
            ctx.corr_nontrivial.add(sha(src))
        why = oracle(tree, lines)
        if why and first_bad is None:
            first_bad = (k, src, why)
        m = Case(cid)
        for name, idx in kinds.items():
            m.add("kind", idx, name)
        m.add("ws", kinds["WhiteSpace"])
        m.add("tree", "iter,events,sub", dbgtree.sexp(tree, kinds))
        if plain:
            m.add("tree", "nodeinfo,iter", dbgtree.sexp(tree, kinds))
        mcases.append(m)
        keep = [l for l in lines if l.split()[0] in ("iter", "events", "advev", "multiev", "sub", "subev", "unwrap", "unwraploc", "n")]
        # order: raw run (iter, events, sub..) then api run (iter? nodeinfo)
        implsel[cid] = keep
    model = run_model("tree", mcases, "c16", timeout=1800)
    # the API run prints iter before nodeinfo lines; the model prints nodeinfo then iter: normalise by sorting kinds
    def norm(ls):
        return sorted(ls or [], key=lambda l: (l.split()[0] == "n", ))
    a = {k: norm(v) for k, v in implsel.items()}
    b = {k: norm(model.get(k)) for k in implsel}
    compare(ctx, "Iter/EventIter/unwrap_node!/get_str/get_str_trim vs Tree/Iter.v on trees read from derive(Debug)",
            a, b, {c.id: c for c in mcases})
    ctx.sample({"source": srcs[0][1], "impl": implsel.get("s0", [])[:3]})
    if first_bad:
        rp = write_replay(ctx, "src-" + sha(first_bad[1])[:8], {"property": "C16", "grammar": first_bad[0],
                          "source": first_bad[1], "why": first_bad[2]})
        ctx.viol.append(Violation("traversal differs from the tree: " + first_bad[2], rp))
    ctx.obl("search-oracle:pre-order/nesting/unwrap/trim against the Debug-derived tree", "oracle",
            first_bad is None, first_bad[2] if first_bad else "")


def replay(ctx, path):
    build_impl(ctx)
    d = json.load(open(path))
    conv = dbgtree.Conv()
    c = Case("r")
    c.add("want", "dbg", "iter", "events", "sub").add("run", "raw", d["grammar"], hx(d["source"]))
    if d["grammar"] != "pp" and not any(ch in d["source"] for ch in "`\"\\"):
        c.add("want", "nodeinfo").add("run", "parse_%s_str" % d["grammar"], hx(d["source"]), hx("t.sv"))
    lines = run_harness("api", [c], "c16rp").get("r", [])
    dbg = [l for l in lines if l.startswith("dbg ")]
    why = "no tree"
    if dbg:
        tree = conv.tree_of_debug(unhx(dbg[0].split()[1]).decode(), ROOT[d["grammar"]])
        why = oracle(tree, lines)
    print("replay:", why or "no failure")
    return 1 if why else 0
