"""C18 -- strip_comments (DESIGN 5.18)."""
import re
from framework import *
import ppgen, ppx
from props import c06

PARTIAL = ("proved for every input, outside the known class of `include names produced by a macro: strip on/off end in the same "
           "error or the same define table (C18_same_table_and_error), and the output with the flag is the output without it in "
           "which the texts of some Comment nodes are replaced by nothing, one blank or one newline, everything else equal and "
           "in the same order, through includes and macro expansion (C18_output_differs_only_at_comments). That the Comment "
           "nodes of pp_parser are exactly the comments (so that the non-comment token sequences coincide and no comment "
           "survives outside kept `define bodies) is the parser's part: tied by correspondence and the token oracle")

TOK = re.compile(r'"(?:[^"\\\n]|\\.)*"|//[^\n]*\n?|/\*.*?\*/|[A-Za-z0-9_$]+|\s+|.', re.S)


def tokens(b, keep_comments=False):
    out = []
    for m in TOK.finditer(b.decode("utf-8", "replace")):
        t = m.group(0)
        if t.isspace():
            continue
        if (t.startswith("//") or t.startswith("/*")) and not keep_comments:
            continue
        out.append(t)
    return out


def comments_outside_defines(b):
    """comments in the output that are not inside a kept `define (with its continuation lines)"""
    s = b.decode("utf-8", "replace")
    lines = s.split("\n")
    keep, i = [], 0
    while i < len(lines):
        l = lines[i]
        if l.lstrip().startswith("`define"):
            while l.endswith("\\") and i + 1 < len(lines):
                i += 1
                l = lines[i]
            i += 1
            continue
        # a `define may also start mid-line (after other text): drop from there to the end of the line
        k = l.find("`define")
        keep.append(l if k < 0 else l[:k])
        i += 1
    rest = "\n".join(keep)
    return [t for t in TOK.findall(rest) if t.startswith("//") or t.startswith("/*")]


SEP = [
    "a/**/b\n", "a//c\nb\n", "a/* x */b /* y */ c\n", "wire/**/x;\n",
    "`define A 1\n`A/**/b\n", "a/**/`A\n", "`define A 1\na`A/**/b\n",
    "`define REST /* c */b;\nwire a`REST\n", "`define KW(x) x/* c */\n`KW(wire)a;\n", "`define K2(x) x// c\n`K2(wire)\na;\n",
    "wire`ifdef WIDE /* c */a`else /* d */b`endif ;\n", "x`ifndef Q/**/y`endif/**/z\n",
    "`ifdef A\n`else// c\nq`endif r\n", "`timescale 1ns/1ps// c\nx\n", "`celldefine/* c */x\n",
    "`define M(a) a/**/a\n`M(p)\n`M(/**/q)\n", "`define N x //tail\n`N y\n", "a`__LINE__/**/b\n",
    "`include \"i.svh\"// c\nx/**/y\n", "a// c\r\nb\n",
    # a comment between a directive's keyword and its operand (rejected or not, both ways alike; if accepted the comment goes)
    "`define FOO 1\n`undef /* retired */ FOO\n wire w;\n", "`default_nettype /* strict */ none\nx\n", "`timescale /* u */ 1ns / 1ps\nx\n",
    "`pragma /* c */ name\nx\n", "`ifdef /* c */ A\ny\n`endif\nx\n", "`define BAR(a) a\n`BAR /* c */ (1)\n", "`celldefine /* c */\nx\n",
    "`unconnected_drive /* c */ pull0\nx\n`nounconnected_drive\n", "`undef // c\n FOO\n",
    # a usage whose expansion is nothing but a comment, in front of an `include on the same line: the same verdict both ways
    "`define MARK /* nothing here */\n`MARK `include \"i.svh\"\n", "`define ID(x) x\n`ID(/* only a comment */) `include \"i.svh\"\n",
    "`define E\n`E `include \"i.svh\"\n", "`define MARK /* n */\nq\n`MARK\n`include \"i.svh\"\n", "`define C2 // c\n`C2 `include \"i.svh\"\n",
    "/* c */ `include \"i.svh\"\n", "`include \"i.svh\" /* c */ `MARK2\n", "`define K3 /* a */ /* b */\n`K3 `K3 `include \"i.svh\" `K3\n",
    # a one-line comment ends at the end of its line, whatever its last character is
    "x // path C:\\dir\\\nwire keep_me ;\n", "x // c \\\r\nwire keep_me ;\n", "// \\\n`define K 1\n`K\n", "y /* c \\*/ z // d\\\\\nw\n",
    # comments inside (multi-line) actual arguments
    "`define ADD(a,b) a + b ;\n`ADD(1,\n  // second\n  2)\n", "`define ADD(a,b) a + b ;\n`ADD(1 /* one */,\n  2 // two\n)\nq\n",
    "`define ID(x) x\nwire `ID(w // name\n) ;\n", "`define P(a,b,c) a b c\n`P(x,// c1\ny,// c2\nz)\n", "`define ID(x) x\n`ID(/* a */ p /* b */)\n", "a/* \n */b\n", "/**/a\n", "a/**/", "a// c",
]


def check(ctx):
    prove(ctx, "C18")
    build_impl(ctx)
    ensure_model(ctx)
    r = ctx.rng
    q = ctx.quick()
    base = ppx.gen_general(r, 140 if q else 2500, tag="general")
    base += [ppx.PC({"top.sv": t, "i.svh": "inc/**/luded\n"}, predefs=[("WIDE", None)] if r.random() < 0.5 else [], tag="separator") for t in SEP]
    # every kind of kept directive in front of an `include whose file ends in a one-line comment without line end: the line
    # after the `include is text with and without the flag
    for kd in ["`pragma protect\n", "`timescale 1ns/1ps\n", "`default_nettype none\n", "`celldefine\n", "`endcelldefine\n", "`unconnected_drive pull0\n",
               "`nounconnected_drive\n", "`resetall\n", "`line 2 \"f.v\" 0\n", "`begin_keywords \"1800-2017\"\n", "`define KD 1\n`undef KD\n", "`undefineall\n",
               "`begin_keywords \"1800-2017\"\n`end_keywords\n", ""]:
        base.append(ppx.PC({"top.sv": kd + "module m;\n`include <tail.svh>\nendmodule\n`ifdef U_\n`endif\nafter\n", "tail.svh": "  wire w; // last line"},
                           incdirs=["."], tag="kept-then-include"))
        base.append(ppx.PC({"top.sv": kd + "x `ifdef KD2 a`else b`endif c\n", "i.svh": "q"}, tag="kept-then-include"))
    # comment-heavy random texts: comments as the only separators between tokens, next to directives and usages
    for _ in range(60 if q else 1500):
        parts = ["`define A 1\n", "`define F(x) x/**/x\n"] if r.random() < 0.6 else []
        for _ in range(r.randint(2, 9)):
            parts.append(r.choice(["a", "b1", "wire", ";", "+", "`A", "`F(u)", "`F(v // c\n)", "`F(\n// d\nw)", "`F(/*e*/ z)", "`ifdef A ", "`ifdef U ", "`else ", "`endif ",
                                   "`celldefine\n", "`__LINE__"]) if parts and "`define" in parts[0] else r.choice(["a", "b1", ";", "+", "wire"]))
            parts.append(r.choice(["/**/", "/* c */", "// c\n", " ", "\n", "/*x*/ ", " //y\n", ""]))
        t = "".join(parts)
        # keep conditionals balanced: append enough `endif
        opens = t.count("`ifdef")
        closes = t.count("`endif")
        t += "\n`endif" * max(0, opens - closes) + "\n"
        base.append(ppx.PC({"top.sv": t}, tag="commenty"))
    pcs = []
    for pc in base:
        for st in (False, True):
            pcs.append(ppx.PC(pc.files, strip=st, ignore=pc.ignore, predefs=pc.predefs, incdirs=pc.incdirs, meta=pc.meta, tag=pc.tag))
    cases, res, diffs = ppx.correspond(ctx, "preprocess (strip_comments on/off) vs PP/Eval.v", pcs, "c18")
    bad = None
    for i in range(0, len(pcs), 2):
        pc, off, on = pcs[i + 1], res[i], res[i + 1]
        if off.crash or on.crash:
            bad = bad or (pc, "crash: %s" % (off.crash or on.crash)); continue
        if off.ok != on.ok or off.err != on.err:
            bad = bad or (pc, "strip off: %s / strip on: %s" % (off.err or "Ok", on.err or "Ok")); continue
        if not off.ok:
            continue
        if off.defs != on.defs:
            bad = bad or (pc, "define tables differ with strip_comments"); continue
        src = "".join(pc.files.values())
        oc = re.sub(r"//[^\n]*|/\*.*?\*/", " ", src, flags=re.S)       # quotes and backslashes INSIDE comments are no strings
        d6 = c06.in_D6(src) or '"' in oc or "\\" in oc
        a, b = tokens(off.text), tokens(on.text)
        if a != b:
            k = next((j for j, (x, y) in enumerate(zip(a + [None] * len(b), b + [None] * len(a))) if x != y), 0)
            if d6:
                ctx.count("skipped_D6"); continue
            bad = bad or (pc, "non-comment tokens differ at #%d: without strip %r, with strip %r" % (k, a[max(0, k - 3):k + 3], b[max(0, k - 3):k + 3]))
            continue
        left = comments_outside_defines(on.text)
        if left and not d6:
            bad = bad or (pc, "comment left in the stripped output: %r" % left[0][:40])
    ctx.obl("search-oracle:same tokens/table/error with strip on and off; no comment left", "oracle", bad is None, bad[1] if bad else "")
    if bad:
        ppx.report(ctx, "C18", "strip_comments", bad[0], bad[1])
    w = {"top.sv": '`define Q "inc.svh"\n`define F `Q /* c */\n`include `F\n', "inc.svh": "x\n"}
    findings, _ = load_known()
    if any(f.get("property") == "C18" and f.get("id") == "include-macro-comment" for f in findings):
        cs, im = ppx.run_impl([ppx.PC(w, strip=False), ppx.PC(w, strip=True)], "c18kf")
        r0, r1 = ppx.Res(im.get(cs[0].id)), ppx.Res(im.get(cs[1].id))
        if r0.ok != r1.ok:
            ctx.known_printed.append("include-macro-comment")
    newline_known(ctx)


def newline_known(ctx):
    findings, _ = load_known()
    if not any(f.get("property") == "C18" and f.get("id") == "include-macro-newline" for f in findings):
        return
    import json
    w = json.load(open(os.path.join(VERIF, "corpus", "C18-include-macro-newline.json")))
    cs, im = ppx.run_impl([ppx.PC(w, strip=False), ppx.PC(w, strip=True)], "c18kf2")
    r0, r1 = ppx.Res(im.get(cs[0].id)), ppx.Res(im.get(cs[1].id))
    if r0.ok and r1.ok and tokens(r0.text) != tokens(r1.text):
        ctx.known_printed.append("include-macro-newline")
    else:
        ctx.notes.append("known finding include-macro-newline no longer reproduces")


def replay(ctx, path):
    build_impl(ctx)
    d, pc = ppx.replay_pc(ctx, path)
    for st in (False, True):
        pc.strip = st
        cases, impl = ppx.run_impl([pc], "c18rp")
        print("strip=%s" % st, "\n".join(l[:200] for l in impl.get(cases[0].id, [])[:4]))
    print("replay:", d.get("why"))
    return 1
