"""C12 -- trivia invariance (DESIGN 5.12)."""
import json
from framework import *
import svx_grammar, snippets, svtree

PARTIAL = ("proved over the regenerated grammar: directive mode never leaks (C12_directive_mode_never_leaks: every production, on "
           "every path, leaves the IN_DIRECTIVE stack as it found it) and the inventory of unbracketed state actions "
           "(C12_version_stack_actions: only begin_keywords in version_specifier and end_keywords in endkeywords_directive). "
           "The invariance of acceptance and tree under replacement of trivia runs is not proved (it needs a simulation between "
           "two runs of a 1300-production PEG); it is covered by the trivia-mutation oracle")

BLANKS = [" ", "\t", "\n", "\r\n", "\f", "  \n\t ", " \f\n", "\n\n\n"]
COMMENTS = ["/* c */", "/**/", "// c\n", "// a\rb\n", "//\n", " /* a */ // b\n ", "/* * / \n */", "// `not_a_macro \"\n", "/* é */",
            "/*/ c */", "/*/*/", "/*//////*/", "/***/", "/* /* */", "/*\\*/", "// c \\\n", "//*/\n"]
DIRECTIVES = ["`celldefine\n", "`endcelldefine ", "`default_nettype none\n", "`timescale 1ns/1ps\n", "`unconnected_drive pull0 ",
              "`nounconnected_drive\n", "`line 5 \"f.v\" 0\n", "`define TRIV 1\n", "`undef TRIV\n",
              # definitions continued over line breaks of every style, with formals and defaults laid out loosely
              "`define TRIV2 (1 \\\n + 2)\n", "`define TRIV3 (1 \\\r\n + 2)\r\n", "`define TRIV4(a = 1 , b) a \\\r\n b \\\n c\n",
              "`timescale 1ns / 1ps\r\n", "`default_nettype wire\r\n", "`define TRIV6 \"s\" \\\r\n \"t\"\r\n"]


def trivia(r):
    n = r.choice([1, 1, 1, 2, 3])
    parts = []
    for _ in range(n):
        x = r.random()
        # a directive may stand directly behind the token (or the comment) in front of it: it is white space like the rest
        parts.append(r.choice(BLANKS) if x < 0.45 else r.choice(COMMENTS) if x < 0.8 else r.choice([" ", "", ""]) + r.choice(DIRECTIVES))
    return "".join(parts)


def runs(tree):
    """[(start, end, follows_escaped)] byte ranges of maximal white-space runs between tokens, outside directives"""
    out = []
    prev_kind = [None]
    def walk(t, in_dir):
        if t[0] == "L":
            return
        if t[1] == "CompilerDirective":
            in_dir = True
        cs = t[2]
        i = 0
        while i < len(cs):
            c = cs[i]
            if c[0] == "N" and c[1] == "WhiteSpace" and not in_dir:
                j = i
                while j < len(cs) and cs[j][0] == "N" and cs[j][1] == "WhiteSpace":
                    j += 1
                lv = [l for k in range(i, j) for l in svtree.leaves(cs[k])]
                if lv:
                    out.append((lv[0][1], lv[-1][1] + lv[-1][2], t[1] == "EscapedIdentifier"))
                i = j
            else:
                walk(c, in_dir)
                i += 1
    walk(tree, False)
    return out


def strip_resetall(sk):
    if sk is None or isinstance(sk, str):
        return sk
    kind, cs = sk
    cs = [strip_resetall(c) for c in cs if not (isinstance(c, tuple) and c[0] == "Description" and c[1] and isinstance(c[1][0], tuple)
                                                and c[1][0][0] == "ResetallCompilerDirective")]
    return (kind, cs)


def check(ctx):
    try:
        facts = svx_grammar.main()
        ctx.obl("regenerated:grammar with the inventory of state actions", "regenerated", facts["n_bad"] == 0,
                json.dumps({k: facts[k] for k in ("functions", "n_bad", "dir_neutral", "ver_neutral", "hash")}))
    except Exception as e:
        ctx.obl("regenerated:grammar with the inventory of state actions", "regenerated", False, "translator failed: %r" % (e,))
    prove(ctx, "C12")
    build_impl(ctx)
    r = ctx.rng
    q = ctx.quick()
    deep = any(not o.ok for o in ctx.obls)
    pool = [(k, s) for k, s in snippets.sv_sources() if "`" not in s and k == "sv"]
    base = r.sample(pool, min(len(pool), 40 if (q and not deep) else 400))
    base += [("sv", "module a; wire x; endmodule\nmodule b (input c, output d); assign d = ~c; endmodule\npackage p; endpackage\n"),
             ("sv", "module m; initial begin $display(\"s\", 4 'b0101, \\esc ); if (a) b = 1; else b = 2; end endmodule\n")]
    base += [("sv", t) for t in snippets.KW_REGIONS]
    # texts in which the white space behind a conditional directive is the only thing between two tokens
    base += [("sv", "module m (`ifdef A_ input`else output`endif wire w); endmodule\n"),
             ("sv", "module m;\n`ifdef A_\n`else\n wire a;`endif wire b;\n`ifndef A_ wire c;`endif wire d;\nendmodule\n"),
             ("sv", "`define T_ 1\nmodule m; wire [`T_:0] x;`ifdef T_ wire y;`endif wire z; endmodule\n")]
    c0 = []
    for i, (k, s) in enumerate(base):
        c = Case("b%d" % i).add("want", "tree", "text")
        c.add("run", "preprocess_str", hx(s), hx("t.sv")).add("run", "parse_sv_str", hx(s), hx("t.sv"))
        c0.append(c)
    impl0 = run_harness("api", c0, "c12a", timeout=1800)
    cases, meta = [], {}
    n = 0
    for c, (k, s) in zip(c0, base):
        lines = impl0.get(c.id) or []
        tl = [l for l in lines if l.startswith("tree ")]
        tx = [l for l in lines if l.startswith("text ")]
        if not tl or not tx:
            continue
        text = unhx(tx[0].split()[1])
        if text != s.encode("utf-8"):
            continue
        tree = svtree.parse_tree_line(tl[0])
        sk = svtree.skeleton(tree, text=text)
        # a run that holds a `begin_keywords / `end_keywords directive is not neutral trivia: replacing it would delete the directive
        rs = [x for x in runs(tree) if b"_keywords" not in text[x[0]:x[1]]]
        if not rs:
            continue
        for _ in range(3 if q and not deep else 12):
            # replace a random subset of the runs
            chosen = sorted(r.sample(rs, min(len(rs), r.choice([1, 1, 2, 5]))), reverse=True)
            t2 = text
            for a, b, esc in chosen:
                tv = trivia(r)
                if esc and tv[0] not in " \t\n":
                    tv = " " + tv
                # a comment that starts with '/' right behind a '/' (division) or '*' would form another token ('//', '*/')
                if tv[0] == "/" and a > 0 and t2[a - 1:a] in (b"/", b"*"):
                    tv = " " + tv
                t2 = t2[:a] + tv.encode("utf-8") + t2[b:]
            cc = Case("m%d" % n); n += 1
            cc.add("want", "tree", "text").add("run", "preprocess_str", hx(t2.decode("utf-8")), hx("t.sv"))
            cc.add("run", "parse_sv_str", hx(t2.decode("utf-8")), hx("t.sv"))
            cases.append(cc); meta[cc.id] = ("trivia", s, t2.decode("utf-8"), sk)
        # `resetall between descriptions
        ds = [d for d in tree[2] if d[0] == "N" and d[1] == "Description"]
        for d in (ds if s in snippets.KW_REGIONS else ds[r.randrange(len(ds)):][:1] if ds else []):
            lv = svtree.leaves(d)
            if lv:
                pos = lv[0][1]
                t2 = text[:pos] + b"`resetall\n" + text[pos:]
                cc = Case("m%d" % n); n += 1
                cc.add("want", "tree", "text").add("run", "preprocess_str", hx(t2.decode("utf-8")), hx("t.sv"))
                cc.add("run", "parse_sv_str", hx(t2.decode("utf-8")), hx("t.sv"))
                cases.append(cc); meta[cc.id] = ("resetall", s, t2.decode("utf-8"), sk)
        # a rejected variant stays rejected when its trivia changes
        a, b, esc = r.choice(rs)
        broken = text[:a] + b" ) " + text[b:]
        a2, b2, esc2 = r.choice(rs)
        if a2 != a:
            lo, hi = (a2, b2) if a2 > a else (a2, b2)
            tv = trivia(r).encode("utf-8")
            if a2 > a:
                t3 = broken[:a2 + 3 - (b - a)] if False else None
            cc = Case("m%d" % n); n += 1
            cc.add("want", "tree").add("run", "parse_sv_str", hx(broken.decode("utf-8")), hx("t.sv"))
            cases.append(cc); meta[cc.id] = ("broken", s, broken.decode("utf-8"), None)
    # templates with conditional directives and macro usages (their preprocessed text is not the source, so the runs above
    # cannot be used): the mark stands where the trivia goes, a single blank is the reference
    TEMPL = ["module\u00a7m (`ifdef A_ input`else output`endif wire w); endmodule\n",
             "module m;\u00a7\n`ifdef A_\n`else\n wire a;`endif wire b;\n`ifndef A_ wire c;`endif wire d;\nendmodule\n",
             "`define T_ 1\nmodule\u00a7m; wire [`T_:0] x;`ifdef T_ wire y;`endif wire z; endmodule\n",
             "module m;\u00a7wire a;`ifdef U_ `elsif V_ `else wire e;`endif wire f; endmodule\n",
             # usages of macros without a body, written directly against the preceding token: the trivia behind them is all
             # that keeps the neighbouring words apart
             "`define KEEP_\nmodule m; reg`KEEP_\u00a7r; wire`KEEP_\u00a7w; endmodule\n",
             "`define F_(x)\n`define V_ 3\nmodule m; reg`F_(1)\u00a7q; wire [`V_\u00a7:0] v; endmodule\n",
             "`define E_\nmodule m; initial begin`E_\u00a7x = 1; end`E_\u00a7endmodule\n",
             # directives that stand as descriptions of their own between design units: the trivia behind them
             "module a; endmodule\n`resetall\u00a7module b; endmodule\n`resetall\u00a7",
             "`timescale 1ns/1ps\u00a7module a; endmodule\n`default_nettype none\u00a7module b; endmodule\n`celldefine\u00a7module c; endmodule `endcelldefine\u00a7"]
    tref = [Case("tr%d" % i).add("want", "tree", "text").add("run", "preprocess_str", hx(t.replace("\u00a7", " ")), hx("t.sv"))
            .add("run", "parse_sv_str", hx(t.replace("\u00a7", " ")), hx("t.sv")) for i, t in enumerate(TEMPL)]
    timpl = run_harness("api", tref, "c12t", timeout=600)
    for c, t in zip(tref, TEMPL):
        lines = timpl.get(c.id) or []
        tl = [l for l in lines if l.startswith("tree ")]
        tx = [l for l in lines if l.startswith("text ")]
        if not tl or not tx:
            # the templates are SystemVerilog: with one blank at the mark they are accepted
            cc = Case("m%d" % n); n += 1
            cc.add("want", "tree").add("run", "parse_sv_str", hx(t.replace("\u00a7", " ")), hx("t.sv"))
            cases.append(cc); meta[cc.id] = ("template-rejected", t.replace("\u00a7", " "), t.replace("\u00a7", " "), None)
            continue
        sk = svtree.skeleton(svtree.parse_tree_line(tl[0]), text=unhx(tx[0].split()[1]))
        for tv in DIRECTIVES + COMMENTS + BLANKS:
            for lead in (" ", ""):
                t2 = t.replace("\u00a7", lead + tv + ("" if tv[-1:] in " \n" else " "))
                cc = Case("m%d" % n); n += 1
                cc.add("want", "tree", "text").add("run", "preprocess_str", hx(t2), hx("t.sv")).add("run", "parse_sv_str", hx(t2), hx("t.sv"))
                cases.append(cc); meta[cc.id] = ("trivia", t.replace("\u00a7", " "), t2, sk)
    impl = run_harness("api", cases, "c12b", timeout=1800)
    bad = None
    for cc in cases:
        kind, s, t2, sk = meta[cc.id]
        lines = impl.get(cc.id) or []
        ctx.corr_cases += 1
        cr = crashed(lines)
        if cr:
            bad = bad or (kind, s, t2, cr); continue
        tl = [l for l in lines if l.startswith("tree ")]
        tx = [l for l in lines if l.startswith("text ")]
        ctx.count(kind)
        ctx.corr_nontrivial.add(sha(t2))
        if kind == "broken":
            continue
        if kind == "template-rejected":
            bad = bad or (kind, s, t2, "a source with a macro usage / conditional directive between its tokens is rejected with a single blank as trivia")
            continue
        if not tl:
            bad = bad or (kind, s, t2, "an accepted source is rejected after its trivia was replaced: %s" % [l for l in lines if l.startswith("err")][:1]); continue
        tree2 = svtree.parse_tree_line(tl[0])
        text2 = unhx(tx[0].split()[1]) if tx else t2.encode("utf-8")
        sk2 = svtree.skeleton(tree2, text=text2)
        if kind == "resetall":
            sk2 = strip_resetall(sk2)
        if sk2 != sk:
            bad = bad or (kind, s, t2, "the tree changed (white space aside) after trivia was replaced")
    ctx.sample({"original": base[0][1][:120], "trivia_pool": (BLANKS + COMMENTS + DIRECTIVES)[:8]})
    ctx.obl("search-oracle:replacing trivia runs (blanks, form feeds, comments, neutral directives, `resetall) keeps acceptance and tree",
            "oracle", bad is None, bad[3] if bad else "")
    if bad:
        rp = write_replay(ctx, "src-" + sha(bad[2])[:8], {"property": "C12", "kind": bad[0], "original": bad[1], "source": bad[2], "why": bad[3]})
        ctx.viol.append(Violation("trivia: " + bad[3], rp))


def replay(ctx, path):
    build_impl(ctx)
    d = json.load(open(path))
    c = Case("r").add("want", "tree")
    c.add("run", "parse_sv_str", hx(d["original"]), hx("t.sv")).add("run", "parse_sv_str", hx(d["source"]), hx("t.sv"))
    lines = run_harness("api", [c], "c12rp").get("r", [])
    print([l[:100] for l in lines])
    print("replay:", d["why"])
    return 1
