"""C11 -- returned define table (DESIGN 5.11)."""
from framework import *
import ppgen, ppx
from props import c06

PARTIAL = ("proved: the table is a finite map with unique keys under `define/`undef/`undefineall, the caller's entries are "
           "kept, and the event loop over two item sequences is the loop over the first followed by the loop over the second "
           "from the state reached (C11_thread_events); that the text of two concatenated files parses into the "
           "concatenation of their items belongs to pp_parser, which the model treats as an oracle, so the file-level "
           "threading statement is tied by correspondence and by the pair oracle only")


def expected_table(pc):
    """name -> None | (formals, body-as-written) from the reference evaluation, without SV_COV_*"""
    ref = ppx.ref_tokens(pc)
    out = {}
    cov = dict(ppgen.SV_COV)
    for n, d in ref.defs.items():
        if n in cov and d is not None and d.get("file") is None and d.get("body") == cov[n] and not d.get("formals"):
            continue
        if d is None:
            out[n] = None
        elif d.get("file") is None:
            out[n] = (list(d["formals"] or []), d["body"])        # caller supplied: body verbatim
        else:
            out[n] = (list(d["formals"] or []), None if d["body"] is None else " " + d["body"])
    return out


def got_table(rr):
    out = {}
    cov = dict(ppgen.SV_COV)
    for n, l in rr.defs.items():
        p = l.split()
        if p[2] == "none":
            out[n] = None
            continue
        nargs = int(p[3].split("=")[1])
        formals = []
        for i in range(nargs):
            a, d = p[4 + 2 * i], p[5 + 2 * i]
            formals.append((unhx(a).decode(), None if d == "-" else unhx(d).decode()))
        t = [x for x in p if x.startswith("text=")][0][5:]
        body = None if t == "-" else unhx(t).decode("utf-8", "replace")
        ident = unhx(p[2].split("=")[1]).decode()
        if n in cov and body == cov[n] and not formals:
            continue
        out[n] = (formals, body, ident)
    return out


def table_oracle(pc, rr):
    try:
        exp = expected_table(pc)
    except ppgen.RefError:
        return None
    if not rr.ok:
        return None     # C04/C05 judge errors
    got = got_table(rr)
    for n in sorted(set(exp) | set(got)):
        if n not in got:
            return "macro %s should be in the returned table" % n
        if n not in exp:
            return "macro %s should not be in the returned table" % n
        e, g = exp[n], got[n]
        if e is None or g is None:
            if e != g:
                return "macro %s: expected %r, returned %r" % (n, e, g)
            continue
        if g[2] != n:
            return "macro %s is stored with identifier %r" % (n, g[2])
        if [tuple(x) for x in e[0]] != g[0]:
            return "macro %s: formals %r, returned %r" % (n, e[0], g[0])
        # blanks between the body and the end of the line belong to macro_text: compared up to trailing blanks
        # (a macro without body and one whose body is only blanks are the same macro)
        if (e[1] or "").rstrip(" \t\r") != (g[1] or "").rstrip(" \t\r"):
            return "macro %s: body %r, returned %r" % (n, e[1], g[1])
    return None


def pair_cases(r, n):
    """(f1, f2) with f1 ending outside any conditional and with a newline"""
    out = []
    for _ in range(2 * n):
        if len(out) >= n:
            break
        g1 = ppgen.Gen(r, includes=False, pos=False, max_depth=2)
        f1 = g1.program(r.randint(1, 5))
        g2 = ppgen.Gen(r, includes=False, pos=False, max_depth=2)
        g2.defined, g2.funs = list(g1.defined), dict(g1.funs)
        f2 = g2.program(r.randint(1, 5))
        t1 = ppgen.render(f1)["top.sv"]
        if not t1.endswith("\n"):
            t1 += "\n"
        t2 = ppgen.render(f2)["top.sv"]
        # outside the statement: the SV_COV_* constants are re-installed by every run (so `undefineall in f1 shows in
        # f2 only for them); D6 (duplicated trivia after strings / escaped identifiers) is a known finding of C06
        if "`undefineall" in t1 or "SV_COV" in t1 + t2 or c06.in_D6(t1 + t2):
            continue
        out.append((t1, t2, ppx.predefs_random(r)))
    return out


def no_cov(defs):
    cov = dict(ppgen.SV_COV)
    return {k: v for k, v in defs.items() if k not in cov}


def check(ctx):
    prove(ctx, "C11")
    build_impl(ctx)
    ensure_model(ctx)
    r = ctx.rng
    q = ctx.quick()
    pcs = ppx.gen_general(r, 150 if q else 2500, tag="table") + ppx.gen_scenarios(r, 80 if q else 1500)
    for pc in pcs:
        pc.ignore = False
        ppx.twin_predef(r, pc)
    hand = ["`define A(x, y = 2, z) x+y \\\n +z\n`define B\n`define C \n`undef B\n`define D(p=(1,2), q=\"s,t\") p q\n",
            "`define A 1\n`undefineall\n`define B 2\n", "`define __LINE__ 5\n`define __FILE__ x\n`undef __LINE__\n",
            "`define M `define INNER 1\n`M\n", "`define U `undef A\n`define A 1\n`U\n", "`define SV_COV_OK 7\n",
            # the definition written last is the one in force: same body, other defaults / other formal names / other order
            "`define W(n=8) logic [n-1:0]\n`define W(n=16) logic [n-1:0]\n`define SUB(a,b) a-b\n`define SUB(b,a) a-b\n`define K(x) x\n`define K(y) x\n",
            "`define V 1\n`define V 1\n`define T(a) a\n`define T(a = 0) a\n`define T2(a=1) a\n`define T2(a) a\n"]
    pcs += [ppx.PC({"top.sv": t}, predefs=[("PRE", None), ("P2", [("a", None)], "a a")], tag="hand") for t in hand]
    wants = ("text", "defines", "deforg", "pplog", "origins")
    cases, res, diffs = ppx.correspond(ctx, "preprocess (returned table) vs PP/Eval.v", pcs, "c11")
    bad = None
    for pc, rr in zip(pcs, res):
        if rr.crash:
            bad = bad or (pc, "crash: " + rr.crash); continue
        if pc.meta is None:
            continue
        why = table_oracle(pc, rr)
        if why and not ppx.in_D4(pc):
            bad = bad or (pc, why)
    # hand cases with explicit expectations
    exp_hand = [
        {"A": ([("x", None), ("y", "2"), ("z", None)], " x+y \\\n +z"), "C": ([], " "), "D": ([("p", "(1,2)"), ("q", "\"s,t\"")], " p q")},
        {"B": ([], " 2")}, {}, {"M": ([], " `define INNER 1"), "INNER": ([], " 1")}, {"U": ([], " `undef A")}, {"SV_COV_OK": ([], " 7")},
        {"W": ([("n", "16")], " logic [n-1:0]"), "SUB": ([("b", None), ("a", None)], " a-b"), "K": ([("y", None)], " x")},
        {"V": ([], " 1"), "T": ([("a", "0")], " a"), "T2": ([("a", None)], " a")}]
    for pc, rr, e in zip(pcs[-len(hand):], res[-len(hand):], exp_hand):
        g = {k: (v if v is None else (v[0], v[1])) for k, v in got_table(rr).items()} if rr.ok else None
        ee = dict(e)
        if "`undefineall" not in pc.files["top.sv"]:
            ee.update({"PRE": None, "P2": ([("a", None)], "a a")})
        if g != ee:
            bad = bad or (pc, "returned table %r, expected %r" % (g, ee))
    ctx.obl("search-oracle:returned table = caller's + defined - undefined, formals/defaults/body as written", "oracle",
            bad is None, bad[1] if bad else "")
    if bad:
        ppx.report(ctx, "C11", "returned define table", bad[0], bad[1])
    # threading: f1 then f2 with the returned table  vs  f1 ++ f2
    pairs = pair_cases(r, 80 if q else 1500)
    chain_cases, cat = [], []
    for i, (t1, t2, pre) in enumerate(pairs):
        pc1 = ppx.PC({"f1.sv": t1, "f2.sv": t2}, predefs=pre, entry=("preprocess", "f1.sv"), tag="pair")
        c = pc1.case("t%d" % i, ("text", "defines", "pplog"))
        c.add("opt", "chain", 1)
        c.add("run", "preprocess", hx("f2.sv"))
        chain_cases.append(c)
        cat.append(ppx.PC({"top.sv": t1 + t2}, predefs=pre, tag="concat"))
    impl = run_harness("api", chain_cases, "c11chain")
    import ppmodel
    model = run_model("pp", [ppmodel.model_case(c, impl.get(c.id)) for c in chain_cases], "c11chain")
    compare(ctx, "two runs threaded through the returned table vs PP/Eval.v",
            {c.id: ppmodel.observable(impl.get(c.id)) for c in chain_cases},
            {c.id: ppmodel.observable(model.get(c.id)) for c in chain_cases}, {c.id: c for c in chain_cases})
    ccases, cimpl = ppx.run_impl(cat, "c11cat", wants=("text", "defines"))
    bad2 = None
    for (t1, t2, pre), c, cc, pc in zip(pairs, chain_cases, ccases, cat):
        lines = impl.get(c.id, [])
        # split the two runs
        k = [i for i, l in enumerate(lines) if l.startswith("run ")]
        if len(k) < 2:
            continue
        r1, r2 = ppx.Res(lines[k[0]:k[1]]), ppx.Res(lines[k[1]:])
        rc = ppx.Res(cimpl.get(cc.id))
        ctx.corr_cases += 1
        if not (r1.ok and r2.ok and rc.ok):
            if r1.ok and r2.ok != rc.ok and not rc.crash:
                bad2 = bad2 or (pc, "threaded runs %s but the concatenation %s" % ("succeed" if r2.ok else "fail: " + str(r2.err), "succeeds" if rc.ok else "fails: " + str(rc.err)))
            continue
        ctx.count("pairs_compared")
        if r1.text + r2.text != rc.text:
            bad2 = bad2 or (pc, "text of the two threaded runs differs from the concatenation: %r vs %r" % ((r1.text + r2.text)[-60:], rc.text[-60:]))
        elif no_cov(r2.defs) != no_cov(rc.defs):
            d = sorted(set(no_cov(r2.defs).items()) ^ set(no_cov(rc.defs).items()))
            bad2 = bad2 or (pc, "final tables differ: %s" % (d[:2],))
    ctx.obl("search-oracle:pp f2 (table of pp f1) = pp (f1 ++ f2)", "oracle", bad2 is None, bad2[1] if bad2 else "")
    if bad2:
        ppx.report(ctx, "C11", "threading the table across files", bad2[0], bad2[1])


def replay(ctx, path):
    build_impl(ctx)
    d, pc = ppx.replay_pc(ctx, path)
    cases, impl = ppx.run_impl([pc], "c11rp")
    print("\n".join(l[:200] for l in impl.get(cases[0].id, [])[:12]))
    print("replay:", d.get("why"))
    return 1
