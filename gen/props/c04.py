"""C04 -- conditional compilation (DESIGN 5.4)."""
from framework import *
import ppgen, ppx

PARTIAL = ("proved for every chain shape, table and text: the decision rule of `ifdef/`ifndef chains (C04_select: the skip "
           "list is exactly the complement of the first branch whose condition holds) and the map laws of the define "
           "table; C04_skipped_subtree_no_effect / C04_skipped_siblings_no_effect: a listed subtree none of whose proper "
           "descendants is listed is walked without any effect on output, origins, table and line trackers.  The "
           "hypothesis about descendants is evaluated by the model on every listed node of every correspondence case "
           "(obligation hypothesis-check), not derived from the shape of the parser's trees; the composition into "
           "'the output is the text of the selected branches' is tied by correspondence and the reference oracle")

D4_WITNESS = "`ifndef __LINE__\nA\n`elsif UNDEFINED\nB\n`endif\n"


def cond_heavy(r, n):
    pcs = []
    for _ in range(n):
        files, texts = ppx.general_program(r, includes=r.random() < 0.3, kept=r.random() < 0.3, pos=False,
                                           strings=r.random() < 0.3, max_depth=3)
        pcs.append(ppx.PC(texts, strip=r.random() < 0.2, predefs=ppx.predefs_random(r), meta=files, tag="cond"))
    return pcs


def subsets(r, n):
    """one program under every subset of {A, B, CC} pre-defined"""
    pcs = []
    for _ in range(n):
        files, texts = ppx.general_program(r, includes=False, kept=False, pos=False, strings=False, macros=r.random() < 0.5)
        for m in range(8):
            pre = [(nm, None) for k, nm in enumerate(["A", "B", "CC"]) if m >> k & 1]
            pcs.append(ppx.PC(texts, predefs=pre, meta=files, tag="subset"))
    return pcs


def chains(r, n):
    """`ifdef/`ifndef chains with 1..4 `elsif, with and without `else, under every subset of the names defined:
    exactly one branch (the first whose condition holds) survives"""
    import itertools
    names = ["A", "B", "CC", "D_1", "EE"]
    pcs = []
    shapes = [(ne, els, neg) for ne in (1, 2, 3, 4) for els in (False, True) for neg in (False, True)]
    fixed = [(2, True, False), (3, True, False), (2, False, True), (4, True, True)]
    for ne, els, neg in (shapes if n is None else fixed + r.sample(shapes, 2)):
        used = names[:ne + 1]
        items = [ppgen.Tok("pre"), ppgen.Ws("\n")]
        c = ppgen.Cond(neg, used[0], [ppgen.Tok("in_" + used[0]), ppgen.Ws("\n")],
                       [(u, [ppgen.Tok("in_" + u), ppgen.Ws("\n")], r.choice([" ", "\n"])) for u in used[1:]],
                       [ppgen.Tok("in_else"), ppgen.Ws("\n")] if els else None)
        c.ws0, c.els_ws = r.choice([" ", "\n"]), r.choice([" ", "\n"])
        items += [c, ppgen.Ws("\n"), ppgen.Tok("post"), ppgen.Ws("\n")]
        files = [ppgen.File("top.sv", items)]
        texts = ppgen.render(files)
        for m in range(2 ** len(used)):
            pre = [(nm, None) for k, nm in enumerate(used) if m >> k & 1]
            pcs.append(ppx.PC(texts, predefs=pre, meta=files, tag="chain"))
    return pcs


def check(ctx):
    prove(ctx, "C04")
    build_impl(ctx)
    ensure_model(ctx)
    r = ctx.rng
    q = ctx.quick()
    pcs = cond_heavy(r, 150 if q else 2500) + subsets(r, 12 if q else 150) + ppx.gen_general(r, 60 if q else 800)
    pcs += chains(r, 6 if q else None)
    cases, res, diffs = ppx.correspond(ctx, "preprocess (conditionals) vs PP/Eval.v", pcs, "c04")
    sk = ctx.cov.get("skip_hypothesis", {})
    ctx.obl("hypothesis-check:every listed node met with skip off is erasable (C04_skipped_subtree_no_effect applies)",
            "correspondence", sk.get("failed_case") is None and sk.get("listed_nodes_met", 0) > 0,
            "met %d listed nodes in %d runs; failing case: %r" % (sk.get("listed_nodes_met", 0), sk.get("cases", 0),
                                                                  sk.get("failed_case")))
    bad = None
    nk = 0
    for pc, rr in zip(pcs, res):
        if rr.crash:
            bad = bad or (pc, "the implementation crashed: " + rr.crash)
            continue
        why = ppx.token_oracle(pc, rr)
        if why:
            if ppx.in_D4(pc):
                nk += 1
                continue
            bad = bad or (pc, why)
    ctx.count("oracle_failures_in_known_class_D4", nk)
    ctx.obl("search-oracle:surviving tokens = reference evaluation of IEEE 22.6", "oracle", bad is None, bad[1] if bad else "")
    if bad:
        ppx.report(ctx, "C04", "conditional compilation keeps the wrong text", bad[0], bad[1])
    ppx.scenario_batch(ctx, "C04", 80 if q else 1500, "c04sc")
    caller_keys(ctx)
    empty_groups(ctx)
    near_predefined(ctx)
    ppx.known_finding_replay(ctx, "C04", "D4-elsif-predefined", ppx.PC({"top.sv": D4_WITNESS}),
                             lambda rr: rr.ok and b"B" in (rr.text or b""))
    ppx.known_finding_replay(ctx, "C04", "objectlike-usage-paren",
                             ppx.PC({"top.sv": open(os.path.join(VERIF, "corpus", "C04-objectlike-paren.sv")).read()}),
                             lambda rr: not rr.ok and "Preprocess" in (rr.err or ""))


def empty_groups(ctx):
    """branches without any text: an empty group is no different from another one, and no region becomes active through one"""
    progs = [
        ("`define A\n`ifdef A\nx1\n`else\n`endif\n`ifdef U\n`ifdef V\nq\n`else\n`endif\nleak_c\n`define LEAK 1\n`endif\n`ifdef LEAK\nwrong\n`else\nright\n`endif\n",
         ["`define", "A", "x1", "right"]),
        ("`ifdef U1\n`else\nx2\n`endif\n`ifdef U2\n`ifdef U3\n`else\ny\n`endif\nleak_d\n`define LEAK 1\n`undef KEEP\n`endif\n`ifdef LEAK\nwrong\n`else\nright\n`endif\n",
         ["x2", "right"]),
        ("`ifndef U1\n`endif\n`ifdef U2\n`ifndef U3\n`endif\nleak_e\n`endif\nz\n", ["z"]),
        ("`define A\n`ifdef A\n`elsif B\n`else\n`endif\n`ifdef U\n`ifdef A\n`elsif B\n`else\n`endif\nleak_f `UNDEFINED_MACRO\n`endif\nz\n", ["`define", "A", "z"]),
        ("`ifdef U\n`else\n`endif\n`ifdef U\n`else\n`endif\n`ifdef U\nno\n`ifdef U\n`else\n`endif\nleak_g\n`else\nyes\n`endif\n", ["yes"]),
    ]
    cases = [Case("eg%d" % i).add("file", hx("top.sv"), hx(t)).add("opt", "strip", 0).add("opt", "ignore", 0).add("want", "text").add("run", "preprocess", hx("top.sv"))
             for i, (t, _) in enumerate(progs)]
    impl = run_harness("api", cases, "c04eg")
    bad = None
    for c, (t, want) in zip(cases, progs):
        lines = impl.get(c.id) or []
        ctx.corr_cases += 1
        tx = [l for l in lines if l.startswith("text ")]
        if crashed(lines) or not tx:
            bad = bad or (t, "no output: %s" % lines[:3]); continue
        got = unhx(tx[0].split()[1]).decode("utf-8", "replace").split()
        ctx.corr_nontrivial.add(sha(t))
        if got != want:
            bad = bad or (t, "surviving tokens %s, expected %s" % (got, want))
    ctx.obl("search-oracle:chains with empty branches, alone and inside discarded regions", "oracle", bad is None, bad[1] if bad else "")
    if bad:
        rp = write_replay(ctx, "pp-" + sha(bad[0])[:8], {"property": "C04", "kind": "empty-groups", "files": {"top.sv": bad[0]}, "why": bad[1]})
        ctx.viol.append(Violation("conditional compilation keeps the wrong text: " + bad[1], rp))


def near_predefined(ctx):
    """names that only BEGIN like `__FILE__ / `__LINE__ are ordinary macro names: undefined until defined, defined after"""
    progs = [
        ("`ifdef __FILE__GUARD\nearly\n`endif\n`ifndef __LINE__X\nnot_yet\n`endif\n`define __FILE__GUARD 1\n`ifdef __FILE__GUARD\ng_yes\n`else\ng_no\n`endif\n"
         "`undef __FILE__GUARD\n`ifdef __FILE__GUARD\nstale\n`else\nlast\n`endif\n", ["not_yet", "g_yes", "last"]),
        ("`ifdef __LINE__\nline_is\n`endif\n`ifdef __FILE__\nfile_is\n`endif\n`ifdef __LINE__2\nno\n`elsif __FILE__S\nno2\n`else\nnone\n`endif\n",
         ["line_is", "file_is", "none"]),
        ("`define __LINE__N 7\n`ifndef __LINE__N\nwrong\n`else\nn_def\n`endif\n`ifdef _LINE__\nw2\n`endif\n`ifdef __LINE_\nw3\n`endif\n", ["n_def"]),
    ]
    cases = []
    for i, (t, want) in enumerate(progs):
        for entry in ("preprocess", "preprocess_str"):
            c = Case("np%d_%s" % (i, entry)).add("file", hx("top.sv"), hx(t))
            c.add("opt", "strip", 0).add("opt", "ignore", 0).add("want", "text")
            if entry == "preprocess":
                c.add("run", "preprocess", hx("top.sv"))
            else:
                c.add("run", "preprocess_str", hx(t), hx("top.sv"), 0, 0)
            cases.append((c, t, want))
    impl = run_harness("api", [c for c, _, _ in cases], "c04np")
    bad = None
    for c, t, want in cases:
        lines = impl.get(c.id) or []
        ctx.corr_cases += 1
        tx = [l for l in lines if l.startswith("text ")]
        if crashed(lines) or not tx:
            bad = bad or (t, "no output: %s" % lines[:3]); continue
        # `define / `undef lines of active regions stay in the output; what is compared are the other tokens
        got = " ".join(l for l in unhx(tx[0].split()[1]).decode("utf-8", "replace").split("\n") if not l.startswith("`")).split()
        ctx.corr_nontrivial.add(sha(c.text()))
        if got != want:
            bad = bad or (t, "surviving tokens %s, expected %s" % (got, want))
    ctx.obl("search-oracle:names that begin like `__FILE__ / `__LINE__ are ordinary names", "oracle", bad is None, bad[1] if bad else "")
    if bad:
        rp = write_replay(ctx, "np-" + sha(bad[0])[:8], {"property": "C04", "kind": "near-predefined", "files": {"top.sv": bad[0]}, "why": bad[1]})
        ctx.viol.append(Violation("conditional compilation keeps the wrong text: " + bad[1], rp))


def caller_keys(ctx):
    """a name counts as defined when the CALLER supplied it: what counts is the key of the caller's table, whatever the
    Define stored under it calls itself"""
    top = ("`ifdef FAST\nfast_yes\n`else\nfast_no\n`endif\n`ifdef ALIAS\nalias_leak\n`endif\n`ifndef EMPTYKEY\nempty_missing\n`endif\n"
           "`include \"inc.svh\"\n`ifdef FAST\nstill_fast\n`endif\n")
    inc = "`ifdef FAST\ninc_fast\n`elsif ALIAS\ninc_alias\n`endif\n"
    cases = []
    for entry in ("preprocess", "preprocess_str"):
        c = Case("ck_" + entry).add("file", hx("top.sv"), hx(top)).add("file", hx("inc.svh"), hx(inc))
        c.add("definealias", hx("FAST"), hx("ALIAS"), "def", 0, hx("1"))
        c.add("definealias", hx("EMPTYKEY"), hx(""), "def", 0, hx("2"))
        c.add("opt", "strip", 0).add("opt", "ignore", 0).add("want", "text")
        if entry == "preprocess":
            c.add("run", "preprocess", hx("top.sv"))
        else:
            c.add("run", "preprocess_str", hx(top), hx("top.sv"), 0, 0)
        cases.append(c)
    impl = run_harness("api", cases, "c04ck")
    bad = None
    want = ["fast_yes", "inc_fast", "still_fast"]
    for c in cases:
        lines = impl.get(c.id) or []
        ctx.corr_cases += 1
        tx = [l for l in lines if l.startswith("text ")]
        if crashed(lines) or not tx:
            bad = bad or (c, "no output: %s" % lines[:3]); continue
        got = unhx(tx[0].split()[1]).decode("utf-8", "replace").split()
        ctx.corr_nontrivial.add(sha(c.text()))
        if got != want:
            bad = bad or (c, "the caller supplied FAST (a Define that calls itself ALIAS) and EMPTYKEY: surviving tokens %s, expected %s" % (got, want))
    ctx.obl("search-oracle:names the caller supplied are defined under the KEY of the caller's table", "oracle", bad is None, bad[1] if bad else "")
    if bad:
        rp = write_replay(ctx, "keys-" + sha(bad[0].text())[:8], {"property": "C04", "kind": "caller-keys", "case": bad[0].text(), "why": bad[1]})
        ctx.viol.append(Violation("conditional compilation keeps the wrong text: " + bad[1], rp))


def replay(ctx, path):
    build_impl(ctx)
    d, pc = ppx.replay_pc(ctx, path)
    cases, impl = ppx.run_impl([pc], "c04rp")
    print("\n".join(impl.get(cases[0].id, [])[:6]))
    print("replay:", d.get("why"))
    return 1
