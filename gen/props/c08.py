"""C08 -- totality (DESIGN 5.8)."""
import json
from framework import *
import snippets, ppgen

PARTIAL = ("proved in the models: the adjacency assert of Locate::try_from holds on every node of every tree the parser model "
           "returns (C08_try_from_never_asserts), PreprocessedText::origin never underflows (C08_origin_never_panics), the "
           "preprocessor's recursion is bounded (C08_preprocess_terminates). Partial by nature: the ~150 unwrap/slice sites of the "
           "Rust code, stack exhaustion and allocation failure are runtime behaviour; they are covered by catch_unwind runs of "
           "every entry point on token soups, mutated and truncated programs, arbitrary bytes and missing/unreadable files")

LEX = ["module", "endmodule", "m", "a1", ";", "(", ")", "[", "]", "{", "}", "begin", "end", "wire", "reg", "=", "<=", "+", "1", "8'hff", "'",
       "\"s\"", "\"a\\", "\"a\\\"b\"", "\"", "\\", "\\esc ", "//c\n", "/*", "*/", "/* c */", "`", "`define", "`define A", "`A", "`ifdef", "`else",
       "`endif", "`include", "`include \"inc.svh\"", "`include \"missing\"", "`timescale", "1ns/1ps", "`line", "`__LINE__", "`__FILE__", "`undef",
       "`begin_keywords", "\"1364-2001\"", "`end_keywords", "`pragma", "`resetall", "(a,b)", "``", "`\"", "`\\`\"", "\n", " ", "\t", "\r", "\f",
       "é", "中", "\x00", "\x01", "#", "@", "$display", "$", ".", ",", ":", "?", "library", "include", "config", "endconfig", "-incdir", "\"*.v\"",
       "function", "endfunction", "case", "endcase", "if", "else", "assign", "always", "@(posedge", "typedef", "class", "endclass", "virtual"]


def soup(r):
    return "".join(r.choice(LEX) + r.choice(["", " ", " ", "\n"]) for _ in range(r.randint(1, 30)))


def mutate(r, s):
    b = bytearray(s.encode("utf-8"))
    for _ in range(r.randint(1, 3)):
        x = r.random()
        if not b:
            break
        if x < 0.4:
            del b[r.randrange(len(b)):]                       # truncate
        elif x < 0.6:
            i = r.randrange(len(b)); del b[i:i + r.randint(1, 4)]
        elif x < 0.8:
            i = r.randrange(len(b) + 1); b[i:i] = r.choice(LEX).encode("utf-8")
        else:
            i = r.randrange(len(b)); b[i] = r.choice([34, 92, 96, 40, 41, 10, 47, 42, 0, 39])
    return bytes(b).decode("utf-8", "replace")


def growth_known(ctx, pid):
    """known finding recursive-argument-growth: replay the witness under an address-space limit"""
    findings, _ = load_known()
    if not any(f.get("property") == pid and f.get("id") == "recursive-argument-growth" for f in findings):
        return
    w = open(os.path.join(VERIF, "corpus", "C09-growth.sv")).read()
    c = Case("kf").add("file", hx("top.sv"), hx(w)).add("want", "text").add("run", "preprocess", hx("top.sv"))
    lines = run_harness("api", [c], pid.lower() + "kf", timeout=120, mem_kb=1200000).get("kf") or []
    if not any(l.startswith("err ") or l == "ok" for l in lines):
        ctx.known_printed.append("recursive-argument-growth")
    else:
        ctx.notes.append("known finding recursive-argument-growth no longer reproduces: %s" % lines[:2])


def pp_sources_hash():
    """the preprocessor and the entry points, comments and layout aside: when they are not the validated ones the quick tier
    runs the sizes of the thorough tier (change-triggered deepening, no obligation)"""
    import glob, hashlib, re
    from svx_grammar import strip_comments
    h = hashlib.sha256()
    for f in sorted(glob.glob("/repo/sv-parser-pp/src/*.rs") + ["/repo/sv-parser/src/lib.rs", "/repo/sv-parser-syntaxtree/src/any_node.rs"]):
        h.update(re.sub(r"\s+", " ", strip_comments(open(f).read())).encode())
    return h.hexdigest()[:16]


def check(ctx):
    prove(ctx, "C08")
    build_impl(ctx)
    r = ctx.rng
    q = ctx.quick()
    try:
        pp_changed = pp_sources_hash() != json.load(open(os.path.join(VERIF, "corpus", "C08-validated.json"))).get("pp_sources")
    except Exception:
        pp_changed = True
    ctx.cov["preprocessor_changed_since_validation"] = pp_changed
    if pp_changed:
        q = False
    pool = snippets.sv_sources()
    srcs = []
    hand = "module m; initial begin $display(\"a\\\"b\\\\\", \"x\\ny\"); s = \"t\\\\\"; end\n`define S(x) `\"x`\"\nstring t = `S(q);\nendmodule\n"
    for i in range(1, len(hand) + 1):
        srcs.append(("sv", hand[:i]))          # every truncation of a program with escaped strings
    srcs += [("sv", soup(r)) for _ in range(150 if q else 4000)] + [("lib", soup(r)) for _ in range(30 if q else 800)]
    for k, s in r.sample(pool, 40 if q else 600):
        srcs.append((k, mutate(r, s)))
    # the spec snippets as they are (Locate::try_from, get_str, Display of EVERY node): all of them when the regenerated
    # grammar differs from the validated one, a sample otherwise
    try:
        import svx_grammar
        changed = svx_grammar.main().get("hash") != json.load(open(os.path.join(VERIF, "corpus", "C02-shapes.json"))).get("grammar_hash")
    except Exception:
        changed = True
    ctx.cov["grammar_changed_since_validation"] = changed
    srcs += pool if (changed or not q) else r.sample(pool, 60)
    # deep trees (whatever is sized by the nesting depth): 16-40 nested blocks of several kinds
    for n in (16, 28, 40):
        srcs.append(("sv", "module m; initial " + "begin " * n + "x = 1; " + "end " * n + "endmodule\n"))
        srcs.append(("sv", "module m; initial " + "".join("if (c%d) a = %d; else begin " % (i, i) for i in range(n)) + "z = 0; " + "end " * n + "endmodule\n"))
        srcs.append(("sv", "module m; generate " + "".join("if (P%d) begin : g%d " % (i, i) for i in range(n)) + "assign w = 1; " + "end " * n + "endgenerate endmodule\n"))
    for _ in range(20 if q else 400):
        g = ppgen.Gen(r, includes=False)
        srcs.append(("sv", mutate(r, ppgen.render(g.program())["top.sv"])))
    cases, meta = [], {}
    for i, (k, s) in enumerate(srcs):
        c = Case("z%d" % i)
        c.add("file", hx("inc.svh"), hx("wire inc; \"open\n" if i % 5 == 0 else "wire inc;\n"))
        c.add("file", hx("top.sv"), hx(s))
        c.add("opt", "incomplete", i % 2).add("opt", "strip", (i // 2) % 2).add("opt", "ignore", (i // 7) % 2)
        c.add("want", "tree", "text", "origins", "display", "nodeinfo", "iter", "events", "defines")
        c.add("run", "preprocess", hx("top.sv"))
        c.add("run", "preprocess_str", hx(s), hx("top.sv"))
        c.add("run", "parse_%s" % k, hx("top.sv"))
        c.add("run", "parse_%s_str" % k, hx(s), hx("top.sv"))
        c.add("run", "raw", "pp", hx(s))
        cases.append(c)
        meta[c.id] = (k, s)
    # arbitrary bytes / missing / unreadable files, also through `include
    faults = []
    for name, setup, expect in [
        ("bad.sv", [("badfile", "bad.sv")], "ReadUtf8 " + hx("bad.sv")),
        ("missing.sv", [], "File " + hx("missing.sv")),
        ("adir", [("dir", "adir")], "ReadUtf8 " + hx("adir")),
        ("top.sv", [("file", "top.sv", "a\n`include \"bad.svh\"\n"), ("badfile", "bad.svh")], "Include( ReadUtf8 " + hx("bad.svh")),
        ("top.sv", [("file", "top.sv", "`include \"mid.svh\"\n"), ("file", "mid.svh", "`include \"gone.svh\"\n")], "Include( Include( File " + hx("gone.svh")),
    ]:
        for entry in ("preprocess", "parse_sv", "parse_lib"):
            c = Case("f%d" % len(faults))
            for st in setup:
                if st[0] == "file":
                    c.add("file", hx(st[1]), hx(st[2]))
                else:
                    c.add(st[0], hx(st[1]))
            c.add("want", "tree").add("run", entry, hx(name))
            faults.append((c, expect))
    impl = {}
    allc = cases + [c for c, _ in faults]
    for j in range(0, len(allc), 60):
        impl.update(run_harness("api", allc[j:j + 60], "c08_%d" % (j // 60), timeout=300))
    bad = None
    for c in cases:
        k, s = meta[c.id]
        lines = impl.get(c.id) or []
        ctx.corr_cases += 1
        cr = crashed(lines)
        pl = [l for l in lines if l.startswith("panic ")]
        for l in lines:
            if l.startswith("err "):
                ctx.count("err_" + [x for x in l.split() if x not in ("err", "Include(")][0])
            elif l == "ok":
                ctx.count("ok")
        ctx.corr_nontrivial.add(sha(s))
        if pl:
            bad = bad or (k, s, "panic: " + unhx(pl[0].split()[1]).decode("utf-8", "replace")[:160])
        elif cr:
            bad = bad or (k, s, cr)
    for c, expect in faults:
        lines = impl.get(c.id) or []
        ctx.corr_cases += 1
        err = [l for l in lines if l.startswith("err ")]
        if crashed(lines) or any(l.startswith("panic") for l in lines):
            bad = bad or ("fault", c.text(), "panic or abort on an unreadable / missing file")
        elif not err or not err[0][4:].startswith(expect):
            bad = bad or ("fault", c.text(), "expected %s..., got %s" % (expect, (err or lines)[:1]))
    # `include whose file name comes out of a macro: whatever the expansion looks like, the result is a value
    odd = ["`define L <\n`include `L\n", "`define OPEN(x) x\n`include `OPEN(<)\n", "`define OPEN(x) x\n`include `OPEN(\")\n",
           "`define P <inc/dé\n`include `P\n", "`define Q \"x.svh\" é\n`include `Q\n", "`define E\n`include `E\n",
           "`define A a.svh>\n`include `A\n", "`define B <\n`include `B \n", "`define C <>\n`include `C\n", "`define D \"\"\n`include `D\n",
           "`define F(x) x\n`include `F(é)\n", "`define G  \n`include `G\n", "`define H <é\n`include `H\n", "`define I \"é\n"]
    # directives written in unusual layouts: blanks, tabs, line breaks and comments wherever the grammar lets white space stand
    odd += ["`define M(a = 1 , b = 2) a b\n`M()\n", "`define N(a, b = 2 ) a b\n`N(1)\n", "`define O(\n a = 1\n ,\n b\n) a b\n`O(,2)\n",
            "`define P2( a , b ) a b\n`P2(1,2)\n", "`define Q2(a=\"s\" ) a\n`Q2()\n", "`define R2(a = (1, 2) , b = {3} ) a b\n`R2()\n",
            "`define S2(a =  ) a\n`S2()\n", "`define T2(a\t=\t1\t,\tb\t=\t2\t)\ta b\n`T2()\n", "`define U2(a = 1 /* c */ , b) a b\n`U2(,1)\n",
            "`define V2 (x) not_formals\n`V2\n", "`define W2(a = 1\\\n , b = 2\\\n ) a b\n`W2()\n", "`define X2(a=1,b=2 )a b\n`X2( , )\n",
            "`ifdef  A  \n`elsif\tB\t\n`else  \n`endif  \n", "`undef   X2  \n`undefineall  \n`resetall\t\n", "`timescale  1 ns  /  1 ps  \n",
            "`line  3  \"f.v\"  1  \n", "`default_nettype   none  \n", "`pragma  protect  begin , end = 1 \n", "`begin_keywords  \"1800-2017\"  \n`end_keywords  \n",
            "`define F1 f\n`F1()\n", "`define GET g\n`GET ( \n )\n", "`define H1\n`H1()\n`H1 ( )\n", "`define K1(a) a\n`K1()\n`K1( )\n`K1(\n)\n",
            "`define L1(a, b) a b\n`L1(,)\n`L1( , )\n", "`define M1 m\n`M1(())\n`M1([])\n`M1({})\n`M1(\"\")\n",
            "`include   \"nofile.svh\"   \n", "`define Y2(a = 1 ,\r\n b = 2 ) a b\r\n`Y2()\r\n", "`M3 ( 1 , 2 )\n", "`define Z2(a) a\n`Z2 (\n 1\n )\n`Z2( /* c */ )\n"]
    for j, t in enumerate(odd):
        for entry in ("preprocess", "parse_sv"):
            c = Case("o%d%s" % (j, entry)).add("file", hx("top.sv"), hx(t)).add("want", "text").add("run", entry, hx("top.sv"))
            lines = run_harness("api", [c], "c08odd", timeout=120).get(c.id) or []
            ctx.corr_cases += 1
            if crashed(lines) or any(l.startswith("panic") for l in lines):
                bad = bad or ("sv", t, "`include of a macro-made file name / a directive in an unusual layout: %s" % (crashed(lines) or [l for l in lines if l.startswith("panic")][0][:120]))
    # unbounded-looking recursion: every cycle through `include and macro expansion must end in an error value
    cycles = [
        {"top.sv": '`define AGAIN `include "top.sv"\n`AGAIN\n'},
        {"top.sv": '`include "a.svh"\n', "a.svh": '`define GO_B `include "b.svh"\n`GO_B\n', "b.svh": '`define GO_A `include "a.svh"\n`GO_A\n'},
        {"top.sv": '`define M `include `M\n`include `M\n'},
        {"top.sv": '`define SELF "top.sv"\n`include `SELF\n'},
        {"top.sv": 'x\n`include "top.sv"\n'},
        {"top.sv": '`define R `R\n`R\n'},
        {"top.sv": '`define A `B\n`define B `include "top.sv"\n`A\n'},
        {"top.sv": '`define APPLY(f) f(f)\n`APPLY(`APPLY)\n'},
        {"top.sv": '`define CALL(f, x) f(f, x)\n`CALL(`CALL, 1)\n'},
        {"top.sv": '`define P(f, g) g(g, f)\n`define Q(f, g) f(g, f)\n`P(`P, `Q)\n'},
        {"top.sv": '`define SELF(x) x\n`define R `SELF(`R)\n`R\n'},
    ]
    for j, fs in enumerate(cycles):
        for entry in ("preprocess", "parse_sv"):
            c = Case("y%d%s" % (j, entry))
            for pth, t in fs.items():
                c.add("file", hx(pth), hx(t))
            c.add("want", "text").add("run", entry, hx("top.sv"))
            lines = run_harness("api", [c], "c08cyc", timeout=120).get(c.id) or []
            ctx.corr_cases += 1
            errs = [l for l in lines if l.startswith("err ")]
            if crashed(lines) or any(l.startswith("panic") for l in lines) or not errs:
                bad = bad or ("fault", c.text(), "a recursive include / macro cycle does not end in an error value: %s" % (crashed(lines) or lines[:2]))
            elif "ExceedRecursiveLimit" not in errs[0] or errs[0].count("Include(") > 66:
                bad = bad or ("fault", c.text(), "a recursive include / macro cycle is not cut off at the recursion limit: %d Include wrappers around %s" % (
                    errs[0].count("Include("), errs[0].replace("Include( ", "")[:60]))
            else:
                ctx.count("cycle_" + [x for x in [l for l in lines if l.startswith("err ")][0].split() if x not in ("err", "Include(")][0])
    growth_known(ctx, "C08")
    ctx.sample({"grammar": srcs[40][0], "source": srcs[40][1][:120]})
    ctx.obl("search-oracle:no panic / abort in any entry point (catch_unwind), ReadUtf8 / File / Include wrapping as stated", "oracle",
            bad is None, bad[2] if bad else "")
    if bad:
        rp = write_replay(ctx, "src-" + sha(bad[1])[:8], {"property": "C08", "grammar": bad[0], "source": bad[1], "why": bad[2]})
        ctx.viol.append(Violation("an entry point is not total: " + bad[2], rp))


def replay(ctx, path):
    build_impl(ctx)
    d = json.load(open(path))
    if d["grammar"] == "fault":
        p = os.path.join(BUILD, "cases", "c08rp.in"); open(p, "w").write(d["source"])
        sh([SVH, "api", p, p + ".out"], timeout=300); print(open(p + ".out").read()[:1000])
    else:
        c = Case("r").add("want", "tree", "display", "nodeinfo")
        c.add("run", "preprocess_str", hx(d["source"]), hx("t.sv")).add("run", "parse_%s_str" % d["grammar"], hx(d["source"]), hx("t.sv"))
        print([l[:150] for l in run_harness("api", [c], "c08rp", timeout=300).get("r", [])][:6])
    print("replay:", d["why"])
    return 1
