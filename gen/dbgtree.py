"""Typed reading of rustc's derived `Debug` output of a syntax-tree value into the model's tree
(kind, children), guided by the schema svx_schema reads from sv-parser-syntaxtree.  Independent of
Iter / EventIter / next(): children order = field declaration order."""
import re
import svx_schema

_tok = re.compile(r'\s*([A-Za-z_][A-Za-z0-9_]*|\d+|"(?:[^"\\]|\\.)*"|[(){}\[\],:])')


def lex(s):
    out, i = [], 0
    while i < len(s):
        m = _tok.match(s, i)
        if not m:
            if s[i:].strip() == "":
                break
            raise ValueError("debug lex at %d: %r" % (i, s[i:i + 30]))
        out.append(m.group(1))
        i = m.end()
    return out


def parse(toks, i=0):
    t = toks[i]
    if t == "(":
        items, i = parse_list(toks, i + 1, ")")
        return ("tuple", items), i
    if t == "[":
        items, i = parse_list(toks, i + 1, "]")
        return ("list", items), i
    if t[0].isdigit() or t[0] == '"':
        return ("lit", t), i + 1
    name = t
    i += 1
    if i < len(toks) and toks[i] == "(":
        items, i = parse_list(toks, i + 1, ")")
        return ("call", name, items), i
    if i < len(toks) and toks[i] == "{":
        fields = {}
        i += 1
        while toks[i] != "}":
            fname = toks[i]
            assert toks[i + 1] == ":"
            v, i = parse(toks, i + 2)
            fields[fname] = v
            if toks[i] == ",":
                i += 1
        return ("struct", name, fields), i + 1
    return ("ident", name), i


def parse_list(toks, i, close):
    items = []
    while toks[i] != close:
        v, i = parse(toks, i)
        items.append(v)
        if toks[i] == ",":
            i += 1
    return items, i + 1


class Conv:
    def __init__(self, variant_kinds=()):
        self.structs, self.enums, self.order = svx_schema.read_schema()
        self.variant_kinds = set(variant_kinds)   # enums whose node name carries the variant: "WhiteSpace_Space"

    def conv(self, v, ty):
        """-> forest (list of trees); tree = ('L', off, len, line) | ('N', kind, [children])"""
        if ty[0] == "tuple":
            assert v[0] == "tuple", (v, ty)
            out = []
            for x, t in zip(v[1], ty[1]):
                out += self.conv(x, t)
            assert len(v[1]) == len(ty[1])
            return out
        name, args = ty[1], ty[2]
        if name == "Box":
            return self.conv(v, args[0])
        if name == "Option":
            if v == ("ident", "None"):
                return []
            assert v[0] == "call" and v[1] == "Some", v
            return self.conv(v[2][0], args[0])
        if name == "Vec":
            assert v[0] == "list", v
            out = []
            for x in v[1]:
                out += self.conv(x, args[0])
            return out
        if name == "Locate":
            f = v[2]
            return [("L", int(f["offset"][1]), int(f["len"][1]), int(f["line"][1]))]
        if name in ("Paren", "Brace", "Bracket", "ApostropheBrace"):
            a, b, c = v[2]["nodes"][1]
            sym = ("T", "Symbol", [])
            return self.conv(a, sym) + self.conv(b, args[0]) + self.conv(c, sym)
        if name == "List":
            first, rest = v[2]["nodes"][1]
            out = self.conv(first, args[1])
            for pair in rest[1]:
                s, u = pair[1]
                out += self.conv(s, args[0]) + self.conv(u, args[1])
            return out
        if name in self.structs:
            assert v[0] == "struct" and v[1] == name, (v[:2], name)
            return [("N", name, self.conv(v[2]["nodes"], self.structs[name]["nodes"]))]
        if name in self.enums:
            assert v[0] == "call", (v, name)
            for vn, vt in self.enums[name]["variants"]:
                if vn == v[1]:
                    nm = name + "_" + vn if name in self.variant_kinds else name
                    return [("N", nm, self.conv(v[2][0], vt))]
            raise ValueError("unknown variant %s::%s" % (name, v[1]))
        raise ValueError("unknown type " + name)

    def tree_of_debug(self, text, root_type):
        v, _ = parse(lex(text))
        f = self.conv(v, ("T", root_type, []))
        assert len(f) == 1
        return f[0]


def preorder(t):
    yield t
    if t[0] == "N":
        for c in t[2]:
            yield from preorder(c)


def tok(t):
    return "@%d:%d:%d" % t[1:] if t[0] == "L" else "+" + t[1]


def sexp(t, kinds):
    """model input: tree as tokens  ( K <kindidx> children.. )  |  L off len line"""
    if t[0] == "L":
        return "L %d %d %d" % t[1:]
    return "( %d %s )" % (kinds[t[1]], " ".join(sexp(c, kinds) for c in t[2]))
