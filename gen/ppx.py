"""Shared machinery of the preprocessor-group checks (C04 C05 C06 C09 C10 C11 C18):
case construction, model/implementation correspondence through the Coq evaluator (PP/Eval.v),
reference oracles built on ppgen.Ref, known-finding classes."""
import json, re
from framework import *
import ppgen, ppmodel

WANTS = ("text", "origins", "defines", "deforg", "pplog")


class PC:
    """one preprocessor case"""
    def __init__(self, files, strip=False, ignore=False, predefs=None, incdirs=None, bad=None, dirs=None,
                 entry=None, meta=None, tag="gen"):
        self.files = files              # path -> text (str)
        self.strip, self.ignore = strip, ignore
        self.predefs = predefs or []    # list of ("name", None) | ("name", [(formal, default)], body|None)
        self.incdirs = incdirs or []
        self.bad = bad or []            # paths holding invalid UTF-8
        self.dirs = dirs or []
        self.entry = entry or ("preprocess", "top.sv")
        self.meta = meta                # ppgen File objects (for the reference evaluator)
        self.tag = tag

    def case(self, cid, wants=WANTS):
        c = Case(cid)
        for p, t in self.files.items():
            c.add("file", hx(p), hx(t))
        for p in self.bad:
            c.add("badfile", hx(p))
        for p in self.dirs:
            c.add("dir", hx(p))
        for p in self.incdirs:
            c.add("incdir", hx(p))
        for d in self.predefs:
            if d[1] is None:
                c.add("define", hx(d[0]), "none")
            else:
                toks = ["define", hx(d[0]), "def", len(d[1])]
                for f, dflt in d[1]:
                    toks += [hx(f), ohx(dflt)]
                toks.append(ohx(d[2]))
                c.add(*toks)
        c.add("opt", "strip", int(self.strip))
        c.add("opt", "ignore", int(self.ignore))
        c.add("want", *wants)
        if self.entry[0] == "preprocess":
            c.add("run", "preprocess", hx(self.entry[1]))
        else:
            c.add("run", "preprocess_str", hx(self.entry[1]), hx(self.entry[2]), self.entry[3], self.entry[4])
        return c

    def describe(self):
        return {"files": self.files, "strip": self.strip, "ignore_include": self.ignore, "predefs": self.predefs,
                "incdirs": self.incdirs, "bad_utf8": self.bad, "entry": list(self.entry)}


def harness_bad_files(cases_pcs):
    """the harness writes `badfile` as bytes that are not UTF-8; `dir` creates a directory"""
    return None


# ------------------------------------------------------------------ results
class Res:
    def __init__(self, lines):
        self.lines = lines or []
        self.crash = crashed(self.lines) if self.lines else "no output"
        self.ok = "ok" in self.lines
        self.err = None
        self.text = None
        self.origins = None
        self.defs = {}
        for l in self.lines:
            if l.startswith("err "):
                self.err = l[4:]
            elif l.startswith("text "):
                self.text = unhx(l.split()[1])
            elif l.startswith("origins"):
                self.origins = l
            elif l.startswith("def "):
                p = l.split()
                self.defs[unhx(p[1]).decode("utf-8", "replace")] = l

    def err_kind(self):
        if self.err is None:
            return None
        e = self.err
        n = 0
        while e.startswith("Include( "):
            e = e[len("Include( "):]
            n += 1
        return (n, e.split()[0], e.replace(" )", "").split()[1:] )


def run_impl(pcs, tag, wants=WANTS, timeout=900):
    cases = [pc.case("k%d" % i, wants) for i, pc in enumerate(pcs)]
    impl = run_harness("api", cases, tag, timeout)
    return cases, impl


def correspond(ctx, name, pcs, tag, timeout=900):
    """implementation vs Coq model on the same cases; returns (cases, impl results by index)"""
    cases, impl = run_impl(pcs, tag, timeout=timeout)
    mcases = [ppmodel.model_case(c, impl.get(c.id)) for c in cases]
    model = run_model("pp", mcases, tag, 900)
    a = {c.id: ppmodel.observable(impl.get(c.id)) for c in cases}
    b = {c.id: ppmodel.observable(model.get(c.id)) for c in cases}
    byid = {c.id: pc for c, pc in zip(cases, pcs)}
    diffs = compare(ctx, name, a, b, byid)
    # hypothesis of SkipFacts.skipped_no_effect, evaluated by the model on the trees of every case
    sk = ctx.cov.setdefault("skip_hypothesis", {"listed_nodes_met": 0, "cases": 0, "failed_case": None})
    for c in cases:
        for l in model.get(c.id) or []:
            if l.startswith("skiphyp "):
                w = l.split()
                sk["cases"] += 1
                sk["listed_nodes_met"] += int(w[2])
                if w[1] != "1" and sk["failed_case"] is None:
                    sk["failed_case"] = byid[c.id].describe()
    for c, pc in zip(cases, pcs):
        r = Res(impl.get(c.id))
        ctx.count("%s:%s" % (pc.tag, "ok" if r.ok else (r.err_kind()[1] if r.err else "crash")))
        if r.ok and r.text and len(r.text) > 8 or r.err:
            ctx.corr_nontrivial.add(sha(json.dumps(pc.describe(), sort_keys=True)))
    if diffs:
        pc = byid[diffs[0]]
        ctx.cov.setdefault("correspondence_differences", []).append(
            {"check": name, "case": pc.describe(), "impl": a[diffs[0]][:6], "model": b[diffs[0]][:6]})
    res = [Res(impl.get(c.id)) for c in cases]
    if pcs:
        ctx.sample({"case": pcs[0].describe(), "impl": a[cases[0].id][:4]})
    return cases, res, diffs


# ------------------------------------------------------------------ generation
def general_program(r, **kw):
    g = ppgen.Gen(r, **kw)
    files = g.program()
    texts = ppgen.render(files)
    return files, texts


def predefs_random(r):
    out = []
    for n in ppgen.MACROS:
        x = r.random()
        if x < 0.15:
            out.append((n, None))
        elif x < 0.3:
            out.append((n, [], r.choice(["pre_" + n.lower(), "1", "a + b"])))
    return out


def gen_general(r, n, tag="general", **kw):
    pcs = []
    for _ in range(n):
        files, texts = general_program(r, **kw)
        pcs.append(PC(texts, strip=r.random() < 0.25, ignore=r.random() < 0.15, predefs=predefs_random(r),
                      meta=files, tag=tag))
    return pcs


def gen_scenarios(r, n, tag="scenario"):
    """multi-step define/undef/redefine histories across includes and macro bodies (ppgen.Gen.scenario)"""
    pcs = []
    for _ in range(n):
        files, texts = general_program(r, scenarios=True, pos=False, strings=r.random() < 0.2, kept=r.random() < 0.2)
        pcs.append(PC(texts, strip=r.random() < 0.15, predefs=predefs_random(r), meta=files, tag=tag))
    return pcs


def twin_predef(r, pc):
    """with some probability supply, from the caller, a macro that a file also defines with the very same text"""
    if pc.meta is None or r.random() > 0.3:
        return
    ds = [it for f in pc.meta for it in f.items if it.kind == "define" and it.formals is None and it.body]
    if ds:
        it = r.choice(ds)
        n = ppgen.norm(it.name)
        pc.predefs = [d for d in pc.predefs if d[0] != n] + [(n, [], " " + it.body)]


def scenario_batch(ctx, pid, n, tag):
    """define / change / observe histories (ppgen.Gen.scenario): correspondence with the model and the
    reference evaluation of the surviving tokens; reports a violation of [pid] with the failing program"""
    pcs = gen_scenarios(ctx.rng, n)
    for pc in pcs:
        twin_predef(ctx.rng, pc)
    cases, res, diffs = correspond(ctx, "preprocess (define/undef histories across files and macro bodies) vs PP/Eval.v", pcs, tag)
    bad = None
    for pc, rr in zip(pcs, res):
        if rr.crash:
            bad = bad or (pc, "the implementation crashed: " + rr.crash)
            continue
        why = token_oracle(pc, rr)
        if why and not in_D4(pc):
            bad = bad or (pc, why)
    ctx.obl("search-oracle:define/undef/redefine histories across includes and macro bodies = reference evaluation",
            "oracle", bad is None, bad[1] if bad else "")
    if bad:
        report(ctx, pid, "a definition or undefinition made elsewhere is not in force where it should be", bad[0], bad[1])
    return pcs, res


def ref_predefs(pc):
    d = {}
    for x in pc.predefs:
        if x[1] is None:
            d[x[0]] = None
        else:
            d[x[0]] = dict(formals=x[1] or None, body=x[2], file=None, body_off=None)
    return d


def nonblank(b):
    return [(i, ch) for i, ch in enumerate(b) if chr(ch) not in " \t\r\n"]


def ref_tokens(pc):
    """reference output (non-blank characters) and final macro names, or a RefError"""
    ref = ppgen.Ref(pc.meta, ref_predefs(pc), strip=pc.strip, ignore_include=pc.ignore)
    ref.eval_file("top.sv")
    return ref


def has_predef_elsif(items):
    """KnownClass D4: a chain with an `elsif whose `ifdef name or some `elsif name is predefined"""
    for it in items:
        if it.kind == "cond":
            names = [it.name] + [n for n, _, _ in it.elsifs]
            if it.elsifs and any(n in ("__LINE__", "__FILE__") for n in names):
                return True
            if has_predef_elsif(it.body) or any(has_predef_elsif(b) for _, b, _ in it.elsifs) or \
               (it.els is not None and has_predef_elsif(it.els)):
                return True
    return False


def has_usage_before_paren(items):
    """KnownClass objectlike-usage-paren: a usage written without arguments that is followed (white space and comments
    aside) by an opening parenthesis -- the parser reads everything up to the matching `)`, directives included, as the
    usage's actual arguments, whatever the macro's definition says"""
    for i, it in enumerate(items):
        if it.kind == "usage" and it.args is None:
            j = i + 1
            while j < len(items) and items[j].kind in ("ws", "cmt"):
                j += 1
            if j < len(items) and items[j].kind == "tok" and items[j].text.startswith("("):
                return True
        if it.kind == "cond":
            if has_usage_before_paren(it.body) or any(has_usage_before_paren(b) for _, b, _ in it.elsifs) or \
               (it.els is not None and has_usage_before_paren(it.els)):
                return True
    return False


def in_D4(pc):
    """the known classes in which the reference evaluation and the implementation are known to differ (listed findings D4 and
    objectlike-usage-paren)"""
    return pc.meta is not None and any(has_predef_elsif(f.items) or has_usage_before_paren(f.items) for f in pc.meta)


def token_oracle(pc, res):
    """None | description: non-blank output characters against the reference evaluation"""
    try:
        ref = ref_tokens(pc)
    except ppgen.RefError as e:
        if e.kind == "Unspecified":
            return None
        if res.ok:
            return "reference says %s but the implementation returned Ok" % e.kind
        return None
    if not res.ok:
        return "reference succeeds but the implementation returned %s" % (res.err or res.crash)
    nb = nonblank(res.text)
    exp = [ch for ch, _ in ref.out]
    got = [ch for _, ch in nb]
    if got != exp:
        k = next((i for i, (a, b) in enumerate(zip(got + [None] * len(exp), exp + [None] * len(got))) if a != b), 0)
        return "output differs from the reference at non-blank character %d: got %r expected %r" % (
            k, bytes(got[max(0, k - 10):k + 10]).decode("utf-8", "replace"),
            bytes(exp[max(0, k - 10):k + 10]).decode("utf-8", "replace"))
    return None


def report(ctx, pid, what, pc, why, extra=None):
    d = {"property": pid, "kind": what, "case": pc.describe(), "why": why,
         "replay": "bin/vcheck %s --replay <this file>" % pid}
    if extra:
        d.update(extra)
    rp = write_replay(ctx, "pp-" + sha(json.dumps(pc.describe(), sort_keys=True))[:8], d)
    ctx.viol.append(Violation("%s: %s" % (what, why), rp))


def replay_pc(ctx, path):
    d = json.load(open(path))
    c = d["case"]
    pc = PC(c["files"], c["strip"], c["ignore_include"], [tuple(x) for x in c["predefs"]], c["incdirs"],
            c.get("bad_utf8"), entry=tuple(c["entry"]))
    return d, pc


def known_finding_replay(ctx, pid, slug, pc, fails):
    """replay the listed witness of a known finding: print KNOWN-FINDING when it still fails"""
    findings, _ = load_known()
    if not any(f.get("property") == pid and f.get("id") == slug for f in findings):
        return
    cases, impl = run_impl([pc], "kf")
    r = Res(impl.get(cases[0].id))
    if fails(r):
        ctx.known_printed.append(slug)
    else:
        ctx.notes.append("known finding %s no longer reproduces on its witness" % slug)
