"""svx part 4: the grammar.  Every parser function of sv-parser-parser/src/** is read into a small IR
(one entry per function): attributes, body shape (sequence of binds + construction | alt | opaque), combinator
expressions.  Emits coq/Gen/GenGrammar.v.  Fails closed: what is not understood becomes Opaque with a hash."""
import glob, hashlib, json, os, re, sys


def scan(src):
    """yield (kind, start, end) for 'str' / 'chr' / 'cmt' / 'code' spans of Rust source"""
    i, n = 0, len(src)
    while i < n:
        c = src[i]
        if src.startswith("//", i):
            j = src.find("\n", i); j = n if j < 0 else j
            yield ("cmt", i, j); i = j
        elif src.startswith("/*", i):
            j = src.find("*/", i + 2); j = n if j < 0 else j + 2
            yield ("cmt", i, j); i = j
        elif c == "r" and re.match(r'r#*"', src[i:i + 8]):
            m = re.match(r'r(#*)"', src[i:])
            end = src.index('"' + m.group(1), i + len(m.group(0))) + 1 + len(m.group(1))
            yield ("str", i, end); i = end
        elif c == '"':
            j = i + 1
            while src[j] != '"':
                j += 2 if src[j] == "\\" else 1
            yield ("str", i, j + 1); i = j + 1
        elif c == "'" and re.match(r"'(\\.|[^'\\])'", src[i:i + 4]):
            m = re.match(r"'(\\.|[^'\\])'", src[i:i + 4])
            yield ("chr", i, i + len(m.group(0))); i += len(m.group(0))
        else:
            yield ("code", i, i + 1); i += 1


def strip_comments(src):
    return "".join(src[a:b] if k != "cmt" else " " for k, a, b in scan(src))


def match_brace(src, start):
    """src[start] == '{' : index just after the matching '}' (strings and chars skipped)"""
    depth = 0
    for k, a, b in scan(src[start:]):
        if k == "code":
            ch = src[start + a]
            if ch == "{":
                depth += 1
            elif ch == "}":
                depth -= 1
                if depth == 0:
                    return start + b
    raise Shape("unbalanced braces")


SRC = "/repo/sv-parser-parser/src"


class Shape(Exception):
    pass


# ------------------------------------------------------------------ Rust expression reader (the subset in use)
TOK = re.compile(r'\s*(r#*"|"(?:[^"\\]|\\.)*"|\'(?:[^\'\\]|\\.)\'|(?:r#)?[A-Za-z_][A-Za-z0-9_]*(?:::(?:r#)?[A-Za-z_][A-Za-z0-9_]*)*|\d+usize|\d+|\|\||[(){}\[\],;|.=&?:<>!*+-])')


def lex(s):
    out, i = [], 0
    while i < len(s):
        m = TOK.match(s, i)
        if not m:
            if s[i:].strip() == "":
                break
            raise Shape("lex at %r" % s[i:i + 30])
        t = m.group(1)
        if t[0] == "r" and t.endswith('"'):
            # raw string r#"..."#
            hashes = t.count("#")
            end = s.index('"' + "#" * hashes, m.end())
            out.append(("str", s[m.end():end]))
            i = end + 1 + hashes
            continue
        if t[0] == '"':
            out.append(("str", bytes(t[1:-1], "utf-8").decode("unicode_escape")))
        elif t[0] == "'":
            out.append(("chr", bytes(t[1:-1], "utf-8").decode("unicode_escape")))
        else:
            out.append(("t", t))
        i = m.end()
    return out


class P:
    def __init__(self, toks):
        self.t, self.i = toks, 0

    def peek(self, k=0):
        return self.t[self.i + k] if self.i + k < len(self.t) else ("eof", "")

    def next(self):
        x = self.peek(); self.i += 1; return x

    def eat(self, v):
        x = self.next()
        if x != ("t", v):
            raise Shape("expected %s got %r" % (v, x))

    def at(self, v):
        return self.peek() == ("t", v)

    def expr(self):
        """-> ('call', head, [args]) | ('name', n) | ('str', s) | ('chr', c) | ('num', n) | ('tuple', [..]) |
              ('closure', [params], body_expr) | ('block', [stmts], expr) | ('struct', name, [(field, expr)]) | ('ref', e) | ('macro', name, toks)"""
        k, v = self.peek()
        if k == "str":
            self.next(); e = ("str", v)
        elif k == "chr":
            self.next(); e = ("chr", v)
        elif k == "t" and re.fullmatch(r"\d+(usize)?", v):
            self.next(); e = ("num", int(v.replace("usize", "")))
        elif (k, v) == ("t", "("):
            self.next()
            items = []
            while not self.at(")"):
                items.append(self.expr())
                if self.at(","):
                    self.next()
            self.eat(")")
            e = items[0] if len(items) == 1 and self.t[self.i - 2] != ("t", ",") else ("tuple", items)
        elif (k, v) == ("t", "|") or (k, v) == ("t", "||"):
            params = []
            if v == "|":
                self.next()
                depth = 0
                cur = []
                while not (self.at("|") and depth == 0):
                    x = self.next()
                    if x == ("t", "("): depth += 1
                    if x == ("t", ")"): depth -= 1
                    cur.append(x[1])
                self.eat("|")
                params = ["".join(cur)]
            else:
                self.next()
            e = ("closure", params, self.expr())
        elif (k, v) == ("t", "{"):
            e = self.block()
        elif (k, v) == ("t", "&"):
            self.next(); e = ("ref", self.expr())
        elif (k, v) == ("t", "*"):
            self.next(); e = ("deref", self.expr())
        elif k == "t" and re.fullmatch(r"(r#)?[A-Za-z_][A-Za-z0-9_:#]*", v):
            self.next()
            if self.at("!"):
                self.next()
                # macro call: skip balanced
                o = self.next()[1]
                c = {"(": ")", "[": "]", "{": "}"}[o]
                depth, body = 1, []
                while depth:
                    x = self.next()
                    if x == ("t", o): depth += 1
                    elif x == ("t", c): depth -= 1
                    if depth: body.append(x)
                e = ("macro", v, body)
            elif self.at("{") and v[0].isupper():
                self.next()
                fields = []
                while not self.at("}"):
                    f = self.next()[1]
                    if self.at(":"):
                        self.next(); fields.append((f, self.expr()))
                    else:
                        fields.append((f, ("name", f)))
                    if self.at(","):
                        self.next()
                self.eat("}")
                e = ("struct", v, fields)
            else:
                e = ("name", v)
        else:
            raise Shape("expr at %r" % (self.t[self.i:self.i + 6],))
        # postfix: calls, ?, .method(..)
        while True:
            if self.at("("):
                self.next()
                args = []
                while not self.at(")"):
                    args.append(self.expr())
                    if self.at(","):
                        self.next()
                self.eat(")")
                e = ("call", e, args)
            elif self.at("?"):
                self.next(); e = ("try", e)
            elif self.at("."):
                self.next()
                m = self.next()[1]
                if self.at("("):
                    self.next()
                    args = []
                    while not self.at(")"):
                        args.append(self.expr())
                        if self.at(","):
                            self.next()
                    self.eat(")")
                    e = ("method", e, m, args)
                else:
                    e = ("field", e, m)
            else:
                return e

    def block(self):
        self.eat("{")
        stmts = []
        last = None
        while not self.at("}"):
            if self.at("let"):
                self.next()
                pat = self.pattern()
                self.eat("=")
                val = self.expr()
                self.eat(";")
                stmts.append(("let", pat, val))
            else:
                e = self.expr()
                if self.at(";"):
                    self.next(); stmts.append(("do", e))
                else:
                    last = e
        self.eat("}")
        return ("block", stmts, last)

    def pattern(self):
        if self.at("("):
            self.next()
            items = []
            while not self.at(")"):
                items.append(self.pattern())
                if self.at(","):
                    self.next()
            self.eat(")")
            return ("ptuple", items)
        if self.at("mut"):
            self.next()
        k, v = self.next()
        return ("pvar", v)


# ------------------------------------------------------------------ functions
FN = re.compile(r"((?:#\[[^\]]*\]\s*)*)pub\(crate\)\s+fn\s+((?:r#)?\w+)\s*(<[^>]*>)?\s*\(\s*s\s*:\s*Span\s*,?\s*\)\s*->\s*IResult<Span,\s*([^{]+?)>\s*\{")


def functions():
    res = []
    for f in sorted(glob.glob(SRC + "/**/*.rs", recursive=True)):
        if f.endswith("tests.rs") or f.endswith("keywords.rs"):
            continue
        src = strip_comments(open(f).read())
        for m in FN.finditer(src):
            j = match_brace(src, m.end() - 1)
            body = src[m.end() - 1:j]
            attrs = re.findall(r"#\[(\w+)", m.group(1))
            if "cfg" in attrs and 'feature = "trace"' in m.group(1) and "not" not in m.group(1):
                continue
            res.append(dict(name=m.group(2).replace("r#", ""), ret=m.group(4).strip(), attrs=attrs, body=body, file=os.path.relpath(f, SRC)))
    return res


def classify(fn):
    """-> ('seq', binds, ret) | ('alt', [exprs]) | ('opaque', why)"""
    try:
        blk = P(lex(fn["body"])).block()
    except (Shape, IndexError, KeyError) as e:
        return ("opaque", "unparsed: %s" % e)
    _, stmts, last = blk
    if not stmts and last and last[0] == "call" and last[1][0] == "call" and last[1][1] == ("name", "alt") and last[2] == [("name", "s")]:
        alts = last[1][2]
        if len(alts) == 1 and alts[0][0] == "tuple":
            return ("alt", alts[0][1])
        return ("alt", alts)
    binds = []
    for st in stmts:
        if st[0] != "let":
            return ("opaque", "statement that is not a let")
        pat, val = st[1], st[2]
        # let (s, PAT) = EXPR(s)?;
        if not (pat[0] == "ptuple" and len(pat[1]) == 2 and pat[1][0] == ("pvar", "s")):
            return ("opaque", "let pattern")
        if not (val[0] == "try" and val[1][0] == "call" and val[1][2] == [("name", "s")]):
            return ("opaque", "let value is not p(s)?")
        binds.append((pat[1][1], val[1][1]))
    if not (last and last[0] == "call" and last[1] == ("name", "Ok") and len(last[2]) == 1 and last[2][0][0] == "tuple"
            and last[2][0][1][0] == ("name", "s")):
        return ("opaque", "tail is not Ok((s, ..))")
    return ("seq", binds, last[2][0][1][1])


# ------------------------------------------------------------------ normalisation to the forest IR
# fexp (Python): ('call', name) | ('term', helper, text) | ('lex', name) | ('seq', [..]) | ('alt', [..]) | ('opt', e) |
#   ('many0', e) | ('many1', e) | ('manytill', e, f) | ('node', K, e) | ('drop', e) | ('not', e) | ('eof',) |
#   ('tmpl', [binds], tmpl) | ('bad', why) | ('act', a)
# tmpl: ('b', i) | ('n', K, [tmpl])
ACTS = {"begin_directive": 1, "end_directive": 2, "begin_keywords": 3, "end_keywords": 4}
# begin_keywords("directive") is action 3; begin_keywords of a standard's name is 11 + its place in this list (what is
# pushed matters to the executable interpretation, Nom/Exec.v); any other argument: the translator does not vouch
VERSIONS = ["1364-1995", "1364-2001", "1364-2001-noconfig", "1364-2005", "1800-2005", "1800-2009", "1800-2012", "1800-2017"]
BEGIN_KEYWORDS_ACTS = [11 + i for i in range(len(VERSIONS))]


def act_of(call):
    """number of a state-action call expression ('call', ('name', f), args), or None"""
    name, args = call[1][1], call[2]
    if name != "begin_keywords":
        return ACTS[name] if not args else None
    if len(args) == 1 and args[0][0] == "str":
        if args[0][1] == "directive":
            return 3
        if args[0][1] in VERSIONS:
            return 11 + VERSIONS.index(args[0][1])
    return None
PRIM_SPAN = {"tag", "tag_no_case", "is_a", "is_not", "one_of", "none_of", "char", "take", "digit1", "multispace1",
             "space1", "alpha1", "alphanumeric1", "hex_digit1", "anychar", "line_ending", "not_line_ending"}
WRAP = {"paren": ("(", ")", "Paren"), "bracket": ("[", "]", "Bracket"), "brace": ("{", "}", "Brace"),
        "apostrophe_brace": ("'{", "}", "ApostropheBrace")}


class Norm:
    def __init__(self, names):
        self.names = names       # production names
        self.bad = []

    def B(self, why):
        self.bad.append(why)
        return ("bad", why)

    def head(self, e):
        if e[0] == "call" and e[1][0] == "name":
            return e[1][1], e[2]
        return None, None

    def pexp(self, e):
        """expression used as a parser (no value analysis): -> fexp yielding the forest of everything it consumes"""
        if e[0] == "name":
            n = e[1].replace("r#", "")
            if n in self.names:
                return ("call", n)
            if n == "eof":
                return ("eof",)
            if n in PRIM_SPAN:
                return self.B("bare span primitive %s in forest position" % n)
            return self.B("unknown parser name %s" % n)
        h, a = self.head(e)
        if h is None:
            return self.B("expression form %s" % (e[0],))
        if h in ("symbol", "keyword", "symbol_exact") and len(a) == 1 and a[0][0] == "str":
            return ("term", h, a[0][1])
        if h in WRAP and len(a) == 1:
            o, c, k = WRAP[h]
            # Paren<T> etc. are not nodes themselves: (Symbol, T, Symbol) in place
            return ("seq", [("term", "symbol", o), self.pexp(a[0]), ("term", "symbol", c)])
        if h == "paren_exact" and len(a) == 1:
            return ("seq", [("term", "symbol", "("), self.pexp(a[0]), ("term", "symbol_exact", ")")])
        if h in ("opt", "many0", "many1") and len(a) == 1:
            return (h, self.pexp(a[0]))
        if h == "many_till" and len(a) == 2:
            return ("manytill", self.pexp(a[0]), self.pexp(a[1]))
        if h in ("pair", "triple") or (h == "tuple" and len(a) == 1 and a[0][0] == "tuple"):
            items = a[0][1] if h == "tuple" else a
            return ("seq", [self.pexp(x) for x in items])
        if h == "terminated" and len(a) == 2:
            return ("seq", [self.pexp(a[0]), self.dropped(a[1])])
        if h == "preceded" and len(a) == 2:
            return ("seq", [self.dropped(a[0]), self.pexp(a[1])])
        if h == "peek" and len(a) == 1:
            return ("drop", self.any_parser(a[0]))
        if h == "not" and len(a) == 1:
            return ("not", self.any_parser(a[0]))
        if h == "alt":
            items = a[0][1] if len(a) == 1 and a[0][0] == "tuple" else a
            return ("alt", [self.pexp(x) for x in items])
        if h == "list" and len(a) == 2:
            sep, item = self.pexp(a[0]), self.pexp(a[1])
            return ("seq", [item, ("many0", ("seq", [sep, item]))])      # utils.rs list(): item (sep item)*
        if h == "ws" and len(a) == 1:
            return ("seq", [self.leaf(a[0]), ("many0", ("call", "white_space"))])
        if h == "no_ws" and len(a) == 1:
            return self.leaf(a[0])
        if h == "all_consuming" and len(a) == 1:
            return ("seq", [self.pexp(a[0]), ("eof",)])
        if h == "context" and len(a) == 2:
            return self.pexp(a[1])
        if h == "map" and len(a) == 2:
            return self.mapped(a[0], a[1])
        return self.B("combinator %s/%d" % (h, len(a)))

    def any_parser(self, e):
        """a parser whose result is thrown away (under peek / not): spans are fine"""
        if e[0] == "name" and e[1] in PRIM_SPAN:
            return ("lex", e[1])
        h, a = self.head(e)
        if h in PRIM_SPAN:
            return ("lex", h, repr(a))     # one primitive per distinct expression: tag("a") and tag("b") are two oracles
        if h == "alt":
            items = a[0][1] if len(a) == 1 and a[0][0] == "tuple" else a
            return ("alt", [self.any_parser(x) for x in items])
        if h in ("pair", "triple") or (h == "tuple" and len(a) == 1 and a[0][0] == "tuple"):
            items = a[0][1] if h == "tuple" else a
            return ("seq", [self.any_parser(x) for x in items])
        if h in ("peek",):
            return ("drop", self.any_parser(a[0]))
        if h == "not":
            return ("not", self.any_parser(a[0]))
        if h == "map" and len(a) == 2:
            return self.any_parser(a[0])
        return self.pexp(e)

    def dropped(self, e):
        """a parser whose result is dropped but which still runs in sequence: must not consume"""
        h, a = self.head(e)
        if h == "peek" and len(a) == 1:
            return ("drop", self.any_parser(a[0]))
        if h == "not" and len(a) == 1:
            return ("not", self.any_parser(a[0]))
        if e == ("name", "eof"):
            return ("eof",)
        return self.B("a consuming parser's result is dropped")

    def leaf(self, e):
        """a parser producing a Locate: map(tag(..), into_locate), *_impl lexers, alt of such"""
        if e[0] == "name":
            n = e[1]
            if n in self.names:
                return ("call", n)       # *_impl: returns a Locate
            return self.B("leaf parser %s" % n)
        h, a = self.head(e)
        if h == "map" and len(a) == 2 and (a[1] == ("name", "into_locate") or (
                a[1][0] == "closure" and len(a[1][1]) == 1 and a[1][2] == ("call", ("name", "into_locate"), [("name", a[1][1][0].split(":")[0].strip())]))):
            return ("lexleaf", self.any_parser(a[0]))
        if h == "alt":
            items = a[0][1] if len(a) == 1 and a[0][0] == "tuple" else a
            return ("alt", [self.leaf(x) for x in items])
        if h == "all_consuming" and len(a) == 1:
            return ("seq", [self.leaf(a[0]), ("eof",)])
        if h == "terminated" and len(a) == 2:
            return ("seq", [self.leaf(a[0]), self.dropped(a[1])])
        return self.B("leaf parser form %s" % h)

    # -------------------------------------------------------------- closures / constructions
    def pat_vars(self, p):
        if p[0] == "pvar":
            return [p[1]]
        return [v for q in p[1] for v in self.pat_vars(q)]

    def cons(self, c, env):
        """construction -> tmpl over variables; env: var -> tmpl.  ('v', name) leaves are resolved by the caller."""
        if c[0] == "name":
            if c[1] in env:
                return env[c[1]]
            if c[1] == "None":
                return ("n", None, [])
            return self.B("construction mentions unknown %s" % c[1])
        if c[0] == "tuple":
            return ("n", None, [self.cons(x, env) for x in c[1]])
        if c[0] == "struct":
            fs = dict(c[2])
            if list(fs) != ["nodes"]:
                return self.B("struct fields %s" % list(fs))
            return ("n", c[1], [self.cons(fs["nodes"], env)])
        if c[0] == "call" and c[1][0] == "name":
            h, a = c[1][1], c[2]
            if h in ("Box::new", "Some") and len(a) == 1:
                return self.cons(a[0], env)
            if "::" in h and h[0].isupper() and len(a) == 1:
                return ("n", h.split("::")[0], [self.cons(a[0], env)])      # Enum::Variant(x): the enum is a node
            if h == "into_locate" and len(a) == 1:
                return self.cons(a[0], env)
            return self.B("construction call %s" % h)
        if c[0] == "macro" and c[1] == "vec" and not c[2]:
            return ("n", None, [])
        if c[0] == "block":
            acts = []
            for st in c[1]:
                if st[0] == "do" and st[1][0] == "call" and st[1][1][0] == "name" and st[1][1][1] in ("begin_keywords", "end_keywords", "begin_directive", "end_directive"):
                    acts.append(st[1][1][1])
                else:
                    return self.B("statement in closure block")
            t = self.cons(c[2], env)
            return ("n", None, [("act", a) for a in acts] + [t]) if acts else t
        return self.B("construction form %s" % c[0])

    def mapped(self, inner, clo):
        if clo == ("name", "into_locate"):
            return ("lexleaf", self.any_parser(inner))
        if clo[0] != "closure":
            return self.B("map with a non-closure")
        params = clo[1]
        # a span primitive directly under map(.., |x: Span| T { nodes: (into_locate(x), ..) }): the closure makes the leaf
        self.span_ok = "into_locate" in json.dumps(clo[2])
        pe = self.pexp_valued(inner)
        self.span_ok = False
        if pe is None:
            return self.B("map over an expression without value shape")
        shape, f = pe
        if len(params) != 1:
            return self.B("closure parameters")
        pat = P(lex(params[0])).pattern() if params[0].startswith("(") else ("pvar", params[0].split(":")[0].strip())
        body = clo[2]
        acts = []
        if body[0] == "block" and body[1]:
            for st in body[1]:
                if st[0] == "do" and st[1][0] == "call" and st[1][1][0] == "name" and st[1][1][1] in ACTS and act_of(st[1]) is not None:
                    acts.append(act_of(st[1]))
                else:
                    return self.B("statement in closure block")
            body = body[2]
        binds = [(pat, shape, f)] + [(("pvar", "_"), "one", ("act", a)) for a in acts]
        return self.bind_and_build(binds, body)

    def pexp_valued(self, e):
        """-> (value shape, fexp) ; shape: 'one' | ('tuple', [shapes])  describing how the value destructures"""
        h, a = self.head(e)
        if h in ("pair", "triple") or (h == "tuple" and a and len(a) == 1 and a[0][0] == "tuple"):
            items = a[0][1] if h == "tuple" else a
            subs = [self.pexp_valued(x) for x in items]
            return (("tuple", [s[0] for s in subs]), ("seq", [s[1] for s in subs]))
        if h == "many_till" and len(a) == 2:
            x, y = self.pexp(a[0]), self.pexp_or_drop(a[1])
            return (("tuple", ["one", "one"]), ("manytill", x, y))
        if h in PRIM_SPAN and getattr(self, "span_ok", False):
            return ("one", ("lexleaf", ("lex", h, repr(a))))
        return ("one", self.pexp(e))

    def pexp_or_drop(self, e):
        if e == ("name", "eof"):
            return ("eof",)
        return self.pexp(e)

    def bind_and_build(self, binds, cons_expr):
        """binds: [(pattern, shape, fexp)] in consumption order.  The construction must mention the kept variables of
        every bind exactly once and in consumption order; a bind whose variables are all '_' must not consume."""
        order, fx = [], []
        for pat, shape, f in binds:
            vs = self.pat_vars(pat)
            fx.append(f)
            order.append(vs)
        env, flat = {}, []
        for i, vs in enumerate(order):
            kept = [v for v in vs if v != "_"]
            for j, v in enumerate(vs):
                env[v] = ("b", i, j, len(vs))
            flat.append(kept)
        t = self.cons(cons_expr, env)
        return ("tmpl", fx, order, t)


def tmpl_leaves(t):
    if t[0] == "b":
        return [t]
    if t[0] == "n":
        return [x for c in t[2] for x in tmpl_leaves(c)]
    return []


def production(nm, fn):
    k = classify(fn)
    if k[0] == "alt":
        return ("alt", [nm.pexp(x) for x in k[1]])
    if k[0] == "seq":
        binds = []
        for pat, val in k[1]:
            shape, f = nm.pexp_valued(val)
            binds.append((pat, shape, f))
        return nm.bind_and_build(binds, k[2])
    return ("opaque", k[1], hashlib.sha256(re.sub(r"\s+", " ", fn["body"]).encode()).hexdigest()[:12])


if __name__ == "__main__" and len(sys.argv) > 1 and sys.argv[1] == "norm":
    fs = functions()
    nm = Norm({f["name"] for f in fs})
    import collections
    out = {}
    for f in fs:
        out[f["name"]] = production(nm, f)
    c = collections.Counter(nm.bad)
    print(len(fs), "functions;", sum(c.values()), "bad spots")
    for w, n in c.most_common(60):
        print("  %4d  %s" % (n, w))


# ------------------------------------------------------------------ hand IR for the few functions outside the two shapes
WS_ALL = ("lex", "is_a", repr([("str", " \t\r\n\x0c")]))
WS_BLANK = ("lex", "is_a", repr([("str", " \t\x0c")]))


def hand_overrides(nm):
    """name -> fexp (Python IR), valid for exactly the recorded source hash"""
    C = lambda n: ("call", n)
    ws0 = ("many0", C("white_space"))
    sym = lambda t: ("term", "symbol", t)
    def leafnode(kind, prim, wrap=None):
        t = ("n", kind, [("b", 0, 0, 1)])
        if wrap:
            t = ("n", wrap, [t])
        return ("tmpl", [("lexleaf", ("lex", prim))], [["a"]], t)
    return {
        # the literals are those of the pinned source (the hash below is of that text)
        "white_space": ("if", 1,
            ("tmpl", [("lexleaf", WS_ALL)], [["a"]], ("n", "WhiteSpace", [("b", 0, 0, 1)])),
            ("alt", [("tmpl", [("lexleaf", WS_BLANK)], [["a"]], ("n", "WhiteSpace", [("b", 0, 0, 1)])),
                     ("tmpl", [("lexleaf", WS_ALL)], [["a"]], ("n", "WhiteSpace", [("b", 0, 0, 1)])),
                     ("tmpl", [("drop", ("lex", "char", repr([("chr", "/")]))), C("comment")], [["_"], ["a"]], ("n", "WhiteSpace", [("b", 1, 0, 1)])),
                     ("tmpl", [("drop", ("lex", "char", repr([("chr", "`")]))), C("compiler_directive_without_resetall")], [["_"], ["a"]], ("n", "WhiteSpace", [("b", 1, 0, 1)]))])),
        "one_line_comment": leafnode("Comment", "one_line_comment"),
        "block_comment": leafnode("Comment", "block_comment"),
        "macro_text": leafnode("MacroText", "macro_text"),
        "source_description_not_directive": leafnode("SourceDescriptionNotDirective", "source_description_not_directive", "SourceDescription"),
        "text_macro_definition": ("tmpl", [sym("`"), ("term", "keyword", "define"), ("wrap", 3, 4, C("text_macro_name")), ("opt", C("macro_text"))],
                                  [["a"], ["b"], ["c"], ["d"]], ("n", "TextMacroDefinition", [("b", i, 0, 1) for i in range(4)])),
        "text_macro_usage": ("tmpl", [sym("`"), ("wrap", 3, 4, C("text_macro_identifier")),
                                      ("opt", ("seq", [sym("("), C("list_of_actual_arguments"), sym(")")]))],
                             [["a"], ["b"], ["c"]], ("n", "TextMacroUsage", [("b", i, 0, 1) for i in range(3)])),
        "method_call": ("tmpl", [C("method_call_root"), sym("."), C("method_call_body"), ("many0", ("seq", [sym("."), C("method_call_body")]))],
                        [["a"], ["b"], ["c"], ["d"]], ("n", "MethodCall", [("b", i, 0, 1) for i in range(4)])),
    }


OVERRIDE_HASHES = {}     # filled from coq/Nom/override_hashes.json (committed): name -> hash of the source it was written for


def body_hash(fn):
    return hashlib.sha256(re.sub(r"\s+", " ", fn["body"]).encode()).hexdigest()[:12]


def classify2(fn):
    """the shapes classify() does not know: single expression; begin/ret/end; action statements between binds"""
    try:
        blk = P(lex(fn["body"])).block()
    except (Shape, IndexError, KeyError) as e:
        return None
    _, stmts, last = blk
    if not stmts and last and last[0] == "call" and last[2] == [("name", "s")]:
        return ("expr", last[1])
    def is_act(st):
        return st[0] == "do" and st[1][0] == "call" and st[1][1][0] == "name" and st[1][1][1] in ACTS and act_of(st[1]) is not None
    # begin_directive(); let ret = EXPR(s); end_directive(); ret
    if len(stmts) == 3 and is_act(stmts[0]) and is_act(stmts[2]) and stmts[1][0] == "let" and stmts[1][1] == ("pvar", "ret") \
            and last == ("name", "ret") and stmts[1][2][0] == "call" and stmts[1][2][2] == [("name", "s")]:
        return ("wrap", act_of(stmts[0][1]), act_of(stmts[2][1]), stmts[1][2][1])
    # binds with action statements in between
    items = []
    for st in stmts:
        if is_act(st):
            items.append(("act", act_of(st[1])))
        elif st[0] == "let" and st[1][0] == "ptuple" and len(st[1][1]) == 2 and st[1][1][0] == ("pvar", "s") \
                and st[2][0] == "try" and st[2][1][0] == "call" and st[2][1][2] == [("name", "s")]:
            items.append(("bind", st[1][1][1], st[2][1][1]))
        else:
            return None
    if last and last[0] == "call" and last[1] == ("name", "Ok") and len(last[2]) == 1 and last[2][0][0] == "tuple" and last[2][0][1][0] == ("name", "s"):
        return ("seqact", items, last[2][0][1][1])
    return None


def production2(nm, fn, overrides, pinned):
    """-> (fexp, how)"""
    if fn["ret"] in ("Locate", "Span"):
        # hand lexers: one leaf covering what they consume (a Span result is turned into its Locate by the
        # into_locate(..) of the construction that uses it)
        return ("lexleaf", ("lex", fn["name"])), "lexer"
    if fn["name"] in overrides:
        h = body_hash(fn)
        if pinned.get(fn["name"]) != h:
            return ("bad", "hand IR of %s was written for another version of the function (hash %s)" % (fn["name"], h)), "override-stale"
        return overrides[fn["name"]], "override"
    k = classify(fn)
    if k[0] != "opaque":
        return production(nm, fn), k[0]
    k2 = classify2(fn)
    if k2 is None:
        return ("bad", "function %s has a shape the translator does not know" % fn["name"]), "unknown"
    if k2[0] == "expr":
        return nm.pexp(k2[1]), "expr"
    if k2[0] == "wrap":
        return ("wrap", k2[1], k2[2], nm.pexp(k2[3])), "wrap"
    binds = []
    for it in k2[1]:
        if it[0] == "act":
            binds.append((("pvar", "_"), "one", ("act", it[1])))
        else:
            shape, f = nm.pexp_valued(it[2])
            binds.append((it[1], shape, f))
    return nm.bind_and_build(binds, k2[2]), "seqact"


# ------------------------------------------------------------------ emission
class Emit:
    def __init__(self, kinds):
        self.kinds = kinds                # node kind name -> number
        self.prims = {}                   # descriptor -> index
        self.extra = {}                   # synthetic productions: key -> (index, fexp)
        self.index = {}                   # production name -> index

    def prim(self, d):
        if d not in self.prims:
            self.prims[d] = len(self.prims)
        return self.prims[d]

    def kind(self, name):
        if name not in self.kinds:
            self.kinds[name] = 5000 + len(self.kinds)
        return self.kinds[name]

    def term(self, helper, text):
        key = (helper, text)
        if key not in self.extra:
            self.extra[key] = len(self.index) + len(self.extra)
        return self.extra[key]

    def tm(self, t):
        if t[0] == "b":
            return "TB %d" % t[1]
        if t[0] == "act":
            return "TG []"
        if t[0] == "bad":
            return None
        subs = [self.tm(x) for x in t[2]]
        if any(x is None for x in subs):
            return None
        if t[1] is None:
            return "TG [%s]" % "; ".join(subs)
        return "TN %d [%s]" % (self.kind(t[1]), "; ".join(subs))

    def fx(self, e):
        k = e[0]
        if k == "call":
            return "C %d" % self.index[e[1]]
        if k == "term":
            return "C %d" % self.term(e[1], e[2])
        if k == "lex":
            return "FPrim %d" % self.prim(("lex",) + tuple(e[1:]))
        if k == "lexleaf":
            return "FLeaf (%s)" % self.fx(e[1])
        if k in ("seq", "alt"):
            return "%s [%s]" % ("FSeq" if k == "seq" else "FAlt", "; ".join(self.fx(x) for x in e[1]))
        if k in ("opt", "many0", "many1"):
            return "%s (%s)" % ({"opt": "FOpt", "many0": "FMany0", "many1": "FMany1"}[k], self.fx(e[1]))
        if k == "manytill":
            return "FManyTill (%s) (%s)" % (self.fx(e[1]), self.fx(e[2]))
        if k == "drop":
            return "FPeek (%s)" % self.fx(e[1])
        if k == "not":
            return "FNot (%s)" % self.fx(e[1])
        if k == "eof":
            return "FEof"
        if k == "act":
            return "FAct %d" % e[1]
        if k == "wrap":
            return "FWrap %d %d (%s)" % (e[1], e[2], self.fx(e[3]))
        if k == "if":
            return "FIf %d (%s) (%s)" % (e[1], self.fx(e[2]), self.fx(e[3]))
        if k == "bad":
            return "FBad"
        if k == "tmpl":
            fxs, order, t = e[1], e[2], e[3]
            # a pattern with several variables: they must stand next to each other, in order, in the construction
            leaves = [(x[1], x[2]) for x in tmpl_leaves(t)]
            for i, vs in enumerate(order):
                keptj = [j for j, v in enumerate(vs) if v != "_"]
                pos = [n for n, l in enumerate(leaves) if l[0] == i]
                if [leaves[n][1] for n in pos] != keptj or (pos and pos != list(range(pos[0], pos[0] + len(pos)))):
                    return "FBad"
                if len(vs) > 1 and len(keptj) < len(vs):
                    # partially dropped tuple: only many_till(.., eof/peek/not)
                    if not (fxs[i][0] == "manytill" and fxs[i][2][0] in ("eof", "drop", "not") and keptj == [0]):
                        return "FBad"
            t2 = self.collapse(t)
            ts = self.tm(t2)
            if ts is None:
                return "FBad"
            return "FTmpl [%s] (%s)" % ("; ".join(self.fx(x) for x in fxs), ts)
        raise Shape("emit %r" % (k,))

    def collapse(self, t):
        """several variables of one bind -> one reference to the bind (first occurrence)"""
        seen = set()
        def go(t):
            if t[0] == "b":
                if t[1] in seen:
                    return ("n", None, [])
                seen.add(t[1])
                return t
            if t[0] in ("act", "bad"):
                return t
            return ("n", t[1], [go(x) for x in t[2]])
        return go(t)


def generate():
    import svx_schema
    fs = functions()
    names = {f["name"] for f in fs}
    nm = Norm(names)
    structs, enums, order = svx_schema.read_schema()
    kinds = {n: i + 1 for i, n in enumerate(order)}
    em = Emit(kinds)
    for i, f in enumerate(fs):
        em.index[f["name"]] = i
    overrides = hand_overrides(nm)
    pin_path = "/verif/coq/Nom/override_hashes.json"
    pinned = json.load(open(pin_path)) if os.path.exists(pin_path) else {}
    bodies, how = [], {}
    for f in fs:
        e, h = production2(nm, f, overrides, pinned)
        how[h] = how.get(h, 0) + 1
        bodies.append((f, e))
    lines = []
    for f, e in bodies:
        lines.append("  mkProd %s %s (%s)" % ("true" if "packrat_parser" in f["attrs"] else "false",
                                               "true" if "recursive_parser" in f["attrs"] else "false", em.fx(e)))
    # synthetic productions for symbol / keyword / symbol_exact
    ksym, kkw = em.kind("Symbol"), em.kind("Keyword")
    wsi = em.index["white_space"]
    for (helper, text), idx in sorted(em.extra.items(), key=lambda kv: kv[1]):
        # the tag of keyword(t) is its own primitive: it stands behind the is_reserved_in_force(t) guard
        tag = em.prim(("kwtag", text) if helper == "keyword" else ("tag", text))
        if helper == "symbol":
            b = "FTmpl [FLeaf (FPrim %d); FMany0 (C %d)] (TN %d [TB 0; TB 1])" % (tag, wsi, ksym)
        elif helper == "symbol_exact":
            b = "FTmpl [FLeaf (FPrim %d)] (TN %d [TB 0])" % (tag, ksym)
        else:
            nn = em.prim(("none_of", "AZ09_"))
            b = ("FTmpl [FLeaf (FAlt [FSeq [FPrim %d; FEof]; FSeq [FPrim %d; FPeek (FPrim %d)]]); FMany0 (C %d)] (TN %d [TB 0; TB 1])"
                 % (tag, tag, nn, wsi, kkw))
        lines.append("  mkProd false false (%s)" % b)
    # non-nullability certificate: greatest set of productions whose bodies surely consume (Nom/NonNull.v re-checks it)
    def nn_py(e, cert):
        k = e[0]
        if k == "call":
            return e[1] in cert
        if k in ("term", "lex"):
            return True
        if k in ("lexleaf", "many1"):
            return nn_py(e[1], cert)
        if k == "seq":
            return any(nn_py(x, cert) for x in e[1])
        if k == "tmpl":
            return any(nn_py(x, cert) for x in e[1])
        if k == "alt":
            return all(nn_py(x, cert) for x in e[1])
        if k == "manytill":
            return nn_py(e[2], cert)
        if k == "wrap":
            return nn_py(e[3], cert)
        if k == "if":
            return nn_py(e[2], cert) and nn_py(e[3], cert)
        return False
    cert = {f["name"] for f, _ in bodies}
    changed_c = True
    while changed_c:
        changed_c = False
        for f, e in bodies:
            if f["name"] in cert and not nn_py(e, cert):
                cert.discard(f["name"]); changed_c = True
    cert_idx = sorted(em.index[n] for n in cert) + sorted(em.extra.values())
    # neutrality certificates (Nom/Neutral.v re-checks them): productions that leave the observed stack as they found it
    def neutral_py(e, cert, invisible, inverse):
        k = e[0]
        if k == "call":
            return e[1] in cert
        if k == "term":
            return e[1] == "symbol_exact" or "white_space" in cert      # symbol / keyword end with many0(white_space)
        if k in ("lex", "eof", "bad"):
            return True
        if k in ("lexleaf", "opt", "many0", "many1", "drop", "not"):
            return neutral_py(e[1], cert, invisible, inverse)
        if k in ("seq", "alt", "tmpl"):
            return all(neutral_py(x, cert, invisible, inverse) for x in e[1])
        if k == "manytill":
            return neutral_py(e[1], cert, invisible, inverse) and neutral_py(e[2], cert, invisible, inverse)
        if k == "if":
            return neutral_py(e[2], cert, invisible, inverse) and neutral_py(e[3], cert, invisible, inverse)
        if k == "act":
            return e[1] in invisible
        if k == "wrap":
            return ((e[1] in invisible and e[2] in invisible) or (e[1], e[2]) in inverse) and neutral_py(e[3], cert, invisible, inverse)
        return False
    def neutral_cert(invisible, inverse):
        c = {f["name"] for f, _ in bodies}
        ch = True
        while ch:
            ch = False
            for f, e in bodies:
                if f["name"] in c and not neutral_py(e, c, invisible, inverse):
                    c.discard(f["name"]); ch = True
        return c
    dir_cert = neutral_cert({3, 4} | set(BEGIN_KEYWORDS_ACTS), {(1, 2)})
    ver_cert = neutral_cert({1, 2}, {(3, 4)})
    text = ["(* GENERATED by gen/svx_grammar.py from /repo/sv-parser-parser/src -- do not edit *)",
            "From SV Require Import Peg.", "Local Open Scope nat_scope.",
            "(* production indices are written in binary: a unary numeral of that size per call is slow to read *)",
            "Notation \"'C' n\" := (FCall (N.to_nat n%N)) (at level 9, n at level 9, only parsing).",
            "Definition grammar : list prod := [", ";\n".join(lines), "]."]
    for start in ("source_text", "source_text_incomplete", "library_text", "library_text_incomplete", "preprocessor_text",
                  "description", "library_description", "white_space", "timeunits_declaration"):
        text.append("Definition start_%s : nat := Eval vm_compute in N.to_nat %d%%N." % (start, em.index[start]))
    cs = set(cert_idx)
    text.append("Definition nonnull_cert : list bool := [%s]." % "; ".join("true" if i in cs else "false" for i in range(len(em.index) + len(em.extra))))
    text.append("Definition all_prims : list N := map N.of_nat (seq 0 %d)." % len(em.prims))
    # look-ahead primitives: none_of(..) consumes any byte outside its set -- also one that no token can contain; the
    # grammar uses it under peek only (Nom/BoundPk.v checks that), e.g. behind every keyword
    peek = sorted(i for d, i in em.prims.items() if d[0] == "none_of" or (d[0] == "lex" and d[1] == "none_of"))
    text.append("Definition peek_prims : list N := [%s]%%N." % "; ".join(str(i) for i in peek))
    ntot = len(em.index) + len(em.extra)
    byidx = {i: n for n, i in em.index.items()}
    for nm_, cset in (("dir_neutral_cert", dir_cert), ("ver_neutral_cert", ver_cert)):
        synth = {i: (h == "symbol_exact" or "white_space" in cset) for (h, _t), i in em.extra.items()}
        text.append("Definition %s : list bool := [%s]." % (nm_, "; ".join(
            "true" if (synth[i] if i >= len(em.index) else byidx[i] in cset) else "false" for i in range(ntot))))
    for start in ("resetall_compiler_directive", "text_macro_usage", "text_macro_definition", "compiler_directive",
                  "keywords_directive", "endkeywords_directive", "version_specifier"):
        text.append("Definition start_%s : nat := Eval vm_compute in N.to_nat %d%%N." % (start, em.index[start]))
    text = "\n".join(text) + "\n"
    facts = {"functions": len(fs), "synthetic_terminals": len(em.extra), "primitives": len(em.prims), "how": how,
             "bad_spots": sorted(set(nm.bad))[:20], "n_bad": text.count("FBad"),
             "override_hashes": {f["name"]: body_hash(f) for f in fs if f["name"] in overrides},
             "lexer_hashes": {f["name"]: body_hash(f) for f in fs if f["ret"] in ("Locate", "Span")},
             "hash": hashlib.sha256(text.encode()).hexdigest()[:16], "index": em.index, "kinds": kinds,
             "nonnull": len(cert), "nullable": sorted(set(em.index) - cert)[:40],
             "dir_neutral": len(dir_cert), "ver_neutral": len(ver_cert), "not_dir_neutral": sorted(set(em.index) - dir_cert)[:20]}
    # what each primitive is (for the executable interpretation of the grammar, gen/pegexec.py) and the call graph
    facts["prims"] = [list(d) for d, _ in sorted(em.prims.items(), key=lambda kv: kv[1])]
    def refs(e, acc):
        if isinstance(e, (list, tuple)):
            if len(e) >= 2 and e[0] == "call" and isinstance(e[1], str):
                acc.add(("c", e[1]))
            elif len(e) >= 3 and e[0] == "term":
                acc.add(("t", e[1], e[2]))
            elif len(e) >= 2 and e[0] == "lex":
                acc.add(("p", em.prims.get(("lex",) + tuple(e[1:]))))
            for x in e:
                refs(x, acc)
        return acc
    facts["refs"] = {f["name"]: sorted(map(list, refs(e, set())), key=repr) for f, e in bodies}
    facts["extra"] = [[h, t, i] for (h, t), i in sorted(em.extra.items(), key=lambda kv: kv[1])]
    return text, facts


def main():
    text, facts = generate()
    os.makedirs("/verif/coq/Gen", exist_ok=True)
    p = "/verif/coq/Gen/GenGrammar.v"
    if not os.path.exists(p) or open(p).read() != text:
        open(p, "w").write(text)
    return facts


if __name__ == "__main__" and len(sys.argv) > 1 and sys.argv[1] == "gen":
    f = main()
    print({k: v for k, v in f.items() if k not in ("index", "kinds", "lexer_hashes")})
