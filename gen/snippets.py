"""The accepted/rejected snippets of sv-parser-parser/src/tests.rs as a differential corpus."""
import re

def read(path="/repo/sv-parser-parser/src/tests.rs"):
    src = open(path).read()
    out = []
    pat = re.compile(r'test!\(\s*([A-Za-z_0-9()]+)\s*,\s*(r##"(.*?)"##|"((?:[^"\\]|\\.)*)")\s*,\s*([^;]*?)\)\s*;', re.S)
    for m in pat.finditer(src):
        parser = m.group(1)
        if m.group(3) is not None:
            text = m.group(3)
        else:
            text = bytes(m.group(4), "utf-8").decode("unicode_escape").encode("latin-1").decode("utf-8")
        ok = m.group(5).strip().startswith("Ok")
        out.append((parser, text, ok))
    return out

def sv_sources(limit=None):
    """(kind, source) usable through the public API: 'sv' | 'lib'"""
    res = []
    for parser, text, ok in read():
        if not ok:
            continue
        if parser == "many1(module_item)":
            res.append(("sv", "module __w;\n" + text + "\nendmodule\n"))
        elif parser == "source_text":
            res.append(("sv", text))
        elif parser == "library_text":
            res.append(("lib", text))
    return res[:limit] if limit else res

# programs with `begin_keywords regions that span several top-level descriptions and use, as identifiers, words
# reserved only in later standards (shared by the checks that compare runs of the parser: C12, C15)
KW_REGIONS = [
    '`begin_keywords "1364-2001"\nmodule a; wire logic; endmodule\nmodule b; reg bit, final; endmodule\nmodule c; wire x; endmodule\n`end_keywords\nmodule d; logic x; endmodule\n',
    '`begin_keywords "1364-1995"\nmodule a(do, final); input do; output final; endmodule\nmodule b; reg signed; wire logic; endmodule\n`end_keywords\n',
    'module z; endmodule\n`begin_keywords "1800-2005"\nmodule a; wire checker; endmodule\nmodule b; wire implements; endmodule\n`end_keywords\nmodule c; endmodule\n',
    '`begin_keywords "1364-2001-noconfig"\nmodule a; wire config, design; endmodule\nmodule b; wire library; endmodule\n`end_keywords\n',
    '`begin_keywords "1800-2009"\n`begin_keywords "1364-2001"\nmodule a; wire priority; endmodule\n`end_keywords\nmodule b; wire implements, soft; endmodule\nmodule c; endmodule\n`end_keywords\n',
]


if __name__ == "__main__":
    r = read()
    print(len(r), len(sv_sources()))
    import collections
    print(collections.Counter(p for p, _, _ in r).most_common(5))
