"""The accepted/rejected snippets of sv-parser-parser/src/tests.rs as a differential corpus."""
import re

def read(path="/repo/sv-parser-parser/src/tests.rs"):
    src = open(path).read()
    out = []
    pat = re.compile(r'test!\(\s*([A-Za-z_0-9()]+)\s*,\s*(r##"(.*?)"##|"((?:[^"\\]|\\.)*)")\s*,\s*([^;]*?)\)\s*;', re.S)
    for m in pat.finditer(src):
        parser = m.group(1)
        if m.group(3) is not None:
            text = m.group(3)
        else:
            text = bytes(m.group(4), "utf-8").decode("unicode_escape").encode("latin-1").decode("utf-8")
        ok = m.group(5).strip().startswith("Ok")
        out.append((parser, text, ok))
    return out

def sv_sources(limit=None):
    """(kind, source) usable through the public API: 'sv' | 'lib'"""
    res = []
    for parser, text, ok in read():
        if not ok:
            continue
        if parser == "many1(module_item)":
            res.append(("sv", "module __w;\n" + text + "\nendmodule\n"))
        elif parser == "source_text":
            res.append(("sv", text))
        elif parser == "library_text":
            res.append(("lib", text))
    return res[:limit] if limit else res

if __name__ == "__main__":
    r = read()
    print(len(r), len(sv_sources()))
    import collections
    print(collections.Counter(p for p, _, _ in r).most_common(5))
