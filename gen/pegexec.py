"""The regenerated grammar RUN (Nom/Exec.v: Peg.run with the oracles made concrete from Gen/GenPrims.v, extracted to OCaml)
against the real parser entry points on the same texts: trees (kinds, leaf offsets / lengths / lines) and verdicts must agree.
This is the behavioural tie of the grammar translator: the theorems quantify over the oracles, so they cover this instance."""
import os, time
from vlib import *
from framework import Violation, write_replay, sha
import dbgtree

START = {"pp": ("pp", "PreprocessorText"), "sv": ("sv", "SourceText"), "svi": ("sv_incomplete", "SourceText"),
         "lib": ("lib", "LibraryText"), "libi": ("lib_incomplete", "LibraryText")}
# memo capacities of the model runs: its memo is an association list, so a small one is much faster; results do not
# depend on the capacity (C17, Transp.v) -- the real parser runs with its own
CAP = {"pp": "128", "sv": "2048", "svi": "2048", "lib": "256", "libi": "256"}
_conv = None


def conv():
    global _conv
    if _conv is None:
        _conv = dbgtree.Conv()
    return _conv


def sexp(t, kinds):
    if t[0] == "L":
        return "L %d %d %d" % t[1:]
    return "( %d %s)" % (kinds[t[1]], "".join(sexp(c, kinds) + " " for c in t[2]))


def flatten_chains(t):
    """method_call() folds a chain a.b().c() into left-nested MethodCall nodes after parsing it as root (. body)+; the IR's
    construction templates cannot express a fold, and the pinned hand IR of method_call lists root, '.', body, ('.' body)*
    under ONE MethodCall node (same leaves, same order: what the tiling theorem needs).  The real tree is compared in that
    flat form: MethodCall(Root(Primary(FunctionSubroutineCall(SubroutineCall(MethodCall m)))), dot, body) = m's items, dot, body."""
    if t[0] == "L":
        return t
    kids = [flatten_chains(c) for c in t[2]]
    if t[1] == "MethodCall" and len(kids) == 3:
        x = kids[0]
        path = ["MethodCallRoot", "Primary", "FunctionSubroutineCall", "SubroutineCall", "MethodCall"]
        for name in path:
            if x[0] != "L" and x[1] == name and (len(x[2]) == 1 or name == "MethodCall"):
                if name == "MethodCall":
                    return (t[0], t[1], list(x[2]) + kids[1:])
                x = x[2][0]
            else:
                break
    return (t[0], t[1], kids)


def first_difference(a, b):
    ta, tb = a.split(), b.split()
    for i, (x, y) in enumerate(zip(ta, tb)):
        if x != y:
            return "token %d: real %s, model %s" % (i, " ".join(ta[max(0, i - 3):i + 4]), " ".join(tb[max(0, i - 3):i + 4]))
    return "lengths %d / %d" % (len(ta), len(tb))


def prepare(ctx, prop_name="regenerated:every span primitive of the grammar has an executable reading (Gen/GenPrims.v)"):
    """regenerate, check that nothing is unknown, build the extracted interpreter -> facts or None"""
    import svx_grammar, svx_prims, svx_lexers
    try:
        gf = svx_grammar.main()
        lf = svx_lexers.main()          # Gen/GenLexers.v: the tables the PLex primitives refer to
        pf = svx_prims.main()
        if lf["bad"] or len(lf["names"]) != 15:
            pf["unknown"] = list(pf["unknown"]) + ["token lexers: " + "; ".join(lf["bad"])[:200]]
        ok = not pf["unknown"] and gf["n_bad"] == 0 and pf["keyword_guard"]
        detail = "; ".join(pf["unknown"])[:300] or ("%d primitives, %d free-text lexers, grammar %s prims %s" % (
            pf["primitives"], len(pf["span_lexers"]), gf["hash"], pf["hash"]))
    except Exception as e:
        ctx.obl(prop_name, "regenerated", False, "translator failed: %r" % (e,))
        return None
    ctx.obl(prop_name, "regenerated", ok, detail)
    if not ok:
        return None
    try:
        build_peg()
    except Exception as e:
        ctx.obl("extraction:executable grammar builds", "regenerated", False, str(e)[-300:])
        return None
    return gf


def correspond(ctx, texts, tag, minimum=50, timeout=900, label=None):
    """texts: [(kind, text)] with kind in pp / sv / svi / lib / libi"""
    gf = prepare(ctx)
    label = label or "correspondence:regenerated grammar run by Peg.run (extracted) vs the real parser entry points: same trees, same verdicts, same thread-local state afterwards"
    if gf is None:
        ctx.obl(label, "correspondence", False, "the executable grammar could not be built")
        return
    kinds = gf["kinds"]
    seen, items = set(), []
    for k, t in texts:
        if (k, t) not in seen:
            seen.add((k, t))
            items.append((k, t))
    B = 12
    icases, mcases = [], []
    for b in range(0, len(items), B):
        ci, cm = Case("G%d" % b).add("want", "dbg", "state"), Case("G%d" % b)
        for k, t in items[b:b + B]:
            ci.add("run", "raw", k, hx(t))
            cm.add("parse", START[k][0], CAP[k], hx(t))
        icases.append(ci)
        mcases.append(cm)
    t0 = time.time()
    impl = run_harness("api", icases, tag + "-i", timeout)
    model = {}
    from concurrent.futures import ThreadPoolExecutor
    nsh = max(1, min(14, len(mcases)))
    with ThreadPoolExecutor(nsh) as ex:
        for r in ex.map(lambda i: run_peg(mcases[i::nsh], "%s-m%d" % (tag, i), timeout), range(nsh)):
            model.update(r)
    bad, agree, oks = None, 0, 0
    for b, (ci, cm) in enumerate(zip(icases, mcases)):
        chunk = items[b * B:(b + 1) * B]
        il = [l for l in (impl.get(ci.id) or []) if l.split()[0] in ("ok", "err", "dbg", "panic", "state")]
        mall = [l for l in (model.get(cm.id) or []) if l.split()[0] in ("tree", "err", "fuel", "model-abort", "model-fail", "state")]
        ml = [l for l in mall if not l.startswith("state ")]
        mstate = [l.strip() for l in mall if l.startswith("state ")]
        real, rstate = [], []
        j = 0
        while j < len(il):
            w = il[j].split()
            if w[0] == "state":
                rstate.append(il[j].strip())
                j += 1
            elif w[0] == "ok" and j + 1 < len(il) and il[j + 1].startswith("dbg "):
                real.append(("ok", int(w[1].split("=")[1]), il[j + 1].split()[1]))
                j += 2
            else:
                real.append((w[0], None, None))
                j += 1
        if len(rstate) == len(chunk) and len(mstate) == len(chunk):
            # the thread-local stacks left behind (IN_DIRECTIVE height, CURRENT_VERSION): equal after every parse, accepted or not
            for (k, t), a, b2 in zip(chunk, rstate, mstate):
                if a != b2:
                    bad = bad or (k, t, "thread-local state after the parse: real %s, regenerated grammar %s" % (a, b2))
                elif a != "state 0 []":
                    ctx.count("peg_nonempty_final_state")
        else:
            bad = bad or (chunk[0][0], chunk[0][1], "batch %s: %d / %d state lines for %d texts" % (ci.id, len(rstate), len(mstate), len(chunk)))
        if len(real) != len(chunk) or len(ml) != len(chunk):
            bad = bad or (chunk[0][0], chunk[0][1], "batch %s: %d real results, %d model results for %d texts (%s)" % (
                ci.id, len(real), len(ml), len(chunk), (ml[-1:] or il[-1:] or ["nothing"])[0][:120]))
            continue
        for (k, t), r, m in zip(chunk, real, ml):
            ctx.corr_cases += 1
            if r[0] == "ok":
                oks += 1
                ctx.corr_nontrivial.add(sha("peg" + k + t))
                try:
                    want = sexp(flatten_chains(conv().tree_of_debug(unhx(r[2]).decode("utf-8"), START[k][1])), kinds) + " @ %d" % r[1]
                except Exception as e:
                    bad = bad or (k, t, "reading the real tree: %r" % (e,))
                    continue
                got = m[5:].strip() if m.startswith("tree ") else m
                if " ".join(want.split()) == " ".join(got.split()):
                    agree += 1
                else:
                    bad = bad or (k, t, "the real parser accepts; the regenerated grammar gives %s" % (
                        first_difference(" ".join(want.split()), " ".join(got.split())) if m.startswith("tree ") else m))
            elif r[0] == "err":
                if m.strip() == "err":
                    agree += 1
                else:
                    bad = bad or (k, t, "the real parser rejects; the regenerated grammar gives %s" % m[:80])
            else:
                bad = bad or (k, t, "real parser: %s" % r[0])
    ok = bad is None and agree >= min(minimum, len(items))
    ctx.obl(label, "correspondence", ok,
            ("%s %r: %s" % bad) if bad else "%d texts agree (%d accepted), %.0fs" % (agree, oks, time.time() - t0))
    if bad:
        rp = write_replay(ctx, "peg-" + sha(bad[0] + bad[1])[:8], {"property": ctx.pid, "kind": "grammar-exec", "entry": bad[0], "text": bad[1], "why": bad[2],
                                                                   "correspondence": "Peg.run over Gen/GenGrammar.v + Gen/GenPrims.v vs the real parser"})
        ctx.viol.append(Violation("regenerated grammar and real parser differ on %s %r: %s" % bad, rp))
