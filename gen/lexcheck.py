"""The oracle hypotheses of the PEG interpreter, checked against the real hand-written lexers (hook 5, verif_lex).

The theorems of C01 / C14 / C15 quantify over every behaviour of the span primitives that meets a hypothesis:
  pos    a primitive that succeeds consumes at least one byte, and not more than there is   (C01_leaves_nonempty, C15_*)
  span   the Locate / Span it returns is exactly what it consumed: offset 0, that length, line 1   (C01: FLeaf = into_locate)
  stop   a token lexer does not consume a byte that no token can contain                    (C14_barrier)
Here each hypothesis is tested on the 28 hand lexers of sv-parser-parser with generated inputs; a failure is a concrete
(lexer, text) pair on which the real code leaves the class of behaviours the theorems are about."""
from framework import *

LOCATE = ["non_zero_unsigned_number_impl", "unsigned_number_impl", "binary_value_impl", "octal_value_impl", "hex_value_impl",
          "decimal_base_impl", "binary_base_impl", "octal_base_impl", "hex_base_impl", "x_number_impl", "z_number_impl",
          "string_literal_impl", "angle_bracket_literal_impl", "simple_identifier_pragma_impl", "c_identifier_impl",
          "escaped_identifier_impl", "simple_identifier_impl", "system_tf_identifier_impl"]
SPAN = ["define_argument", "define_argument_inner", "define_argument_str", "define_argument_paren", "define_argument_bracket",
        "define_argument_brace"]
NODE = ["one_line_comment", "block_comment", "macro_text", "source_description_not_directive"]
ALL = LOCATE + SPAN + NODE
# lexers of free text: they run up to a delimiter, so a stop byte inside is theirs (the C14 oracle avoids those spots)
FREE = {"string_literal_impl", "angle_bracket_literal_impl", "escaped_identifier_impl", "one_line_comment", "block_comment", "macro_text",
        "source_description_not_directive"} | set(SPAN)
STOPS = ["\x01", "\x0b", "\x7f", "\x1b", "\x08", "\u00a0", "\u2028"]

SEEDS = {
    "non_zero_unsigned_number_impl": ["1", "12_3", "9__", "10"], "unsigned_number_impl": ["0", "00_1", "123", "4_"],
    "binary_value_impl": ["01xz", "1_0?", "XZ", "0"], "octal_value_impl": ["017", "7_x", "zZ?"], "hex_value_impl": ["dead_BEEF", "0xZ", "a?"],
    "decimal_base_impl": ["'d", "'sD", "'Sd", "' d"], "binary_base_impl": ["'b", "'sB", "'SB"], "octal_base_impl": ["'o", "'so", "'SO"],
    "hex_base_impl": ["'h", "'sH", "'Sh"], "x_number_impl": ["x", "X__", "x_"], "z_number_impl": ["z", "Z_", "?", "?__"],
    "string_literal_impl": ['"abc"', '""', '"a\\"b"', '"a\\\\"', '"a\\\nb"', '"é"'], "angle_bracket_literal_impl": ["<a/b.h>", "<>", "<x y>"],
    "simple_identifier_pragma_impl": ["abc", "a1_$", "_x", "a.b"], "c_identifier_impl": ["abc", "_a1", "a$"],
    "escaped_identifier_impl": ["\\a+b ", "\\!@#\t", "\\x\n", "\\é "], "simple_identifier_impl": ["abc", "a1_$x", "_", "wire", "wirex"],
    "system_tf_identifier_impl": ["$display", "$1", "$$a", "$a.b"],
    "define_argument": ["a+b", "(a,b)", "\"s,)\"", "{a,b}", "[1:0]", "a // c"], "define_argument_inner": ["a,b", "(x)", "\"(\""],
    "define_argument_str": ['"a)"', '"\\""'], "define_argument_paren": ["(a,(b))", "()", "(\")\")"], "define_argument_bracket": ["[a,[b]]", "[]"],
    "define_argument_brace": ["{a,{b}}", "{}"], "one_line_comment": ["// c\n", "//", "// a\r\n", "//\\\nx"], "block_comment": ["/* c */", "/**/", "/*/ */", "/***/"],
    "macro_text": ["a b", "a \\\n b\n", "\"s\" // c\n", "x /* c */ y"], "source_description_not_directive": ["wire x;", "a / b", "\xe9 text"],
}
PIECES = list("019_xXzZ?aAfFgG$'\"\\/*()[]{},;<>.:+- \t\n\r`") + ["//", "/*", "*/", "\\\n", "'b", "'sd", "é", "\r\n", "wire", "1800"]


def inputs(r, name, n):
    out = []
    seeds = SEEDS[name]
    for s in seeds:
        out.append(s)
        for tail in ["", " ", "\n", "x", "_", "1", ";", "\"", "\\", "\x01", "\u00a0", "é", "//", "/*", "(", ")"]:
            out.append(s + tail)
        for k in range(len(s)):
            out.append(s[:k])
    while len(out) < n:
        k = r.random()
        if k < 0.4:
            s = r.choice(seeds)
            i = r.randint(0, len(s))
            s = s[:i] + r.choice(PIECES + STOPS) + s[i if r.random() < 0.5 else min(len(s), i + 1):]
        elif k < 0.6:
            s = r.choice(seeds) + "".join(r.choice(PIECES) for _ in range(r.randint(0, 5)))
        else:
            s = "".join(r.choice(PIECES + STOPS[:2]) for _ in range(r.randint(0, 10)))
        out.append(s)
    return out


def run(ctx, hyps, n_per=120):
    """hyps: subset of {"pos", "span", "stop"}; returns (first failure or None, number of successes seen)"""
    r = ctx.rng
    cases, meta = [], {}
    for name in ALL:
        c = Case("L" + name)
        lst = []
        for t in inputs(r, name, n_per):
            for d in (0, 1):
                c.add("lex", name, hx(t), str(d))
                lst.append((t, d))
        cases.append(c)
        meta[c.id] = (name, lst)
    impl = run_harness("lex", cases, "lexhyp", timeout=900)
    bad, nok = None, 0
    for c in cases:
        name, lst = meta[c.id]
        lines = [l for l in (impl.get(c.id) or []) if l.startswith("lex ")]
        if len(lines) != len(lst):
            bad = bad or (name, "", "the harness returned %d of %d results: %s" % (len(lines), len(lst), (impl.get(c.id) or [])[-1:]))
            continue
        for (t, d), l in zip(lst, lines):
            w = l.split()
            ctx.corr_cases += 1
            b = t.encode("utf-8")
            if w[2] in ("panic", "unknown"):
                bad = bad or (name, t, "lexer %s: %s" % (w[2], l[:120])); continue
            if w[2] == "fail":
                continue
            nok += 1
            ctx.corr_nontrivial.add(sha(name + t))
            n = int(w[3])
            if "pos" in hyps and not (1 <= n <= len(b)):
                bad = bad or (name, t, "succeeds consuming %d of %d bytes (a primitive must consume at least one byte and stay inside the text)" % (n, len(b)))
            if "span" in hyps:
                if w[4] == "-":
                    bad = bad or (name, t, "the node returned holds no single Locate")
                elif (int(w[4]), int(w[5]), int(w[6])) != (0, n, 1):
                    bad = bad or (name, t, "consumed %d bytes but returned Locate offset=%s len=%s line=%s" % (n, w[4], w[5], w[6]))
            if "stop" in hyps and name not in FREE:
                for sb in STOPS:
                    k = b.find(sb.encode("utf-8"))
                    if 0 <= k < n:
                        bad = bad or (name, t, "token lexer consumed %d bytes, across the byte %r at offset %d that no token can contain" % (n, sb, k))
    ctx.count("lexer_successes", nok)
    return bad, nok


def obligation(ctx, prop, hyps):
    bad, nok = run(ctx, hyps)
    what = {"pos": "a successful lexer consumes >= 1 byte, inside the text", "span": "it returns exactly the span it consumed",
            "stop": "token lexers never take a byte that no token can contain"}
    ctx.obl("oracle-hypotheses:the hand lexers of sv-parser-parser behave as the theorems assume (%s)" % "; ".join(what[h] for h in sorted(hyps)),
            "correspondence", bad is None and nok > 200, ("%s on %r: %s" % bad) if bad else ("%d successes" % nok))
    if bad:
        rp = write_replay(ctx, "lex-" + sha(bad[0] + bad[1])[:8], {"property": prop, "kind": "lexer-hypothesis", "lexer": bad[0], "text": bad[1], "why": bad[2]})
        ctx.viol.append(Violation("oracle hypothesis fails on the real lexer %s: %s" % (bad[0], bad[2]), rp))


# ----------------------------------------------------------------------------- the model of the token lexers
def model_eval(items):
    """items: [(lexer name, text)] -> [None | consumed] from Nom/HandLex.v + Gen/GenLexers.v, evaluated by coqc (veto off)"""
    import re as _re
    src = ["From SV Require Import HandLex GenLexers.", "From Coq Require Import List NArith.", "Import ListNotations.",
           "Definition enc (o : option nat) : N := match o with Some n => N.of_nat (S n) | None => 0%N end."]
    res = []
    for sh in range(0, len(items), 600):
        part = items[sh:sh + 600]
        body = ";\n ".join("enc (lex (fun _ => false) lx_%s [%s]%%N)" % (n, "; ".join(str(b) for b in t.encode("utf-8"))) for n, t in part)
        f = os.path.join(BUILD, "lexcases_%d.v" % os.getpid())
        open(f, "w").write("\n".join(src) + "\nEval vm_compute in [\n " + body + "].\n")
        rc, out = sh_coqc(f)
        if rc != 0:
            raise RuntimeError("coqc on the lexer cases failed: %s" % out[-400:])
        m = _re.search(r"=\s*\[(.*?)\]\s*(?:%N)?\s*:\s*list N", out, _re.S)
        vals = [int(x) for x in _re.findall(r"\d+", m.group(1).replace("%N", ""))] if m else []
        if len(vals) != len(part):
            raise RuntimeError("coqc returned %d values for %d cases" % (len(vals), len(part)))
        res += [None if v == 0 else v - 1 for v in vals]
        for ext in (".v", ".vo", ".vok", ".vos", ".glob"):
            try:
                os.remove(f[:-2] + ext)
            except OSError:
                pass
    return res


def sh_coqc(f):
    q = []
    for d in ["Base", "PP", "Nom", "Tree", "API", "Props", "Gen"]:
        q += ["-Q", os.path.join(COQ, d), "SV"]
    return sh(["coqc", "-noglob"] + q + [f], timeout=600)


def correspond(ctx, n_per=150):
    """the regenerated model of the 15 token lexers against the real functions (hook 5) on generated texts"""
    import svx_lexers, svx_keywords
    try:
        facts = svx_lexers.main()
        names = facts["names"]
        reserved = set(svx_keywords.main()["words"]["KEYWORDS_1800_2017"])
    except Exception as e:
        ctx.obl("regenerated:token lexers (15 bodies of the five known shapes)", "regenerated", False, "translator failed: %r" % (e,))
        return
    r = ctx.rng
    items, cases = [], []
    for name in names:
        c = Case("M" + name)
        for t in inputs(r, name, n_per):
            c.add("lex", name, hx(t), "0")
            items.append((name, t))
        cases.append(c)
    impl = run_harness("lex", cases, "lexmodel", timeout=900)
    real = []
    for c in cases:
        real += [l.split() for l in (impl.get(c.id) or []) if l.startswith("lex ")]
    bad = None
    if len(real) != len(items):
        bad = ("", "", "the harness returned %d of %d results" % (len(real), len(items)))
        model = []
    else:
        model = model_eval(items)
    agree = 0
    for (name, t), w, m in zip(items, real, model):
        ctx.corr_cases += 1
        if w[2] == "ok":
            ctx.corr_nontrivial.add(sha("m" + name + t))
            if m != int(w[3]):
                bad = bad or (name, t, "the real lexer consumes %s bytes, the regenerated model %s" % (w[3], m))
            else:
                agree += 1
        elif w[2] == "fail":
            if m is None:
                agree += 1
            elif facts["lexers"][name]["veto"] and t.encode("utf-8")[:m].decode("utf-8", "replace") in reserved:
                agree += 1           # the reserved-word veto (a parameter of the model)
            else:
                bad = bad or (name, t, "the real lexer fails, the regenerated model consumes %d bytes" % m)
        else:
            bad = bad or (name, t, "lexer %s" % " ".join(w[2:4]))
    ctx.obl("regenerated:token lexers (15 bodies of the five known shapes)", "regenerated", not facts["bad"] and len(names) == 15,
            "; ".join(facts["bad"])[:300] or facts["hash"])
    ctx.obl("correspondence:hand lexers (numbers, bases, identifiers) vs Nom/HandLex.v over the regenerated tables", "correspondence",
            bad is None and agree > 500, ("%s on %r: %s" % bad) if bad else "%d agree" % agree)
    if bad:
        rp = write_replay(ctx, "lexmodel-" + sha(bad[0] + bad[1])[:8], {"property": ctx.pid, "kind": "lexer-model", "lexer": bad[0], "text": bad[1], "why": bad[2]})
        ctx.viol.append(Violation("token lexer and its regenerated model differ: %s %r: %s" % bad, rp))
