(* Driver of the executable interpretation of the regenerated grammar:
     vpeg <cases> <out>
   case lines:  parse <start> <cap|none> <hex text>
   output:      tree <s-expression> @ <end position>  |  err  |  fuel ;  then  state <dir height> [<versions, bottom first>] *)
open Vutil

let buf = Buffer.create 65536
let pr fmt = Printf.bprintf buf fmt

let rec show (t : Tree.tree) =
  match t with
  | Tree.Leaf l -> pr "L %d %d %d " (int_of_n l.Tree.l_off) (int_of_n l.Tree.l_len) (int_of_n l.Tree.l_line)
  | Tree.Node (k, cs) -> pr "( %d " (int_of_n k); Stdlib.List.iter show cs; pr ") "

let version_name = function
  | Keywords.V_Ieee1364_1995 -> "Ieee1364_1995" | Keywords.V_Ieee1364_2001 -> "Ieee1364_2001"
  | Keywords.V_Ieee1364_2001Noconfig -> "Ieee1364_2001Noconfig" | Keywords.V_Ieee1364_2005 -> "Ieee1364_2005"
  | Keywords.V_Ieee1800_2005 -> "Ieee1800_2005" | Keywords.V_Ieee1800_2009 -> "Ieee1800_2009"
  | Keywords.V_Ieee1800_2012 -> "Ieee1800_2012" | Keywords.V_Ieee1800_2017 -> "Ieee1800_2017"
  | Keywords.V_Directive -> "Directive"

let start_of = function
  | "sv" -> GenGrammar.start_source_text
  | "sv_incomplete" -> GenGrammar.start_source_text_incomplete
  | "lib" -> GenGrammar.start_library_text
  | "lib_incomplete" -> GenGrammar.start_library_text_incomplete
  | "pp" -> GenGrammar.start_preprocessor_text
  | s -> failwith ("start " ^ s)

let run_case (c : case) =
  Stdlib.List.iter
    (fun l ->
      match l with
      | "parse" :: st :: cap :: t :: _ ->
          let text = unhex t in
          let inp = nlist_of_string text in
          let cap = if cap = "none" then None else Some (nat_of_int (int_of_string cap)) in
          let fuel = nat_of_int (4000 + 40 * Stdlib.String.length text) in
          let (r, fin) = Exec.exec GenPrims.span_defs GenPrims.prim_table GenGrammar.grammar cap (start_of st) inp fuel in
          (match r with
           | Peg.Ok (f, p) -> pr "tree "; Stdlib.List.iter show f; pr "@ %d\n" (int_of_nat p)
           | Peg.Err -> pr "err\n"
           | Peg.Fuel -> pr "fuel\n");
          (* the thread-local stacks the parse leaves behind: height of IN_DIRECTIVE, CURRENT_VERSION bottom first *)
          let x = fin.Peg.ps_aux in
          pr "state %d [%s]\n" (int_of_nat x.Exec.t_dir)
            (Stdlib.String.concat "," (Stdlib.List.rev_map version_name x.Exec.t_ver))
      | _ -> failwith "vpeg: unknown line")
    c.lines

let () =
  let cases = read_cases Sys.argv.(1) in
  Stdlib.List.iter
    (fun c ->
      pr "case %s\n" c.id;
      (try run_case c with
       | Stack_overflow -> pr "model-abort stack\n"
       | Failure m -> pr "model-fail %s\n" m);
      pr "end\n")
    cases;
  let oc = open_out Sys.argv.(2) in
  Buffer.output_buffer oc buf;
  close_out oc
