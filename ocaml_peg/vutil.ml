(* Helpers for the model drivers: conversions between OCaml ints/strings and the extracted
   Coq data types, hex tokens, case files. *)
open BinNums

let rec pos_of_int (i : int) : positive =
  if i <= 1 then Coq_xH
  else if i land 1 = 0 then Coq_xO (pos_of_int (i lsr 1))
  else Coq_xI (pos_of_int (i lsr 1))

let n_of_int (i : int) : coq_N = if i <= 0 then N0 else Npos (pos_of_int i)

let rec int_of_pos (p : positive) : int =
  match p with Coq_xH -> 1 | Coq_xO q -> 2 * int_of_pos q | Coq_xI q -> 2 * int_of_pos q + 1

let int_of_n (n : coq_N) : int = match n with N0 -> 0 | Npos p -> int_of_pos p

let rec nat_of_int (i : int) : Datatypes.nat =
  if i <= 0 then Datatypes.O else Datatypes.S (nat_of_int (i - 1))

let rec int_of_nat (n : Datatypes.nat) : int =
  match n with Datatypes.O -> 0 | Datatypes.S m -> 1 + int_of_nat m

(* bytes of an OCaml string as a list of N *)
let nlist_of_string (s : string) : coq_N list =
  let r = ref [] in
  for i = Stdlib.String.length s - 1 downto 0 do
    r := n_of_int (Char.code (Stdlib.String.get s (i))) :: !r
  done;
  !r

let string_of_nlist (l : coq_N list) : string =
  let b = Buffer.create 64 in
  Stdlib.List.iter (fun n -> Buffer.add_char b (Char.chr (int_of_n n land 255))) l;
  Buffer.contents b

(* code points (with UTF-8 decoding) of an OCaml string *)
let cps_of_string (s : string) : coq_N list =
  let n = Stdlib.String.length s in
  let r = ref [] in
  let i = ref 0 in
  while !i < n do
    let c = Char.code (Stdlib.String.get s (!i)) in
    let len, cp =
      if c < 0x80 then (1, c)
      else if c < 0xE0 then (2, c land 0x1F)
      else if c < 0xF0 then (3, c land 0x0F)
      else (4, c land 0x07)
    in
    let cp = ref cp in
    for k = 1 to len - 1 do
      if !i + k < n then cp := (!cp lsl 6) lor (Char.code (Stdlib.String.get s (!i + k)) land 0x3F)
    done;
    r := n_of_int !cp :: !r;
    i := !i + len
  done;
  Stdlib.List.rev !r

let string_of_cps (l : coq_N list) : string =
  let b = Buffer.create 64 in
  Stdlib.List.iter (fun n -> Buffer.add_utf_8_uchar b (Uchar.of_int (int_of_n n))) l;
  Buffer.contents b

let hex (s : string) : string =
  let b = Buffer.create (2 * Stdlib.String.length s + 1) in
  Buffer.add_char b 'x';
  Stdlib.String.iter (fun c -> Buffer.add_string b (Printf.sprintf "%02x" (Char.code c))) s;
  Buffer.contents b

let unhex (t : string) : string =
  if Stdlib.String.length t = 0 || (Stdlib.String.get t (0)) <> 'x' then failwith ("bad hex token " ^ t);
  let n = (Stdlib.String.length t - 1) / 2 in
  Stdlib.String.init n (fun i -> Char.chr (int_of_string ("0x" ^ Stdlib.String.sub t (1 + 2 * i) 2)))

type case = { id : string; lines : string list list }

let read_cases (path : string) : case list =
  let ic = open_in path in
  let cases = ref [] in
  let cur = ref None in
  (try
     while true do
       let line = input_line ic in
       let toks = Stdlib.List.filter (fun s -> s <> "") (Stdlib.String.split_on_char ' ' (Stdlib.String.trim line)) in
       match toks with
       | [] -> ()
       | "case" :: id :: _ -> cur := Some (id, [])
       | "end" :: _ -> (
           match !cur with
           | Some (id, ls) ->
               cases := { id; lines = Stdlib.List.rev ls } :: !cases;
               cur := None
           | None -> ())
       | _ -> (
           match !cur with Some (id, ls) -> cur := Some (id, toks :: ls) | None -> ())
     done
   with End_of_file -> close_in ic);
  Stdlib.List.rev !cases
