`define W(y) "\"" y y``y
`W(p)
