`begin_keywords "1364-1995"
module m;
  reg signed;
  wire [3:0] tagged;
endmodule
`end_keywords
