a "s"  b
