`define Q "inc.svh"
`define F `Q /* c */
`include `F
