module m; reg a; initial begin a = 1; end endmodule
