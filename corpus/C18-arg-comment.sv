`define ID(x) x
wire `ID(w // name
) ;
