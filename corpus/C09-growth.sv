`define F(x) `F(x x)
`F(1)
