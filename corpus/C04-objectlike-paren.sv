`define B 7
`ifdef B
`B
( a
`endif
b )
