`ifndef __LINE__
A
`elsif UNDEFINED
B
`endif
