module a (input x
`begin_keywords "1364-2001"
, input logic
`end_keywords
);
wire y;
endmodule
