(* C01 -- lossless CST.  The grammar is the one regenerated from /repo (Gen/GenGrammar.v, one entry
   per parser function); the theorems are about the PEG interpreter of Nom/Peg.v. *)
From SV Require HandLex GenLexers LexFacts.
From SV Require Import Peg PegFacts NonNull LeafPos GenGrammar.
Local Open Scope nat_scope.

(* Every one of the ~1300 parser functions lists, in its construction, each consuming
   sub-result exactly once and in the order of consumption; results that are left out come
   from peek / not / eof only; span primitives occur only where into_locate makes a leaf of
   them (or under peek / not).  Decided by computation on the regenerated grammar. *)
Theorem C01_grammar_wf : wf_grammar grammar = true.
Proof. vm_compute. reflexivity. Qed.

(* Hence, for every input text, every behaviour of the span primitives and hand lexers, every
   effect of the state actions, every memo capacity (any eviction) and every fuel: when a start
   production succeeds from the empty memo, the leaves of the returned forest, in order, start at
   offset 0, each starts where the previous one ends, the last ends where parsing stopped, and
   each carries the line number of its offset. *)
Theorem C01_tiling : forall (A : Type) prim act cond dirflag (inp : list N) fuel n cap (a : A) fo q st',
  n < length grammar ->
  run A prim act cond dirflag inp grammar fuel (FCall n) 0 [] (st0 A cap a) = (Ok fo q, st') ->
  tiles inp fo 0 q.
Proof.
  intros. eapply run_tiles; eauto using C01_grammar_wf.
Qed.

(* ... and the memo never holds anything else, whatever was evicted. *)
Theorem C01_memo_invariant : forall (A : Type) prim act cond dirflag (inp : list N) fuel span e p rf st,
  wf_exp grammar span e = true -> memo_inv A inp st ->
  memo_inv A inp (snd (run A prim act cond dirflag inp grammar fuel e p rf st)).
Proof. intros. eapply run_good; eauto using C01_grammar_wf. Qed.

(* the five start symbols are productions of the regenerated grammar *)
Theorem C01_start_symbols :
  Nat.ltb start_source_text (length grammar) && Nat.ltb start_source_text_incomplete (length grammar) &&
  Nat.ltb start_library_text (length grammar) && Nat.ltb start_library_text_incomplete (length grammar) &&
  Nat.ltb start_preprocessor_text (length grammar) = true.
Proof. vm_compute. reflexivity. Qed.

(* Leaves are non-empty.  Every into_locate(...) of the grammar stands on an expression that the
   non-nullability analysis (certificate re-checked in Coq, C15_cert_ok) shows to consume when it
   succeeds -- decided by computation on the regenerated grammar -- hence every leaf of every forest
   returned from the empty memo has positive length, memo hits included, provided the span primitives
   and hand lexers consume at least one byte when they succeed (the oracle hypothesis of C15). *)
Theorem C01_leaves_made_of_consuming_spans : leaves_nn_grammar grammar all_prims nonnull_cert = true.
Proof. vm_compute. reflexivity. Qed.

Theorem C01_leaves_nonempty : forall (A : Type) prim act cond dirflag (inp : list N),
  (forall i a p n, In i all_prims -> prim i a p = Some n -> 1 <= n) ->
  forall fuel n cap (a : A) fo q st',
  n < length grammar ->
  run A prim act cond dirflag inp grammar fuel (FCall n) 0 [] (mkPst A [] [] cap a) = (Ok fo q, st') ->
  Forall (fun l => (1 <= l_len l)%N) (flat_map leaves fo).
Proof.
  intros A prim act cond dirflag inp Hpos fuel n cap a fo q st' Hn Hrun.
  assert (CO : cert_ok grammar all_prims nonnull_cert = true) by (vm_compute; reflexivity).
  pose proof (run_leaf_pos A prim act cond dirflag inp grammar all_prims nonnull_cert CO Hpos
                C01_leaves_made_of_consuming_spans fuel (FCall n) 0 [] (mkPst A [] [] cap a) eq_refl) as H.
  rewrite Hrun in H. destruct H as (_ & _ & H); [intros ? ? ? ? ? []|intros ? ? ? ? ? []|exact H].
Qed.

(* for the token lexers written by hand (numbers, bases, identifiers; tables regenerated into Gen/GenLexers.v)
   the hypothesis is a theorem: a success consumes at least one byte and stays inside the text *)
Theorem C01_token_lexers_consume : forall veto l w n,
  In l GenLexers.token_lexers -> HandLex.lex veto l w = Some n -> 1 <= n <= length w.
Proof. exact LexFacts.token_lexer_consumes. Qed.

(* ------------------------------------------------------------------ the executable instance *)
(* Nom/Exec.v gives the oracles a concrete reading regenerated from the source (Gen/GenPrims.v: every tag / is_a / is_not /
   one_of / none_of of the productions, the bodies of the 13 free-text lexers as span-level expressions, the tables of the
   15 token lexers, the guarded tag of keyword()).  For that instance -- the one that is run against the real parser on
   every check -- the oracle hypothesis of C01_leaves_nonempty is a theorem: every primitive that succeeds consumes at
   least one byte and stays inside the text, for every text, position and thread-local state. *)
From SV Require Exec ExecFacts GenPrims.

Theorem C01_exec_primitives_certified :
  ExecFacts.cert_valid GenPrims.span_defs GenPrims.span_cert = true /\
  forallb (ExecFacts.pnn GenPrims.span_cert) GenPrims.prim_table = true /\
  length GenPrims.prim_table = length all_prims.
Proof. vm_compute. repeat split; reflexivity. Qed.

Theorem C01_exec_primitives_consume : forall inp sfuel i x p n,
  Exec.prim_exec GenPrims.span_defs GenPrims.prim_table inp sfuel i x p = Some n -> 1 <= n /\ p + n <= length inp.
Proof.
  intros inp sfuel i x p n. destruct C01_exec_primitives_certified as (C1 & C2 & _).
  exact (ExecFacts.prim_exec_consumes GenPrims.span_defs GenPrims.prim_table inp sfuel GenPrims.span_cert C1 C2 i x p n).
Qed.

(* no oracle left: whenever the executable grammar accepts, from the state init() leaves, the leaves tile what was
   consumed and none of them is empty *)
Theorem C01_exec_lossless : forall inp fuel n cap fo q st',
  n < length grammar ->
  Exec.exec GenPrims.span_defs GenPrims.prim_table grammar cap n inp fuel = (Ok fo q, st') ->
  tiles inp fo 0 q /\ Forall (fun l => (1 <= l_len l)%N) (flat_map leaves fo).
Proof.
  intros inp fuel n cap fo q st' Hn H. unfold Exec.exec in H. split.
  - eapply C01_tiling; eauto.
  - eapply C01_leaves_nonempty; eauto.
    intros i a p k _ Hp. apply C01_exec_primitives_consume in Hp. tauto.
Qed.

(* the hypotheses of C01_exec_lossless are met by real texts: the executable grammar accepts
   "module m; wire [3:0] w = 4'hF; endmodule" and consumes all 41 bytes *)
Example C01_exec_accepts_a_module :
  exists fo st', Exec.exec GenPrims.span_defs GenPrims.prim_table grammar None start_source_text [109; 111; 100; 117; 108; 101; 32; 109; 59; 32; 119; 105; 114; 101; 32; 91; 51; 58; 48; 93; 32; 119; 32; 61; 32; 52; 39; 104; 70; 59; 32; 101; 110; 100; 109; 111; 100; 117; 108; 101; 10]%N 2000 = (Ok fo 41, st').
Proof. eexists. eexists. vm_compute. reflexivity. Qed.
