(* C18 -- strip_comments.  Property theorems only; proofs live in PP/StripFacts.v. *)
From SV Require Import Eval EvalFacts StripFacts.

(* For every input, define table, file system, flag and depth: preprocessing with and without
   strip_comments ends in the same error, or both succeed with the same define table -- provided
   every `include names its file literally (the known class: a file name produced by a macro
   whose body holds a comment, see KNOWN_FINDINGS).  The flag is read by the Comment arm only;
   the proof is a simulation of the two event loops, state by state, through includes and macro
   expansion (induction on fuel). *)
Theorem C18_same_table_and_error : forall fuel c s p pre ignore rd idp,
  literal_includes c ->
  rel_res same_defs (pp_str fuel c s p pre ignore false rd idp) (pp_str fuel c s p pre ignore true rd idp).
Proof. exact pp_str_strip. Qed.

(* One step of the loop keeps skip flag, skip list, table and line trackers in lock step. *)
Theorem C18_step_lockstep : forall c rec,
  (forall s p d ig rd idp, rel_res same_defs (rec s p d ig false rd idp) (rec s p d ig true rd idp)) ->
  forall s p ig rd idp e x y, ok_ev e -> same_ctl x y ->
  rel_res same_ctl (step c rec s p ig false rd idp e x) (step c rec s p ig true rd idp e y).
Proof. exact step_strip. Qed.

(* Non-vacuity: "a/*c*/b" as text / comment / text: stripped run pushes a blank for the comment. *)
Example C18_example :
  let s := [97;47;42;99;42;47;98] in
  let t := Node 1234 [Node K_SourceDescription [Node K_SourceDescriptionNotDirective [Leaf (mkLoc 0 1 1)]];
                      Node K_SourceDescription [Node K_Comment [Leaf (mkLoc 1 5 1)]];
                      Node K_SourceDescription [Node K_SourceDescriptionNotDirective [Leaf (mkLoc 6 1 1)]]] in
  let c := mkCfg [(s, inl t)] [] [] 64 in
  literal_includes c /\
  match pp_str 3 c s [116] [] false false 0 0, pp_str 3 c s [116] [] false true 0 0 with
  | ROk (t1, _, _), ROk (t2, _, _) => t1 = s /\ t2 = [97;32;98]
  | _, _ => False
  end.
Proof.
  split.
  - intros txt t [H|[]]. injection H as _ <-. vm_compute. repeat constructor; intros; discriminate.
  - vm_compute. split; reflexivity.
Qed.

(* With strip_comments no comment text reaches the output through a Comment node: the event loop puts
   nothing, one blank (block comment) or one newline (one-line comment) in its place -- for every
   comment, position, table and flags.  (Comments inside the text of kept `define directives are part
   of the directive and stay, as the property says.) *)
Theorem C18_comment_never_copied : forall c rec s p ig rd idp t x x',
  kind t = K_Comment -> step3 c rec s p ig true rd idp (Enter t) x = ROk x' ->
  s_out x' = s_out x \/ s_out x' = [32] :: s_out x \/ s_out x' = [10] :: s_out x.
Proof. exact comment_stripped. Qed.
