(* C18 -- strip_comments.  Property theorems only; proofs live in PP/StripFacts.v. *)
From SV Require Import Eval EvalFacts StripFacts StripOut.

(* For every input, define table, file system, flag and depth: preprocessing with and without
   strip_comments ends in the same error, or both succeed with the same define table -- provided
   every `include names its file literally (the known class: a file name produced by a macro
   whose body holds a comment, see KNOWN_FINDINGS).  The flag is read by the Comment arm only;
   the proof is a simulation of the two event loops, state by state, through includes and macro
   expansion (induction on fuel). *)
Theorem C18_same_table_and_error : forall fuel c s p pre ignore rd idp,
  literal_includes c ->
  rel_res same_defs (pp_str fuel c s p pre ignore false rd idp) (pp_str fuel c s p pre ignore true rd idp).
Proof. exact pp_str_strip. Qed.

(* One step of the loop keeps skip flag, skip list, table and line trackers in lock step. *)
Theorem C18_step_lockstep : forall c rec,
  (forall s p d ig rd idp, rel_res same_defs (rec s p d ig false rd idp) (rec s p d ig true rd idp)) ->
  forall s p ig rd idp e x y, ok_ev e -> same_ctl x y ->
  rel_res same_ctl (step c rec s p ig false rd idp e x) (step c rec s p ig true rd idp e y).
Proof. exact step_strip. Qed.

(* Non-vacuity: "a/*c*/b" as text / comment / text: stripped run pushes a blank for the comment. *)
Example C18_example :
  let s := [97;47;42;99;42;47;98] in
  let t := Node 1234 [Node K_SourceDescription [Node K_SourceDescriptionNotDirective [Leaf (mkLoc 0 1 1)]];
                      Node K_SourceDescription [Node K_Comment [Leaf (mkLoc 1 5 1)]];
                      Node K_SourceDescription [Node K_SourceDescriptionNotDirective [Leaf (mkLoc 6 1 1)]]] in
  let c := mkCfg [(s, inl t)] [] [] 64 in
  literal_includes c /\
  match pp_str 3 c s [116] [] false false 0 0, pp_str 3 c s [116] [] false true 0 0 with
  | ROk (t1, _, _), ROk (t2, _, _) => t1 = s /\ t2 = [97;32;98]
  | _, _ => False
  end.
Proof.
  split.
  - intros txt t [H|[]]. injection H as _ <-. vm_compute. repeat constructor; intros; discriminate.
  - vm_compute. split; reflexivity.
Qed.

(* With strip_comments no comment text reaches the output through a Comment node: the event loop puts
   nothing, one blank (block comment) or one newline (one-line comment) in its place -- for every
   comment, position, table and flags.  (Comments inside the text of kept `define directives are part
   of the directive and stay, as the property says.) *)
Theorem C18_comment_never_copied : forall c rec s p ig rd idp t x x',
  kind t = K_Comment -> step3 c rec s p ig true rd idp (Enter t) x = ROk x' ->
  s_out x' = s_out x \/ s_out x' = [32] :: s_out x \/ s_out x' = [10] :: s_out x.
Proof. exact comment_stripped. Qed.

(* The OUTPUT of a whole run: with strip_comments it is the output without it in which the texts of
   some Comment nodes (of the trees the parser returned during the run: [cmt c]) are replaced by nothing,
   one blank or one newline -- everything else, in the same order, byte for byte; through includes
   and macro expansion, for every input, table, file system, flags and depths.  (And the tables are
   equal, as above.)  [brel P a b]: b is a with some P-chunks replaced by fillers. *)
Theorem C18_output_differs_only_at_comments : forall fuel c s p pre ignore rd idp,
  literal_includes c ->
  match pp_str fuel c s p pre ignore false rd idp, pp_str fuel c s p pre ignore true rd idp with
  | ROk (t1, _, d1), ROk (t2, _, d2) => d1 = d2 /\ brel (cmt c) t1 t2
  | ROk _, _ | _, ROk _ => False
  | _, _ => True
  end.
Proof.
  intros fuel c s p pre ignore rd idp HL. pose proof (pp_str_out fuel c s p pre ignore rd idp HL) as H.
  destruct (pp_str fuel c s p pre ignore false rd idp) as [[[t1 o1] d1]| | | |],
           (pp_str fuel c s p pre ignore true rd idp) as [[[t2 o2] d2]| | | |]; cbn in H; try contradiction; try exact I.
  exact H.
Qed.

(* every arm of the loop only appends to the output: two runs of a flag-blind step from states with the
   same control append the same chunks *)
Theorem C18_steps_only_append : forall f x y x' y',
  wo f -> same_ctl x y -> f x = ROk x' -> f y = ROk y' ->
  exists cs, s_out x' = cs ++ s_out x /\ s_out y' = cs ++ s_out y.
Proof. exact wo_two. Qed.

(* the relation is not trivial: it forces equal text outside the replaced chunks *)
Example C18_brel_example : forall P : bytes -> Prop, P [47;42;99;42;47] ->
  brel P [97;47;42;99;42;47;98] [97;32;98].
Proof.
  intros P HP. change (brel P (([] ++ [97]) ++ [47;42;99;42;47] ++ [98]) (([] ++ [97]) ++ [32] ++ [98])).
  rewrite !app_assoc. apply br_same. apply br_cmt; [|exact HP|right; left; reflexivity].
  apply br_same. constructor.
Qed.
