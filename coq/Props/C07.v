(* C07 -- history independence.  Theorems over the regenerated entry points / init() facts
   (Gen/GenStatics.v) and the per-thread model (API/Threads.v). *)
From SV Require Import Threads GenStatics.

(* All five public parser entries start with init() ... *)
Theorem C07_entries_call_init : entries_init entries = true.
Proof. vm_compute. reflexivity. Qed.

(* ... and init() clears every state cell there is, except the three whose content cannot
   influence a result (see Threads.exempt). *)
Theorem C07_init_clears_everything : init_complete cells init_clears = true.
Proof. vm_compute. reflexivity. Qed.

(* the recursion flags of all #[recursive_parser] functions fit the flag word nom-recursive is built with
   (its size is read from the features of the dependency in sv-parser-parser/Cargo.toml): otherwise a
   thread that has met more than that many of them over its history panics where a fresh thread parses *)
Theorem C07_recursive_flags_fit : recursive_fits recursive_parsers recursive_capacity = true.
Proof. vm_compute. reflexivity. Qed.

(* Hence: after ANY finite history of calls on the thread (accepted, rejected, aborted half-way,
   leaving a `begin_keywords region open ...), a call returns what it returns on a fresh thread --
   for arbitrary parser bodies whose result does not depend on nom-recursive's index table. *)
Theorem C07_history : forall (M Dir Ver RIdx In Out : Type) (m0 : M) (d0 : Dir) (v0 : Ver)
  (h : list (body_t M Dir Ver RIdx In Out * In)) (b : body_t M Dir Ver RIdx In Out) (i : In)
  (s0 : pstate M Dir Ver RIdx),
  ridx_irrelevant M Dir Ver RIdx In Out b ->
  fst (entry M Dir Ver RIdx In Out m0 d0 v0 b i (exec M Dir Ver RIdx In Out m0 d0 v0 h s0)) =
  fst (entry M Dir Ver RIdx In Out m0 d0 v0 b i s0).
Proof. exact history_independent. Qed.

(* Non-vacuity: a body that reads and pollutes memo, directive and version state. *)
Example C07_example :
  let b : body_t nat nat nat nat nat nat := fun i s => let '(m, d, v, r) := s in (i + m + d + v, (m + 7, d + 1, v + 3, r + 1)) in
  fst (entry nat nat nat nat nat nat 0 0 0 b 5 (exec nat nat nat nat nat nat 0 0 0 [(b, 1); (b, 2)] (9, 9, 9, 9))) = 5.
Proof. vm_compute. reflexivity. Qed.
