(* C16 -- tree traversal.  Property theorems only; proofs live in Tree/IterFacts.v. *)
From SV Require Import Iter IterFacts.
From Coq Require Import Lia.

(* Iterating a node yields the node, then all its descendants in child order (pre-order),
   for every tree; more fuel changes nothing (the iterator is exhausted). *)
Theorem C16_iter : forall t fuel,
  (size t < fuel)%nat -> iter_run fuel (node_into_iter t) = preorder t.
Proof. exact node_iter_preorder. Qed.

Theorem C16_iter_new : forall nodes fuel,
  (fsize nodes < fuel)%nat -> iter_run fuel (iter_new nodes) = flat_map preorder nodes.
Proof. exact iter_new_preorder. Qed.

(* The event view is exactly the Enter/Leave bracketing of the tree ... *)
Theorem C16_events : forall t fuel,
  (2 * size t < fuel)%nat -> ev_run fuel (iter_event (node_into_iter t)) = events t.
Proof. exact node_events. Qed.

Theorem C16_events_new : forall nodes fuel,
  (2 * fsize nodes < fuel)%nat ->
  ev_run fuel (iter_event (iter_new nodes)) = flat_map events nodes.
Proof. exact iter_events. Qed.

(* ... which is properly nested (one Enter, one matching Leave per node) ... *)
Theorem C16_nested : forall t, nested (events t).
Proof. exact nested_events. Qed.

Theorem C16_events_length : forall t, length (events t) = (2 * size t)%nat.
Proof. exact events_length. Qed.

(* ... and whose Enter sequence is the plain iteration. *)
Theorem C16_enters : forall t, enters (events t) = preorder t.
Proof. exact enters_events. Qed.

(* unwrap_node! returns the first node of the requested kinds in that order. *)
Theorem C16_unwrap : forall ks t fuel,
  (size t < fuel)%nat ->
  unwrap_node ks (iter_run fuel (node_into_iter t)) =
  find (fun n => existsb (N.eqb (kind n)) ks) (preorder t).
Proof. exact unwrap_node_spec. Qed.

(* get_str_trim (with the depth counter of the fix) = from the first to the last leaf that is
   not under a WhiteSpace node, for every tree. *)
Theorem C16_trim : forall ws t,
  get_str_trim_range ws true (events t) = extend None (nws_leaves ws t).
Proof. exact get_str_trim_counter_spec. Qed.

Theorem C16_trim_first_last : forall l ls,
  extend None (l :: ls) = Some (l_off l, (l_off (last ls l) + l_len (last ls l))%N).
Proof. exact extend_first_last. Qed.

(* The boolean flag of the pinned tree is only right when WhiteSpace nodes do not nest ... *)
Theorem C16_trim_flag_partial : forall ws t,
  ws_flat ws t -> get_str_trim_range ws false (events t) = extend None (nws_leaves ws t).
Proof. exact get_str_trim_flag_spec. Qed.

(* ... and wrong otherwise (D13, repaired by a fix: commit): kind 1 = WhiteSpace, kind 2 = a
   directive inside it whose own keyword has trailing white space. *)
Example C16_trim_flag_refuted :
  let l o := Leaf (mkLoc o 1 1) in
  let t := Node 3 [l 0; Node 1 [Node 2 [l 1; Node 1 [l 2]; l 3]]]%N in
  get_str_trim_range 1 false (events t) = Some (0, 4)%N /\
  get_str_trim_range 1 true (events t) = Some (0, 1)%N.
Proof. vm_compute. split; reflexivity. Qed.

Example C16_example :
  let l o := Leaf (mkLoc o 1 1) in
  let t := Node 3 [l 0; Node 4 []; Node 1 [l 1]; Node 5 [Node 6 [l 2]]]%N in
  map kind (iter_run 20 (node_into_iter t)) = [3; 0; 4; 1; 0; 5; 6; 0]%N /\
  length (ev_run 40 (iter_event (node_into_iter t))) = 16%nat.
Proof. vm_compute. split; reflexivity. Qed.

(* ... and this holds for EVERY iterator state, not only a fresh one: whatever nodes are pending
   (an iterator made from several nodes, or advanced by any number of steps), plain iteration yields
   the pre-orders of the pending nodes in the order they will be popped, and the event view of the same
   state yields their bracketings -- so its Enter sequence is the plain iteration. *)
Theorem C16_any_iterator_state : forall (st : list tree) fuel,
  (2 * fsize (rev st) < fuel)%nat ->
  iter_run fuel st = flat_map preorder (rev st) /\
  ev_run fuel (iter_event st) = flat_map events (rev st) /\
  enters (ev_run fuel (iter_event st)) = iter_run fuel st.
Proof.
  intros st fuel H.
  assert (E : st = iter_new (rev st)) by (unfold iter_new; now rewrite rev_involutive).
  assert (A : iter_run fuel st = flat_map preorder (rev st)).
  { rewrite E at 1. apply iter_new_preorder. lia. }
  assert (B : ev_run fuel (iter_event st) = flat_map events (rev st)).
  { rewrite E at 1. now apply iter_events. }
  split; [exact A|]. split; [exact B|]. rewrite A, B.
  generalize (rev st) as l. clear. induction l as [|x r IH]; [reflexivity|].
  cbn [flat_map]. rewrite enters_app, enters_events, IH. reflexivity.
Qed.
