(* C05 -- macro usages.  Property theorems only; proofs live in PP/MacroFacts.v. *)
From SV Require StringFacts.
From SV Require Import Eval EvalFacts MacroFacts SplitFacts.

(* Binding of formals: the actual if written, the default (or nothing) for an empty one, the
   default for an omitted one; the first formal left without value is the one reported. *)
Theorem C05_binding : forall formals actuals,
  bind_args formals actuals =
  match first_missing formals (values formals actuals) with
  | Some n => inl n
  | None => inr (zip_vals formals (values formals actuals))
  end.
Proof. exact bind_args_spec. Qed.

(* The four outcomes that do not expand anything, for every usage node, text, table and depth
   within the limit. *)
Theorem C05_undefined : forall c rec x s p d ig st rd idp sym name rest id,
  children x = sym :: name :: rest -> identifier name s = Some id -> cfg_limit c <? rd = false ->
  def_get d id = None -> resolve_usage c rec x s p d ig st rd idp = RErr (EDefineNotFound id).
Proof. exact resolve_not_found. Qed.

Theorem C05_no_argument_list : forall c rec x s p d ig st rd idp sym name rest id df,
  children x = sym :: name :: rest -> identifier name s = Some id -> cfg_limit c <? rd = false ->
  def_get d id = Some (Some df) -> d_args df <> [] -> rest = [] ->
  resolve_usage c rec x s p d ig st rd idp = RErr (EDefineNoArgs (d_id df)).
Proof. intros. eapply resolve_no_args; eassumption. Qed.

Theorem C05_missing_argument : forall c rec x s p d ig st rd idp sym name rest id df a opn loaa cls,
  children x = sym :: name :: rest -> identifier name s = Some id -> cfg_limit c <? rd = false ->
  def_get d id = Some (Some df) -> rest = [opn; loaa; cls] ->
  first_missing (d_args df) (values (d_args df) (actual_args s (children loaa) None)) = Some a ->
  resolve_usage c rec x s p d ig st rd idp = RErr (EDefineArgNotFound a).
Proof. intros. eapply resolve_arg_not_found; eassumption. Qed.

Theorem C05_defined_without_body : forall c rec x s p d ig st rd idp sym name rest id,
  children x = sym :: name :: rest -> identifier name s = Some id -> cfg_limit c <? rd = false ->
  def_get d id = Some None -> resolve_usage c rec x s p d ig st rd idp = ROk None.
Proof. exact resolve_without_body_entry. Qed.

Theorem C05_empty_body : forall c rec x s p d ig st rd idp sym name rest id df,
  children x = sym :: name :: rest -> identifier name s = Some id -> cfg_limit c <? rd = false ->
  def_get d id = Some (Some df) -> d_text df = None -> (d_args df = [] \/ rest <> []) ->
  first_missing (d_args df) (values (d_args df)
     (match rest with _ :: loaa :: _ => actual_args s (children loaa) None | _ => [] end)) = None ->
  resolve_usage c rec x s p d ig st rd idp = ROk None.
Proof. intros. eapply resolve_no_body; eassumption. Qed.

(* Otherwise the body, with the formals substituted, is preprocessed again with the table in
   force at the point of use, and the table that run returns is the one handed on. *)
Theorem C05_expands_with_current_table : forall c rec x s p d ig st rd idp sym name rest id df body org m,
  children x = sym :: name :: rest -> identifier name s = Some id -> cfg_limit c <? rd = false ->
  def_get d id = Some (Some df) -> d_text df = Some (body, org) -> (d_args df = [] \/ rest <> []) ->
  bind_args (d_args df) (match rest with _ :: loaa :: _ => actual_args s (children loaa) None | _ => [] end) = inr m ->
  resolve_usage c rec x s p d ig st rd idp =
  bind (rec (substitute m body ++ (match d_args df with [] => get_str_all rest s | _ => [] end)) p d ig st rd idp)
       (fun r => let '(text, _, nd) := r in ROk (Some (text, org, nd))).
Proof. intros. eapply resolve_uses_current_table; eassumption. Qed.

(* split_text and the substitution on IEEE 22.5.1's own examples (computed). *)
Example C05_example_split :
  split_text [32;97;43;98;32;34;97;34;32;96;34;97;96;34;32;47;47;99] =
  [[]; [97]; [43]; [98]; [32]; [34;97;34]; [32;96;34]; []; [97]; [96;34]; [32]].
Proof. vm_compute. reflexivity. Qed.

Example C05_example_subst :   (* body  a``b `"a`" "a"  with a := X, b := Y *)
  substitute [([97], [88]); ([98], [89])] [32;97;96;96;98;32;96;34;97;96;34;32;34;97;34] =
  [88;89;32;34;88;34;32;34;97;34].
Proof. vm_compute. reflexivity. Qed.

(* Whole-word substitution.  On a body without quote, slash, backslash and backtick (identifiers,
   numbers, operators, brackets, blanks), for every binding of the formals: the body is cut into its
   maximal runs of identifier characters [A-Za-z0-9_] and of other characters (leading blanks
   dropped); a run that is the name of a formal is replaced by the formal's value, every other run
   is copied unchanged.  So a formal `a` is never replaced inside `ab`, `a1` or `_a`, and text that
   merely contains the name is untouched. *)
Theorem C05_split_plain : forall body,
  forallb plain body = true -> split_text body = runs (drop_while is_ascii_ws body).
Proof. exact split_text_plain. Qed.

Theorem C05_whole_word_substitution : forall m body,
  forallb plain body = true ->
  substitute m body = concat_bytes (map (subst_word m) (runs (drop_while is_ascii_ws body))).
Proof. exact substitute_plain. Qed.

Example C05_whole_word_example :   (* body " a+ab*_a a1 a" with a := X: only the two free-standing a's are replaced *)
  forallb plain [32;97;43;97;98;42;95;97;32;97;49;32;97] = true /\
  substitute [([97], [88])] [32;97;43;97;98;42;95;97;32;97;49;32;97] = [88;43;97;98;42;95;97;32;97;49;32;88].
Proof. vm_compute. split; reflexivity. Qed.

(* Ordinary string literals.  A body made of plain stretches and string literals (no quote, backslash or
   backtick inside) is cut into the runs of each plain stretch and ONE piece per literal, quotes included
   ([pieces_from]); that piece is copied as it stands -- whatever is inside, a formal's name included. *)
Theorem C05_string_literal_is_one_piece : forall l c0 rest,
  forallb StringFacts.seg_ok l = true -> StringFacts.segs_bytes l = c0 :: rest -> is_ascii_ws c0 = false -> (c0 =? 92) = false ->
  split_text (StringFacts.segs_bytes l) = StringFacts.pieces_from [] false l.
Proof. exact StringFacts.split_text_segs. Qed.

Theorem C05_string_literals_untouched : forall m s,
  forallb StringFacts.str_ok s = true -> amap_get m (34 :: s ++ [34]) = None ->
  StringFacts.piece_out m (34 :: s ++ [34]) = 34 :: s ++ [34].
Proof. exact StringFacts.literal_untouched. Qed.

(* x "x y" x  with x := 1  gives  1 "x y" 1 *)
Example C05_string_example :
  substitute [([120], [49])] [120; 32; 34; 120; 32; 121; 34; 32; 120] = [49; 32; 34; 120; 32; 121; 34; 32; 49] /\
  split_text [120; 32; 34; 120; 32; 121; 34; 32; 120] =
    StringFacts.pieces_from [] false [StringFacts.SPlain [120; 32]; StringFacts.SStr [120; 32; 121]; StringFacts.SPlain [32; 120]].
Proof. split; vm_compute; reflexivity. Qed.
