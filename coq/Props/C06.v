(* C06 -- directive-free text passes through unchanged.  Property theorems only; proofs live in
   PP/FlatFacts.v (and PP/OriginFacts.v for the origin map). *)
From SV Require Import Eval EvalFacts FlatFacts OriginFacts.
From Coq Require Import Lia.

(* For every source text s and every pp tree of s that holds only text runs, comments, string
   literals and escaped identifiers (each one leaf: the class D6 -- a string literal or escaped
   identifier carrying trailing white space -- is excluded) whose leaves tile s: the event loop,
   with strip_comments off, at resolve depth 0 (the text of a file or of the caller's string, not a
   macro expansion) and for any other flags, include depth, define table and parse/file tables,
   returns exactly s, leaves the define table alone, and maps every output byte i to (path, i). *)
Theorem C06_identity : forall c rec s p ignore idp kroot its d,
  inert_kind kroot ->
  Forall (fun kl => item_kind_ok (fst kl) = true) its ->
  tiles_from 0 (map snd its) (blen s) ->
  exists x', run_events (step c rec s p ignore false 0 idp) (events (flat_tree kroot its)) (st0 d) = ROk x' /\
             s_defs x' = d /\ out_text x' = s /\
             forall i, i < blen s -> pt_origin (run_ops true (out_ops x')) i = OSome p i.
Proof.
  intros c rec s p ignore idp kroot its d Hr Hk Ht.
  destruct (flat_identity c rec s p ignore idp kroot its d Hr Hk) as (x' & R & D & T & O).
  exists x'. split; [exact R|]. split; [exact D|]. split.
  - rewrite T. rewrite <- (map_map snd (lstr s)). apply tiles_text. exact Ht.
  - intros i Hi. rewrite O.
    replace (map (fun kl => Push (blen (lstr s (snd kl))) (Some (p, lrange (snd kl)))) its)
      with (map (push_of s p) (map snd its)) by (rewrite map_map; reflexivity).
    rewrite origin_refines.
    rewrite (oplen_tiles s p (map snd its) 0 Ht), N.sub_0_r.
    destruct (N.ltb_spec i (blen s)); [|lia]. unfold prov_at_ops.
    rewrite (prov_tiles s p (map snd its) 0 i Ht) by lia. reflexivity.
Qed.

(* The leaves of the items concatenate to the text whenever they tile it. *)
Theorem C06_tiles_concat : forall s ls, tiles_from 0 ls (blen s) -> concat_bytes (map (lstr s) ls) = s.
Proof. exact tiles_text. Qed.

(* Non-vacuity: "ab \"s\";//c\n" as text / string / text / comment. *)
Example C06_example :
  let s := [97;98;32;34;115;34;59;47;47;99;10] in
  let its := [(K_SourceDescriptionNotDirective, mkLoc 0 3 1); (K_StringLiteral, mkLoc 3 3 1);
              (K_SourceDescriptionNotDirective, mkLoc 6 1 1); (K_Comment, mkLoc 7 4 1)] in
  tiles_from 0 (map snd its) (blen s) /\
  match run_events (step (mkCfg [] [] [] 64) (fun _ _ _ _ _ _ _ => RFuel) s [116] false false 0 0)
                   (events (flat_tree 1234 its)) (st0 []) with
  | ROk x => out_text x = s
  | _ => False
  end.
Proof. vm_compute. repeat split; reflexivity. Qed.
