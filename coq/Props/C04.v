(* C04 -- conditional compilation.  Property theorems only; proofs live in PP/EvalFacts.v. *)
From SV Require Import Eval EvalFacts SkipCheck SkipFacts SkipTree.

(* IEEE 1800-2017 22.6 decision rule, for every chain shape (any number of `elsif, with or
   without `else), every define table and every source text: entering an `ifdef / `ifndef puts
   on the skip list the keywords and names of the chain and every branch body EXCEPT the first
   branch whose condition holds (the `else body if none holds) -- outside the known class D4
   (a predefined name in a chain with `elsif, see C04_D4_refuted). *)
Theorem C04_select : forall neg s c x,
  wf_chain c -> ids_present s c -> no_predef s c ->
  let chosen := first_true (conds s (s_defs x) neg c) in
  cond_enter neg s (Node (if neg then K_IfndefDirective else K_IfdefDirective) (chain_children c)) x =
  ROk (push_all (expected_skips c chosen) x).
Proof. exact cond_enter_spec. Qed.

(* A name counts as defined when the caller supplied it, with or without a body. *)
Theorem C04_caller_defined : forall pre n,
  existsb (fun kv => bytes_eqb (fst kv) n) pre = true -> def_contains (seed_defines pre) n = true.
Proof. exact seed_defines_contains. Qed.

(* `define / `undef act on the table as on a finite map. *)
Theorem C04_define_then_defined : forall d k v, def_get (def_insert d k v) k = Some v.
Proof. exact def_get_insert_same. Qed.
Theorem C04_undef_then_undefined : forall d k, def_get (def_remove d k) k = None.
Proof. exact def_get_remove_same. Qed.
Theorem C04_define_other : forall d k v k', k <> k' -> def_get (def_insert d k v) k' = def_get d k'.
Proof. exact def_get_insert_other. Qed.
Theorem C04_undef_other : forall d k k', k <> k' -> def_get (def_remove d k) k' = def_get d k'.
Proof. exact def_get_remove_other. Qed.

(* Non-vacuity and the known finding D4: `ifndef __LINE__ .. `elsif U .. `endif with U undefined.
   The text is "__LINE__U"; leaves carry (offset, length, line). *)
Definition ex_src : bytes := [95;95;76;73;78;69;95;95;85].
Definition ex_id (o l : N) : tree :=
  Node K_TextMacroIdentifier [Node 1000 [Node K_SimpleIdentifier [Leaf (mkLoc o l 1)]]].
Definition ex_leafnode (k o : N) : tree := Node k [Leaf (mkLoc o 1 1)].
Definition ex_chain (ifo ifl : N) : chain :=
  mkChain (ex_leafnode K_Symbol 20) (ex_leafnode K_Keyword 21) (ex_id ifo ifl)
          (ex_leafnode K_IfndefGroupOfLines 30)
          [mkElsif (ex_leafnode K_Symbol 40) (ex_leafnode K_Keyword 41) (ex_id 8 1)
                   (ex_leafnode K_ElsifGroupOfLines 50)]
          None [ex_leafnode K_Symbol 60; ex_leafnode K_Keyword 61].

Example C04_example :   (* `ifndef U .. `elsif U ..: U undefined -> first branch survives *)
  exists x', cond_enter true ex_src (Node K_IfndefDirective (chain_children (ex_chain 8 1))) (st0 []) = ROk x' /\
             existsb (tree_eqb (ex_leafnode K_IfndefGroupOfLines 30)) (s_nodes x') = false /\
             existsb (tree_eqb (ex_leafnode K_ElsifGroupOfLines 50)) (s_nodes x') = true.
Proof. eexists. vm_compute. repeat split; reflexivity. Qed.

Example C04_D4_refuted :  (* `ifndef __LINE__ .. `elsif U ..: nothing should survive; the `elsif body does *)
  exists x', cond_enter true ex_src (Node K_IfndefDirective (chain_children (ex_chain 0 8))) (st0 []) = ROk x' /\
             first_true (conds ex_src [] true (ex_chain 0 8)) = 2%nat /\
             existsb (tree_eqb (ex_leafnode K_ElsifGroupOfLines 50)) (s_nodes x') = false.
Proof. eexists. vm_compute. repeat split; reflexivity. Qed.

(* A subtree on the skip list is walked without any effect: when the loop meets, with skip off, a
   listed node t whose kind has no Leave arm (keywords, names and bodies of a chain) and none of
   whose proper descendants is listed, the state after Leave t is the state before Enter t --
   nothing is emitted, no origin recorded, the define table, the line trackers and the skip list
   are unchanged -- whatever the subtree contains (directives, includes, macro usages, text),
   for every configuration, flags and depths.  The hypothesis is [SkipCheck.erasable], evaluated by
   the model on every listed node of every correspondence case. *)
Theorem C04_skipped_subtree_no_effect : forall c rec s p ignore strip rdepth idepth t x,
  erasable x t = true ->
  run_events (step c rec s p ignore strip rdepth idepth) (events t) x = ROk x.
Proof. exact skipped_no_effect. Qed.

(* ... and so is a run of consecutive listed siblings (`elsif NAME body of an unselected branch) *)
Theorem C04_skipped_siblings_no_effect : forall c rec s p ignore strip rdepth idepth ts x,
  forallb (erasable x) ts = true ->
  run_events (step c rec s p ignore strip rdepth idepth) (flat_map events ts) x = ROk x.
Proof. exact skipped_siblings. Qed.

(* non-vacuity: after entering the chain of C04_example the unselected `elsif body is erasable *)
Example C04_erasable_example :
  exists x', cond_enter true ex_src (Node K_IfndefDirective (chain_children (ex_chain 8 1))) (st0 []) = ROk x' /\
             erasable x' (ex_leafnode K_ElsifGroupOfLines 50) = true.
Proof. eexists. vm_compute. split; reflexivity. Qed.

(* The loop is a tree walk that does not visit listed subtrees.  [run_tree] performs Enter, the
   children in order, Leave -- except that a listed node met with skip off is jumped over, subtree
   and all.  Whenever the per-case hypothesis holds along the run (every listed node met with skip
   off is erasable: [skip_hyp_ok], the function the model evaluates beside every correspondence
   case), the event loop over the whole tree computes exactly that walk: same output, origins,
   table, line trackers, same error. *)
Theorem C04_loop_is_tree_walk : forall c rec s p ignore strip rdepth idepth t x,
  fst (skip_hyp_ok (step c rec s p ignore strip rdepth idepth) (events t) x) = true ->
  run_events (step c rec s p ignore strip rdepth idepth) (events t) x =
  run_tree c rec s p ignore strip rdepth idepth t x.
Proof. exact loop_is_tree_walk. Qed.
