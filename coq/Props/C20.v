(* C20 -- entry points agree.  The wrappers are the ones regenerated from /repo (Gen/GenWiring.v);
   the cores (file reading, the body of preprocess_str, the four parsers) are arbitrary.  Every
   equality below holds by unfolding the wiring: it fails to check as soon as a wrapper passes a
   flag, table or depth in the wrong position. *)
From SV Require Import Wiring GenWiring.

Section C20.
Variables D I T Tree Err : Type.
Variable k : cores D I T Tree Err.

(* preprocess(path, ..) = preprocess_str(contents of path, path, ..) for every flag combination,
   File / ReadUtf8 when the file cannot be read. *)
Theorem C20_preprocess_file_str : forall path d inc sc ig,
  w_preprocess D I T Tree Err k (mkPP path d inc sc ig) =
  match k_read k path with
  | FOk s => w_preprocess_str D I T Tree Err k (mkPS s path d inc ig sc 0 0)
  | FMissing => inr (k_err_file k path)
  | FNotUtf8 => inr (k_err_utf8 k path)
  end.
Proof. reflexivity. Qed.

Theorem C20_parse_sv_file_str : forall path d inc ig ai,
  w_parse_sv D I T Tree Err k (mkPA path d inc ig ai) =
  match k_read k path with
  | FOk s => w_parse_sv_str D I T Tree Err k (mkPSA s path d inc ig ai)
  | FMissing => inr (k_err_file k path)
  | FNotUtf8 => inr (k_err_utf8 k path)
  end.
Proof. intros. unfold w_parse_sv, w_parse_sv_str, w_preprocess, w_preprocess_inner, with_file. cbn.
       destruct (k_read k path); reflexivity. Qed.

Theorem C20_parse_lib_file_str : forall path d inc ig ai,
  w_parse_lib D I T Tree Err k (mkPA path d inc ig ai) =
  match k_read k path with
  | FOk s => w_parse_lib_str D I T Tree Err k (mkPSA s path d inc ig ai)
  | FMissing => inr (k_err_file k path)
  | FNotUtf8 => inr (k_err_utf8 k path)
  end.
Proof. intros. unfold w_parse_lib, w_parse_lib_str, w_preprocess, w_preprocess_inner, with_file. cbn.
       destruct (k_read k path); reflexivity. Qed.

(* one step = two steps with strip_comments off *)
Theorem C20_parse_sv_two_step : forall path d inc ig ai,
  w_parse_sv D I T Tree Err k (mkPA path d inc ig ai) =
  and_then (w_preprocess D I T Tree Err k (mkPP path d inc false ig))
           (fun r => w_parse_sv_pp D I T Tree Err k (mkPPA (fst r) (snd r) ai)).
Proof. reflexivity. Qed.

Theorem C20_parse_sv_str_two_step : forall s path d inc ig ai,
  w_parse_sv_str D I T Tree Err k (mkPSA s path d inc ig ai) =
  and_then (w_preprocess_str D I T Tree Err k (mkPS s path d inc ig false 0 0))
           (fun r => w_parse_sv_pp D I T Tree Err k (mkPPA (fst r) (snd r) ai)).
Proof. reflexivity. Qed.

Theorem C20_parse_lib_two_step : forall path d inc ig ai,
  w_parse_lib D I T Tree Err k (mkPA path d inc ig ai) =
  and_then (w_preprocess D I T Tree Err k (mkPP path d inc false ig))
           (fun r => w_parse_lib_pp D I T Tree Err k (mkPPA (fst r) (snd r) ai)).
Proof. reflexivity. Qed.

Theorem C20_parse_lib_str_two_step : forall s path d inc ig ai,
  w_parse_lib_str D I T Tree Err k (mkPSA s path d inc ig ai) =
  and_then (w_preprocess_str D I T Tree Err k (mkPS s path d inc ig false 0 0))
           (fun r => w_parse_lib_pp D I T Tree Err k (mkPPA (fst r) (snd r) ai)).
Proof. reflexivity. Qed.

(* allow_incomplete selects the incomplete parser, and only that *)
Theorem C20_mode_sv : forall t d ai,
  w_parse_sv_pp D I T Tree Err k (mkPPA t d ai) = and_then (k_sv k ai t) (fun x => inl (x, d)).
Proof. intros. unfold w_parse_sv_pp. cbn. destruct ai; reflexivity. Qed.

Theorem C20_mode_lib : forall t d ai,
  w_parse_lib_pp D I T Tree Err k (mkPPA t d ai) = and_then (k_lib k ai t) (fun x => inl (x, d)).
Proof. intros. unfold w_parse_lib_pp. cbn. destruct ai; reflexivity. Qed.
End C20.
