(* C15 -- incomplete mode.  Over the regenerated grammar (Gen/GenGrammar.v) and the PEG interpreter. *)
From SV Require HandLex GenLexers LexFacts.
From SV Require Import Peg PegFacts NonNull Bound Incomplete GenGrammar.
From Coq Require Import Arith.
Local Open Scope nat_scope.

(* the non-nullability certificate computed by the translator is re-checked here *)
Theorem C15_cert_ok : cert_ok grammar all_prims nonnull_cert = true.
Proof. vm_compute. reflexivity. Qed.

Definition body_of (n : nat) : fexp := match nth_error grammar n with Some pr => p_body pr | None => FBad end.
Definition unguarded (n : nat) : bool := match nth_error grammar n with Some pr => negb (p_rec pr) | None => false end.
Definition binds_of (n : nat) : list fexp := match body_of n with FTmpl es _ => es | _ => [FBad] end.

(* the incomplete variants differ from the strict ones in exactly one spot: many0(description)
   instead of many_till(description, eof) *)
Theorem C15_shapes :
  strict_incomplete_pair (body_of start_source_text) (body_of start_source_text_incomplete) start_description = true /\
  strict_incomplete_pair (body_of start_library_text) (body_of start_library_text_incomplete) start_library_description = true /\
  unguarded start_source_text_incomplete = true /\ unguarded start_library_text_incomplete = true /\
  forallb (safe all_prims nonnull_cert) (binds_of start_source_text_incomplete) = true /\
  forallb (safe all_prims nonnull_cert) (binds_of start_library_text_incomplete) = true.
Proof. vm_compute. repeat split; reflexivity. Qed.

Section Oracles.
Variable A : Type.
Variable prim : N -> A -> nat -> option nat.
Variable act : N -> A -> A.
Variable cond : N -> A -> bool.
Variable dirflag : A -> bool.
Variable inp : list N.
(* what the span primitives and hand lexers are assumed to do: consume at least one byte when they
   succeed, and never beyond the end of the text *)
Hypothesis prim_pos : forall i a p n, In i all_prims -> prim i a p = Some n -> 1 <= n.
Hypothesis prim_bound : forall i a p n, prim i a p = Some n -> p + n <= length inp.

(* With allow_incomplete the parsers never report a parse error: for every input, memo capacity
   and fuel the start productions end in Ok (or, in the model, out of fuel) -- never in Err. *)
Theorem C15_never_fails_sv : forall fuel cap aux,
  fst (run A prim act cond dirflag inp grammar fuel (FCall start_source_text_incomplete) 0 [] (mkPst A [] [] cap aux)) <> Err.
Proof.
  intros. eapply (incomplete_entry_no_err A prim act cond dirflag inp grammar all_prims nonnull_cert C15_cert_ok prim_pos);
    vm_compute; reflexivity.
Qed.

Theorem C15_never_fails_lib : forall fuel cap aux,
  fst (run A prim act cond dirflag inp grammar fuel (FCall start_library_text_incomplete) 0 [] (mkPst A [] [] cap aux)) <> Err.
Proof.
  intros. eapply (incomplete_entry_no_err A prim act cond dirflag inp grammar all_prims nonnull_cert C15_cert_ok prim_pos);
    vm_compute; reflexivity.
Qed.

(* Whenever many_till(description, eof) succeeds, many0(description) started in the same state returns
   the same forest and stops at the same place (the end of the text), for the same fuel if that is
   enough for it to finish. *)
Theorem C15_agree : forall d, nn all_prims nonnull_cert d = true ->
  forall fuel p rf st fo q st',
  memo_nn A nonnull_cert st -> memo_bd A (length inp) st -> p <= length inp ->
  run A prim act cond dirflag inp grammar fuel (FManyTill d FEof) p rf st = (Ok fo q, st') ->
  fst (run A prim act cond dirflag inp grammar fuel (FMany0 d) p rf st) <> Fuel ->
  fst (run A prim act cond dirflag inp grammar fuel (FMany0 d) p rf st) = Ok fo q.
Proof.
  intros d Hd. eapply (manytill_many0 A prim act cond dirflag inp grammar all_prims nonnull_cert C15_cert_ok prim_pos prim_bound d Hd).
Qed.

(* the prefix that comes back is lossless (C01) -- restated for the incomplete start symbols *)
Theorem C15_prefix_tiles : forall fuel cap a fo q st',
  run A prim act cond dirflag inp grammar fuel (FCall start_source_text_incomplete) 0 [] (st0 A cap a) = (Ok fo q, st') ->
  tiles inp fo 0 q.
Proof.
  intros. eapply run_tiles; eauto.
  - vm_compute. reflexivity.
  - apply Nat.ltb_lt. vm_compute. reflexivity.
Qed.
End Oracles.

(* the two oracle hypotheses, proved for the token lexers written by hand (Gen/GenLexers.v) *)
Theorem C15_token_lexers_consume_and_stay_inside : forall veto l w n,
  In l GenLexers.token_lexers -> HandLex.lex veto l w = Some n -> 1 <= n <= length w.
Proof. exact LexFacts.token_lexer_consumes. Qed.

(* ------------------------------------------------------------------ the executable instance (Nom/Exec.v, Gen/GenPrims.v) *)
(* both oracle hypotheses are theorems there (Props/C01.v: C01_exec_primitives_consume), so for the grammar as it is
   run against the real parser: incomplete mode never ends in a parse error, whatever the text *)
From SV Require Exec GenPrims C01.

Theorem C15_exec_never_fails : forall inp fuel cap,
  fst (Exec.exec GenPrims.span_defs GenPrims.prim_table grammar cap start_source_text_incomplete inp fuel) <> Err /\
  fst (Exec.exec GenPrims.span_defs GenPrims.prim_table grammar cap start_library_text_incomplete inp fuel) <> Err.
Proof.
  intros inp fuel cap. unfold Exec.exec.
  split; [apply C15_never_fails_sv|apply C15_never_fails_lib];
    intros i a p n _ Hp; apply C01.C01_exec_primitives_consume in Hp; tauto.
Qed.
