(* C17 -- the packrat memo.  Theorems about the storage model (Nom/Peg.v: map_get / memo_insert, the
   definitions the interpreter uses) -- see KNOWN_FINDINGS for what the parser built on top of it does. *)
From SV Require Import Peg PegFacts Cache GenGrammar.
Local Open Scope nat_scope.

(* nom-packrat's storage is a transparent cache of ANY function of the key (parser name, position,
   in_directive): for every capacity (bounded or not), every sequence of calls and whatever has been
   evicted on the way, each memoised call returns exactly what the function returns. *)
Theorem C17_cache_transparent : forall (A : Type) (F : mkey -> mval) ks cap (a : A),
  fst (memo_calls A F (mkPst A [] [] cap a) ks) = map F ks.
Proof. intros. apply cache_transparent. apply empty_sound. Qed.

(* the FIFO never holds more keys than the capacity *)
Theorem C17_capacity_respected : forall (A : Type) (st : pstate A) k v size,
  ps_cap A st = Some size -> 1 <= size -> length (ps_keys A st) <= size ->
  length (ps_keys A (memo_insert A st k v)) <= size /\ ps_cap A (memo_insert A st k v) = Some size.
Proof. intros. now apply insert_bound. Qed.

(* whatever the capacity and whatever was evicted, what the memo holds tiles (so a hit can never
   return a forest for another stretch of text) -- the invariant of run_tiles *)
Theorem C17_hits_are_well_formed : forall (A : Type) prim act cond dirflag (inp : list N) fuel e p rf st,
  wf_grammar grammar = true -> wf_exp grammar false e = true -> memo_inv A inp st ->
  memo_inv A inp (snd (run A prim act cond dirflag inp grammar fuel e p rf st)).
Proof. intros. eapply run_good; eauto. Qed.

(* non-vacuity: capacity 2, five calls over three keys; the third key evicts the first *)
Example C17_example :
  let F (k : mkey) : mval := let '(n, p, _) := k in if Nat.eqb n 0 then None else Some ([], n + p) in
  let ks := [(1, 0, false); (0, 3, false); (2, 5, true); (1, 0, false); (0, 3, false)] in
  fst (memo_calls unit F (mkPst unit [] [] (Some 2) tt) ks) = map F ks /\
  length (ps_keys unit (snd (memo_calls unit F (mkPst unit [] [] (Some 2) tt) ks))) = 2.
Proof. vm_compute. split; reflexivity. Qed.
