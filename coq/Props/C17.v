(* C17 -- the packrat memo.  Theorems about the storage model (Nom/Peg.v: map_get / memo_insert, the
   definitions the interpreter uses) -- see KNOWN_FINDINGS for what the parser built on top of it does. *)
From SV Require Import Peg PegFacts Cache Mono Transp GenGrammar.
Local Open Scope nat_scope.

(* nom-packrat's storage is a transparent cache of ANY function of the key (parser name, position,
   in_directive): for every capacity (bounded or not), every sequence of calls and whatever has been
   evicted on the way, each memoised call returns exactly what the function returns. *)
Theorem C17_cache_transparent : forall (A : Type) (F : mkey -> mval) ks cap (a : A),
  fst (memo_calls A F (mkPst A [] [] cap a) ks) = map F ks.
Proof. intros. apply cache_transparent. apply empty_sound. Qed.

(* the FIFO never holds more keys than the capacity *)
Theorem C17_capacity_respected : forall (A : Type) (st : pstate A) k v size,
  ps_cap A st = Some size -> 1 <= size -> length (ps_keys A st) <= size ->
  length (ps_keys A (memo_insert A st k v)) <= size /\ ps_cap A (memo_insert A st k v) = Some size.
Proof. intros. now apply insert_bound. Qed.

(* whatever the capacity and whatever was evicted, what the memo holds tiles (so a hit can never
   return a forest for another stretch of text) -- the invariant of run_tiles *)
Theorem C17_hits_are_well_formed : forall (A : Type) prim act cond dirflag (inp : list N) fuel e p rf st,
  wf_grammar grammar = true -> wf_exp grammar false e = true -> memo_inv A inp st ->
  memo_inv A inp (snd (run A prim act cond dirflag inp grammar fuel e p rf st)).
Proof. intros. eapply run_good; eauto. Qed.

(* non-vacuity: capacity 2, five calls over three keys; the third key evicts the first *)
Example C17_example :
  let F (k : mkey) : mval := let '(n, p, _) := k in if Nat.eqb n 0 then None else Some ([], n + p) in
  let ks := [(1, 0, false); (0, 3, false); (2, 5, true); (1, 0, false); (0, 3, false)] in
  fst (memo_calls unit F (mkPst unit [] [] (Some 2) tt) ks) = map F ks /\
  length (ps_keys unit (snd (memo_calls unit F (mkPst unit [] [] (Some 2) tt) ks))) = 2.
Proof. vm_compute. split; reflexivity. Qed.

(* Packrat correctness for the interpreter.  For EVERY grammar in which no production carries the
   left-recursion guard and whose state actions change nothing -- that is, whenever the result of a
   production is a function of what the memo key records -- and for every expression, input,
   behaviour of the primitives and position: two memoised runs from the empty memo, whatever their
   capacities (bounded or not, so whatever was evicted on the way), fuels and guard flags, that both
   finish, return the same result -- the result of the memo-free interpreter
   ([Transp.memo_transparent]).  What the real parser has beyond this hypothesis -- the guard flags
   of nom-recursive and the keyword-version stack, both outside the key -- is therefore exactly where
   the capacity dependence D12 comes from. *)
Theorem C17_capacity_independent_without_hidden_state :
  forall (A : Type) prim act cond dirflag (inp : list N) (g : list prod),
  (forall a x, act a x = x) -> (forall n pr, nth_error g n = Some pr -> p_rec pr = false) ->
  forall e p (a : A) f1 rf1 cap1 r1 s1 f2 rf2 cap2 r2 s2,
  run A prim act cond dirflag inp g f1 e p rf1 (mkPst A [] [] cap1 a) = (r1, s1) -> r1 <> Fuel ->
  run A prim act cond dirflag inp g f2 e p rf2 (mkPst A [] [] cap2 a) = (r2, s2) -> r2 <> Fuel -> r1 = r2.
Proof. intros A prim act cond dirflag inp g Hact Hrec. exact (capacity_independent A prim act cond dirflag inp g Hact Hrec). Qed.

(* ... and in general (any grammar, guard and state actions included) the fuel is only a device:
   a run that finishes returns the same result and state with any larger fuel, so the result of a
   parse with a given memo content is unique. *)
Theorem C17_result_independent_of_fuel :
  forall (A : Type) prim act cond dirflag (inp : list N) (g : list prod) f1 f2 e p rf st r1 s1 r2 s2,
  run A prim act cond dirflag inp g f1 e p rf st = (r1, s1) -> r1 <> Fuel ->
  run A prim act cond dirflag inp g f2 e p rf st = (r2, s2) -> r2 <> Fuel -> r1 = r2 /\ s1 = s2.
Proof. intros A prim act cond dirflag inp g. exact (run_unique A prim act cond dirflag inp g). Qed.

(* how much of the regenerated grammar falls under the hypothesis: the productions without guard *)
Example C17_guarded_productions :
  length (filter (fun pr => p_rec pr) grammar) <= 100 /\ 1200 <= length (filter (fun pr => negb (p_rec pr)) grammar).
Proof. vm_compute. split; repeat constructor. Qed.
