(* C14 -- invalid sources are rejected.  Over the regenerated grammar and the PEG interpreter. *)
From SV Require HandLex GenLexers LexFacts.
From SV Require Import Peg PegFacts Bound BoundPk Barrier Trace GenGrammar.
From Coq Require Import Arith.
Local Open Scope nat_scope.

Definition body_of14 (n : nat) : fexp := match nth_error grammar n with Some pr => p_body pr | None => FBad end.

(* strict source_text and library_text end with many_till(description, eof): nothing may follow the
   last description *)
Theorem C14_strict_ends_with_eof :
  ends_with_eof (body_of14 start_source_text) = true /\ ends_with_eof (body_of14 start_library_text) = true.
Proof. vm_compute. split; reflexivity. Qed.

(* the look-ahead primitives (none_of: behind every keyword stands peek(none_of(identifier characters)),
   which takes ANY other byte) occur only directly under peek / not, where what they consume is given back *)
Theorem C14_lookahead_only_under_peek : forallb (fun pr => pk peek_prims (p_body pr)) grammar = true.
Proof. vm_compute. reflexivity. Qed.

Definition GP14 := pk_grammar peek_prims grammar C14_lookahead_only_under_peek.

Section Oracles.
Variable A : Type.
Variable prim : N -> A -> nat -> option nat.
Variable act : N -> A -> A.
Variable cond : N -> A -> bool.
Variable dirflag : A -> bool.
Variable inp : list N.
Variable bar : nat.     (* offset of an inserted byte that no token can contain *)
(* no token primitive consumes the byte; the look-ahead primitives are exempt *)
Hypothesis prim_stops : forall i a p n, is_pk peek_prims i = false -> p <= bar -> prim i a p = Some n -> p + n <= bar.

(* the byte is a barrier: whatever is parsed from a position at or before it -- any expression in which
   look-ahead primitives stand under peek / not only, with any memo content that respects the barrier --
   ends at or before it *)
Theorem C14_barrier : forall fuel e p rf st,
  pk peek_prims e = true -> memo_bd A bar st -> p <= bar ->
  match fst (run A prim act cond dirflag inp grammar fuel e p rf st) with
  | Ok _ q => p <= q <= bar
  | _ => True
  end.
Proof. intros. eapply (run_bd_pk A prim act cond dirflag inp grammar bar peek_prims prim_stops GP14); assumption. Qed.

(* hence strict parsing of a text with such a byte before its end never succeeds, for either grammar,
   any memo capacity and any fuel *)
Theorem C14_stop_byte_rejected_sv : bar < length inp -> forall fuel cap aux f q st',
  run A prim act cond dirflag inp grammar fuel (FCall start_source_text) 0 [] (mkPst A [] [] cap aux) <> (Ok f q, st').
Proof.
  intros Hb. eapply (strict_rejects A prim act cond dirflag inp grammar bar peek_prims prim_stops GP14); [vm_compute; reflexivity|vm_compute; reflexivity|exact Hb].
Qed.

Theorem C14_stop_byte_rejected_lib : bar < length inp -> forall fuel cap aux f q st',
  run A prim act cond dirflag inp grammar fuel (FCall start_library_text) 0 [] (mkPst A [] [] cap aux) <> (Ok f q, st').
Proof.
  intros Hb. eapply (strict_rejects A prim act cond dirflag inp grammar bar peek_prims prim_stops GP14); [vm_compute; reflexivity|vm_compute; reflexivity|exact Hb].
Qed.

(* where the parser looks: runT is the interpreter with a high-water mark of the positions at which any
   expression was applied (Nom/Trace.v); erasing the mark gives the parse back ... *)
Theorem C14_trace_is_the_parse : forall fuel e p rf st hw,
  fst (runT A prim act cond dirflag inp grammar fuel e p rf st hw) = run A prim act cond dirflag inp grammar fuel e p rf st.
Proof. intros. apply (runT_erase A prim act cond dirflag inp grammar). Qed.

(* ... and no expression is ever applied beyond the byte: every position an error report can carry (the
   input of some failing parser; GreedyError keeps the greatest) is at or before the byte in the
   preprocessed text, for a strict or incomplete parse from the start with any memo capacity *)
Theorem C14_never_looks_past_the_byte : forall fuel e p rf st hw r st' h,
  pk peek_prims e = true -> memo_bd A bar st -> p <= bar -> hw <= bar ->
  runT A prim act cond dirflag inp grammar fuel e p rf st hw = (r, st', h) -> hw <= h <= bar.
Proof. intros fuel e p rf st hw r st' h He Hm Hp Hh E. eapply (runT_bd A prim act cond dirflag inp grammar bar peek_prims prim_stops GP14); eauto. Qed.

Theorem C14_error_position_at_or_before_the_byte : forall fuel n cap aux r st' h,
  runT A prim act cond dirflag inp grammar fuel (FCall n) 0 [] (mkPst A [] [] cap aux) 0 = (r, st', h) -> h <= bar.
Proof.
  intros fuel n cap aux r st' h E.
  assert (M0 : memo_bd A bar (mkPst A [] [] cap aux)) by (intros ? ? ? ? ? []).
  pose proof (runT_bd A prim act cond dirflag inp grammar bar peek_prims prim_stops GP14 _ _ _ _ _ _ _ _ _ E eq_refl M0 (Nat.le_0_l _) (Nat.le_0_l _)). tauto.
Qed.
End Oracles.

(* for the token lexers written by hand (numbers, bases, identifiers; tables regenerated into Gen/GenLexers.v)
   the hypothesis is a theorem: a control character, a blank, DEL or any byte of a non-ASCII character is never
   consumed -- the lexer stops at or before it *)
Theorem C14_token_lexers_stop_at_the_byte : forall veto l w n k,
  In l GenLexers.token_lexers -> HandLex.lex veto l w = Some n -> k < length w ->
  (nth k w 0 <= 32 \/ 127 <= nth k w 0)%N -> n <= k.
Proof. exact LexFacts.token_lexer_stops. Qed.

(* the hypothesis can be met, and the mark does move: a toy text "ab?" whose third byte no token primitive
   takes, while the look-ahead primitive 1 takes it -- under peek *)
Definition toy_prim (i : N) (_ : unit) (p : nat) : option nat :=
  if N.eqb i 1 then Some 1 else if Nat.ltb p 2 then Some 1 else None.

Example C14_toy_prim_stops : forall i a p n, is_pk [1%N] i = false -> p <= 2 -> toy_prim i a p = Some n -> p + n <= 2.
Proof.
  intros i a p n Hi Hp. unfold toy_prim. unfold is_pk in Hi. cbn [existsb] in Hi. rewrite Bool.orb_false_r in Hi. rewrite Hi.
  destruct (Nat.ltb p 2) eqn:E; [|discriminate]. intros [= <-]. apply Nat.ltb_lt in E. rewrite Nat.add_1_r. exact E.
Qed.

Example C14_mark_reaches_the_byte :
  runT unit toy_prim (fun _ a => a) (fun _ _ => false) (fun _ => false) [97; 98; 1]%N [] 10
       (FSeq [FMany0 (FPrim 0%N); FPeek (FPrim 1%N)]) 0 [] (mkPst unit [] [] None tt) 0 = (Ok [] 2, mkPst unit [] [] None tt, 2).
Proof. vm_compute. reflexivity. Qed.
