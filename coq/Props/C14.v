(* C14 -- invalid sources are rejected.  Over the regenerated grammar and the PEG interpreter. *)
From SV Require Import Peg PegFacts Bound Barrier GenGrammar.
From Coq Require Import Arith.
Local Open Scope nat_scope.

Definition body_of14 (n : nat) : fexp := match nth_error grammar n with Some pr => p_body pr | None => FBad end.

(* strict source_text and library_text end with many_till(description, eof): nothing may follow the
   last description *)
Theorem C14_strict_ends_with_eof :
  ends_with_eof (body_of14 start_source_text) = true /\ ends_with_eof (body_of14 start_library_text) = true.
Proof. vm_compute. split; reflexivity. Qed.

Section Oracles.
Variable A : Type.
Variable prim : N -> A -> nat -> option nat.
Variable act : N -> A -> A.
Variable cond : N -> A -> bool.
Variable dirflag : A -> bool.
Variable inp : list N.
Variable bar : nat.     (* offset of an inserted byte that no token can contain *)
Hypothesis prim_stops : forall i a p n, p <= bar -> prim i a p = Some n -> p + n <= bar.

(* the byte is a barrier: whatever is parsed from a position at or before it -- any expression of
   the grammar, with any memo content that respects the barrier -- ends at or before it *)
Theorem C14_barrier : forall fuel e p rf st,
  memo_bd A bar st -> p <= bar ->
  match fst (run A prim act cond dirflag inp grammar fuel e p rf st) with
  | Ok _ q => p <= q <= bar
  | _ => True
  end.
Proof. intros. eapply (run_bd A prim act cond dirflag inp grammar bar prim_stops); assumption. Qed.

(* hence strict parsing of a text with such a byte before its end never succeeds, for either grammar,
   any memo capacity and any fuel *)
Theorem C14_stop_byte_rejected_sv : bar < length inp -> forall fuel cap aux f q st',
  run A prim act cond dirflag inp grammar fuel (FCall start_source_text) 0 [] (mkPst A [] [] cap aux) <> (Ok f q, st').
Proof.
  intros Hb. eapply (strict_rejects A prim act cond dirflag inp grammar bar prim_stops); [vm_compute; reflexivity|vm_compute; reflexivity|exact Hb].
Qed.

Theorem C14_stop_byte_rejected_lib : bar < length inp -> forall fuel cap aux f q st',
  run A prim act cond dirflag inp grammar fuel (FCall start_library_text) 0 [] (mkPst A [] [] cap aux) <> (Ok f q, st').
Proof.
  intros Hb. eapply (strict_rejects A prim act cond dirflag inp grammar bar prim_stops); [vm_compute; reflexivity|vm_compute; reflexivity|exact Hb].
Qed.
End Oracles.
