(* C11 -- the returned define table.  Property theorems only; proofs live in PP/EvalFacts.v,
   PP/FlatFacts.v. *)
From SV Require Import Eval EvalFacts FlatFacts IncludeFacts.

(* The table is a finite map with unique keys at every point of a run. *)
Theorem C11_keys_unique_insert : forall d k v, keys_unique d -> keys_unique (def_insert d k v).
Proof. exact keys_unique_insert. Qed.
Theorem C11_keys_unique_remove : forall d k, keys_unique d -> keys_unique (def_remove d k).
Proof. exact keys_unique_remove. Qed.

(* `define then lookup, `undef then lookup, and no other name is touched. *)
Theorem C11_insert_same : forall d k v, def_get (def_insert d k v) k = Some v.
Proof. exact def_get_insert_same. Qed.
Theorem C11_insert_other : forall d k v k', k <> k' -> def_get (def_insert d k v) k' = def_get d k'.
Proof. exact def_get_insert_other. Qed.
Theorem C11_remove_same : forall d k, def_get (def_remove d k) k = None.
Proof. exact def_get_remove_same. Qed.
Theorem C11_remove_other : forall d k k', k <> k' -> def_get (def_remove d k) k' = def_get d k'.
Proof. exact def_get_remove_other. Qed.

(* Every run starts from the caller's table (entries without body included). *)
Theorem C11_caller_kept : forall pre n,
  existsb (fun kv => bytes_eqb (fst kv) n) pre = true -> def_contains (seed_defines pre) n = true.
Proof. exact seed_defines_contains. Qed.

(* Threading, at the level of the event loop: walking the events of two item sequences one after
   the other is walking the first, then walking the second from the state the first left. *)
Theorem C11_thread_events : forall g a b x,
  run_events g (a ++ b) x = bind (run_events g a x) (run_events g b).
Proof. exact run_events_app. Qed.

(* `undefineall empties the table (and the directive is kept in the output). *)
Theorem C11_undefineall : forall c rec s p ignore strip rd idp t x x',
  kind t = K_UndefineallCompilerDirective ->
  step3 c rec s p ignore strip rd idp (Enter t) x = ROk x' -> s_defs x' = [].
Proof.
  intros c rec s p ignore strip rd idp t x x' Hk H. unfold step3 in H. rewrite Hk in H.
  cbn in H. unfold emit_node in H. destruct (node_locate t); cbn in H; try discriminate.
  now injection H as <-.
Qed.

(* What macro usages and `include directives do to the table: the table returned by the nested run
   (the expansion of the macro body, resp. the included file) -- with the definitions AND the
   undefinitions made inside -- is the table from there on; a macro without body leaves it alone. *)
Theorem C11_usage_adopts_table : forall c rec s p ignore strip rdepth idepth t x x' text org nd,
  resolve_usage c rec t s p (s_defs x) ignore strip (rdepth + 1) idepth = ROk (Some (text, org, nd)) ->
  usage_enter c rec s p ignore strip rdepth idepth t x = ROk x' -> s_defs x' = nd.
Proof. exact usage_adopts_table. Qed.

Theorem C11_usage_without_body_keeps_table : forall c rec s p ignore strip rdepth idepth t x x',
  resolve_usage c rec t s p (s_defs x) ignore strip (rdepth + 1) idepth = ROk None ->
  usage_enter c rec s p ignore strip rdepth idepth t x = ROk x' -> s_defs x' = s_defs x.
Proof. exact usage_without_body_keeps_table. Qed.

Theorem C11_include_adopts_table : forall c rec s p strip rdepth idepth t inner sym kw lit l fl x text ops nd,
  children t = [inner] -> kind inner = K_IncludeCompilerDirectiveDoubleQuote -> children inner = [sym; kw; lit] ->
  node_locate t = ROk l -> first_leaf lit = Some fl ->
  (match s_item x with Some i => i =? l_line l | None => false end) = false ->
  pp_file c rec (resolve_path c (trim_matches 34 (lstr s fl))) (s_defs x) false strip (idepth + 1) = ROk (text, ops, nd) ->
  exists x', include_enter c rec s p strip rdepth idepth t x = ROk x' /\ s_defs x' = nd.
Proof.
  intros. destruct (include_literal_ok c rec s p strip rdepth idepth t inner sym kw lit l fl x text ops nd) as (x' & E & _ & _ & D); auto.
  exists x'. auto.
Qed.
