(* C02 -- Annex A sentences.  The lexical part: keyword(t) and the identifier lexers over the
   character sets regenerated from identifiers.rs / utils.rs (Gen/GenKeywords.v). *)
From SV Require Import Lex Keywords GenKeywords.
Open Scope string_scope.

(* every character an identifier may continue with stops a keyword; every first character may also follow *)
Theorem C02_char_sets :
  subset_chars ident_first ident_tail = true /\ subset_chars ident_tail keyword_boundary = true /\
  subset_chars c_ident_tail keyword_boundary = true.
Proof. vm_compute. repeat split; reflexivity. Qed.

(* every reserved word of every table is itself a word over the identifier alphabet *)
Theorem C02_reserved_words_are_words :
  forallb (all_in ident_tail) (keywords_1800_2017 ++ keywords_1800_2012 ++ keywords_1800_2009 ++ keywords_1800_2005 ++
                               keywords_1364_2005 ++ keywords_1364_2001 ++ keywords_1364_2001_noconfig ++ keywords_1364_1995) = true.
Proof. vm_compute. reflexivity. Qed.

(* keyword(t) succeeds only where the maximal word of the text is exactly t: a reserved word is never
   recognised as a proper prefix of a longer name (module_x, end1, wirex, begin$x, ...), for every
   keyword, every text and every position *)
Theorem C02_keyword_is_whole_word : forall t s,
  all_in ident_tail t = true -> keyword_match keyword_boundary t s = true -> word_at ident_tail s = t.
Proof. intros t s Ht. apply keyword_is_whole_word; [exact Ht|]. apply C02_char_sets. Qed.

Theorem C02_keyword_of_word : forall t w rest,
  all_in ident_tail t = true -> all_in ident_tail w = true ->
  match rest with EmptyString => True | String c _ => in_set c ident_tail = false end ->
  keyword_match keyword_boundary t (w ++ rest) = true -> t = w.
Proof. intros t w rest Ht Hw Hr. apply (keyword_of_word ident_tail keyword_boundary); auto; apply C02_char_sets. Qed.

(* the identifier lexers read the whole word (maximal munch), then refuse it when reserved (C13) *)
Theorem C02_identifier_is_whole_word : forall s c r,
  s = String c r -> in_set c ident_first = true -> ident_word ident_first ident_tail s = Some (word_at ident_tail s).
Proof. intros s c r. apply identifier_is_whole_word. apply C02_char_sets. Qed.

Example C02_examples :
  keyword_match keyword_boundary "end" "end1 <= q;" = false /\ keyword_match keyword_boundary "end" "end$1 <= q;" = false /\
  keyword_match keyword_boundary "end" "end_x" = false /\ keyword_match keyword_boundary "end" "end;" = true /\
  keyword_match keyword_boundary "end" "end" = true /\ keyword_match keyword_boundary "module" "module_x" = false /\
  ident_word ident_first ident_tail "end$1 <= q" = Some "end$1" /\ ident_word ident_first ident_tail "1abc" = None.
Proof. vm_compute. repeat split; reflexivity. Qed.
