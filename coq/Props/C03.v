(* C03 -- origin map.  Property theorems only; proofs live in PP/OriginFacts.v. *)
From SV Require Import Origin OriginFacts Eval CopyFacts.

(* For every operation tree (pushes and nested merges = everything preprocess does to a
   PreprocessedText) and every position: the lookup is the per-byte provenance array. *)
Theorem C03_origin_refines : forall ops i,
  pt_origin (run_ops true ops) i =
  if (i <? oplen (Merge ops))%N then prov_at_ops ops i else ONone.
Proof. exact origin_refines. Qed.

Theorem C03_origin_never_panics : forall ops i, pt_origin (run_ops true ops) i <> OPanic.
Proof. exact origin_never_panics. Qed.

Theorem C03_len : forall ops, pt_len (run_ops true ops) = oplen (Merge ops).
Proof. exact run_ops_len. Qed.

(* The premise under which std's BTreeMap is assumed to behave like the model's sorted
   list: on every reachable map the key order is consistent, also against any probe. *)
Theorem C03_keys_sorted : forall ops, sorted_keys (pt_map (run_ops true ops)).
Proof.
  intros ops. rewrite run_ops_rep. apply range_cmp_consistent_on_tiling.
  apply (flat_allpos (Merge ops)).
Qed.

Theorem C03_probe_monotone : forall ops pos k1 v1 k2 v2 pre mid post,
  pt_map (run_ops true ops) = pre ++ (k1, v1) :: mid ++ (k2, v2) :: post ->
  (rcmp (mkR pos (pos + 1)) k1 = Lt -> rcmp (mkR pos (pos + 1)) k2 = Lt) /\
  (rcmp (mkR pos (pos + 1)) k1 = Eq -> rcmp (mkR pos (pos + 1)) k2 = Lt) /\
  (rcmp (mkR pos (pos + 1)) k2 = Gt -> rcmp (mkR pos (pos + 1)) k1 = Gt).
Proof.
  intros ops pos k1 v1 k2 v2 pre mid post E. rewrite run_ops_rep in E.
  eapply (probe_monotone_on_tiling (flats ops) 0); eauto. apply (flat_allpos (Merge ops)).
Qed.

(* Non-vacuity: a concrete tree with an empty push, a merge and a synthesised segment. *)
Example C03_example :
  let ops := [Push 3 (Some ([102], mkR 10 13)); Push 0 None; Push 2 None;
              Merge [Push 4 (Some ([104], mkR 5 9))]]%N in
  map (pt_origin (run_ops true ops)) [0; 2; 3; 5; 8; 9]%N =
  [OSome [102] 10; OSome [102] 12; ONone; OSome [104] 5; OSome [104] 8; ONone]%N.
Proof. vm_compute. reflexivity. Qed.

(* Without the fix (skip_empty = false) the statement is false: the pinned tree's D3. *)
Example C03_D3_refuted_without_fix :
  let ops := [Push 11 (Some ([116], mkR 0 11)); Push 0 (Some ([116], mkR 9 10));
              Push 2 (Some ([116], mkR 13 15))]%N in
  pt_origin (fold_left (run_op false) ops pt_new) 12 = ONone /\
  pt_origin (run_ops true ops) 12 = OSome [116] 14.
Proof. vm_compute. split; reflexivity. Qed.

(* The emission sites of the event loop.  Wherever the loop copies a node's own text -- ordinary text,
   string literals and escaped identifiers, compiler directives kept in the output, blanks, comments --
   the pushed chunk is the slice [l_off, l_off + l_len) of the source and the recorded origin is that
   very range of the file being read; with C03_origin_refines, output byte k of the chunk then maps to
   (file, l_off + k).  Text synthesised for `__FILE__ / `__LINE__ is pushed without origin; an expansion
   is attributed to the file of the definition at an offset not before the definition's text. *)
Theorem C03_site_text : forall c rec s p ignore strip rdepth idepth t x x',
  kind t = K_SourceDescriptionNotDirective ->
  step3 c rec s p ignore strip rdepth idepth (Enter t) x = ROk x' -> copies s p t t x x'.
Proof. exact site_text. Qed.

Theorem C03_site_string : forall c rec s p ignore strip rdepth idepth t ch x x',
  kind t = K_SourceDescription -> children t = [ch] ->
  (kind ch =? K_StringLiteral) || (kind ch =? K_EscapedIdentifier) = true ->
  step3 c rec s p ignore strip rdepth idepth (Enter t) x = ROk x' -> copies s p t ch x x'.
Proof. exact site_string. Qed.

Theorem C03_site_kept_directive : forall c rec s p ignore strip rdepth idepth t x x',
  is_kept_kind (kind t) = true ->
  step3 c rec s p ignore strip rdepth idepth (Enter t) x = ROk x' ->
  exists x1, copies s p t t x x1 /\ x' = set_skipws true x1.
Proof. exact site_kept. Qed.

Theorem C03_site_blank : forall c rec s p ignore strip rdepth idepth t x x',
  kind t = K_WhiteSpace_Space -> s_skipws x = false ->
  step3 c rec s p ignore strip rdepth idepth (Enter t) x = ROk x' -> copies s p t t x x'.
Proof. exact site_blank. Qed.

Theorem C03_site_comment : forall c rec s p ignore idepth t x x',
  kind t = K_Comment ->
  step3 c rec s p ignore false 0 idepth (Enter t) x = ROk x' -> copies s p t t x x'.
Proof. exact site_comment. Qed.

Theorem C03_site_synthesised : forall s p t x x',
  position_enter s p t x = ROk x' ->
  s_out x' = s_out x \/ exists text, s_out x' = text :: s_out x /\ s_ops x' = Push (blen text) None :: s_ops x.
Proof. exact site_position. Qed.

Theorem C03_copied_chunk_provenance : forall p l n k,
  (k < n)%N -> prov_at (Push n (Some (p, lrange l))) k = OSome p (k + l_off l).
Proof. exact copied_chunk_provenance. Qed.

Theorem C03_expansion_chunk_provenance : forall p r n k,
  exists o, prov_at (Push n (Some (p, r))) k = OSome p o /\ (rb r <= o)%N.
Proof. exact expansion_chunk_provenance. Qed.
