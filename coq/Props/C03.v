(* C03 -- origin map.  Property theorems only; proofs live in PP/OriginFacts.v. *)
From SV Require Import Origin OriginFacts.

(* For every operation tree (pushes and nested merges = everything preprocess does to a
   PreprocessedText) and every position: the lookup is the per-byte provenance array. *)
Theorem C03_origin_refines : forall ops i,
  pt_origin (run_ops true ops) i =
  if (i <? oplen (Merge ops))%N then prov_at_ops ops i else ONone.
Proof. exact origin_refines. Qed.

Theorem C03_origin_never_panics : forall ops i, pt_origin (run_ops true ops) i <> OPanic.
Proof. exact origin_never_panics. Qed.

Theorem C03_len : forall ops, pt_len (run_ops true ops) = oplen (Merge ops).
Proof. exact run_ops_len. Qed.

(* The premise under which std's BTreeMap is assumed to behave like the model's sorted
   list: on every reachable map the key order is consistent, also against any probe. *)
Theorem C03_keys_sorted : forall ops, sorted_keys (pt_map (run_ops true ops)).
Proof.
  intros ops. rewrite run_ops_rep. apply range_cmp_consistent_on_tiling.
  apply (flat_allpos (Merge ops)).
Qed.

Theorem C03_probe_monotone : forall ops pos k1 v1 k2 v2 pre mid post,
  pt_map (run_ops true ops) = pre ++ (k1, v1) :: mid ++ (k2, v2) :: post ->
  (rcmp (mkR pos (pos + 1)) k1 = Lt -> rcmp (mkR pos (pos + 1)) k2 = Lt) /\
  (rcmp (mkR pos (pos + 1)) k1 = Eq -> rcmp (mkR pos (pos + 1)) k2 = Lt) /\
  (rcmp (mkR pos (pos + 1)) k2 = Gt -> rcmp (mkR pos (pos + 1)) k1 = Gt).
Proof.
  intros ops pos k1 v1 k2 v2 pre mid post E. rewrite run_ops_rep in E.
  eapply (probe_monotone_on_tiling (flats ops) 0); eauto. apply (flat_allpos (Merge ops)).
Qed.

(* Non-vacuity: a concrete tree with an empty push, a merge and a synthesised segment. *)
Example C03_example :
  let ops := [Push 3 (Some ([102], mkR 10 13)); Push 0 None; Push 2 None;
              Merge [Push 4 (Some ([104], mkR 5 9))]]%N in
  map (pt_origin (run_ops true ops)) [0; 2; 3; 5; 8; 9]%N =
  [OSome [102] 10; OSome [102] 12; ONone; OSome [104] 5; OSome [104] 8; ONone]%N.
Proof. vm_compute. reflexivity. Qed.

(* Without the fix (skip_empty = false) the statement is false: the pinned tree's D3. *)
Example C03_D3_refuted_without_fix :
  let ops := [Push 11 (Some ([116], mkR 0 11)); Push 0 (Some ([116], mkR 9 10));
              Push 2 (Some ([116], mkR 13 15))]%N in
  pt_origin (fold_left (run_op false) ops pt_new) 12 = ONone /\
  pt_origin (run_ops true ops) 12 = OSome [116] 14.
Proof. vm_compute. split; reflexivity. Qed.
