(* C08 -- totality.  What the models can carry: the panic sites of the code that are modelled as explicit
   outcomes (the adjacency assert of Locate::try_from, the subtraction in PreprocessedText::origin, the
   recursion of the preprocessor) are shown unreachable.  Real stack exhaustion, allocation failure and the
   slicing of Rust strings are runtime behaviour outside the models. *)
From SV Require Import Peg PegFacts NoPanic Eval TotalFacts Origin OriginFacts GenGrammar.
Local Open Scope nat_scope.

(* Locate::try_from(&node): on every node of every tree the parser returns (regenerated grammar, any input,
   any memo capacity) the assert_eq!(x.offset, loc.offset + loc.len) holds *)
Theorem C08_try_from_never_asserts : forall (A : Type) prim act cond dirflag (inp : list N) fuel n cap (a : A) fo q st' t u,
  n < length grammar ->
  run A prim act cond dirflag inp grammar fuel (FCall n) 0 [] (PegFacts.st0 A cap a) = (Ok fo q, st') ->
  In t fo -> In u (preorder t) -> node_locate u <> RPanic 1.
Proof.
  intros A prim act cond dirflag inp fuel n cap a fo q st' t u Hn E Ht Hu.
  eapply (try_from_never_asserts inp fo 0 q); eauto.
  eapply run_tiles; eauto. vm_compute. reflexivity.
Qed.

(* and try_from of a node that has a leaf returns the stretch from its first to its last leaf *)
Theorem C08_try_from_value : forall (inp : list N) t p q,
  tiles inp [t] p q -> leaves t <> [] ->
  exists l, node_locate t = ROk l /\ l_off l = N.of_nat p /\ (l_off l + l_len l = N.of_nat q)%N /\ l_line l = line_at inp p.
Proof. exact node_locate_tiled. Qed.

(* PreprocessedText::origin never underflows, for every operation tree and position *)
Theorem C08_origin_never_panics : forall ops i, pt_origin (run_ops true ops) i <> OPanic.
Proof. exact origin_never_panics. Qed.

(* the preprocessor's recursion is bounded by a function of the limit alone: it cannot recurse forever *)
Theorem C08_preprocess_terminates : forall c p pre strip ignore,
  nofuel (preprocess (fuel_bound (cfg_limit c)) c p pre strip ignore).
Proof. exact preprocess_never_out_of_fuel. Qed.
