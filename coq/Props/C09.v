(* C09 -- bounded recursion.  Property theorems only; proofs live in PP/TotalFacts.v. *)
From SV Require Import Eval EvalFacts TotalFacts.

(* Every run of the evaluator terminates with a structured result: with fuel
   (limit+1)*(limit+2)+limit+2 -- a function of RECURSIVE_LIMIT alone -- no input, define table,
   file system, flag combination or starting depth makes preprocess_str / preprocess run out of
   fuel.  (The measure is lexicographic: `include raises include_depth and restarts
   resolve_depth, macro expansion raises resolve_depth and -- since the fix a69e558 -- keeps
   include_depth.) *)
Theorem C09_total : forall c s p pre ignore strip rd idp,
  nofuel (pp_str (fuel_bound (cfg_limit c)) c s p pre ignore strip rd idp).
Proof. exact pp_str_never_out_of_fuel. Qed.

Theorem C09_total_file : forall c p pre strip ignore,
  nofuel (preprocess (fuel_bound (cfg_limit c)) c p pre strip ignore).
Proof. exact preprocess_never_out_of_fuel. Qed.

Theorem C09_measure : forall fuel c s p pre ignore strip rd idp,
  (N.to_nat (weight (cfg_limit c) rd idp) < fuel)%nat ->
  nofuel (pp_str fuel c s p pre ignore strip rd idp).
Proof. exact pp_str_total. Qed.

(* An include nested deeper than the limit is refused before anything else happens. *)
Theorem C09_include_limit : forall f c s p pre ignore strip rd idp,
  cfg_limit c < idp -> pp_str (S f) c s p pre ignore strip rd idp = RErr EExceed.
Proof.
  intros f c s p pre ignore strip rd idp H. cbn [pp_str]. unfold pp_str_body.
  apply N.ltb_lt in H. now rewrite H.
Qed.

(* A macro usage nested deeper than the limit is refused whatever the macro is. *)
Theorem C09_macro_limit : forall c rec x s p d ignore strip rdepth idp sym name rest id,
  children x = sym :: name :: rest -> identifier name s = Some id -> cfg_limit c < rdepth ->
  resolve_usage c rec x s p d ignore strip rdepth idp = RErr EExceed.
Proof.
  intros c rec x s p d ignore strip rdepth idp sym name rest id Hc Hi HL.
  unfold resolve_usage. rewrite Hc. unfold unwrap_id. rewrite Hi. cbn [bind].
  apply N.ltb_lt in HL. now rewrite HL.
Qed.

(* The fuel the driver uses for limit 64. *)
Example C09_bound_64 : fuel_bound 64 = 4356%nat.
Proof. vm_compute. reflexivity. Qed.
