(* C12 -- trivia between tokens.  Over the regenerated grammar and the PEG interpreter: the part of the
   property that is about thread-local state (a directive met as trivia leaves no trace). *)
From SV Require Import Peg Neutral GenGrammar.
From Coq Require Import Arith.
Local Open Scope nat_scope.

(* action numbers of the translator: 1 begin_directive, 2 end_directive, 3 begin_keywords("directive"), 4 end_keywords,
   11..18 begin_keywords of the eight standards' names ("1364-1995" .. "1800-2017", in that order) *)
Definition dir_invisible : list N := [3; 4; 11; 12; 13; 14; 15; 16; 17; 18]%N.
Definition dir_inverse : list (N * N) := [(1, 2)]%N.
Definition ver_invisible : list N := [1; 2]%N.
Definition ver_inverse : list (N * N) := [(3, 4)]%N.

(* every production of the grammar brackets its begin_directive / end_directive: certified for ALL productions *)
Theorem C12_directive_mode_cert :
  cert_ok grammar dir_invisible dir_inverse dir_neutral_cert = true /\ forallb (fun b => b) dir_neutral_cert = true /\
  length dir_neutral_cert = length grammar.
Proof. vm_compute. repeat split; reflexivity. Qed.

(* every state action that is not bracketed by its inverse, with the production it stands in *)
Fixpoint free_acts (e : fexp) : list N :=
  match e with
  | FAct a => [a]
  | FLeaf e1 | FOpt e1 | FMany0 e1 | FMany1 e1 | FPeek e1 | FNot e1 | FWrap _ _ e1 => free_acts e1
  | FSeq es | FAlt es | FTmpl es _ => (fix go (l : list fexp) : list N := match l with [] => [] | x :: r => free_acts x ++ go r end) es
  | FManyTill e1 e2 | FIf _ e1 e2 => free_acts e1 ++ free_acts e2
  | _ => []
  end.
Fixpoint wraps (e : fexp) : list (N * N) :=
  match e with
  | FWrap a b e1 => (a, b) :: wraps e1
  | FLeaf e1 | FOpt e1 | FMany0 e1 | FMany1 e1 | FPeek e1 | FNot e1 => wraps e1
  | FSeq es | FAlt es | FTmpl es _ => (fix go (l : list fexp) : list (N * N) := match l with [] => [] | x :: r => wraps x ++ go r end) es
  | FManyTill e1 e2 | FIf _ e1 e2 => wraps e1 ++ wraps e2
  | _ => []
  end.
Definition with_index {X} (f : fexp -> list X) : list (nat * X) :=
  (fix go (ps : list prod) (i : nat) : list (nat * X) :=
     match ps with [] => [] | pr :: r => map (fun x => (i, x)) (f (p_body pr)) ++ go r (S i) end) grammar 0.

(* the keyword-version stack: the only unbracketed actions of the whole grammar are the eight begin_keywords of
   version_specifier and the end_keywords of endkeywords_directive; text_macro_usage and text_macro_definition
   bracket the "directive" set they push for the macro name (fix 27330ec), compiler_directive and
   compiler_directive_without_resetall bracket directive mode *)

Theorem C12_version_stack_actions :
  with_index free_acts =
    (start_version_specifier, 18%N) :: (start_version_specifier, 17%N) :: (start_version_specifier, 16%N) :: (start_version_specifier, 15%N) ::
    (start_version_specifier, 14%N) :: (start_version_specifier, 13%N) :: (start_version_specifier, 12%N) :: (start_version_specifier, 11%N) ::
    [(start_endkeywords_directive, 4%N)] /\
  map snd (with_index wraps) = [(1, 2); (1, 2); (3, 4); (3, 4)]%N /\
  cert_ok grammar ver_invisible ver_inverse ver_neutral_cert = true.
Proof. vm_compute. repeat split; reflexivity. Qed.

Section Oracles.
Variable A : Type.
Variable prim : N -> A -> nat -> option nat.
Variable act : N -> A -> A.
Variable cond : N -> A -> bool.
Variable dirflag : A -> bool.
Variable inp : list N.
Variable B : Type.
Variable dir_of : A -> B.     (* the IN_DIRECTIVE stack as part of the thread-local state *)
Hypothesis keywords_dont_touch_dir : forall a x, In a dir_invisible -> dir_of (act a x) = dir_of x.
Hypothesis dir_cong : forall a x y, dir_of x = dir_of y -> dir_of (act a x) = dir_of (act a y).
Hypothesis end_undoes_begin : forall a b x, In (a, b) dir_inverse -> dir_of (act b (act a x)) = dir_of x.

(* Directive mode never leaks: whatever is parsed -- any production, any input, accepted or rejected, memo
   hit or miss, any capacity -- the IN_DIRECTIVE stack is afterwards what it was before.  In particular a
   compiler directive met as trivia between two tokens does not change how the following white space and
   comments are lexed. *)
Theorem C12_directive_mode_never_leaks : forall fuel n p rf st,
  n < length grammar ->
  dir_of (ps_aux A (snd (run A prim act cond dirflag inp grammar fuel (FCall n) p rf st))) = dir_of (ps_aux A st).
Proof.
  intros fuel n p rf st Hn.
  destruct C12_directive_mode_cert as (C1 & C2 & C3).
  eapply (run_neutral A prim act cond dirflag inp grammar B dir_of dir_invisible dir_inverse dir_neutral_cert
            keywords_dont_touch_dir dir_cong end_undoes_begin C1).
  cbn [neutral]. rewrite forallb_forall in C2. apply C2. apply nth_In. now rewrite C3.
Qed.
End Oracles.

(* ------------------------------------------------------------------ the executable instance (Nom/Exec.v) *)
(* there the three hypotheses about the actions are facts about act_exec: the theorem holds of the grammar as it is run
   against the real parser, with nothing assumed *)
From SV Require Exec GenPrims.

(* what a state action of the executable instance does to the height of the IN_DIRECTIVE stack *)
Definition dir_step (a : N) (d : nat) : nat := match a with 1%N => S d | 2%N => pred d | _ => d end.

Lemma act_exec_dir a x : Exec.t_dir (Exec.act_exec a x) = dir_step a (Exec.t_dir x).
Proof.
  unfold Exec.act_exec, dir_step.
  destruct a as [|p]; [reflexivity|].
  destruct p as [p|p|]; try reflexivity;
  destruct p as [p|p|]; try reflexivity;
  destruct p as [p|p|]; try reflexivity;
  destruct p as [p|p|]; try reflexivity;
  destruct p as [p|p|]; try reflexivity.
Qed.

Theorem C12_exec_directive_mode_never_leaks : forall inp sfuel fuel n p rf st,
  n < List.length grammar ->
  Exec.t_dir (ps_aux Exec.tls (snd (run Exec.tls (Exec.prim_exec GenPrims.span_defs GenPrims.prim_table inp sfuel) Exec.act_exec Exec.cond_exec Exec.in_dir
                                       inp grammar fuel (FCall n) p rf st))) = Exec.t_dir (ps_aux Exec.tls st).
Proof.
  intros inp sfuel fuel n p rf st Hn.
  apply (C12_directive_mode_never_leaks Exec.tls _ Exec.act_exec Exec.cond_exec Exec.in_dir inp nat Exec.t_dir); [| | |exact Hn].
  - intros a x Ha. rewrite act_exec_dir. unfold dir_invisible in Ha. cbn in Ha.
    repeat (destruct Ha as [<-|Ha]; [reflexivity|]). contradiction.
  - intros a x y E. now rewrite !act_exec_dir, E.
  - intros a b x Hab. unfold dir_inverse in Hab. cbn in Hab. destruct Hab as [[= <- <-]|[]].
    rewrite !act_exec_dir. reflexivity.
Qed.
