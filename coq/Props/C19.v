(* C19 -- thread isolation.  Theorems over the regenerated list of state cells (Gen/GenStatics.v)
   and the per-thread model (API/Threads.v). *)
From SV Require Import Threads GenStatics.

(* Every piece of mutable state of sv-parser and of the parser-combinator crates it builds on is
   thread_local: no global static with interior mutability, no static mut, no lazy_static. *)
Theorem C19_all_state_thread_local : all_thread_local cells = true.
Proof. vm_compute. reflexivity. Qed.

(* Hence (frame rule): in every schedule that interleaves the atomic steps of calls running on any
   number of threads, the results a thread obtains, and the state it is left with, are those of
   running its own steps alone -- for every schedule, every number of threads and every step. *)
Theorem C19_isolated : forall (Tid S R : Type) (tid_eqb : Tid -> Tid -> bool),
  (forall a b, tid_eqb a b = true <-> a = b) ->
  forall (sched : list (op Tid S R)) (g : gstate Tid S) (t : Tid),
  results_of Tid R tid_eqb t (fst (run Tid S R tid_eqb sched g)) =
    fst (run_solo Tid S R (mine Tid S R tid_eqb t sched) (g t)) /\
  snd (run Tid S R tid_eqb sched g) t = snd (run_solo Tid S R (mine Tid S R tid_eqb t sched) (g t)).
Proof. exact isolation. Qed.

(* Non-vacuity: two threads bumping their own counters in an interleaved schedule. *)
Example C19_example :
  let bump t := mkOp nat nat nat t (fun s => (s, S s)) in
  results_of nat nat Nat.eqb 1 (fst (run nat nat nat Nat.eqb [bump 1; bump 2; bump 1; bump 2; bump 1] (fun _ => 0)))
  = [0; 1; 2].
Proof. vm_compute. reflexivity. Qed.
