(* C13 -- reserved words.  Tables, dispatch and specifier mapping are regenerated from keywords.rs /
   utils.rs (Gen/GenKeywords.v); stack and lexer model in Nom/Keywords.v. *)
From SV Require Import Keywords GenKeywords.
Open Scope string_scope.

(* each of the eight version specifiers selects its own table; the default is 1800-2017; macro names
   are lexed under the directive-name set *)
Theorem C13_specifier_tables :
  map (fun sv => (fst sv, table_of (Some (snd sv)))) specifiers =
  [ ("1364-1995", keywords_1364_1995); ("1364-2001", keywords_1364_2001); ("1364-2001-noconfig", keywords_1364_2001_noconfig);
    ("1364-2005", keywords_1364_2005); ("1800-2005", keywords_1800_2005); ("1800-2009", keywords_1800_2009);
    ("1800-2012", keywords_1800_2012); ("1800-2017", keywords_1800_2017); ("directive", keywords_directive) ] /\
  table_of None = keywords_1800_2017.
Proof. vm_compute. split; reflexivity. Qed.

(* later standards only add reserved words: a word free in a later set is free in every earlier one *)
Theorem C13_tables_grow :
  subset keywords_1364_1995 keywords_1364_2001_noconfig && subset keywords_1364_2001_noconfig keywords_1364_2001 &&
  subset keywords_1364_2001 keywords_1364_2005 && subset keywords_1364_2005 keywords_1800_2005 &&
  subset keywords_1800_2005 keywords_1800_2009 && subset keywords_1800_2009 keywords_1800_2012 &&
  subset keywords_1800_2012 keywords_1800_2017 = true.
Proof. vm_compute. reflexivity. Qed.

(* simple_identifier_impl / c_identifier_impl end with `if is_keyword(&a) { Err } else { Ok }` (read from
   the source), and such a lexer never returns a reserved word of the table in force *)
Theorem C13_lexers_refuse : lexers_refuse_keywords = true.
Proof. vm_compute. reflexivity. Qed.

Theorem C13_identifier_not_reserved : forall v run w,
  lex_identifier (table_of v) run = Some w -> mem w (table_of v) = false /\ w = run.
Proof. intros v. apply lex_identifier_not_reserved. Qed.

Theorem C13_reserved_rejected : forall v run, mem run (table_of v) = true -> lex_identifier (table_of v) run = None.
Proof. intros v. apply lex_identifier_refuses. Qed.

(* The set in force: with one push per `begin_keywords and one pop per `end_keywords (read from the
   source), for every nesting and sequence of regions: inside a region, after any stretch of closed
   inner regions, the region's own set is in force; closing it restores the enclosing one; outside all
   regions the default applies. *)
Theorem C13_region_in_force : forall pre v inner s,
  closed inner -> in_force (vrun (pre ++ Begin v :: inner) s) = Some v.
Proof. exact region_in_force. Qed.

Theorem C13_region_closed_restores : forall pre v inner s,
  closed inner -> vrun (pre ++ Begin v :: inner ++ [End_]) s = vrun pre s.
Proof. exact region_closed_restores. Qed.

Theorem C13_outside_regions : forall ops, closed ops -> in_force (vrun ops []) = None.
Proof. exact outside_regions. Qed.

(* reserved only in a later standard: accepted as an identifier under the older set *)
Example C13_older_sets :
  mem "logic" keywords_1800_2017 = true /\ mem "logic" keywords_1364_2001 = false /\
  mem "implements" keywords_1800_2012 = true /\ mem "implements" keywords_1800_2009 = false /\
  mem "config" keywords_1364_2001 = true /\ mem "config" keywords_1364_2001_noconfig = false /\
  lex_identifier (table_of (Some V_Ieee1364_2001)) "logic" = Some "logic" /\
  lex_identifier (table_of None) "logic" = None /\
  in_force (vrun [Begin V_Ieee1364_2001; Begin V_Ieee1800_2017; End_] []) = Some V_Ieee1364_2001 /\
  in_force (vrun [Begin V_Ieee1800_2017; Begin V_Ieee1800_2017; End_] []) = Some V_Ieee1800_2017.
Proof. vm_compute. repeat split; reflexivity. Qed.

(* keyword() consults the set in force (fix 7a74a81).  The guard's version -> table map is regenerated
   from is_reserved_in_force; it agrees with is_keyword's wherever it selects a table, and selects none
   exactly for the default, for "1800-2017" and for directive names. *)
Theorem C13_keyword_guard_tables :
  forallb (fun v => match guard_table_of v with
                    | Some k => forallb (fun w => mem w (table_of v)) k && forallb (fun w => mem w k) (table_of v)
                    | None => match v with None | Some V_Ieee1800_2017 | Some V_Directive => true | _ => false end
                    end)
          [None; Some V_Ieee1364_1995; Some V_Ieee1364_2001; Some V_Ieee1364_2001Noconfig; Some V_Ieee1364_2005;
           Some V_Ieee1800_2005; Some V_Ieee1800_2009; Some V_Ieee1800_2012; Some V_Ieee1800_2017; Some V_Directive] = true.
Proof. vm_compute. reflexivity. Qed.

(* a word that is reserved only in a later standard than the one in force is refused as a keyword and
   accepted by the identifier lexer, for every version and every word *)
Theorem C13_later_word_is_identifier : forall v k t,
  guard_table_of v = Some k -> mem t keywords_1800_2017 = true -> mem t k = false ->
  keyword_allowed (guard_table_of v) keywords_1800_2017 t = false /\ lex_identifier k t = Some t.
Proof. intros v k t. apply later_word_is_identifier. Qed.

Theorem C13_reserved_word_stays_keyword : forall v t,
  match guard_table_of v with Some k => mem t k = true \/ mem t keywords_1800_2017 = false | None => True end ->
  keyword_allowed (guard_table_of v) keywords_1800_2017 t = true.
Proof. intros v t. apply reserved_word_stays_keyword. Qed.

Example C13_signed_1995 :
  keyword_allowed (guard_table_of (Some V_Ieee1364_1995)) keywords_1800_2017 "signed" = false /\
  keyword_allowed (guard_table_of (Some V_Ieee1364_2001)) keywords_1800_2017 "signed" = true /\
  keyword_allowed (guard_table_of (Some V_Ieee1364_1995)) keywords_1800_2017 "reg" = true /\
  keyword_allowed (guard_table_of None) keywords_1800_2017 "logic" = true /\
  keyword_allowed (guard_table_of (Some V_Ieee1364_1995)) keywords_1800_2017 "1step" = true.
Proof. vm_compute. repeat split; reflexivity. Qed.

(* the names of compiler directives pass inside a directive whatever set is in force: `include is a directive also
   under "1364-1995" and "1364-2001-noconfig", where the word include is not reserved (the guard carries that exemption:
   regenerated flag) -- while outside directives the guard is the one of the theorems above *)
Theorem C13_directive_names_pass_in_directives : guard_exempts_directive_names = true /\
  forall v t, mem t keywords_directive = true ->
    keyword_allowed_at true keywords_directive (guard_table_of v) keywords_1800_2017 t = true.
Proof. split; [vm_compute; reflexivity|]. intros v t. apply directive_name_always_allowed. Qed.

Example C13_include_under_1995 :
  keyword_allowed (guard_table_of (Some V_Ieee1364_1995)) keywords_1800_2017 "include" = false /\
  keyword_allowed_at true keywords_directive (guard_table_of (Some V_Ieee1364_1995)) keywords_1800_2017 "include" = true /\
  keyword_allowed_at false keywords_directive (guard_table_of (Some V_Ieee1364_1995)) keywords_1800_2017 "include" = false.
Proof. vm_compute. repeat split; reflexivity. Qed.

(* ------------------------------------------------------------------ the grammar pushes what the directive spells *)
(* Over the regenerated grammar and primitive table: version_specifier is an ordered choice of eight alternatives, each
   "keyword(t) then begin_keywords(v)"; the word t of the i-th keyword production and the set v its action pushes are
   one of the pairs (specifier, set) of begin_keywords' own dispatch (Gen/GenKeywords.v) -- no specifier selects the set
   of another standard. *)
From SV Require Peg Exec GenPrims GenGrammar.
Import Peg Exec.

Definition version_eqb (a b : version) : bool :=
  match a, b with
  | V_Ieee1364_1995, V_Ieee1364_1995 | V_Ieee1364_2001, V_Ieee1364_2001 | V_Ieee1364_2001Noconfig, V_Ieee1364_2001Noconfig
  | V_Ieee1364_2005, V_Ieee1364_2005 | V_Ieee1800_2005, V_Ieee1800_2005 | V_Ieee1800_2009, V_Ieee1800_2009
  | V_Ieee1800_2012, V_Ieee1800_2012 | V_Ieee1800_2017, V_Ieee1800_2017 | V_Directive, V_Directive => true
  | _, _ => false
  end.

Definition kw_text (k : nat) : option HandLex.bytes :=
  match nth_error GenGrammar.grammar k with
  | Some (mkProd _ _ (FTmpl (FLeaf (FAlt (FSeq (FPrim t :: _) :: _)) :: _) _)) =>
      match nth_error GenPrims.prim_table (N.to_nat t) with Some (PKeyword b) => Some b | _ => None end
  | _ => None
  end.

Definition spec_alts : list (option HandLex.bytes * N) :=
  match nth_error GenGrammar.grammar GenGrammar.start_version_specifier with
  | Some (mkProd _ _ (FTmpl [FAlt alts] _)) =>
      map (fun a => match a with FTmpl [FCall k; FAct n] _ => (kw_text k, n) | _ => (None, 0%N) end) alts
  | _ => []
  end.

Theorem C13_version_specifier_pushes_what_it_spells :
  List.length spec_alts = 8%nat /\
  forallb (fun ta => match fst ta, version_of_act (snd ta) with
                     | Some b, Some v => existsb (fun sv => String.eqb (fst sv) (string_of_bytes b) && version_eqb (snd sv) v) specifiers
                     | _, _ => false
                     end) spec_alts = true.
Proof. vm_compute. split; reflexivity. Qed.

(* ------------------------------------------------------------------ lexing in the executable instance (Nom/Exec.v) *)
(* what the interpreter, as it is run against the real parser, can return as an identifier or accept as a keyword in a
   given thread-local state -- for every text, position and state *)
From SV Require HandLex GenLexers.

(* the identifier lexers of the executable instance: those of the regenerated table that carry the reserved-word veto *)
Theorem C13_exec_identifier_is_never_reserved : forall inp sfuel i x p n l,
  nth_error GenPrims.prim_table (N.to_nat i) = Some (PLex l) -> HandLex.lx_veto l = true ->
  prim_exec GenPrims.span_defs GenPrims.prim_table inp sfuel i x p = Some n ->
  Keywords.mem (string_of_bytes (firstn n (skipn p inp))) (table_of (in_force (t_ver x))) = false.
Proof.
  intros inp sfuel i x p n l Hl Hv H. unfold prim_exec in H. rewrite Hl in H. unfold HandLex.lex in H.
  destruct (HandLex.head_len (HandLex.lx_head l) (skipn p inp)) as [h|]; [|discriminate].
  destruct (HandLex.lx_tail_required l && _)%bool; [discriminate|].
  rewrite Hv in H. cbn [andb] in H.
  destruct (veto_of x (firstn (h + HandLex.run_len (HandLex.lx_tail l) (skipn h (skipn p inp))) (skipn p inp))) eqn:E; [discriminate|].
  injection H as <-. exact E.
Qed.

(* keyword(t) succeeds only for a word that is_reserved_in_force lets through in the state it is tried in *)
Theorem C13_exec_keyword_only_when_in_force : forall inp sfuel i x p n t,
  nth_error GenPrims.prim_table (N.to_nat i) = Some (PKeyword t) ->
  prim_exec GenPrims.span_defs GenPrims.prim_table inp sfuel i x p = Some n ->
  keyword_allowed_at (in_dir x) keywords_directive (guard_table_of (in_force (t_ver x))) keywords_1800_2017 (string_of_bytes t) = true.
Proof.
  intros inp sfuel i x p n t Hl H. unfold prim_exec in H. rewrite Hl in H.
  unfold reserved_in_force in H. destruct (keyword_allowed_at _ _ _ _ _); [reflexivity|discriminate].
Qed.

(* the two identifier lexers of the grammar carry that veto in the regenerated table (Gen/GenLexers.v reads it off
   their bodies: `if is_keyword(&a) { Err(..) }`), and they are primitives of the executable grammar *)
Theorem C13_exec_identifier_lexers_have_the_veto :
  HandLex.lx_veto GenLexers.lx_simple_identifier_impl = true /\ HandLex.lx_veto GenLexers.lx_c_identifier_impl = true /\
  List.length (filter (fun d => match d with PLex l => HandLex.lx_veto l | _ => false end) GenPrims.prim_table) = 2%nat.
Proof. vm_compute. repeat split; reflexivity. Qed.

Open Scope string_scope.

(* ------------------------------------------------------------------ the tables against the standard's own account *)
(* IEEE 1800-2017 22.14 lists, per version specifier, the reserved words of that standard; what each list adds to the one
   before it is stated here from the standard (not read from the code): sizes 102 / 113 / 123 / 124 / 221 / 244 / 248 / 248,
   no word twice, and the words added by 1364-2001 (without and with configurations), 1364-2005, 1800-2009 and 1800-2012
   by name.  A word dropped from, added to or duplicated in a table breaks this theorem. *)
Definition diff (a b : list string) : list string := filter (fun w => negb (mem w a)) b.
Definition seteq (a b : list string) : bool := subset a b && subset b a.
Fixpoint nodupb (l : list string) : bool := match l with [] => true | x :: r => negb (mem x r) && nodupb r end.

Theorem C13_what_each_standard_adds :
  map (@List.length string) [keywords_1364_1995; keywords_1364_2001_noconfig; keywords_1364_2001; keywords_1364_2005;
                             keywords_1800_2005; keywords_1800_2009; keywords_1800_2012; keywords_1800_2017]
    = [102; 113; 123; 124; 221; 244; 248; 248]%nat /\
  forallb nodupb [keywords_1364_1995; keywords_1364_2001_noconfig; keywords_1364_2001; keywords_1364_2005;
                  keywords_1800_2005; keywords_1800_2009; keywords_1800_2012; keywords_1800_2017; keywords_directive] = true /\
  seteq (diff keywords_1364_1995 keywords_1364_2001_noconfig)
        ["automatic"; "endgenerate"; "generate"; "genvar"; "localparam"; "noshowcancelled"; "pulsestyle_ondetect";
         "pulsestyle_onevent"; "showcancelled"; "signed"; "unsigned"] = true /\
  seteq (diff keywords_1364_2001_noconfig keywords_1364_2001)
        ["cell"; "config"; "design"; "endconfig"; "incdir"; "include"; "instance"; "liblist"; "library"; "use"] = true /\
  seteq (diff keywords_1364_2001 keywords_1364_2005) ["uwire"] = true /\
  seteq (diff keywords_1800_2005 keywords_1800_2009)
        ["accept_on"; "checker"; "endchecker"; "eventually"; "global"; "implies"; "let"; "nexttime"; "reject_on"; "restrict";
         "s_always"; "s_eventually"; "s_nexttime"; "s_until"; "s_until_with"; "strong"; "sync_accept_on"; "sync_reject_on";
         "unique0"; "until"; "until_with"; "untyped"; "weak"] = true /\
  seteq (diff keywords_1800_2009 keywords_1800_2012) ["implements"; "interconnect"; "nettype"; "soft"] = true /\
  seteq keywords_1800_2012 keywords_1800_2017 = true.
Proof. vm_compute. repeat split; reflexivity. Qed.
