(* C10 -- `include.  Property theorems only; proofs live in PP/IgnoreFacts.v, PP/EvalFacts.v. *)
From SV Require LineFacts.
From SV Require Import Eval EvalFacts IgnoreFacts IncludeFacts.

(* Which file an `include names: the name as given when it is absolute or exists relative to
   the working directory, otherwise the first include path that contains it, otherwise the
   name as given (which then fails with Include{File{name}}). *)
Theorem C10_resolve : forall c p,
  resolve_path c p =
  if negb (is_relative p) || fs_exists c p then p
  else match find (fun i => fs_exists c (path_join i p)) (cfg_incs c) with
       | Some i => path_join i p
       | None => p
       end.
Proof. exact resolve_path_spec. Qed.

Theorem C10_first_include_path : forall c p i,
  find (fun i => fs_exists c (path_join i p)) (cfg_incs c) = Some i ->
  exists pre post, cfg_incs c = pre ++ i :: post /\ fs_exists c (path_join i p) = true /\
                   Forall (fun j => fs_exists c (path_join j p) = false) pre.
Proof. intros c p i H. exact (find_first (fun i => fs_exists c (path_join i p)) _ _ H). Qed.

(* A file found nowhere is reported as File{path}, unreadable content as ReadUtf8{path}. *)
Theorem C10_missing : forall c rec p d ig st idp,
  fs_exists c p = false -> pp_file c rec p d ig st idp = RErr (EFile p).
Proof.
  intros c rec p d ig st idp H. unfold pp_file, fs_exists in *. destruct (assoc p (cfg_fs c)); [discriminate|reflexivity].
Qed.

(* With ignore_include no file is read, at any depth of macro expansion: the result does not
   depend on the file system nor on the include paths. *)
Theorem C10_ignore_reads_nothing : forall fuel c1 c2 s p pre strip rd idp,
  cfg_parse c1 = cfg_parse c2 -> cfg_limit c1 = cfg_limit c2 ->
  pp_str fuel c1 s p pre true strip rd idp = pp_str fuel c2 s p pre true strip rd idp.
Proof. exact pp_str_ignore_fs. Qed.

Example C10_example :
  let c := mkCfg [] [([105;49;47;120], FText []); ([105;50;47;120], FText []); ([121], FText [])]
                 [[105;48]; [105;49]; [105;50]] 64 in
  resolve_path c [120] = [105;49;47;120] /\ resolve_path c [121] = [121] /\ resolve_path c [122] = [122].
Proof. vm_compute. repeat split; reflexivity. Qed.

(* The splice.  An `include "name" met in active text (nothing else on its line): the file the name
   resolves to is preprocessed with the define table in force at the directive, one include level
   deeper, with resolve depth 0; if that succeeds its whole output is appended to the output produced
   so far (as one merged segment, so origins of its bytes point into the included files) and the table
   it returns -- definitions AND undefinitions made inside -- is the table from here on; if it fails
   the error is wrapped once in Include; nothing else of the state changes but bookkeeping. *)
Theorem C10_include_splices : forall c rec s p strip rdepth idepth t inner sym kw lit l fl x text ops nd,
  children t = [inner] -> kind inner = K_IncludeCompilerDirectiveDoubleQuote -> children inner = [sym; kw; lit] ->
  node_locate t = ROk l -> first_leaf lit = Some fl ->
  (match s_item x with Some i => i =? l_line l | None => false end) = false ->
  pp_file c rec (resolve_path c (trim_matches 34 (lstr s fl))) (s_defs x) false strip (idepth + 1) = ROk (text, ops, nd) ->
  exists x', include_enter c rec s p strip rdepth idepth t x = ROk x' /\
             s_out x' = text :: s_out x /\ s_ops x' = Merge ops :: s_ops x /\ s_defs x' = nd.
Proof. exact include_literal_ok. Qed.

Theorem C10_include_error_wrapped : forall c rec s p strip rdepth idepth t inner sym kw lit l fl x e,
  children t = [inner] -> kind inner = K_IncludeCompilerDirectiveDoubleQuote -> children inner = [sym; kw; lit] ->
  node_locate t = ROk l -> first_leaf lit = Some fl ->
  (match s_item x with Some i => i =? l_line l | None => false end) = false ->
  pp_file c rec (resolve_path c (trim_matches 34 (lstr s fl))) (s_defs x) false strip (idepth + 1) = RErr e ->
  include_enter c rec s p strip rdepth idepth t x = RErr (EInclude e).
Proof.
  intros c rec s p strip rdepth idepth t inner sym kw lit l fl x e Ht Hk Hi Hl Hf Hline Hp.
  rewrite (include_literal c rec s p strip rdepth idepth t inner sym kw lit l fl x Ht Hk Hi Hl Hf Hline). now rewrite Hp.
Qed.

(* The same-line rule.  An `include is rejected with IncludeLine when the last item before it ended on its
   line; an item (text that is not blank on that line, or a directive) that starts on the line of the last
   `include is rejected too; white space and comments are no items. *)
Theorem C10_include_behind_an_item_rejected : forall c rec s p strip rd idp t l x,
  node_locate t = ROk l -> s_item x = Some (l_line l) ->
  include_enter c rec s p strip rd idp t x = RErr EIncludeLine.
Proof. exact LineFacts.include_after_item. Qed.

Theorem C10_text_behind_an_include_rejected : forall s t l x,
  kind t = K_SourceDescriptionNotDirective -> node_locate t = ROk l -> s_inc x = Some (l_line l) ->
  trim (first_line (lstr s l)) <> [] -> step2 s (Enter t) x = RErr EIncludeLine.
Proof. exact LineFacts.text_after_include. Qed.

Theorem C10_directive_behind_an_include_rejected : forall s t l x,
  kind t = K_CompilerDirective -> node_locate t = ROk l -> s_inc x = Some (l_line l) ->
  step2 s (Enter t) x = RErr EIncludeLine.
Proof. exact LineFacts.directive_after_include. Qed.

Theorem C10_blank_behind_an_include_accepted : forall s t l x,
  kind t = K_SourceDescriptionNotDirective -> node_locate t = ROk l ->
  trim (first_line (lstr s l)) = [] -> step2 s (Enter t) x = ROk x.
Proof. exact LineFacts.blank_after_include. Qed.

(* the line on which an item ends: the line of its first byte plus the line breaks in front of its last
   non-blank byte -- trailing white space does not count, leading line breaks do *)
Theorem C10_item_line_recorded : forall s t l x,
  kind t = K_SourceDescriptionNotDirective -> node_locate t = ROk l -> trim (lstr s l) <> [] ->
  exists x', step2 s (Leave t) x = ROk x' /\ s_item x' = Some (l_line l + count_nl (trim_end (lstr s l))).
Proof. exact LineFacts.item_line_recorded. Qed.

Theorem C10_item_end_line : forall a c w, is_ws c = false -> forallb is_ws w = true ->
  count_nl (trim_end (a ++ [c] ++ w)) = count_nl a.
Proof. exact LineFacts.item_end_line. Qed.
