(* Extraction of the executable interpretation of the regenerated grammar (Nom/Exec.v over Gen/GenGrammar.v and
   Gen/GenPrims.v) to OCaml -- a separate program from the preprocessor model, so that a source change the grammar
   translator does not vouch for cannot take that model down.  ExtrOcamlBasic only; no Extract Constant. *)
From SV Require Import Peg Exec GenGrammar GenPrims.
Require Extraction.
Require Import ExtrOcamlBasic.
Extraction Language OCaml.
Set Extraction KeepSingleton.
Separate Extraction Exec.exec GenGrammar.grammar GenPrims.span_defs GenPrims.prim_table
  GenGrammar.start_source_text GenGrammar.start_source_text_incomplete GenGrammar.start_library_text
  GenGrammar.start_library_text_incomplete GenGrammar.start_preprocessor_text
  BinNat.N.of_nat BinNat.N.to_nat.
