(* Extraction of the executable models to OCaml (ExtrOcamlBasic only: bool, option, unit,
   list, prod, sumbool, sumor are mapped to OCaml's; N / positive / comparison stay Coq
   data types; no Extract Constant). *)
From SV Require Import Origin.
Require Extraction.
Require Import ExtrOcamlBasic.
Extraction Language OCaml.
Set Extraction KeepSingleton.
Separate Extraction Origin.run_ops Origin.pt_origin Origin.pt_push Origin.pt_merge Origin.pt_new
  BinNat.N.of_nat BinNat.N.to_nat BinNat.N.add BinNat.N.mul BinNat.N.eqb BinNat.N.ltb BinNat.N.succ.
