(* Extraction of the executable models to OCaml (ExtrOcamlBasic only: bool, option, unit,
   list, prod, sumbool, sumor are mapped to OCaml's; N / positive / comparison stay Coq
   data types; no Extract Constant). *)
From SV Require Import Origin Iter Eval Peg SkipCheck.
Require Extraction.
Require Import ExtrOcamlBasic.
Extraction Language OCaml.
Set Extraction KeepSingleton.
Separate Extraction Iter.iter_run Iter.ev_run Iter.iter_event Iter.iter_new Iter.node_into_iter
  Iter.unwrap_node Iter.get_str_range Iter.get_str_trim_range Tree.size Tree.preorder Tree.events
  Origin.run_ops Origin.pt_origin Origin.pt_push Origin.pt_merge Origin.pt_new
  Peg.memo_insert Peg.map_get Peg.mkPst
  SkipCheck.skip_hyp_file
  Eval.preprocess Eval.pp_str Eval.split_text Eval.seed_defines Eval.mkCfg
  BinNat.N.of_nat BinNat.N.to_nat BinNat.N.add BinNat.N.mul BinNat.N.eqb BinNat.N.ltb BinNat.N.succ.
