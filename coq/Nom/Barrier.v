(* C14: a byte that no primitive consumes is a barrier; a start production that ends in
   many_till(.., eof) cannot succeed when a barrier stands before the end of the text.  Proofs only. *)
From SV Require Import Peg Bound BoundPk.
From Coq Require Import Arith Lia.
Local Open Scope nat_scope.

Section Barrier.
Variable A : Type.
Variable prim : N -> A -> nat -> option nat.
Variable act : N -> A -> A.
Variable cond : N -> A -> bool.
Variable dirflag : A -> bool.
Variable inp : list N.
Variable g : list prod.
Variable bar : nat.
Notation run := (run A prim act cond dirflag inp g).
Notation pstate := (pstate A).

(* no primitive that starts at or before the barrier consumes beyond it -- except look-ahead
   primitives (the none_of behind a keyword), which stand only directly under peek / not *)
Variable peekers : list N.
Hypothesis prim_stops : forall i a p n, is_pk peekers i = false -> p <= bar -> prim i a p = Some n -> p + n <= bar.
Hypothesis GP : forall n pr, nth_error g n = Some pr -> pk peekers (p_body pr) = true.

Definition barrier := run_bd_pk A prim act cond dirflag inp g bar peekers prim_stops GP.

(* many_till(e, eof) succeeds only at the end of the text *)
Lemma manytill_eof_end e : forall fuel p rf st f q st',
  run fuel (FManyTill e FEof) p rf st = (Ok f q, st') -> length inp <= q.
Proof.
  induction fuel as [|fu IH]; intros p rf st f q st' E; [discriminate|].
  cbn [Peg.run] in E. destruct fu as [|fu0]; [discriminate|].
  change (run (S fu0) FEof p rf st) with (if Nat.leb (length inp) p then (Ok [] p, st) else (Err, st)) in E.
  destruct (Nat.leb (length inp) p) eqn:EL.
  - injection E as <- <- <-. now apply Nat.leb_le.
  - destruct (run (S fu0) e p rf st) as [[fo1 q1| |] st1]; try discriminate.
    destruct (Nat.eqb q1 p); [discriminate|].
    destruct (run (S fu0) (FManyTill e FEof) q1 [] st1) as [[fo2 q2| |] st2] eqn:E2; try discriminate.
    injection E as <- <- <-. eapply IH; eauto.
Qed.

(* a sequence of binds ends where its last bind ends *)
Lemma tmpl_ends_with_last t fu p rf : forall pre x q0 env st f q st',
  (fix go (l : list fexp) (q : nat) (env : list (list tree)) (st : pstate) : res * pstate :=
     match l with
     | [] => (Ok (build t env) q, st)
     | y :: r => let '(ry, st1) := run fu y q (rf_at p q rf) st in
                 match ry with Ok fo q' => go r q' (env ++ [fo]) st1 | _ => (ry, st1) end
     end) (pre ++ [x]) q0 env st = (Ok f q, st') ->
  exists p1 rf1 st1 f1 st2, run fu x p1 rf1 st1 = (Ok f1 q, st2).
Proof.
  induction pre as [|y pre IH]; intros x q0 env st f q st' E; cbn [app] in E.
  - destruct (run fu x q0 (rf_at p q0 rf) st) as [[fo q'| |] st1] eqn:Ex; try discriminate.
    injection E as _ <- _. eauto 10.
  - destruct (run fu y q0 (rf_at p q0 rf) st) as [[fo q'| |] st1]; try discriminate. eapply IH; eauto.
Qed.

Definition ends_with_eof (e : fexp) : bool :=
  match e with
  | FTmpl es _ => match rev es with FManyTill _ FEof :: _ => true | _ => false end
  | _ => false
  end.

(* strict source_text / library_text: with a barrier before the end of the text there is no success *)
Theorem strict_rejects n pr :
  nth_error g n = Some pr -> ends_with_eof (p_body pr) = true -> bar < length inp ->
  forall fuel cap aux f q st',
  run fuel (FCall n) 0 [] (mkPst A [] [] cap aux) <> (Ok f q, st').
Proof.
  intros En Ee Hb fuel cap aux f q st' E.
  assert (M0 : memo_bd A bar (mkPst A [] [] cap aux)) by (intros ? ? ? ? ? []).
  pose proof (barrier fuel (FCall n) 0 [] _ eq_refl M0 (Nat.le_0_l _)) as [_ B]. rewrite E in B. cbn [fst] in B.
  (* the success ends at or before the barrier ... *)
  destruct fuel as [|fu]; [discriminate|]. cbn [Peg.run] in E. rewrite En in E.
  destruct (p_body pr) as [| | | | | | | | | | | |es t| | | |] eqn:Eb; try discriminate.
  cbn [ends_with_eof] in Ee.
  destruct (rev es) as [|lst rpre] eqn:Er; [discriminate|].
  destruct lst; try discriminate. destruct lst2; try discriminate.
  assert (Ees : es = rev rpre ++ [FManyTill lst1 FEof]).
  { rewrite <- (rev_involutive es), Er. reflexivity. }
  (* ... but its last bind, many_till(.., eof), ends at the end of the text *)
  assert (Hbody : forall rf0 st0 f0 q0 st1, run fu (FTmpl es t) 0 rf0 st0 = (Ok f0 q0, st1) -> length inp <= q0).
  { intros rf0 st0 f0 q0 st1 Eq. destruct fu as [|fu0]; [discriminate|]. cbn [Peg.run] in Eq. rewrite Ees in Eq.
    destruct (tmpl_ends_with_last t fu0 0 rf0 _ _ _ _ _ _ _ _ Eq) as (p1 & rf1 & s1 & f1 & s2 & El).
    eapply manytill_eof_end; eauto. }
  assert (Hq : length inp <= q).
  { destruct (p_packrat pr); cbn [ps_map map_get] in E.
    - destruct (p_rec pr); cbn [existsb] in E.
      + destruct (run fu (FTmpl es t) 0 [n] (mkPst A [] [] cap aux)) as [[fo q1| |] s1] eqn:Eq; try discriminate.
        injection E as <- <- _. eapply Hbody; eauto.
      + destruct (run fu (FTmpl es t) 0 [] (mkPst A [] [] cap aux)) as [[fo q1| |] s1] eqn:Eq; try discriminate.
        injection E as <- <- _. eapply Hbody; eauto.
    - destruct (p_rec pr); cbn [existsb] in E; eapply Hbody; eauto. }
  lia.
Qed.
End Barrier.
