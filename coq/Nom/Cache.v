(* C17: nom-packrat's storage (HashMap + VecDeque of keys, FIFO eviction, duplicates in the deque
   allowed) is a transparent cache of any function of the key: for every capacity, every sequence
   of calls and whatever has been evicted, a memoised call returns what the function returns.
   Model: Peg.map_get / Peg.memo_insert (the same definitions the interpreter uses).  Proofs only. *)
From SV Require Import Peg.
From Coq Require Import Arith Lia.
Local Open Scope nat_scope.

Section Cache.
Variable A : Type.
Variable F : mkey -> mval.            (* what the parser named by the key returns at that position *)
Notation pstate := (pstate A).

(* the packrat_parser wrapper around a pure body *)
Definition memo_call (st : pstate) (k : mkey) : mval * pstate :=
  match map_get (ps_map A st) k with
  | Some v => (v, st)
  | None => let v := F k in (v, memo_insert A st k v)
  end.

Fixpoint memo_calls (st : pstate) (ks : list mkey) : list mval * pstate :=
  match ks with
  | [] => ([], st)
  | k :: r => let '(v, st1) := memo_call st k in
              let '(vs, st2) := memo_calls st1 r in (v :: vs, st2)
  end.

Definition sound (st : pstate) : Prop := forall k v, In (k, v) (ps_map A st) -> v = F k.

Lemma key_eqb_true3 a b : key_eqb a b = true -> a = b.
Proof.
  destruct a as [[n1 p1] d1], b as [[n2 p2] d2]. cbn. intros H.
  apply andb_true_iff in H as [H H3]. apply andb_true_iff in H as [H1 H2].
  apply Nat.eqb_eq in H1, H2. apply eqb_prop in H3. now subst.
Qed.

Lemma map_get_in3 m k v : map_get m k = Some v -> In (k, v) m.
Proof.
  induction m as [|[k' v'] m IH]; cbn; [discriminate|]. destruct (key_eqb k k') eqn:E.
  - intros [= ->]. apply key_eqb_true3 in E. subst. now left.
  - intros H. right. auto.
Qed.

Lemma map_remove_in3 m k x : In x (map_remove m k) -> In x m.
Proof. induction m as [|[k' v'] m IH]; cbn; [auto|]. destruct (key_eqb k k'); cbn; intuition. Qed.

Lemma insert_sound st k : sound st -> sound (memo_insert A st k (F k)).
Proof.
  intros H. unfold sound, memo_insert.
  destruct (ps_cap A st) as [size|]; [destruct (Nat.ltb _ _); [destruct (ps_keys A st)|]|];
    cbn [ps_map]; intros k' v' [E|Hin]; try (injection E as <- <-; reflexivity);
    repeat (apply map_remove_in3 in Hin); auto.
Qed.

Lemma memo_call_sound st k : sound st -> fst (memo_call st k) = F k /\ sound (snd (memo_call st k)).
Proof.
  intros H. unfold memo_call. destruct (map_get (ps_map A st) k) as [v|] eqn:E; cbn [fst snd].
  - split; [apply H; now apply map_get_in3|exact H].
  - split; [reflexivity|now apply insert_sound].
Qed.

(* every call sequence, every capacity, every starting content that is sound (e.g. empty) *)
Theorem cache_transparent : forall ks st, sound st -> fst (memo_calls st ks) = map F ks /\ sound (snd (memo_calls st ks)).
Proof.
  induction ks as [|k r IH]; intros st H; cbn [memo_calls map]; [auto|].
  destruct (memo_call_sound st k H) as [E1 S1]. destruct (memo_call st k) as [v st1]. cbn [fst snd] in *.
  destruct (IH st1 S1) as [E2 S2]. destruct (memo_calls st1 r) as [vs st2]. cbn [fst snd] in *. split; [congruence|exact S2].
Qed.

Lemma empty_sound cap a : sound (mkPst A [] [] cap a).
Proof. intros k v []. Qed.

(* the deque never holds more than the capacity *)
Lemma insert_bound st k v size : ps_cap A st = Some size -> 1 <= size -> length (ps_keys A st) <= size ->
  length (ps_keys A (memo_insert A st k v)) <= size /\ ps_cap A (memo_insert A st k v) = Some size.
Proof.
  intros Hc Hs Hl. unfold memo_insert. rewrite Hc.
  destruct (Nat.ltb (size - 1) (length (ps_keys A st))) eqn:E.
  - apply Nat.ltb_lt in E. destruct (ps_keys A st) as [|old rest] eqn:Ek; cbn [ps_keys ps_cap] in *.
    + cbn in E. lia.
    + rewrite app_length. cbn in *. split; [lia|reflexivity].
  - apply Nat.ltb_ge in E. cbn [ps_keys ps_cap]. rewrite app_length. cbn. split; [lia|reflexivity].
Qed.
End Cache.
