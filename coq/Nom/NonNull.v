(* Which parsers cannot succeed without consuming: a certificate (list of productions claimed
   non-nullable, computed by the translator) checked by a syntactic analysis, and the soundness
   of that analysis for the interpreter.  Used by C15 (many0 never fails, strict vs incomplete).
   Proofs only besides the analysis itself. *)
From SV Require Import Peg.
From Coq Require Import Arith Lia.
Local Open Scope nat_scope.

Section NN.
Variable A : Type.
Variable prim : N -> A -> nat -> option nat.
Variable act : N -> A -> A.
Variable cond : N -> A -> bool.
Variable dirflag : A -> bool.
Variable inp : list N.
Variable g : list prod.
Variable pos_prims : list N.      (* primitives / hand lexers that consume at least one byte when they succeed *)
Variable cert : list bool.        (* by production index: claimed non-nullable *)
Definition cmem (n : nat) : bool := nth n cert false.

Notation run := (run A prim act cond dirflag inp g).
Notation pstate := (pstate A).

Fixpoint nn (e : fexp) : bool :=
  match e with
  | FCall n => cmem n
  | FPrim i => existsb (N.eqb i) pos_prims
  | FLeaf e1 | FMany1 e1 | FWrap _ _ e1 => nn e1
  | FSeq es | FTmpl es _ => (fix go (l : list fexp) : bool := match l with [] => false | x :: r => nn x || go r end) es
  | FAlt es => (fix go (l : list fexp) : bool := match l with [] => true | x :: r => nn x && go r end) es
  | FManyTill _ e2 => nn e2
  | FIf _ e1 e2 => nn e1 && nn e2
  | _ => false
  end.

Definition cert_ok : bool :=
  (fix go (c : list bool) (ps : list prod) : bool :=
     match c, ps with
     | b :: c', pr :: ps' => (negb b || nn (p_body pr)) && go c' ps'
     | [], _ => true
     | _ :: _, [] => forallb negb c
     end) cert g.

Lemma cert_ok_sound : cert_ok = true -> forall n pr, cmem n = true -> nth_error g n = Some pr -> nn (p_body pr) = true.
Proof.
  unfold cert_ok, cmem. generalize cert g. intros l. induction l as [|b c IH]; intros ps H n pr Hc Hn.
  - destruct n; discriminate.
  - destruct ps as [|p0 ps].
    + destruct n; discriminate.
    + apply andb_true_iff in H as [H1 H2]. destruct n as [|n]; cbn in *.
      * injection Hn as <-. subst b. exact H1.
      * eapply IH; eauto.
Qed.

Hypothesis prim_pos : forall i a p n, In i pos_prims -> prim i a p = Some n -> 1 <= n.

(* the memo never holds a zero-length success for a certified production *)
Definition memo_nn (st : pstate) : Prop :=
  forall n p d fo len, In ((n, p, d), Some (fo, len)) (ps_map A st) -> cmem n = true -> 1 <= len.

Lemma map_remove_in' m k x : In x (map_remove m k) -> In x m.
Proof. induction m as [|[k' v'] m IH]; cbn; [auto|]. destruct (key_eqb k k'); cbn; intuition. Qed.

Lemma memo_insert_nn st n p d v :
  memo_nn st -> (forall fo len, v = Some (fo, len) -> cmem n = true -> 1 <= len) ->
  memo_nn (memo_insert A st (n, p, d) v).
Proof.
  intros H Hv. unfold memo_nn, memo_insert.
  destruct (ps_cap A st) as [size|]; [destruct (Nat.ltb (size - 1) (length (ps_keys A st))); [destruct (ps_keys A st)|]|];
    cbn [ps_map]; intros n' p' d' fo len [E|Hin] Hc;
    try (injection E as -> -> -> ->; eapply Hv; eauto; fail);
    repeat (apply map_remove_in' in Hin); eapply H; eauto.
Qed.

Lemma map_get_in' m k v : map_get m k = Some v -> exists k', key_eqb k k' = true /\ In (k', v) m.
Proof.
  induction m as [|[k' v'] m IH]; cbn; [discriminate|]. destruct (key_eqb k k') eqn:E.
  - intros [= ->]. eauto.
  - intros H. destruct (IH H) as (k2 & ? & ?). eauto.
Qed.

Lemma key_eqb_true' a b : key_eqb a b = true -> a = b.
Proof.
  destruct a as [[n1 p1] d1], b as [[n2 p2] d2]. cbn. intros H.
  apply andb_true_iff in H as [H H3]. apply andb_true_iff in H as [H1 H2].
  apply Nat.eqb_eq in H1, H2. apply eqb_prop in H3. now subst.
Qed.

(* what every run guarantees: the position never goes back; it advances when the analysis says so *)
Definition adv (e : fexp) (r : res * pstate) (p : nat) : Prop :=
  memo_nn (snd r) /\
  match fst r with
  | Ok _ q => p <= q /\ (nn e = true -> p < q)
  | _ => True
  end.

Ltac asplit := split; cbn [fst snd]; try exact I; auto.

Theorem run_adv : cert_ok = true -> forall fuel e p rf st, memo_nn st -> adv e (run fuel e p rf st) p.
Proof.
  intros CO. induction fuel as [|f IH]; intros e p rf st Hm.
  { split; [exact Hm|exact I]. }
  destruct e; cbn [Peg.run].
  - (* FCall *)
    destruct (nth_error g n) as [pr|] eqn:En; [|asplit].
    assert (Hnn : cmem n = true -> nn (p_body pr) = true).
    { intros Hc. eapply cert_ok_sound; eauto. }
    assert (Hbody : adv (p_body pr) (if p_rec pr then if existsb (Nat.eqb n) rf then (Err, st) else run f (p_body pr) p (n :: rf) st
                                     else run f (p_body pr) p rf st) p).
    { destruct (p_rec pr); [destruct (existsb _ rf)|]; try (apply IH; assumption). asplit. }
    cbn [nn].
    destruct (p_packrat pr).
    + destruct (map_get (ps_map A st) (n, p, dirflag (ps_aux A st))) as [[[fo len]|]|] eqn:Eg.
      * apply map_get_in' in Eg as (k' & Ek & Hin). apply key_eqb_true' in Ek. subst k'.
        asplit. split; [lia|]. intros Hc. specialize (Hm _ _ _ _ _ Hin Hc). lia.
      * asplit.
      * destruct (if p_rec pr then _ else _) as [r st'] eqn:Er. destruct Hbody as [H1 H2]. cbn [fst snd] in *.
        destruct r as [fo q| |]; cbn [fst snd].
        -- split; cbn [fst snd].
           ++ apply memo_insert_nn; [exact H1|]. intros fo' len' [= <- <-] Hc. destruct H2 as [H2 H3]. specialize (H3 (Hnn Hc)). lia.
           ++ destruct H2 as [H2 H3]. split; [exact H2|]. intros Hc. apply H3, Hnn, Hc.
        -- split; cbn [fst snd]; [|exact I]. apply memo_insert_nn; [exact H1|]. discriminate.
        -- asplit.
    + destruct Hbody as [H1 H2]. split; [exact H1|].
      destruct (fst (if p_rec pr then _ else _)); auto. destruct H2 as [H2 H3]. split; [exact H2|]. intros Hc. apply H3, Hnn, Hc.
  - (* FPrim *)
    destruct (prim i (ps_aux A st) p) eqn:Ep; [|asplit]. asplit. split; [lia|]. cbn [nn]. intros Hc.
    apply existsb_exists in Hc as (j & Hin & Ej). apply N.eqb_eq in Ej. subst j.
    pose proof (prim_pos _ _ _ _ Hin Ep). lia.
  - (* FLeaf *)
    pose proof (IH e p rf st Hm) as [H1 H2].
    destruct (run f e p rf st) as [[fo q| |] st']; cbn [fst snd] in *; [|asplit|asplit]. asplit.
  - (* FSeq *)
    assert (Hgo : forall l q acc st0 (adv0 : bool), memo_nn st0 -> p <= q -> (adv0 = true -> p < q) ->
      let r := (fix go (l : list fexp) (q : nat) (acc : list tree) (st : pstate) : res * pstate :=
                  match l with
                  | [] => (Ok acc q, st)
                  | x :: r =>
                      let '(rx, st') := run f x q (rf_at p q rf) st in
                      match rx with
                      | Ok fo q' => go r q' (acc ++ fo) st'
                      | _ => (rx, st')
                      end
                  end) l q acc st0 in
      memo_nn (snd r) /\
      match fst r with
      | Ok _ q' => p <= q' /\
                   ((adv0 || (fix go (l : list fexp) : bool := match l with [] => false | x :: r => nn x || go r end) l) = true -> p < q')
      | _ => True
      end).
    { induction l as [|x r IHl]; intros q acc st0 adv0 H0 Hle Hadv; cbn zeta.
      - asplit. split; [exact Hle|]. rewrite orb_false_r. exact Hadv.
      - pose proof (IH x q (rf_at p q rf) st0 H0) as [H1 H2].
        destruct (run f x q (rf_at p q rf) st0) as [[fo q'| |] st']; cbn [fst snd] in *; [|asplit|asplit].
        destruct H2 as [H2 H3].
        specialize (IHl q' (acc ++ fo) st' (adv0 || nn x) H1 ltac:(lia)).
        assert (Ha : adv0 || nn x = true -> p < q').
        { intros Hor. apply orb_true_iff in Hor as [Ha|Hn]; [specialize (Hadv Ha); lia|specialize (H3 Hn); lia]. }
        specialize (IHl Ha). cbn zeta in IHl. destruct IHl as [I1 I2]. split; [exact I1|].
        match goal with |- match fst ?r with _ => _ end => destruct (fst r) end; auto.
        destruct I2 as [I2 I3]. split; [exact I2|]. intros Hor. apply I3. rewrite <- orb_assoc. exact Hor. }
    specialize (Hgo es p [] st false Hm (le_n p) ltac:(discriminate)). cbn zeta in Hgo. cbn [nn].
    destruct Hgo as [G1 G2]. split; [exact G1|].
    match goal with |- match fst ?r with _ => _ end => destruct (fst r) end; auto.
  - (* FAlt *)
    assert (Hgo : forall l st0, memo_nn st0 ->
      let r := (fix go (l : list fexp) (st : pstate) : res * pstate :=
                  match l with
                  | [] => (Err, st)
                  | x :: r =>
                      let '(rx, st') := run f x p rf st in
                      match rx with
                      | Err => go r st'
                      | _ => (rx, st')
                      end
                  end) l st0 in
      memo_nn (snd r) /\
      match fst r with
      | Ok _ q => p <= q /\ ((fix go (l : list fexp) : bool := match l with [] => true | x :: r => nn x && go r end) l = true -> p < q)
      | _ => True
      end).
    { induction l as [|x r IHl]; intros st0 H0; cbn zeta; [asplit|].
      pose proof (IH x p rf st0 H0) as [H1 H2].
      destruct (run f x p rf st0) as [[fo q'| |] st']; cbn [fst snd] in *; [| |asplit].
      - split; [exact H1|]. destruct H2 as [H2 H3]. split; [exact H2|]. intros Ha. apply andb_true_iff in Ha as [Ha _]. auto.
      - specialize (IHl st' H1). cbn zeta in IHl. destruct IHl as [I1 I2]. split; [exact I1|].
        match goal with |- match fst ?r with _ => _ end => destruct (fst r) end; auto.
        destruct I2 as [I2 I3]. split; [exact I2|]. intros Ha. apply andb_true_iff in Ha as [_ Ha]. auto. }
    specialize (Hgo es st Hm). cbn zeta in Hgo. cbn [nn]. exact Hgo.
  - (* FOpt *)
    pose proof (IH e p rf st Hm) as [H1 H2].
    destruct (run f e p rf st) as [[fo q| |] st']; cbn [fst snd] in *; [|asplit|asplit].
    + split; [exact H1|]. split; [tauto|discriminate].
    + split; [lia|discriminate].
  - (* FMany0 *)
    pose proof (IH e p rf st Hm) as [H1 H2].
    destruct (run f e p rf st) as [[fo q| |] st']; cbn [fst snd] in *; [| |asplit].
    + destruct (Nat.eqb q p); [asplit|].
      pose proof (IH (FMany0 e) q [] st' H1) as [H3 H4].
      destruct (run f (FMany0 e) q [] st') as [[fo2 q2| |] st2]; cbn [fst snd] in *; [|asplit|asplit].
      split; [exact H3|]. split; [lia|discriminate].
    + asplit. split; [lia|discriminate].
  - (* FMany1 *)
    pose proof (IH e p rf st Hm) as [H1 H2].
    destruct (run f e p rf st) as [[fo q| |] st']; cbn [fst snd] in *; [|asplit|asplit].
    destruct (Nat.eqb q p) eqn:Eq; [asplit|]. apply Nat.eqb_neq in Eq.
    pose proof (IH (FMany0 e) q [] st' H1) as [H3 H4].
    destruct (run f (FMany0 e) q [] st') as [[fo2 q2| |] st2]; cbn [fst snd] in *; [|asplit|asplit].
    split; [exact H3|]. split; [lia|]. intros _. lia.
  - (* FManyTill *)
    pose proof (IH e2 p rf st Hm) as [H1 H2].
    destruct (run f e2 p rf st) as [[fo q| |] st']; cbn [fst snd] in *; [| |asplit].
    + split; [exact H1|exact H2].
    + pose proof (IH e1 p rf st' H1) as [H3 H4].
      destruct (run f e1 p rf st') as [[fo q| |] st1]; cbn [fst snd] in *; [|asplit|asplit].
      destruct (Nat.eqb q p) eqn:Eq; [asplit|]. apply Nat.eqb_neq in Eq.
      pose proof (IH (FManyTill e1 e2) q [] st1 H3) as [H5 H6].
      destruct (run f (FManyTill e1 e2) q [] st1) as [[fo2 q2| |] st2]; cbn [fst snd] in *; [|asplit|asplit].
      split; [exact H5|]. split; [lia|]. intros _. lia.
  - (* FPeek *)
    pose proof (IH e p rf st Hm) as [H1 H2].
    destruct (run f e p rf st) as [[fo q| |] st']; cbn [fst snd] in *; [|asplit|asplit].
    split; [exact H1|]. split; [lia|discriminate].
  - (* FNot *)
    pose proof (IH e p rf st Hm) as [H1 H2].
    destruct (run f e p rf st) as [[fo q| |] st']; cbn [fst snd] in *; [asplit| |asplit].
    split; [exact H1|]. split; [lia|discriminate].
  - (* FEof *)
    destruct (Nat.leb _ _); [|asplit]. asplit. split; [lia|discriminate].
  - (* FTmpl *)
    assert (Hgo : forall l q env st0 (adv0 : bool), memo_nn st0 -> p <= q -> (adv0 = true -> p < q) ->
      let r := (fix go (l : list fexp) (q : nat) (env : list (list tree)) (st : pstate) : res * pstate :=
                  match l with
                  | [] => (Ok (build t env) q, st)
                  | x :: r =>
                      let '(rx, st') := run f x q (rf_at p q rf) st in
                      match rx with
                      | Ok fo q' => go r q' (env ++ [fo]) st'
                      | _ => (rx, st')
                      end
                  end) l q env st0 in
      memo_nn (snd r) /\
      match fst r with
      | Ok _ q' => p <= q' /\
                   ((adv0 || (fix go (l : list fexp) : bool := match l with [] => false | x :: r => nn x || go r end) l) = true -> p < q')
      | _ => True
      end).
    { induction l as [|x r IHl]; intros q env st0 adv0 H0 Hle Hadv; cbn zeta.
      - asplit. split; [exact Hle|]. rewrite orb_false_r. exact Hadv.
      - pose proof (IH x q (rf_at p q rf) st0 H0) as [H1 H2].
        destruct (run f x q (rf_at p q rf) st0) as [[fo q'| |] st']; cbn [fst snd] in *; [|asplit|asplit].
        destruct H2 as [H2 H3].
        specialize (IHl q' (env ++ [fo]) st' (adv0 || nn x) H1 ltac:(lia)).
        assert (Ha : adv0 || nn x = true -> p < q').
        { intros Hor. apply orb_true_iff in Hor as [Ha|Hn]; [specialize (Hadv Ha); lia|specialize (H3 Hn); lia]. }
        specialize (IHl Ha). cbn zeta in IHl. destruct IHl as [I1 I2]. split; [exact I1|].
        match goal with |- match fst ?r with _ => _ end => destruct (fst r) end; auto.
        destruct I2 as [I2 I3]. split; [exact I2|]. intros Hor. apply I3. rewrite <- orb_assoc. exact Hor. }
    specialize (Hgo es p [] st false Hm (le_n p) ltac:(discriminate)). cbn zeta in Hgo. cbn [nn].
    destruct Hgo as [G1 G2]. split; [exact G1|].
    match goal with |- match fst ?r with _ => _ end => destruct (fst r) end; auto.
  - (* FAct *)
    split; cbn [fst snd]; [exact Hm|]. split; [lia|discriminate].
  - (* FWrap *)
    pose proof (IH e p rf (set_aux A st (act a (ps_aux A st))) Hm) as [H1 H2].
    destruct (run f e p rf (set_aux A st (act a (ps_aux A st)))) as [r st']; cbn [fst snd] in *.
    split; [exact H1|exact H2].
  - (* FIf *)
    cbn [nn]. destruct (cond c (ps_aux A st)).
    + pose proof (IH e1 p rf st Hm) as [H1 H2]. split; [exact H1|].
      destruct (fst (run f e1 p rf st)); auto. destruct H2 as [H2 H3]. split; [exact H2|]. intros Ha. apply andb_true_iff in Ha as [Ha _]. auto.
    + pose proof (IH e2 p rf st Hm) as [H1 H2]. split; [exact H1|].
      destruct (fst (run f e2 p rf st)); auto. destruct H2 as [H2 H3]. split; [exact H2|]. intros Ha. apply andb_true_iff in Ha as [_ Ha]. auto.
  - asplit.
Qed.
End NN.
