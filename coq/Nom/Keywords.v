(* Reserved words: the keyword-version stack (utils.rs:358-412), the dispatch of is_keyword and
   the identifier lexers' refusal.  The tables are regenerated (Gen/GenKeywords.v).  Model and
   its facts. *)
From Coq Require Export List String Bool NArith.
From Coq Require Import Arith Lia.
Export ListNotations.

Inductive version :=
| V_Ieee1364_1995 | V_Ieee1364_2001 | V_Ieee1364_2001Noconfig | V_Ieee1364_2005
| V_Ieee1800_2005 | V_Ieee1800_2009 | V_Ieee1800_2012 | V_Ieee1800_2017 | V_Directive.

Definition mem (w : string) (l : list string) : bool := existsb (String.eqb w) l.
Definition subset (a b : list string) : bool := forallb (fun w => mem w b) a.

(* CURRENT_VERSION: Vec<Version>, top = last; the model keeps the top first *)
Definition vstack := list version.
Inductive vop := Begin (v : version) | End_.     (* begin_keywords("..") / end_keywords() *)

Definition vstep (s : vstack) (o : vop) : vstack :=
  match o with
  | Begin v => v :: s
  | End_ => tl s                                (* Vec::pop on an empty Vec does nothing *)
  end.

Definition vrun (ops : list vop) (s : vstack) : vstack := fold_left vstep ops s.
Definition in_force (s : vstack) : option version := hd_error s.

(* a stretch of directives in which every `begin_keywords is closed again and no `end_keywords
   closes a region opened before the stretch; [depth] regions are open inside it at its start *)
Fixpoint closed_from (ops : list vop) (depth : nat) : option nat :=
  match ops with
  | [] => Some depth
  | Begin _ :: r => closed_from r (S depth)
  | End_ :: r => match depth with O => None | S d => closed_from r d end
  end.
Definition closed (ops : list vop) : Prop := closed_from ops 0 = Some 0.

(* the identifier lexers: maximal run [A-Za-z_][A-Za-z0-9_$]*, refused when reserved *)
Definition lex_identifier (table : list string) (run : string) : option string :=
  if mem run table then None else Some run.

Lemma vrun_app a b s : vrun (a ++ b) s = vrun b (vrun a s).
Proof. unfold vrun. apply fold_left_app. Qed.

Lemma closed_from_stack ops : forall d d' (top s : vstack),
  closed_from ops d = Some d' -> List.length top = d ->
  exists top', List.length top' = d' /\ vrun ops (top ++ s) = (top' ++ s)%list.
Proof.
  induction ops as [|[v|] r IH]; intros d d' top s H Hl; cbn [closed_from] in H.
  - injection H as <-. exists top. auto.
  - destruct (IH (S d) d' (v :: top) s H ltac:(cbn; lia)) as (t' & L & E). exists t'. auto.
  - destruct d as [|d]; [discriminate|]. destruct top as [|x top]; [discriminate|].
    destruct (IH d d' top s H ltac:(cbn in Hl; lia)) as (t' & L & E). exists t'. auto.
Qed.

(* a closed stretch leaves the stack as it found it *)
Theorem closed_neutral ops s : closed ops -> vrun ops s = s.
Proof.
  intros H. destruct (closed_from_stack ops 0 0 [] s H eq_refl) as (t' & L & E).
  destruct t'; [exact E|discriminate].
Qed.

(* nested and sequential regions: after `begin_keywords v and any closed stretch, v is in force,
   whatever came before *)
Theorem region_in_force pre v inner s : closed inner -> in_force (vrun (pre ++ Begin v :: inner) s) = Some v.
Proof.
  intros H. replace (pre ++ Begin v :: inner)%list with ((pre ++ [Begin v]) ++ inner)%list by (rewrite <- app_assoc; reflexivity).
  rewrite !vrun_app, (closed_neutral inner _ H). reflexivity.
Qed.

(* closing a region restores what was in force before it was opened *)
Theorem region_closed_restores pre v inner s :
  closed inner -> vrun (pre ++ Begin v :: inner ++ [End_]) s = vrun pre s.
Proof.
  intros H. replace (pre ++ Begin v :: inner ++ [End_])%list with ((pre ++ [Begin v]) ++ inner ++ [End_])%list
    by (rewrite <- app_assoc; reflexivity).
  rewrite !vrun_app, (closed_neutral inner _ H). reflexivity.
Qed.

(* outside every region the default set applies *)
Theorem outside_regions ops : closed ops -> in_force (vrun ops []) = None.
Proof. intros H. now rewrite closed_neutral. Qed.

(* the lexer never returns a reserved word of the table it is given *)
Theorem lex_identifier_not_reserved table run w : lex_identifier table run = Some w -> mem w table = false /\ w = run.
Proof. unfold lex_identifier. destruct (mem run table) eqn:E; [discriminate|]. intros [= <-]. auto. Qed.

Theorem lex_identifier_refuses table run : mem run table = true -> lex_identifier table run = None.
Proof. unfold lex_identifier. now intros ->. Qed.

(* keyword(t) first asks is_reserved_in_force(t): with a table [k] selected by `begin_keywords, a word
   of the latest table that [k] lacks is no keyword; without such a table every word passes *)
Definition keyword_allowed (guard : option (list string)) (latest : list string) (t : string) : bool :=
  match guard with
  | None => true
  | Some k => negb (mem t latest) || mem t k
  end.

(* a word reserved only in a later standard is refused by keyword() and returned by the identifier lexer *)
Theorem later_word_is_identifier guard latest k t :
  guard = Some k -> mem t latest = true -> mem t k = false ->
  keyword_allowed guard latest t = false /\ lex_identifier k t = Some t.
Proof.
  intros -> Hl Hk. unfold keyword_allowed, lex_identifier. rewrite Hl, Hk. auto.
Qed.

(* the reserved words of the set in force (and words no table knows: `1step`, directive names) stay keywords *)
Theorem reserved_word_stays_keyword guard latest t :
  match guard with Some k => mem t k = true \/ mem t latest = false | None => True end ->
  keyword_allowed guard latest t = true.
Proof.
  unfold keyword_allowed. destruct guard as [k|]; [|reflexivity]. intros [H|H]; rewrite H; [apply orb_true_r|reflexivity].
Qed.

(* inside a compiler directive the NAMES of directives pass whatever set is in force (`include is a directive also
   where the word include is not reserved): the guard of keyword() as it stands since the repair of that case *)
Definition keyword_allowed_at (in_directive : bool) (directive_names : list string) (guard : option (list string))
           (latest : list string) (t : string) : bool :=
  (in_directive && mem t directive_names) || keyword_allowed guard latest t.

Lemma keyword_allowed_outside_directives names guard latest t :
  keyword_allowed_at false names guard latest t = keyword_allowed guard latest t.
Proof. reflexivity. Qed.

Theorem directive_name_always_allowed names guard latest t :
  mem t names = true -> keyword_allowed_at true names guard latest t = true.
Proof. intros H. unfold keyword_allowed_at. now rewrite H. Qed.
