(* C15: many0(description) against many_till(description, eof).  Proofs only. *)
From SV Require Import Peg NonNull Bound.
From Coq Require Import Arith Lia.
Local Open Scope nat_scope.

Section Inc.
Variable A : Type.
Variable prim : N -> A -> nat -> option nat.
Variable act : N -> A -> A.
Variable cond : N -> A -> bool.
Variable dirflag : A -> bool.
Variable inp : list N.
Variable g : list prod.
Variable pos_prims : list N.
Variable cert : list bool.
Notation run := (run A prim act cond dirflag inp g).
Notation pstate := (pstate A).
Notation nn := (nn pos_prims cert).
Notation memo_nn := (memo_nn A cert).
Notation memo_bd := (memo_bd A (length inp)).

Hypothesis CO : cert_ok g pos_prims cert = true.
Hypothesis prim_pos : forall i a p n, In i pos_prims -> prim i a p = Some n -> 1 <= n.
Hypothesis prim_bound : forall i a p n, prim i a p = Some n -> p + n <= length inp.

Definition advf := run_adv A prim act cond dirflag inp g pos_prims cert prim_pos CO.
Definition bdf := run_bd A prim act cond dirflag inp g (length inp) (fun i a p n _ H => prim_bound i a p n H).

(* many0 over a non-nullable parser never fails *)
Lemma many0_no_err e : nn e = true -> forall fuel p rf st, memo_nn st -> fst (run fuel (FMany0 e) p rf st) <> Err.
Proof.
  intros Hn. induction fuel as [|f IH]; intros p rf st Hm; [discriminate|].
  cbn [Peg.run]. pose proof (advf f e p rf st Hm) as [H1 H2].
  destruct (run f e p rf st) as [[fo q| |] st']; cbn [fst snd] in *; try discriminate.
  destruct H2 as [_ H2]. specialize (H2 Hn).
  assert (E : Nat.eqb q p = false) by (apply Nat.eqb_neq; lia). rewrite E.
  specialize (IH q [] st' H1).
  destruct (run f (FMany0 e) q [] st') as [[fo2 q2| |] st2]; cbn [fst snd] in *; try discriminate. exact IH.
Qed.

(* parsers that cannot fail: many0 over a non-nullable parser, opt *)
Definition safe (e : fexp) : bool :=
  match e with FMany0 a => nn a | FOpt _ => true | _ => false end.

Lemma safe_no_err e : safe e = true -> forall fuel p rf st, memo_nn st -> fst (run fuel e p rf st) <> Err.
Proof.
  destruct e; cbn [safe]; try discriminate; intros H fuel p rf st Hm.
  - destruct fuel as [|f]; [discriminate|]. cbn [Peg.run].
    destruct (run f e p rf st) as [[]]; cbn; discriminate.
  - now apply many0_no_err.
Qed.

(* the body of source_text_incomplete / library_text_incomplete: a sequence of such parsers *)
Theorem incomplete_body_no_err es t :
  forallb safe es = true ->
  forall fuel p rf st, memo_nn st -> fst (run fuel (FTmpl es t) p rf st) <> Err.
Proof.
  intros Hs fuel p rf st Hm. destruct fuel as [|f]; [discriminate|]. cbn [Peg.run].
  assert (Hgo : forall l q env st0, forallb safe l = true -> memo_nn st0 ->
    fst ((fix go (l : list fexp) (q : nat) (env : list (list tree)) (st : pstate) : res * pstate :=
            match l with
            | [] => (Ok (build t env) q, st)
            | x :: r => let '(rx, st') := run f x q (rf_at p q rf) st in
                        match rx with Ok fo q' => go r q' (env ++ [fo]) st' | _ => (rx, st') end
            end) l q env st0) <> Err).
  { induction l as [|x r IHl]; intros q env st0 Hl H0; [discriminate|].
    cbn [forallb] in Hl. apply andb_true_iff in Hl as [Hx Hr].
    pose proof (safe_no_err x Hx f q (rf_at p q rf) st0 H0) as N1.
    pose proof (advf f x q (rf_at p q rf) st0 H0) as [M1 _].
    destruct (run f x q (rf_at p q rf) st0) as [[fo1 q1| |] st1]; cbn [fst snd] in *; try discriminate; [|contradiction].
    apply IHl; assumption. }
  apply Hgo; assumption.
Qed.

(* entry point: from the empty memo, the (memoised, unguarded) production never reports an error *)
Theorem incomplete_entry_no_err n pr es t :
  nth_error g n = Some pr -> p_rec pr = false -> p_body pr = FTmpl es t -> forallb safe es = true ->
  forall fuel cap aux, fst (run fuel (FCall n) 0 [] (mkPst A [] [] cap aux)) <> Err.
Proof.
  intros En Er Eb Hs fuel cap aux. destruct fuel as [|f]; [discriminate|]. cbn [Peg.run]. rewrite En, Er, Eb.
  assert (M0 : memo_nn (mkPst A [] [] cap aux)) by (intros ? ? ? ? ? []).
  pose proof (incomplete_body_no_err es t Hs f 0 [] _ M0) as N.
  destruct (p_packrat pr); cbn [ps_map map_get].
  - destruct (run f (FTmpl es t) 0 [] (mkPst A [] [] cap aux)) as [[fo q| |] st']; cbn [fst] in *; try discriminate. contradiction.
  - exact N.
Qed.

(* many_till(d, eof) = Ok  ==>  many0(d) = the same forest and end position, whenever it terminates
   with the same fuel: both perform the same calls in the same order, so memo and state evolve
   identically; at the end of the text d cannot succeed because it would have to consume. *)
Theorem manytill_many0 d : nn d = true ->
  forall fuel p rf st fo q st', memo_nn st -> memo_bd st -> p <= length inp ->
  run fuel (FManyTill d FEof) p rf st = (Ok fo q, st') ->
  fst (run fuel (FMany0 d) p rf st) <> Fuel ->
  fst (run fuel (FMany0 d) p rf st) = Ok fo q.
Proof.
  intros Hn. induction fuel as [|f IH]; intros p rf st fo q st' Hm Hb Hp E NF; [discriminate|].
  cbn [Peg.run] in E, NF |- *.
  destruct f as [|f0]; [discriminate|].
  change (run (S f0) FEof p rf st) with (if Nat.leb (length inp) p then (Ok [] p, st) else (Err, st)) in E.
  pose proof (advf (S f0) d p rf st Hm) as [M1 A1].
  pose proof (bdf (S f0) d p rf st Hb Hp) as [B1 B2].
  destruct (Nat.leb (length inp) p) eqn:EL.
  - (* end of text *)
    injection E as <- <- <-. apply Nat.leb_le in EL.
    destruct (run (S f0) d p rf st) as [[fo1 q1| |] st1]; cbn [fst snd] in *.
    + destruct A1 as [_ A1]. specialize (A1 Hn). lia.
    + reflexivity.
    + contradiction NF. reflexivity.
  - destruct (run (S f0) d p rf st) as [[fo1 q1| |] st1] eqn:Ed; cbn [fst snd] in *; try discriminate.
    destruct (Nat.eqb q1 p); [discriminate|].
    destruct (run (S f0) (FManyTill d FEof) q1 [] st1) as [[fo2 q2| |] st2] eqn:E2; try discriminate.
    injection E as <- <- <-.
    assert (NF2 : fst (run (S f0) (FMany0 d) q1 [] st1) <> Fuel).
    { intros X. apply NF. destruct (run (S f0) (FMany0 d) q1 [] st1) as [[]]; cbn in *; congruence. }
    specialize (IH q1 [] st1 fo2 q2 st2 M1 B1 ltac:(lia) E2 NF2).
    destruct (run (S f0) (FMany0 d) q1 [] st1) as [[fo3 q3| |] st3]; cbn [fst] in *; try discriminate; try contradiction.
    injection IH as -> ->. reflexivity.
Qed.
End Inc.
