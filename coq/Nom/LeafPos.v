(* C01: leaves are non-empty.  A leaf is made by into_locate(...) of a span expression (FLeaf); when
   the analysis of NonNull.v says that every such expression consumes on success, every leaf of every
   forest the interpreter returns has positive length -- memo hits included.  Proofs only besides
   the static check [leaves_nn]. *)
From SV Require Import Peg PegFacts NonNull.
From Coq Require Import Arith Lia.
Local Open Scope nat_scope.

Section LP.
Variable A : Type.
Variable prim : N -> A -> nat -> option nat.
Variable act : N -> A -> A.
Variable cond : N -> A -> bool.
Variable dirflag : A -> bool.
Variable inp : list N.
Variable g : list prod.
Variable pos_prims : list N.
Variable cert : list bool.

Notation run := (run A prim act cond dirflag inp g).
Notation pstate := (pstate A).
Notation nn := (nn pos_prims cert).
Notation memo_nn := (memo_nn A cert).

(* every into_locate stands on an expression that consumes when it succeeds *)
Fixpoint leaves_nn (e : fexp) : bool :=
  match e with
  | FLeaf e1 => nn e1 && leaves_nn e1
  | FOpt e1 | FMany0 e1 | FMany1 e1 | FPeek e1 | FNot e1 | FWrap _ _ e1 => leaves_nn e1
  | FManyTill e1 e2 | FIf _ e1 e2 => leaves_nn e1 && leaves_nn e2
  | FSeq es | FAlt es | FTmpl es _ =>
      (fix go (l : list fexp) : bool := match l with [] => true | x :: r => leaves_nn x && go r end) es
  | _ => true
  end.
Definition leaves_nn_grammar : bool := forallb (fun pr => leaves_nn (p_body pr)) g.

Definition posl (ls : list loc) : Prop := Forall (fun l => (1 <= l_len l)%N) ls.
Definition posf (fo : list tree) : Prop := posl (flat_map leaves fo).
Definition memo_pos (st : pstate) : Prop :=
  forall n p d fo len, In ((n, p, d), Some (fo, len)) (ps_map A st) -> posf fo.

Lemma posf_app a b : posf a -> posf b -> posf (a ++ b).
Proof. intros Ha Hb. unfold posf, posl in *. rewrite flat_map_app. apply Forall_app. split; assumption. Qed.

Lemma posf_nil : posf [].
Proof. constructor. Qed.

Lemma posf_nth env i : Forall posf env -> posf (nth i env []).
Proof.
  revert i. induction env as [|x r IH]; intros i H; destruct i; cbn; try apply posf_nil.
  - now inversion H.
  - inversion H; auto.
Qed.

Lemma posf_build env t : Forall posf env -> posf (build t env).
Proof.
  intros H. unfold posf. rewrite build_leaves. unfold pick.
  induction (tmpl_order t) as [|i r IH]; cbn [flat_map]; [constructor|].
  rewrite flat_map_app. apply Forall_app. split; [apply (posf_nth env i H)|exact IH].
Qed.

Lemma memo_insert_pos st n p d v :
  memo_pos st -> (forall fo len, v = Some (fo, len) -> posf fo) -> memo_pos (memo_insert A st (n, p, d) v).
Proof.
  intros H Hv. unfold memo_pos, memo_insert.
  destruct (ps_cap A st) as [size|]; [destruct (Nat.ltb (size - 1) (length (ps_keys A st))); [destruct (ps_keys A st)|]|];
    cbn [ps_map]; intros n' p' d' fo len [E|Hin];
    try (injection E as -> -> -> ->; eapply Hv; eauto; fail);
    repeat (apply map_remove_in in Hin); eapply H; eauto.
Qed.

Hypothesis cert_good : cert_ok g pos_prims cert = true.
Hypothesis prim_pos : forall i a p n, In i pos_prims -> prim i a p = Some n -> 1 <= n.
Hypothesis gram_ok : leaves_nn_grammar = true.

Lemma gram_ok_nth n pr : nth_error g n = Some pr -> leaves_nn (p_body pr) = true.
Proof.
  intros H. unfold leaves_nn_grammar in gram_ok. rewrite forallb_forall in gram_ok.
  apply gram_ok. eapply nth_error_In; eauto.
Qed.

Definition lp (r : res * pstate) : Prop :=
  memo_pos (snd r) /\ memo_nn (snd r) /\ match fst r with Ok fo _ => posf fo | _ => True end.

Ltac lsplit := split; [|split]; cbn [fst snd]; try exact I; auto using posf_nil.

Lemma adv_of fuel e p rf st : memo_nn st ->
  memo_nn (snd (run fuel e p rf st)) /\
  match fst (run fuel e p rf st) with Ok _ q => p <= q /\ (nn e = true -> p < q) | _ => True end.
Proof. intros H. exact (run_adv A prim act cond dirflag inp g pos_prims cert prim_pos cert_good fuel e p rf st H). Qed.

Theorem run_leaf_pos : forall fuel e p rf st,
  leaves_nn e = true -> memo_pos st -> memo_nn st -> lp (run fuel e p rf st).
Proof.
  induction fuel as [|f IH]; intros e p rf st He Hp Hn.
  { lsplit. }
  pose proof (adv_of (S f) e p rf st Hn) as [AN _].
  destruct e; cbn [Peg.run] in *.
  - (* FCall *)
    destruct (nth_error g n) as [pr|] eqn:En; [|lsplit].
    pose proof (gram_ok_nth n pr En) as Hb.
    assert (Hbody : lp (if p_rec pr then if existsb (Nat.eqb n) rf then (Err, st) else run f (p_body pr) p (n :: rf) st
                        else run f (p_body pr) p rf st)).
    { destruct (p_rec pr); [destruct (existsb _ rf)|]; try (apply IH; assumption). lsplit. }
    destruct (p_packrat pr).
    + destruct (map_get (ps_map A st) (n, p, dirflag (ps_aux A st))) as [[[fo len]|]|] eqn:Eg.
      * apply map_get_in in Eg as (k' & Ek & Hin). apply key_eqb_true in Ek. subst k'.
        lsplit. eapply Hp; eauto.
      * lsplit.
      * destruct (if p_rec pr then _ else _) as [r st'] eqn:Er. destruct Hbody as (H1 & H2 & H3). cbn [fst snd] in *.
        destruct r as [fo q| |]; cbn [fst snd] in *.
        -- split; [|split]; cbn [fst snd]; [|exact AN|exact H3].
           apply memo_insert_pos; [exact H1|]. intros fo' len' [= <- <-]. exact H3.
        -- split; [|split]; cbn [fst snd]; [|exact AN|exact I]. apply memo_insert_pos; [exact H1|]. discriminate.
        -- lsplit.
    + exact Hbody.
  - (* FPrim *)
    destruct (prim i (ps_aux A st) p); lsplit.
  - (* FLeaf *)
    apply andb_true_iff in He as [Hnn He].
    pose proof (IH e p rf st He Hp Hn) as (H1 & H2 & H3).
    pose proof (adv_of f e p rf st Hn) as [_ AD].
    destruct (run f e p rf st) as [[fo q| |] st']; cbn [fst snd] in *; [|lsplit|lsplit].
    lsplit. unfold posf, posl, leaf_at. cbn. constructor; [|constructor]. cbn.
    destruct AD as [_ AD]. specialize (AD Hnn). lia.
  - (* FSeq *)
    assert (Hgo : forall l q acc st0,
      (fix go (l : list fexp) : bool := match l with [] => true | x :: r => leaves_nn x && go r end) l = true ->
      memo_pos st0 -> memo_nn st0 -> posf acc ->
      lp ((fix go (l : list fexp) (q : nat) (acc : list tree) (st : pstate) : res * pstate :=
             match l with
             | [] => (Ok acc q, st)
             | x :: r =>
                 let '(rx, st') := run f x q (rf_at p q rf) st in
                 match rx with
                 | Ok fo q' => go r q' (acc ++ fo) st'
                 | _ => (rx, st')
                 end
             end) l q acc st0)).
    { induction l as [|x r IHl]; intros q acc st0 Hl H0 N0 Ha.
      - lsplit.
      - apply andb_true_iff in Hl as [Hx Hr].
        pose proof (IH x q (rf_at p q rf) st0 Hx H0 N0) as (H1 & H2 & H3).
        destruct (run f x q (rf_at p q rf) st0) as [[fo q'| |] st']; cbn [fst snd] in *; [|lsplit|lsplit].
        apply IHl; auto using posf_app. }
    apply Hgo; auto using posf_nil.
  - (* FAlt *)
    assert (Hgo : forall l st0,
      (fix go (l : list fexp) : bool := match l with [] => true | x :: r => leaves_nn x && go r end) l = true ->
      memo_pos st0 -> memo_nn st0 ->
      lp ((fix go (l : list fexp) (st : pstate) : res * pstate :=
             match l with
             | [] => (Err, st)
             | x :: r =>
                 let '(rx, st') := run f x p rf st in
                 match rx with
                 | Err => go r st'
                 | _ => (rx, st')
                 end
             end) l st0)).
    { induction l as [|x r IHl]; intros st0 Hl H0 N0; [lsplit|].
      apply andb_true_iff in Hl as [Hx Hr].
      pose proof (IH x p rf st0 Hx H0 N0) as (H1 & H2 & H3).
      destruct (run f x p rf st0) as [[fo q'| |] st']; cbn [fst snd] in *; [lsplit| |lsplit].
      apply IHl; auto. }
    apply Hgo; auto.
  - (* FOpt *)
    pose proof (IH e p rf st He Hp Hn) as (H1 & H2 & H3).
    destruct (run f e p rf st) as [[fo q| |] st']; cbn [fst snd] in *; lsplit.
  - (* FMany0 *)
    pose proof (IH e p rf st He Hp Hn) as (H1 & H2 & H3).
    destruct (run f e p rf st) as [[fo q| |] st']; cbn [fst snd] in *; [|lsplit|lsplit].
    destruct (Nat.eqb q p); [lsplit|].
    pose proof (IH (FMany0 e) q [] st' He H1 H2) as (H4 & H5 & H6).
    destruct (run f (FMany0 e) q [] st') as [[fo2 q2| |] st2]; cbn [fst snd] in *; lsplit. now apply posf_app.
  - (* FMany1 *)
    pose proof (IH e p rf st He Hp Hn) as (H1 & H2 & H3).
    destruct (run f e p rf st) as [[fo q| |] st']; cbn [fst snd] in *; [|lsplit|lsplit].
    destruct (Nat.eqb q p); [lsplit|].
    pose proof (IH (FMany0 e) q [] st' He H1 H2) as (H4 & H5 & H6).
    destruct (run f (FMany0 e) q [] st') as [[fo2 q2| |] st2]; cbn [fst snd] in *; lsplit. now apply posf_app.
  - (* FManyTill *)
    apply andb_true_iff in He as [He1 He2].
    pose proof (IH e2 p rf st He2 Hp Hn) as (H1 & H2 & H3).
    destruct (run f e2 p rf st) as [[fo q| |] st']; cbn [fst snd] in *; [lsplit| |lsplit].
    pose proof (IH e1 p rf st' He1 H1 H2) as (H4 & H5 & H6).
    destruct (run f e1 p rf st') as [[fo q| |] st1]; cbn [fst snd] in *; [|lsplit|lsplit].
    destruct (Nat.eqb q p); [lsplit|].
    assert (He12 : leaves_nn (FManyTill e1 e2) = true) by (change (leaves_nn e1 && leaves_nn e2 = true); apply andb_true_iff; split; [exact He1|exact He2]).
    pose proof (IH (FManyTill e1 e2) q [] st1 He12 H4 H5) as (H7 & H8 & H9).
    destruct (run f (FManyTill e1 e2) q [] st1) as [[fo2 q2| |] st2]; cbn [fst snd] in *; lsplit. now apply posf_app.
  - (* FPeek *)
    pose proof (IH e p rf st He Hp Hn) as (H1 & H2 & H3).
    destruct (run f e p rf st) as [[fo q| |] st']; cbn [fst snd] in *; lsplit.
  - (* FNot *)
    pose proof (IH e p rf st He Hp Hn) as (H1 & H2 & H3).
    destruct (run f e p rf st) as [[fo q| |] st']; cbn [fst snd] in *; lsplit.
  - (* FEof *)
    destruct (Nat.leb _ _); lsplit.
  - (* FTmpl *)
    assert (Hgo : forall l q env st0,
      (fix go (l : list fexp) : bool := match l with [] => true | x :: r => leaves_nn x && go r end) l = true ->
      memo_pos st0 -> memo_nn st0 -> Forall posf env ->
      lp ((fix go (l : list fexp) (q : nat) (env : list (list tree)) (st : pstate) : res * pstate :=
             match l with
             | [] => (Ok (build t env) q, st)
             | x :: r =>
                 let '(rx, st') := run f x q (rf_at p q rf) st in
                 match rx with
                 | Ok fo q' => go r q' (env ++ [fo]) st'
                 | _ => (rx, st')
                 end
             end) l q env st0)).
    { induction l as [|x r IHl]; intros q env st0 Hl H0 N0 Ha.
      - lsplit. now apply posf_build.
      - apply andb_true_iff in Hl as [Hx Hr].
        pose proof (IH x q (rf_at p q rf) st0 Hx H0 N0) as (H1 & H2 & H3).
        destruct (run f x q (rf_at p q rf) st0) as [[fo q'| |] st']; cbn [fst snd] in *; [|lsplit|lsplit].
        apply IHl; auto. apply Forall_app. split; [exact Ha|]. constructor; [exact H3|constructor]. }
    apply Hgo; auto.
  - (* FAct *)
    lsplit.
  - (* FWrap *)
    pose proof (IH e p rf (set_aux A st (act a (ps_aux A st))) He Hp Hn) as (H1 & H2 & H3).
    destruct (run f e p rf (set_aux A st (act a (ps_aux A st)))) as [r st']; cbn [fst snd] in *.
    split; [|split]; cbn [fst snd]; auto.
  - (* FIf *)
    apply andb_true_iff in He as [He1 He2]. destruct (cond c (ps_aux A st)); apply IH; auto.
  - lsplit.
Qed.
End LP.
