(* The token lexers of sv-parser-parser that are written by hand (numbers, bases, identifiers): each is
   "a head, then the longest run over a set".  Their tables are regenerated from the sources
   (Gen/GenLexers.v); this file is the executable model and what holds of it for EVERY text:
   a success consumes at least one byte and stays inside the text, every byte it consumes belongs to
   the lexer's alphabet -- so a byte outside all alphabets is never consumed (the oracle hypotheses of
   C01 / C14 / C15, here theorems).  The reserved-word veto of the identifier lexers only turns a
   success into a failure and is a parameter.  Model first, then proofs. *)
From Coq Require Import List NArith Arith Bool Lia.
Import ListNotations.
Local Open Scope nat_scope.

Definition bytes := list N.

Definition mem (c : N) (s : bytes) : bool := existsb (N.eqb c) s.

(* is_a(set) / the fold_many0 over alt(tag, run): the longest prefix over the set *)
Fixpoint run_len (set : bytes) (w : bytes) : nat :=
  match w with
  | c :: r => if mem c set then S (run_len set r) else 0
  | [] => 0
  end.

Definition lower (c : N) : N := if (N.leb 65 c && N.leb c 90)%bool then (c + 32)%N else c.

Fixpoint prefix_len (nocase : bool) (t w : bytes) : option nat :=
  match t, w with
  | [], _ => Some 0
  | a :: t', b :: w' =>
      if (if nocase then N.eqb (lower a) (lower b) else N.eqb a b)
      then match prefix_len nocase t' w' with Some n => Some (S n) | None => None end
      else None
  | _ :: _, [] => None
  end.

Inductive head :=
| HSet (set : bytes)                         (* is_a(set) / digit1: a non-empty run *)
| HTags (nocase : bool) (tags : list bytes). (* alt of tag / tag_no_case, first match *)

Record lexer := mkLexer {
  lx_head : head;
  lx_tail : bytes;            (* the run that follows (empty set = nothing follows) *)
  lx_tail_required : bool;    (* is_a (at least one) rather than opt / many0 *)
  lx_veto : bool }.           (* is_keyword(&a) => Err *)

Definition head_len (h : head) (w : bytes) : option nat :=
  match h with
  | HSet set => match run_len set w with 0 => None | n => Some n end
  | HTags nocase tags =>
      (fix go (l : list bytes) : option nat :=
         match l with
         | [] => None
         | t :: r => match prefix_len nocase t w with Some n => Some n | None => go r end
         end) tags
  end.

(* [veto w n] = the n consumed bytes spell a reserved word of the set in force *)
Definition lex (veto : bytes -> bool) (l : lexer) (w : bytes) : option nat :=
  match head_len (lx_head l) w with
  | None => None
  | Some h =>
      let t := run_len (lx_tail l) (skipn h w) in
      if lx_tail_required l && Nat.eqb t 0 then None
      else if lx_veto l && veto (firstn (h + t) w) then None
      else Some (h + t)
  end.

(* ------------------------------------------------------------------ alphabets *)
Definition upper (c : N) : N := if (N.leb 97 c && N.leb c 122)%bool then (c - 32)%N else c.

Definition head_alphabet (h : head) : bytes :=
  match h with
  | HSet set => set
  | HTags nocase tags => if nocase then flat_map (fun t => map lower t ++ map upper t) tags else concat tags
  end.

Definition alphabet (l : lexer) : bytes := head_alphabet (lx_head l) ++ lx_tail l.

Definition wf_head (h : head) : bool :=
  match h with
  | HSet _ => true
  | HTags _ tags => forallb (fun t => negb (Nat.eqb (length t) 0)) tags
  end.

(* ------------------------------------------------------------------ facts *)
Lemma run_len_le set w : run_len set w <= length w.
Proof. induction w as [|c r IH]; cbn; [lia|]. destruct (mem c set); cbn; lia. Qed.

Lemma run_len_in set : forall w k, k < run_len set w -> mem (nth k w 0%N) set = true.
Proof.
  induction w as [|c r IH]; intros k Hk; cbn in Hk; [lia|].
  destruct (mem c set) eqn:E; [|lia]. destruct k as [|k]; cbn; [exact E|]. apply IH. lia.
Qed.

Lemma lower_cases a b : N.eqb (lower a) (lower b) = true -> b = lower a \/ b = upper a \/ b = a.
Proof.
  intros H. apply N.eqb_eq in H. unfold lower, upper in *.
  destruct (N.leb 65 a && N.leb a 90)%bool eqn:Ea, (N.leb 65 b && N.leb b 90)%bool eqn:Eb;
    destruct (N.leb 97 a && N.leb a 122)%bool eqn:Ea2;
    repeat match goal with
    | H : (_ && _)%bool = true |- _ => apply andb_true_iff in H; destruct H
    | H : (_ && _)%bool = false |- _ => apply andb_false_iff in H
    | H : N.leb _ _ = true |- _ => apply N.leb_le in H
    end; try lia.
  all: repeat match goal with H : _ \/ _ |- _ => destruct H end;
       repeat match goal with H : N.leb _ _ = false |- _ => apply N.leb_gt in H end; try lia.
Qed.

Lemma prefix_len_spec nocase : forall t w n, prefix_len nocase t w = Some n ->
  n = length t /\ n <= length w /\
  forall k, k < n -> (if nocase then nth k w 0%N = lower (nth k t 0%N) \/ nth k w 0%N = upper (nth k t 0%N) \/ nth k w 0%N = nth k t 0%N
                      else nth k w 0%N = nth k t 0%N).
Proof.
  induction t as [|a t IH]; intros w n H; cbn in H.
  - injection H as <-. cbn. repeat split; [lia|]. intros k Hk. lia.
  - destruct w as [|b w]; [discriminate|].
    destruct (if nocase then N.eqb (lower a) (lower b) else N.eqb a b) eqn:E; [|discriminate].
    destruct (prefix_len nocase t w) as [m|] eqn:Em; [|discriminate]. injection H as <-.
    destruct (IH w m Em) as (H1 & H2 & H3). cbn [length]. repeat split; [lia|lia|].
    intros k Hk. destruct k as [|k]; cbn [nth].
    + destruct nocase; [apply lower_cases in E; tauto|apply N.eqb_eq in E; auto].
    + apply H3. lia.
Qed.

Lemma mem_in c s : mem c s = true <-> In c s.
Proof.
  unfold mem. rewrite existsb_exists. split.
  - intros (x & Hx & E). apply N.eqb_eq in E. now subst.
  - intros H. exists c. split; [exact H|apply N.eqb_refl].
Qed.

Lemma head_len_spec h w n : wf_head h = true -> head_len h w = Some n ->
  1 <= n <= length w /\ forall k, k < n -> In (nth k w 0%N) (head_alphabet h).
Proof.
  destruct h as [set|nocase tags]; cbn [head_len wf_head head_alphabet]; intros Hw H.
  - destruct (run_len set w) as [|m] eqn:E; [discriminate|]. injection H as <-.
    pose proof (run_len_le set w). split; [lia|]. intros k Hk. apply mem_in. apply run_len_in. lia.
  - induction tags as [|t r IH]; [discriminate|].
    cbn [forallb] in Hw. apply andb_true_iff in Hw as [Ht Hr].
    destruct (prefix_len nocase t w) as [m|] eqn:E.
    + injection H as <-. destruct (prefix_len_spec nocase t w m E) as (H1 & H2 & H3).
      apply negb_true_iff, Nat.eqb_neq in Ht. split; [lia|].
      intros k Hk. specialize (H3 k Hk).
      assert (Hin : In (nth k t 0%N) t) by (apply nth_In; lia).
      destruct nocase; cbn [flat_map concat]; apply in_or_app; left.
      * apply in_or_app. destruct H3 as [-> | [-> | ->]].
        -- left. now apply in_map.
        -- right. now apply in_map.
        -- (* the byte itself: it is its own lower or upper case image *)
           destruct (lower_cases (nth k t 0%N) (nth k t 0%N) (N.eqb_refl _)) as [E1|[E1|_]].
           ++ left. rewrite E1 at 1. now apply in_map.
           ++ right. rewrite E1 at 1. now apply in_map.
           ++ unfold lower. destruct (N.leb 65 (nth k t 0%N) && N.leb (nth k t 0%N) 90)%bool eqn:Eu.
              ** right. replace (nth k t 0%N) with (upper (nth k t 0%N)) at 1; [now apply in_map|].
                 unfold upper. apply andb_true_iff in Eu as [U1 U2]. apply N.leb_le in U1, U2.
                 destruct (N.leb 97 (nth k t 0%N) && N.leb (nth k t 0%N) 122)%bool eqn:El; [|reflexivity].
                 apply andb_true_iff in El as [L1 L2]. apply N.leb_le in L1, L2. lia.
              ** left. replace (nth k t 0%N) with (lower (nth k t 0%N)) at 1; [now apply in_map|].
                 unfold lower. now rewrite Eu.
      * rewrite H3. exact Hin.
    + destruct (IH Hr H) as [I1 I2]. split; [exact I1|].
      intros k Hk. specialize (I2 k Hk). destruct nocase; cbn [flat_map concat]; apply in_or_app; right; exact I2.
Qed.

Lemma nth_skipn {X} (d : X) : forall h w k, nth k (skipn h w) d = nth (h + k) w d.
Proof.
  induction h as [|h IH]; intros w k; [reflexivity|]. destruct w as [|c r]; cbn; [destruct k; reflexivity|apply IH].
Qed.

(* a success consumes at least one byte, stays inside the text, and takes bytes of its alphabet only *)
Theorem lex_spec veto l w n : wf_head (lx_head l) = true -> lex veto l w = Some n ->
  1 <= n <= length w /\ forall k, k < n -> In (nth k w 0%N) (alphabet l).
Proof.
  intros Hw H. unfold lex in H.
  destruct (head_len (lx_head l) w) as [h|] eqn:Eh; [|discriminate].
  destruct (head_len_spec _ _ _ Hw Eh) as [[H1 H2] H3].
  destruct (lx_tail_required l && Nat.eqb _ 0); [discriminate|].
  destruct (lx_veto l && veto _); [discriminate|]. injection H as <-.
  pose proof (run_len_le (lx_tail l) (skipn h w)) as Hr. rewrite skipn_length in Hr.
  split; [lia|]. intros k Hk. unfold alphabet. apply in_or_app.
  destruct (Nat.lt_ge_cases k h) as [L|G]; [left; now apply H3|right].
  replace k with (h + (k - h)) by lia. rewrite <- nth_skipn. apply mem_in, run_len_in. lia.
Qed.

(* a byte outside the alphabet is never consumed: the lexer stops at or before it *)
Corollary lex_stops veto l w n k : wf_head (lx_head l) = true -> lex veto l w = Some n ->
  mem (nth k w 0%N) (alphabet l) = false -> k < length w -> n <= k.
Proof.
  intros Hw H Hm Hk. destruct (lex_spec veto l w n Hw H) as [_ Ha].
  destruct (Nat.le_gt_cases n k) as [L|G]; [exact L|].
  specialize (Ha k G). apply mem_in in Ha. congruence.
Qed.

(* the veto only removes successes *)
Lemma lex_veto_monotone veto l w n : lex veto l w = Some n -> lex (fun _ => false) l w = Some n.
Proof.
  unfold lex. destruct (head_len (lx_head l) w); [|discriminate].
  destruct (lx_tail_required l && Nat.eqb _ 0); [discriminate|].
  rewrite andb_false_r. destruct (lx_veto l && veto _); [discriminate|auto].
Qed.
