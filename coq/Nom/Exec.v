(* The oracles of the PEG interpreter made concrete, so that the regenerated grammar can be RUN and its
   trees compared with those of the real parser on the same texts (the behavioural tie of the grammar
   translator, and of the theorems that quantify over the oracles: every instance is covered by them).

   - span primitives and free-text lexers (strings, comments, macro text, actual arguments, ..): a small
     span-level PEG [sexp] over the nom 7 primitives in their "complete" flavour; the bodies are regenerated
     from the sources (Gen/GenPrims.v);
   - token lexers: HandLex.lex over the regenerated tables, with the reserved-word veto of is_keyword;
   - keyword(t): the tag, guarded by is_reserved_in_force(t);
   - thread-local state: the IN_DIRECTIVE stack (its height) and the CURRENT_VERSION stack;
   - state actions 1..4 and 11..18 as numbered by the translator.
   Model only: no proofs in this file. *)
From SV Require Import Peg HandLex Keywords GenKeywords.
From Coq Require Import Ascii.
Local Open Scope nat_scope.

(* ------------------------------------------------------------------ span-level expressions *)
Inductive sexp :=
| STag (nocase : bool) (t : bytes)      (* tag / tag_no_case / char *)
| SIsA (set : bytes)                    (* is_a: the longest non-empty run over the set *)
| SIsNot (set : bytes)                  (* is_not: the longest non-empty run outside the set *)
| SOneOf (set : bytes)                  (* one character of the set *)
| SNoneOf (set : bytes)                 (* one character (all its bytes) outside the set *)
| STake (n : nat)                       (* n characters *)
| SSeq (es : list sexp)
| SAlt (es : list sexp)
| SOpt (e : sexp)
| SMany0 (e : sexp)
| SMany1 (e : sexp)
| SPeek (e : sexp)
| SNot (e : sexp)
| SRef (i : nat).                       (* another hand lexer, by its place in the table *)

(* bytes of the UTF-8 character that starts with byte c (the texts are Rust strings: valid UTF-8) *)
Definition char_len (c : N) : nat :=
  if (c <? 128)%N then 1 else if (c <? 224)%N then 2 else if (c <? 240)%N then 3 else 4.

Fixpoint run_not (set : bytes) (w : bytes) : nat :=
  match w with
  | c :: r => if HandLex.mem c set then 0 else S (run_not set r)
  | [] => 0
  end.

Fixpoint take_chars (n : nat) (w : bytes) : option nat :=
  match n with
  | 0 => Some 0
  | S n' =>
      match w with
      | [] => None
      | c :: _ =>
          let k := char_len c in
          if Nat.ltb (List.length w) k then None
          else match take_chars n' (skipn k w) with Some m => Some (k + m) | None => None end
      end
  end.

Section Span.
Variable defs : list sexp.

(* consumed bytes, or failure; [None] also when the fuel runs out (the caller gives enough: see [span_fuel]) *)
Fixpoint srun (fuel : nat) (e : sexp) (w : bytes) {struct fuel} : option nat :=
  match fuel with
  | 0 => None
  | S f =>
    match e with
    | STag nocase t => prefix_len nocase t w
    | SIsA set => match run_len set w with 0 => None | n => Some n end
    | SIsNot set => match run_not set w with 0 => None | n => Some n end
    | SOneOf set => match w with c :: _ => if HandLex.mem c set then Some 1 else None | [] => None end
    | SNoneOf set => match w with c :: _ => if HandLex.mem c set then None else Some (Nat.min (char_len c) (List.length w)) | [] => None end
    | STake n => take_chars n w
    | SSeq es =>
        (fix go (l : list sexp) (w : bytes) (acc : nat) : option nat :=
           match l with
           | [] => Some acc
           | x :: r => match srun f x w with Some n => go r (skipn n w) (acc + n) | None => None end
           end) es w 0
    | SAlt es =>
        (fix go (l : list sexp) : option nat :=
           match l with
           | [] => None
           | x :: r => match srun f x w with Some n => Some n | None => go r end
           end) es
    | SOpt e1 => match srun f e1 w with Some n => Some n | None => Some 0 end
    | SMany0 e1 =>
        match srun f e1 w with
        | None => Some 0
        | Some 0 => None                                   (* nom: many0 of a parser that does not consume is an error *)
        | Some n => match srun f (SMany0 e1) (skipn n w) with Some m => Some (n + m) | None => None end
        end
    | SMany1 e1 =>
        match srun f e1 w with
        | None => None
        | Some n => match srun f (SMany0 e1) (skipn n w) with Some m => Some (n + m) | None => None end
        end
    | SPeek e1 => match srun f e1 w with Some _ => Some 0 | None => None end
    | SNot e1 => match srun f e1 w with Some _ => None | None => Some 0 end
    | SRef i => match nth_error defs i with Some d => srun f d w | None => None end
    end
  end.
End Span.

(* ------------------------------------------------------------------ primitives *)
Inductive pdesc :=
| PSpan (e : sexp)
| PLex (l : lexer)
| PKeyword (t : bytes)       (* the tag of keyword(t), guarded by is_reserved_in_force(t) *)
| PUnknown.

(* thread-local state: height of the IN_DIRECTIVE stack, the CURRENT_VERSION stack (top first) *)
Record tls := mkTls { t_dir : nat; t_ver : vstack }.

Definition string_of_bytes (b : bytes) : string :=
  fold_right (fun c s => String (ascii_of_N c) s) EmptyString b.

Definition in_dir (x : tls) : bool := negb (Nat.eqb (t_dir x) 0).

(* is_keyword(&a): the table of the set in force *)
Definition veto_of (x : tls) (b : bytes) : bool := Keywords.mem (string_of_bytes b) (table_of (in_force (t_ver x))).

(* is_reserved_in_force(t) *)
Definition reserved_in_force (x : tls) (t : bytes) : bool :=
  keyword_allowed_at (in_dir x) keywords_directive (guard_table_of (in_force (t_ver x))) keywords_1800_2017 (string_of_bytes t).

(* enough for every text: one unit per iteration of many0 / many1 and a constant per level of nesting *)
Definition span_fuel (inp : bytes) : nat := 8 * List.length inp + 64.

Section Prims.
Variable defs : list sexp.
Variable table : list pdesc.
Variable inp : bytes.
Variable sfuel : nat.

Definition prim_exec (i : N) (x : tls) (p : nat) : option nat :=
  let w := skipn p inp in
  match nth_error table (N.to_nat i) with
  | Some (PSpan e) => srun defs sfuel e w
  | Some (PLex l) => lex (veto_of x) l w
  | Some (PKeyword t) => if reserved_in_force x t then prefix_len false t w else None
  | _ => None
  end.
End Prims.

(* ------------------------------------------------------------------ state actions *)
Definition version_of_act (a : N) : option version :=
  match a with
  | 11 => Some V_Ieee1364_1995 | 12 => Some V_Ieee1364_2001 | 13 => Some V_Ieee1364_2001Noconfig
  | 14 => Some V_Ieee1364_2005 | 15 => Some V_Ieee1800_2005 | 16 => Some V_Ieee1800_2009
  | 17 => Some V_Ieee1800_2012 | 18 => Some V_Ieee1800_2017
  | 3 => Some V_Directive
  | _ => None
  end%N.

Definition act_exec (a : N) (x : tls) : tls :=
  match a with
  | 1%N => mkTls (S (t_dir x)) (t_ver x)                 (* begin_directive: push *)
  | 2%N => mkTls (pred (t_dir x)) (t_ver x)              (* end_directive: pop (nothing on an empty Vec) *)
  | 4%N => mkTls (t_dir x) (vstep (t_ver x) End_)        (* end_keywords *)
  | _ => match version_of_act a with
         | Some v => mkTls (t_dir x) (vstep (t_ver x) (Begin v))
         | None => x
         end
  end.

(* the one condition of the grammar: if in_directive() *)
Definition cond_exec (c : N) (x : tls) : bool := in_dir x.

Definition tls0 : tls := mkTls 0 [].

(* one parser entry: init() has cleared the memo and the thread-local stacks *)
Definition exec (defs : list sexp) (table : list pdesc) (g : list prod) (cap : option nat) (start : nat) (inp : bytes) (fuel : nat)
  : res * pstate tls :=
  run tls (prim_exec defs table inp (span_fuel inp)) act_exec cond_exec in_dir inp g fuel (FCall start) 0 [] (mkPst tls [] [] cap tls0).
