(* A barrier: if no primitive consumes across position b, no run that starts at or before b ends
   beyond it.  With b = the length of the text: no run ends beyond the end of the text (C15); with b = the
   offset of a byte no token can contain: every success stops at or before that byte (C14).  Proofs only. *)
From SV Require Import Peg.
From Coq Require Import Arith Lia.
Local Open Scope nat_scope.

Section Bound.
Variable A : Type.
Variable prim : N -> A -> nat -> option nat.
Variable act : N -> A -> A.
Variable cond : N -> A -> bool.
Variable dirflag : A -> bool.
Variable inp : list N.
Variable g : list prod.
Variable bar : nat.                (* the barrier *)
Notation run := (run A prim act cond dirflag inp g).
Notation pstate := (pstate A).

Hypothesis prim_bound : forall i a p n, p <= bar -> prim i a p = Some n -> p + n <= bar.

Definition memo_bd (st : pstate) : Prop :=
  forall n p d fo len, In ((n, p, d), Some (fo, len)) (ps_map A st) -> p <= bar -> p + len <= bar.

Lemma map_remove_in2 m k x : In x (map_remove m k) -> In x m.
Proof. induction m as [|[k' v'] m IH]; cbn; [auto|]. destruct (key_eqb k k'); cbn; intuition. Qed.

Lemma memo_insert_bd st n p d v :
  memo_bd st -> (forall fo len, v = Some (fo, len) -> p <= bar -> p + len <= bar) -> memo_bd (memo_insert A st (n, p, d) v).
Proof.
  intros H Hv. unfold memo_bd, memo_insert.
  destruct (ps_cap A st) as [size|]; [destruct (Nat.ltb (size - 1) (length (ps_keys A st))); [destruct (ps_keys A st)|]|];
    cbn [ps_map]; intros n' p' d' fo len [E|Hin] Hle;
    try (injection E as -> -> -> ->; eapply Hv; eauto; fail);
    repeat (apply map_remove_in2 in Hin); eapply H; eauto.
Qed.

Lemma map_get_in2 m k v : map_get m k = Some v -> exists k', key_eqb k k' = true /\ In (k', v) m.
Proof.
  induction m as [|[k' v'] m IH]; cbn; [discriminate|]. destruct (key_eqb k k') eqn:E.
  - intros [= ->]. eauto.
  - intros H. destruct (IH H) as (k2 & ? & ?). eauto.
Qed.

Lemma key_eqb_true2 a b : key_eqb a b = true -> a = b.
Proof.
  destruct a as [[n1 p1] d1], b as [[n2 p2] d2]. cbn. intros H.
  apply andb_true_iff in H as [H H3]. apply andb_true_iff in H as [H1 H2].
  apply Nat.eqb_eq in H1, H2. apply eqb_prop in H3. now subst.
Qed.

Definition bd (r : res * pstate) (p : nat) : Prop :=
  memo_bd (snd r) /\ match fst r with Ok _ q => p <= q <= bar | _ => True end.

Ltac bsplit := split; cbn [fst snd]; try exact I; auto.

Theorem run_bd : forall fuel e p rf st, memo_bd st -> p <= bar -> bd (run fuel e p rf st) p.
Proof.
  induction fuel as [|f IH]; intros e p rf st Hm Hp.
  { split; [exact Hm|exact I]. }
  destruct e; cbn [Peg.run].
  - destruct (nth_error g n) as [pr|]; [|bsplit].
    assert (Hbody : bd (if p_rec pr then if existsb (Nat.eqb n) rf then (Err, st) else run f (p_body pr) p (n :: rf) st
                        else run f (p_body pr) p rf st) p).
    { destruct (p_rec pr); [destruct (existsb _ rf)|]; try (apply IH; assumption). bsplit. }
    destruct (p_packrat pr); [|exact Hbody].
    destruct (map_get (ps_map A st) (n, p, dirflag (ps_aux A st))) as [[[fo len]|]|] eqn:Eg.
    + apply map_get_in2 in Eg as (k' & Ek & Hin). apply key_eqb_true2 in Ek. subst k'.
      bsplit. specialize (Hm _ _ _ _ _ Hin Hp). lia.
    + bsplit.
    + destruct (if p_rec pr then _ else _) as [r st'] eqn:Er. destruct Hbody as [H1 H2]. cbn [fst snd] in *.
      destruct r as [fo q| |]; cbn [fst snd].
      * split; cbn [fst snd]; [|exact H2]. apply memo_insert_bd; [exact H1|]. intros fo' len' [= <- <-] _. lia.
      * split; cbn [fst snd]; [|exact I]. apply memo_insert_bd; [exact H1|]. discriminate.
      * bsplit.
  - destruct (prim i (ps_aux A st) p) eqn:Ep; [|bsplit]. bsplit. pose proof (prim_bound _ _ _ _ Hp Ep). lia.
  - pose proof (IH e p rf st Hm Hp) as [H1 H2].
    destruct (run f e p rf st) as [[fo q| |] st']; cbn [fst snd] in *; [|bsplit|bsplit]. bsplit.
  - assert (Hgo : forall l q acc st0, memo_bd st0 -> p <= q <= bar ->
      bd ((fix go (l : list fexp) (q : nat) (acc : list tree) (st : pstate) : res * pstate :=
             match l with
             | [] => (Ok acc q, st)
             | x :: r => let '(rx, st') := run f x q (rf_at p q rf) st in
                         match rx with Ok fo q' => go r q' (acc ++ fo) st' | _ => (rx, st') end
             end) l q acc st0) p).
    { induction l as [|x r IHl]; intros q acc st0 H0 Hq; [bsplit|].
      pose proof (IH x q (rf_at p q rf) st0 H0 ltac:(lia)) as [H1 H2].
      destruct (run f x q (rf_at p q rf) st0) as [[fo q'| |] st']; cbn [fst snd] in *; [|bsplit|bsplit].
      apply IHl; [exact H1|lia]. }
    apply Hgo; auto.
  - assert (Hgo : forall l st0, memo_bd st0 ->
      bd ((fix go (l : list fexp) (st : pstate) : res * pstate :=
             match l with
             | [] => (Err, st)
             | x :: r => let '(rx, st') := run f x p rf st in
                         match rx with Err => go r st' | _ => (rx, st') end
             end) l st0) p).
    { induction l as [|x r IHl]; intros st0 H0; [bsplit|].
      pose proof (IH x p rf st0 H0 Hp) as [H1 H2].
      destruct (run f x p rf st0) as [[fo q'| |] st']; cbn [fst snd] in *; [bsplit| |bsplit].
      apply IHl; exact H1. }
    apply Hgo; auto.
  - pose proof (IH e p rf st Hm Hp) as [H1 H2].
    destruct (run f e p rf st) as [[fo q| |] st']; cbn [fst snd] in *; [bsplit| |bsplit]. bsplit.
  - pose proof (IH e p rf st Hm Hp) as [H1 H2].
    destruct (run f e p rf st) as [[fo q| |] st']; cbn [fst snd] in *; [| |bsplit].
    + destruct (Nat.eqb q p); [bsplit|].
      pose proof (IH (FMany0 e) q [] st' H1 ltac:(lia)) as [H3 H4].
      destruct (run f (FMany0 e) q [] st') as [[fo2 q2| |] st2]; cbn [fst snd] in *; [|bsplit|bsplit].
      bsplit. lia.
    + bsplit.
  - pose proof (IH e p rf st Hm Hp) as [H1 H2].
    destruct (run f e p rf st) as [[fo q| |] st']; cbn [fst snd] in *; [|bsplit|bsplit].
    destruct (Nat.eqb q p); [bsplit|].
    pose proof (IH (FMany0 e) q [] st' H1 ltac:(lia)) as [H3 H4].
    destruct (run f (FMany0 e) q [] st') as [[fo2 q2| |] st2]; cbn [fst snd] in *; [|bsplit|bsplit].
    bsplit. lia.
  - pose proof (IH e2 p rf st Hm Hp) as [H1 H2].
    destruct (run f e2 p rf st) as [[fo q| |] st']; cbn [fst snd] in *; [bsplit| |bsplit].
    pose proof (IH e1 p rf st' H1 Hp) as [H3 H4].
    destruct (run f e1 p rf st') as [[fo q| |] st1]; cbn [fst snd] in *; [|bsplit|bsplit].
    destruct (Nat.eqb q p); [bsplit|].
    pose proof (IH (FManyTill e1 e2) q [] st1 H3 ltac:(lia)) as [H5 H6].
    destruct (run f (FManyTill e1 e2) q [] st1) as [[fo2 q2| |] st2]; cbn [fst snd] in *; [|bsplit|bsplit].
    bsplit. lia.
  - pose proof (IH e p rf st Hm Hp) as [H1 H2].
    destruct (run f e p rf st) as [[fo q| |] st']; cbn [fst snd] in *; [|bsplit|bsplit]. bsplit.
  - pose proof (IH e p rf st Hm Hp) as [H1 H2].
    destruct (run f e p rf st) as [[fo q| |] st']; cbn [fst snd] in *; [bsplit| |bsplit]. bsplit.
  - destruct (Nat.leb _ _); bsplit.
  - assert (Hgo : forall l q env st0, memo_bd st0 -> p <= q <= bar ->
      bd ((fix go (l : list fexp) (q : nat) (env : list (list tree)) (st : pstate) : res * pstate :=
             match l with
             | [] => (Ok (build t env) q, st)
             | x :: r => let '(rx, st') := run f x q (rf_at p q rf) st in
                         match rx with Ok fo q' => go r q' (env ++ [fo]) st' | _ => (rx, st') end
             end) l q env st0) p).
    { induction l as [|x r IHl]; intros q env st0 H0 Hq; [bsplit|].
      pose proof (IH x q (rf_at p q rf) st0 H0 ltac:(lia)) as [H1 H2].
      destruct (run f x q (rf_at p q rf) st0) as [[fo q'| |] st']; cbn [fst snd] in *; [|bsplit|bsplit].
      apply IHl; [exact H1|lia]. }
    apply Hgo; auto.
  - split; cbn [fst snd]; [exact Hm|lia].
  - pose proof (IH e p rf (set_aux A st (act a (ps_aux A st))) Hm Hp) as [H1 H2].
    destruct (run f e p rf (set_aux A st (act a (ps_aux A st)))) as [r st']; cbn [fst snd] in *.
    split; [exact H1|exact H2].
  - destruct (cond c (ps_aux A st)); apply IH; auto.
  - bsplit.
Qed.
End Bound.
