(* The parser layer as a PEG interpreter: the combinators of nom 7 in use, the glue of
   sv-parser-parser/src/utils.rs, the packrat memo (nom-packrat 0.7: map + FIFO of keys, bounded)
   and the left-recursion guard (nom-recursive 0.5.1: a flag set carried in the span, valid for
   one position).  The grammar itself is data (list of productions), regenerated from the
   sources on every run (Gen/GenGrammar.v).  What the span primitives and hand lexers consume
   is an oracle ([prim]); so is the effect of the state actions.  Model only. *)
From SV Require Export Tree.
From Coq Require Import Arith.
Local Open Scope nat_scope.

(* how a construction lists the results of the binds: TB i = the forest of bind i;
   TG = a tuple / Vec / Option / Box (no node of its own); TN k = a node of kind k *)
Inductive tmpl :=
| TB (i : nat)
| TG (ts : list tmpl)
| TN (k : N) (ts : list tmpl).

Inductive fexp :=
| FCall (n : nat)                    (* another production *)
| FPrim (i : N)                      (* span primitive / hand lexer: consumes what the oracle says *)
| FLeaf (e : fexp)                   (* into_locate: one leaf covering what e consumed *)
| FSeq (es : list fexp)              (* pair / tuple / triple / let-sequence *)
| FAlt (es : list fexp)              (* alt: ordered choice *)
| FOpt (e : fexp)
| FMany0 (e : fexp)
| FMany1 (e : fexp)
| FManyTill (e f : fexp)
| FPeek (e : fexp)
| FNot (e : fexp)
| FEof
| FTmpl (es : list fexp) (t : tmpl)  (* let (s,a) = e0(s)?; ... Ok((s, construction)) and map(e, |x| construction) *)
| FAct (a : N)                       (* begin/end_directive, begin/end_keywords *)
| FWrap (a b : N) (e : fexp)         (* act a; r = e; act b (also when e fails); r *)
| FIf (c : N) (e1 e2 : fexp)         (* if in_directive() { e1 } else { e2 } *)
| FBad.                              (* the translator could not vouch for this spot *)

Record prod := mkProd { p_packrat : bool; p_rec : bool; p_body : fexp }.

Inductive res :=
| Ok (f : list tree) (p : nat)
| Err
| Fuel.

Section Interp.
Variable A : Type.                                   (* IN_DIRECTIVE and CURRENT_VERSION stacks *)
Variable prim : N -> A -> nat -> option nat.         (* bytes consumed at a position, or failure *)
Variable act : N -> A -> A.
Variable cond : N -> A -> bool.
Variable dirflag : A -> bool.                        (* the extra memo key: in_directive() *)
Variable inp : list N.                               (* the text *)
Variable g : list prod.

Definition mkey := (nat * nat * bool)%type.          (* production, position, in_directive *)
Definition mval := option (list tree * nat).         (* None = rejection; forest and consumed length *)

Record pstate := mkPst {
  ps_map : list (mkey * mval);
  ps_keys : list mkey;                               (* VecDeque of keys, front first *)
  ps_cap : option nat;
  ps_aux : A }.

Definition key_eqb (a b : mkey) : bool :=
  let '(n1, p1, d1) := a in let '(n2, p2, d2) := b in
  Nat.eqb n1 n2 && Nat.eqb p1 p2 && Bool.eqb d1 d2.

Fixpoint map_get (m : list (mkey * mval)) (k : mkey) : option mval :=
  match m with
  | [] => None
  | (k', v) :: r => if key_eqb k k' then Some v else map_get r k
  end.

Fixpoint map_remove (m : list (mkey * mval)) (k : mkey) : list (mkey * mval) :=
  match m with
  | [] => []
  | (k', v) :: r => if key_eqb k k' then map_remove r k else (k', v) :: map_remove r k
  end.

(* PackratStorage::insert: evict the oldest key when the deque is full, then push and overwrite *)
Definition memo_insert (st : pstate) (k : mkey) (v : mval) : pstate :=
  let '(m, ks) :=
    match ps_cap st with
    | Some size =>
        if Nat.ltb (size - 1) (length (ps_keys st)) then
          match ps_keys st with
          | old :: rest => (map_remove (ps_map st) old, rest)
          | [] => (ps_map st, [])
          end
        else (ps_map st, ps_keys st)
    | None => (ps_map st, ps_keys st)
    end in
  mkPst ((k, v) :: map_remove m k) (ks ++ [k]) (ps_cap st) (ps_aux st).

Definition set_aux (st : pstate) (a : A) : pstate := mkPst (ps_map st) (ps_keys st) (ps_cap st) a.

Definition line_at (p : nat) : N := (1 + N.of_nat (length (filter (N.eqb 10%N) (firstn p inp))))%N.
Definition leaf_at (p p' : nat) : tree := Leaf (mkLoc (N.of_nat p) (N.of_nat (p' - p)) (line_at p)).

(* the recursion flags are valid for one position only *)
Definition rf_at (p p1 : nat) (rf : list nat) : list nat := if Nat.eqb p p1 then rf else [].

Fixpoint build (t : tmpl) (env : list (list tree)) : list tree :=
  match t with
  | TB i => nth i env []
  | TG ts => (fix go (l : list tmpl) : list tree := match l with [] => [] | x :: r => build x env ++ go r end) ts
  | TN k ts => [Node k ((fix go (l : list tmpl) : list tree := match l with [] => [] | x :: r => build x env ++ go r end) ts)]
  end.

Fixpoint run (fuel : nat) (e : fexp) (p : nat) (rf : list nat) (st : pstate) {struct fuel} : res * pstate :=
  match fuel with
  | O => (Fuel, st)
  | S f =>
    match e with
    | FCall n =>
        match nth_error g n with
        | None => (Err, st)
        | Some pr =>
            let body (st : pstate) : res * pstate :=
              if p_rec pr then
                if existsb (Nat.eqb n) rf then (Err, st) else run f (p_body pr) p (n :: rf) st
              else run f (p_body pr) p rf st in
            if p_packrat pr then
              match map_get (ps_map st) (n, p, dirflag (ps_aux st)) with
              | Some (Some (fo, len)) => (Ok fo (p + len), st)
              | Some None => (Err, st)
              | None =>
                  let '(r, st') := body st in
                  match r with
                  | Ok fo p' => (r, memo_insert st' (n, p, dirflag (ps_aux st')) (Some (fo, p' - p)))
                  | Err => (r, memo_insert st' (n, p, dirflag (ps_aux st')) None)
                  | Fuel => (r, st')
                  end
              end
            else body st
        end
    | FPrim i =>
        match prim i (ps_aux st) p with
        | Some n => (Ok [] (p + n), st)
        | None => (Err, st)
        end
    | FLeaf e1 =>
        let '(r, st') := run f e1 p rf st in
        match r with
        | Ok _ p' => (Ok [leaf_at p p'] p', st')
        | _ => (r, st')
        end
    | FSeq es =>
        (fix go (l : list fexp) (q : nat) (acc : list tree) (st : pstate) : res * pstate :=
           match l with
           | [] => (Ok acc q, st)
           | x :: r =>
               let '(rx, st') := run f x q (rf_at p q rf) st in
               match rx with
               | Ok fo q' => go r q' (acc ++ fo) st'
               | _ => (rx, st')
               end
           end) es p [] st
    | FAlt es =>
        (fix go (l : list fexp) (st : pstate) : res * pstate :=
           match l with
           | [] => (Err, st)
           | x :: r =>
               let '(rx, st') := run f x p rf st in
               match rx with
               | Err => go r st'
               | _ => (rx, st')
               end
           end) es st
    | FOpt e1 =>
        let '(r, st') := run f e1 p rf st in
        match r with
        | Err => (Ok [] p, st')
        | _ => (r, st')
        end
    | FMany0 e1 =>
        let '(r, st') := run f e1 p rf st in
        match r with
        | Err => (Ok [] p, st')
        | Fuel => (Fuel, st')
        | Ok fo p' =>
            if Nat.eqb p' p then (Err, st')         (* nom: the inner parser must consume *)
            else
              let '(r2, st'') := run f (FMany0 e1) p' [] st' in
              match r2 with
              | Ok fo2 p'' => (Ok (fo ++ fo2) p'', st'')
              | _ => (r2, st'')
              end
        end
    | FMany1 e1 =>
        let '(r, st') := run f e1 p rf st in
        match r with
        | Ok fo p' =>
            if Nat.eqb p' p then (Err, st')
            else
              let '(r2, st'') := run f (FMany0 e1) p' [] st' in
              match r2 with
              | Ok fo2 p'' => (Ok (fo ++ fo2) p'', st'')
              | _ => (r2, st'')
              end
        | _ => (r, st')
        end
    | FManyTill e1 e2 =>
        let '(r, st') := run f e2 p rf st in
        match r with
        | Ok fo p' => (Ok fo p', st')
        | Fuel => (Fuel, st')
        | Err =>
            let '(r1, st1) := run f e1 p rf st' in
            match r1 with
            | Ok fo p' =>
                if Nat.eqb p' p then (Err, st1)
                else
                  let '(r2, st2) := run f (FManyTill e1 e2) p' [] st1 in
                  match r2 with
                  | Ok fo2 p'' => (Ok (fo ++ fo2) p'', st2)
                  | _ => (r2, st2)
                  end
            | _ => (r1, st1)
            end
        end
    | FPeek e1 =>
        let '(r, st') := run f e1 p rf st in
        match r with
        | Ok _ _ => (Ok [] p, st')
        | _ => (r, st')
        end
    | FNot e1 =>
        let '(r, st') := run f e1 p rf st in
        match r with
        | Ok _ _ => (Err, st')
        | Err => (Ok [] p, st')
        | Fuel => (Fuel, st')
        end
    | FEof => if Nat.leb (length inp) p then (Ok [] p, st) else (Err, st)
    | FTmpl es t =>
        (fix go (l : list fexp) (q : nat) (env : list (list tree)) (st : pstate) : res * pstate :=
           match l with
           | [] => (Ok (build t env) q, st)
           | x :: r =>
               let '(rx, st') := run f x q (rf_at p q rf) st in
               match rx with
               | Ok fo q' => go r q' (env ++ [fo]) st'
               | _ => (rx, st')
               end
           end) es p [] st
    | FAct a => (Ok [] p, set_aux st (act a (ps_aux st)))
    | FWrap a b e1 =>
        let '(r, st') := run f e1 p rf (set_aux st (act a (ps_aux st))) in
        (r, set_aux st' (act b (ps_aux st')))
    | FIf c e1 e2 => if cond c (ps_aux st) then run f e1 p rf st else run f e2 p rf st
    | FBad => (Err, st)
    end
  end.

(* ------------------------------------------------------------------ the static check *)
(* results that a construction may leave out: they never hold a token *)
Definition nocons (e : fexp) : bool :=
  match e with FPeek _ | FNot _ | FEof | FAct _ => true | _ => false end.

Fixpoint tmpl_order (t : tmpl) : list nat :=
  match t with
  | TB i => [i]
  | TG ts | TN _ ts => (fix go (l : list tmpl) : list nat := match l with [] => [] | x :: r => tmpl_order x ++ go r end) ts
  end.

Fixpoint kept (es : list fexp) (i : nat) : list nat :=
  match es with
  | [] => []
  | e :: r => if nocons e then kept r (S i) else i :: kept r (S i)
  end.

Fixpoint list_eqb (a b : list nat) : bool :=
  match a, b with
  | [], [] => true
  | x :: a', y :: b' => Nat.eqb x y && list_eqb a' b'
  | _, _ => false
  end.

(* [span] = the result is thrown away or turned into one leaf (under peek / not / into_locate):
   only there may a span primitive stand, since it consumes without producing a leaf *)
Fixpoint wf_exp (span : bool) (e : fexp) : bool :=
  match e with
  | FCall n => Nat.ltb n (length g)
  | FPrim _ => span
  | FEof | FAct _ => true
  | FLeaf e1 | FPeek e1 | FNot e1 => wf_exp true e1
  | FOpt e1 | FMany0 e1 | FMany1 e1 => wf_exp span e1
  | FWrap _ _ e1 => wf_exp span e1
  | FManyTill e1 e2 | FIf _ e1 e2 => wf_exp span e1 && wf_exp span e2
  | FSeq es | FAlt es => (fix go (l : list fexp) : bool := match l with [] => true | x :: r => wf_exp span x && go r end) es
  | FTmpl es t =>
      (fix go (l : list fexp) : bool := match l with [] => true | x :: r => wf_exp false x && go r end) es &&
      list_eqb (tmpl_order t) (kept es 0)
  | FBad => false
  end.

Definition wf_grammar : bool := forallb (fun pr => wf_exp false (p_body pr)) g.
End Interp.

(* ------------------------------------------------------------------ structural equality of the IR *)
Fixpoint tmpl_eqb (a b : tmpl) : bool :=
  match a, b with
  | TB i, TB j => Nat.eqb i j
  | TG x, TG y => (fix go (l1 l2 : list tmpl) : bool :=
                     match l1, l2 with [], [] => true | u :: r1, v :: r2 => tmpl_eqb u v && go r1 r2 | _, _ => false end) x y
  | TN k x, TN k' y => N.eqb k k' &&
                       (fix go (l1 l2 : list tmpl) : bool :=
                          match l1, l2 with [], [] => true | u :: r1, v :: r2 => tmpl_eqb u v && go r1 r2 | _, _ => false end) x y
  | _, _ => false
  end.

Fixpoint fexp_eqb (a b : fexp) : bool :=
  match a, b with
  | FCall n, FCall m => Nat.eqb n m
  | FPrim i, FPrim j => N.eqb i j
  | FLeaf x, FLeaf y | FOpt x, FOpt y | FMany0 x, FMany0 y | FMany1 x, FMany1 y | FPeek x, FPeek y | FNot x, FNot y => fexp_eqb x y
  | FSeq x, FSeq y | FAlt x, FAlt y =>
      (fix go (l1 l2 : list fexp) : bool :=
         match l1, l2 with [], [] => true | u :: r1, v :: r2 => fexp_eqb u v && go r1 r2 | _, _ => false end) x y
  | FManyTill x1 x2, FManyTill y1 y2 => fexp_eqb x1 y1 && fexp_eqb x2 y2
  | FEof, FEof | FBad, FBad => true
  | FTmpl x t, FTmpl y u =>
      (fix go (l1 l2 : list fexp) : bool :=
         match l1, l2 with [], [] => true | u :: r1, v :: r2 => fexp_eqb u v && go r1 r2 | _, _ => false end) x y && tmpl_eqb t u
  | FAct i, FAct j => N.eqb i j
  | FWrap a1 b1 x, FWrap a2 b2 y => N.eqb a1 a2 && N.eqb b1 b2 && fexp_eqb x y
  | FIf c x1 x2, FIf c' y1 y2 => N.eqb c c' && fexp_eqb x1 y1 && fexp_eqb x2 y2
  | _, _ => false
  end.

(* source_text vs source_text_incomplete: the same construction, the same leading parsers (all of
   them many0 / opt); many_till(d, eof) last in one, many0(d) last in the other *)
Fixpoint strict_incomplete_binds (s i : list fexp) (d : nat) : bool :=
  match s, i with
  | [FManyTill (FCall d1) FEof], [FMany0 (FCall d2)] => Nat.eqb d1 d && Nat.eqb d2 d
  | a :: s', b :: i' =>
      fexp_eqb a b && (match a with FMany0 _ | FOpt _ => true | _ => false end) && strict_incomplete_binds s' i' d
  | _, _ => false
  end.

Definition strict_incomplete_pair (s i : fexp) (d : nat) : bool :=
  match s, i with
  | FTmpl es t, FTmpl es' t' => strict_incomplete_binds es es' d && tmpl_eqb t t'
  | _, _ => false
  end.
