(* State actions leave no trace: for an observation [obs] of the thread-local parser state (the
   IN_DIRECTIVE stack, or the keyword-version stack), an expression all of whose actions are either
   invisible to [obs] or bracketed by an inverse pair leaves [obs] as it found it -- on success, on
   failure, on memo hits, at any memo capacity.  Analysis + soundness. *)
From SV Require Import Peg.
From Coq Require Import Arith Lia.
Local Open Scope nat_scope.

Section Neutral.
Variable A : Type.
Variable prim : N -> A -> nat -> option nat.
Variable act : N -> A -> A.
Variable cond : N -> A -> bool.
Variable dirflag : A -> bool.
Variable inp : list N.
Variable g : list prod.
Variable B : Type.
Variable obs : A -> B.
Variable invisible : list N.              (* actions that do not touch what obs sees *)
Variable inverse : list (N * N).          (* (a, b): b undoes a, as far as obs can see, whatever happened in between *)
Variable cert : list bool.                (* by production index: claimed neutral *)
Notation run := (run A prim act cond dirflag inp g).
Notation pstate := (pstate A).

Hypothesis invisible_ok : forall a x, In a invisible -> obs (act a x) = obs x.
(* what an action does to the observed part depends on the observed part only *)
Hypothesis act_cong : forall a x y, obs x = obs y -> obs (act a x) = obs (act a y).
Hypothesis inverse_ok : forall a b x, In (a, b) inverse -> obs (act b (act a x)) = obs x.

Definition amem (a : N) : bool := existsb (N.eqb a) invisible.
Definition pmem (a b : N) : bool := existsb (fun ab => N.eqb a (fst ab) && N.eqb b (snd ab)) inverse.

Fixpoint neutral (e : fexp) : bool :=
  match e with
  | FCall n => nth n cert false
  | FPrim _ | FEof | FBad => true
  | FLeaf e1 | FOpt e1 | FMany0 e1 | FMany1 e1 | FPeek e1 | FNot e1 => neutral e1
  | FSeq es | FAlt es | FTmpl es _ => (fix go (l : list fexp) : bool := match l with [] => true | x :: r => neutral x && go r end) es
  | FManyTill e1 e2 | FIf _ e1 e2 => neutral e1 && neutral e2
  | FAct a => amem a
  | FWrap a b e1 => ((amem a && amem b) || pmem a b) && neutral e1
  end.

Definition cert_ok : bool :=
  (fix go (c : list bool) (ps : list prod) : bool :=
     match c, ps with
     | b :: c', pr :: ps' => (negb b || neutral (p_body pr)) && go c' ps'
     | [], _ => true
     | _ :: _, [] => forallb negb c
     end) cert g.

Lemma cert_ok_sound : cert_ok = true -> forall n pr, nth n cert false = true -> nth_error g n = Some pr -> neutral (p_body pr) = true.
Proof.
  unfold cert_ok. generalize cert g. intros l. induction l as [|b c IH]; intros ps H n pr Hc Hn.
  - destruct n; discriminate.
  - destruct ps as [|p0 ps].
    + destruct n; discriminate.
    + apply andb_true_iff in H as [H1 H2]. destruct n as [|n]; cbn in *.
      * injection Hn as <-. subst b. exact H1.
      * eapply IH; eauto.
Qed.

Lemma neutral_list_in (l : list fexp) :
  (fix go (l : list fexp) : bool := match l with [] => true | x :: r => neutral x && go r end) l = true ->
  forall x, In x l -> neutral x = true.
Proof.
  induction l as [|y l IH]; cbn; [contradiction|]. intros H x [<-|Hx].
  - now apply andb_true_iff in H as [H _].
  - apply andb_true_iff in H as [_ H]. auto.
Qed.

Lemma memo_insert_aux st k v : ps_aux A (memo_insert A st k v) = ps_aux A st.
Proof.
  unfold memo_insert. destruct (ps_cap A st) as [size|]; [destruct (Nat.ltb _ _); [destruct (ps_keys A st)|]|]; reflexivity.
Qed.

Definition same (r : res * pstate) (st : pstate) : Prop := obs (ps_aux A (snd r)) = obs (ps_aux A st).

(* the observed part after a run is a function of the observed part before it: needed because an
   inverse pair brackets a run that starts from a changed state *)
Theorem run_neutral : cert_ok = true -> forall fuel e p rf st, neutral e = true -> same (run fuel e p rf st) st.
Proof.
  intros CO. induction fuel as [|f IH]; intros e p rf st Hn; [reflexivity|].
  unfold same in *. destruct e; cbn [Peg.run]; cbn [neutral] in Hn.
  - destruct (nth_error g n) as [pr|] eqn:En; [|reflexivity].
    pose proof (cert_ok_sound CO n pr Hn En) as Hb.
    assert (Hbody : obs (ps_aux A (snd (if p_rec pr then if existsb (Nat.eqb n) rf then (Err, st) else run f (p_body pr) p (n :: rf) st
                                         else run f (p_body pr) p rf st))) = obs (ps_aux A st)).
    { destruct (p_rec pr); [destruct (existsb _ rf)|]; try (apply IH; assumption). reflexivity. }
    destruct (p_packrat pr); [|exact Hbody].
    destruct (map_get _ _) as [[[fo len]|]|]; try reflexivity.
    destruct (if p_rec pr then _ else _) as [r st']; cbn [snd] in *.
    destruct r; cbn [snd]; rewrite ?memo_insert_aux; exact Hbody.
  - destruct (prim i (ps_aux A st) p); reflexivity.
  - specialize (IH e p rf st Hn). destruct (run f e p rf st) as [[fo q| |] st']; cbn [snd] in *; exact IH.
  - pose proof (neutral_list_in es Hn) as Hl. clear Hn.
    assert (Hgo : forall l q acc st0, (forall x, In x l -> neutral x = true) ->
      obs (ps_aux A (snd ((fix go (l : list fexp) (q : nat) (acc : list tree) (st : pstate) : res * pstate :=
             match l with
             | [] => (Ok acc q, st)
             | x :: r => let '(rx, st') := run f x q (rf_at p q rf) st in
                         match rx with Ok fo q' => go r q' (acc ++ fo) st' | _ => (rx, st') end
             end) l q acc st0))) = obs (ps_aux A st0)).
    { induction l as [|x r IHl]; intros q acc st0 Wl; [reflexivity|].
      pose proof (IH x q (rf_at p q rf) st0 (Wl x (or_introl eq_refl))) as H1.
      destruct (run f x q (rf_at p q rf) st0) as [[fo q'| |] st']; cbn [snd] in *; try exact H1.
      rewrite IHl; [exact H1|intros; apply Wl; now right]. }
    apply Hgo; assumption.
  - pose proof (neutral_list_in es Hn) as Hl. clear Hn.
    assert (Hgo : forall l st0, (forall x, In x l -> neutral x = true) ->
      obs (ps_aux A (snd ((fix go (l : list fexp) (st : pstate) : res * pstate :=
             match l with
             | [] => (Err, st)
             | x :: r => let '(rx, st') := run f x p rf st in
                         match rx with Err => go r st' | _ => (rx, st') end
             end) l st0))) = obs (ps_aux A st0)).
    { induction l as [|x r IHl]; intros st0 Wl; [reflexivity|].
      pose proof (IH x p rf st0 (Wl x (or_introl eq_refl))) as H1.
      destruct (run f x p rf st0) as [[fo q'| |] st']; cbn [snd] in *; try exact H1.
      rewrite IHl; [exact H1|intros; apply Wl; now right]. }
    apply Hgo; assumption.
  - specialize (IH e p rf st Hn). destruct (run f e p rf st) as [[fo q| |] st']; cbn [snd] in *; exact IH.
  - pose proof (IH e p rf st Hn) as H1.
    destruct (run f e p rf st) as [[fo q| |] st']; cbn [snd] in *; try exact H1.
    destruct (Nat.eqb q p); [exact H1|].
    pose proof (IH (FMany0 e) q [] st' Hn) as H2.
    destruct (run f (FMany0 e) q [] st') as [[fo2 q2| |] st2]; cbn [snd] in *; congruence.
  - pose proof (IH e p rf st Hn) as H1.
    destruct (run f e p rf st) as [[fo q| |] st']; cbn [snd] in *; try exact H1.
    destruct (Nat.eqb q p); [exact H1|].
    pose proof (IH (FMany0 e) q [] st' Hn) as H2.
    destruct (run f (FMany0 e) q [] st') as [[fo2 q2| |] st2]; cbn [snd] in *; congruence.
  - apply andb_true_iff in Hn as [Hn1 Hn2].
    pose proof (IH e2 p rf st Hn2) as H1.
    destruct (run f e2 p rf st) as [[fo q| |] st']; cbn [snd] in *; try exact H1.
    pose proof (IH e1 p rf st' Hn1) as H2.
    destruct (run f e1 p rf st') as [[fo q| |] st1]; cbn [snd] in *; try congruence.
    destruct (Nat.eqb q p); [cbn; congruence|].
    assert (Hn : neutral (FManyTill e1 e2) = true) by (cbn [neutral]; now rewrite Hn1, Hn2).
    pose proof (IH (FManyTill e1 e2) q [] st1 Hn) as H3.
    destruct (run f (FManyTill e1 e2) q [] st1) as [[fo2 q2| |] st2]; cbn [snd] in *; congruence.
  - specialize (IH e p rf st Hn). destruct (run f e p rf st) as [[fo q| |] st']; cbn [snd] in *; exact IH.
  - specialize (IH e p rf st Hn). destruct (run f e p rf st) as [[fo q| |] st']; cbn [snd] in *; exact IH.
  - destruct (Nat.leb _ _); reflexivity.
  - pose proof (neutral_list_in es Hn) as Hl. clear Hn.
    assert (Hgo : forall l q env st0, (forall x, In x l -> neutral x = true) ->
      obs (ps_aux A (snd ((fix go (l : list fexp) (q : nat) (env : list (list tree)) (st : pstate) : res * pstate :=
             match l with
             | [] => (Ok (build t env) q, st)
             | x :: r => let '(rx, st') := run f x q (rf_at p q rf) st in
                         match rx with Ok fo q' => go r q' (env ++ [fo]) st' | _ => (rx, st') end
             end) l q env st0))) = obs (ps_aux A st0)).
    { induction l as [|x r IHl]; intros q env st0 Wl; [reflexivity|].
      pose proof (IH x q (rf_at p q rf) st0 (Wl x (or_introl eq_refl))) as H1.
      destruct (run f x q (rf_at p q rf) st0) as [[fo q'| |] st']; cbn [snd] in *; try exact H1.
      rewrite IHl; [exact H1|intros; apply Wl; now right]. }
    apply Hgo; assumption.
  - cbn [snd set_aux ps_aux]. apply invisible_ok. unfold amem in Hn. apply existsb_exists in Hn as (x & Hx & E).
    apply N.eqb_eq in E. now subst.
  - apply andb_true_iff in Hn as [Hp Hn].
    pose proof (IH e p rf (set_aux A st (act a (ps_aux A st))) Hn) as H1.
    destruct (run f e p rf (set_aux A st (act a (ps_aux A st)))) as [r st']; cbn [snd set_aux ps_aux] in *.
    apply orb_true_iff in Hp as [Hi|Hp].
    + apply andb_true_iff in Hi as [Ha Hb]. unfold amem in Ha, Hb.
      apply existsb_exists in Ha as (x & Hx & E). apply N.eqb_eq in E. subst x.
      apply existsb_exists in Hb as (y & Hy & E). apply N.eqb_eq in E. subst y.
      rewrite (invisible_ok b _ Hy), H1. now apply invisible_ok.
    + unfold pmem in Hp. apply existsb_exists in Hp as ([a' b'] & Hin & E). cbn [fst snd] in E.
      apply andb_true_iff in E as [E1 E2]. apply N.eqb_eq in E1, E2. subst a' b'.
      rewrite (act_cong b _ _ H1). now apply inverse_ok.
  - apply andb_true_iff in Hn as [Hn1 Hn2]. destruct (cond c (ps_aux A st)); apply IH; assumption.
  - reflexivity.
Qed.
End Neutral.
