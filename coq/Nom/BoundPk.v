(* The barrier theorem of Bound.v with look-ahead primitives.  A keyword is tag(kw) followed by
   peek(none_of(identifier characters)): that none_of DOES consume a byte that no token can contain --
   under peek, where the consumption is undone.  [peekers] are primitives exempt from the bound;
   [pk] checks that they stand only directly under peek / not.  With that, no run that starts at or
   before the barrier ends beyond it.  [pk] is a definition, the rest are proofs. *)
From SV Require Import Peg Bound.
From Coq Require Import Arith Lia.
Local Open Scope nat_scope.

Section BoundPk.
Variable A : Type.
Variable prim : N -> A -> nat -> option nat.
Variable act : N -> A -> A.
Variable cond : N -> A -> bool.
Variable dirflag : A -> bool.
Variable inp : list N.
Variable g : list prod.
Variable bar : nat.                (* the barrier *)
Notation run := (run A prim act cond dirflag inp g).
Notation pstate := (pstate A).

Variable peekers : list N.

Definition is_pk (i : N) : bool := existsb (N.eqb i) peekers.

Fixpoint pk (e : fexp) : bool :=
  match e with
  | FPrim i => negb (is_pk i)
  | FPeek e1 | FNot e1 => match e1 with FPrim _ => true | _ => pk e1 end
  | FCall _ | FEof | FAct _ | FBad => true
  | FLeaf e1 | FOpt e1 | FMany0 e1 | FMany1 e1 | FWrap _ _ e1 => pk e1
  | FManyTill e1 e2 | FIf _ e1 e2 => pk e1 && pk e2
  | FSeq es | FAlt es | FTmpl es _ => (fix go (l : list fexp) : bool := match l with [] => true | x :: r => pk x && go r end) es
  end.

Hypothesis prim_bound : forall i a p n, is_pk i = false -> p <= bar -> prim i a p = Some n -> p + n <= bar.
Hypothesis GP : forall n pr, nth_error g n = Some pr -> pk (p_body pr) = true.

Notation memo_bd := (memo_bd A bar).

Definition bd (r : res * pstate) (p : nat) : Prop :=
  memo_bd (snd r) /\ match fst r with Ok _ q => p <= q <= bar | _ => True end.

Ltac bsplit := split; cbn [fst snd]; try exact I; auto.

Theorem run_bd_pk : forall fuel e p rf st, pk e = true -> memo_bd st -> p <= bar -> bd (run fuel e p rf st) p.
Proof.
  induction fuel as [|f IH]; intros e p rf st He Hm Hp.
  { split; [exact Hm|exact I]. }
  destruct e; cbn [Peg.run]; cbn [pk] in He.
  - destruct (nth_error g n) as [pr|] eqn:En; [|bsplit].
    pose proof (GP n pr En) as Hb.
    assert (Hbody : bd (if p_rec pr then if existsb (Nat.eqb n) rf then (Err, st) else run f (p_body pr) p (n :: rf) st
                        else run f (p_body pr) p rf st) p).
    { destruct (p_rec pr); [destruct (existsb _ rf)|]; try (apply IH; assumption). bsplit. }
    destruct (p_packrat pr); [|exact Hbody].
    destruct (map_get (ps_map A st) (n, p, dirflag (ps_aux A st))) as [[[fo len]|]|] eqn:Eg.
    + apply map_get_in2 in Eg as (k' & Ek & Hin). apply key_eqb_true2 in Ek. subst k'.
      bsplit. specialize (Hm _ _ _ _ _ Hin Hp). lia.
    + bsplit.
    + destruct (if p_rec pr then _ else _) as [r st'] eqn:Er. destruct Hbody as [H1 H2]. cbn [fst snd] in *.
      destruct r as [fo q| |]; cbn [fst snd].
      * split; cbn [fst snd]; [|exact H2]. apply memo_insert_bd; [exact H1|]. intros fo' len' [= <- <-] _. lia.
      * split; cbn [fst snd]; [|exact I]. apply memo_insert_bd; [exact H1|]. discriminate.
      * bsplit.
  - destruct (prim i (ps_aux A st) p) eqn:Ep; [|bsplit]. bsplit.
    apply negb_true_iff in He. pose proof (prim_bound _ _ _ _ He Hp Ep). lia.
  - pose proof (IH e p rf st He Hm Hp) as [H1 H2].
    destruct (run f e p rf st) as [[fo q| |] st']; cbn [fst snd] in *; [|bsplit|bsplit]. bsplit.
  - assert (Hgo : forall l q acc st0, (fix go (l : list fexp) : bool := match l with [] => true | x :: r => pk x && go r end) l = true ->
      memo_bd st0 -> p <= q <= bar ->
      bd ((fix go (l : list fexp) (q : nat) (acc : list tree) (st : pstate) : res * pstate :=
             match l with
             | [] => (Ok acc q, st)
             | x :: r => let '(rx, st') := run f x q (rf_at p q rf) st in
                         match rx with Ok fo q' => go r q' (acc ++ fo) st' | _ => (rx, st') end
             end) l q acc st0) p).
    { induction l as [|x r IHl]; intros q acc st0 Hl H0 Hq; [bsplit|].
      apply andb_true_iff in Hl as [Hx Hr].
      pose proof (IH x q (rf_at p q rf) st0 Hx H0 ltac:(lia)) as [H1 H2].
      destruct (run f x q (rf_at p q rf) st0) as [[fo q'| |] st']; cbn [fst snd] in *; [|bsplit|bsplit].
      apply IHl; [exact Hr|exact H1|lia]. }
    apply Hgo; auto.
  - assert (Hgo : forall l st0, (fix go (l : list fexp) : bool := match l with [] => true | x :: r => pk x && go r end) l = true ->
      memo_bd st0 ->
      bd ((fix go (l : list fexp) (st : pstate) : res * pstate :=
             match l with
             | [] => (Err, st)
             | x :: r => let '(rx, st') := run f x p rf st in
                         match rx with Err => go r st' | _ => (rx, st') end
             end) l st0) p).
    { induction l as [|x r IHl]; intros st0 Hl H0; [bsplit|].
      apply andb_true_iff in Hl as [Hx Hr].
      pose proof (IH x p rf st0 Hx H0 Hp) as [H1 H2].
      destruct (run f x p rf st0) as [[fo q'| |] st']; cbn [fst snd] in *; [bsplit| |bsplit].
      apply IHl; [exact Hr|exact H1]. }
    apply Hgo; auto.
  - pose proof (IH e p rf st He Hm Hp) as [H1 H2].
    destruct (run f e p rf st) as [[fo q| |] st']; cbn [fst snd] in *; [bsplit| |bsplit]. bsplit.
  - pose proof (IH e p rf st He Hm Hp) as [H1 H2].
    destruct (run f e p rf st) as [[fo q| |] st']; cbn [fst snd] in *; [| |bsplit].
    + destruct (Nat.eqb q p); [bsplit|].
      pose proof (IH (FMany0 e) q [] st' He H1 ltac:(lia)) as [H3 H4].
      destruct (run f (FMany0 e) q [] st') as [[fo2 q2| |] st2]; cbn [fst snd] in *; [|bsplit|bsplit].
      bsplit. lia.
    + bsplit.
  - pose proof (IH e p rf st He Hm Hp) as [H1 H2].
    destruct (run f e p rf st) as [[fo q| |] st']; cbn [fst snd] in *; [|bsplit|bsplit].
    destruct (Nat.eqb q p); [bsplit|].
    pose proof (IH (FMany0 e) q [] st' He H1 ltac:(lia)) as [H3 H4].
    destruct (run f (FMany0 e) q [] st') as [[fo2 q2| |] st2]; cbn [fst snd] in *; [|bsplit|bsplit].
    bsplit. lia.
  - apply andb_true_iff in He as [He1 He2].
    pose proof (IH e2 p rf st He2 Hm Hp) as [H1 H2].
    destruct (run f e2 p rf st) as [[fo q| |] st']; cbn [fst snd] in *; [bsplit| |bsplit].
    pose proof (IH e1 p rf st' He1 H1 Hp) as [H3 H4].
    destruct (run f e1 p rf st') as [[fo q| |] st1]; cbn [fst snd] in *; [|bsplit|bsplit].
    destruct (Nat.eqb q p); [bsplit|].
    assert (He12 : pk (FManyTill e1 e2) = true) by (cbn [pk]; now rewrite He1, He2).
    pose proof (IH (FManyTill e1 e2) q [] st1 He12 H3 ltac:(lia)) as [H5 H6].
    destruct (run f (FManyTill e1 e2) q [] st1) as [[fo2 q2| |] st2]; cbn [fst snd] in *; [|bsplit|bsplit].
    bsplit. lia.
  - (* FPeek: a look-ahead primitive may consume beyond the barrier, the peek gives the position back *)
    assert (Hsub : bd (run f e p rf st) p \/ exists i, e = FPrim i).
    { destruct e; try (left; apply IH; assumption). right; eauto. }
    destruct Hsub as [[H1 H2]|[i ->]].
    + destruct (run f e p rf st) as [[fo q| |] st']; cbn [fst snd] in *; [|bsplit|bsplit]. bsplit.
    + destruct f as [|f0]; [bsplit|]. cbn [Peg.run]. destruct (prim i (ps_aux A st) p); bsplit.
  - (* FNot *)
    assert (Hsub : bd (run f e p rf st) p \/ exists i, e = FPrim i).
    { destruct e; try (left; apply IH; assumption). right; eauto. }
    destruct Hsub as [[H1 H2]|[i ->]].
    + destruct (run f e p rf st) as [[fo q| |] st']; cbn [fst snd] in *; [bsplit| |bsplit]. bsplit.
    + destruct f as [|f0]; [bsplit|]. cbn [Peg.run]. destruct (prim i (ps_aux A st) p); bsplit.
  - destruct (Nat.leb _ _); bsplit.
  - assert (Hgo : forall l q env st0, (fix go (l : list fexp) : bool := match l with [] => true | x :: r => pk x && go r end) l = true ->
      memo_bd st0 -> p <= q <= bar ->
      bd ((fix go (l : list fexp) (q : nat) (env : list (list tree)) (st : pstate) : res * pstate :=
             match l with
             | [] => (Ok (build t env) q, st)
             | x :: r => let '(rx, st') := run f x q (rf_at p q rf) st in
                         match rx with Ok fo q' => go r q' (env ++ [fo]) st' | _ => (rx, st') end
             end) l q env st0) p).
    { induction l as [|x r IHl]; intros q env st0 Hl H0 Hq; [bsplit|].
      apply andb_true_iff in Hl as [Hx Hr].
      pose proof (IH x q (rf_at p q rf) st0 Hx H0 ltac:(lia)) as [H1 H2].
      destruct (run f x q (rf_at p q rf) st0) as [[fo q'| |] st']; cbn [fst snd] in *; [|bsplit|bsplit].
      apply IHl; [exact Hr|exact H1|lia]. }
    apply Hgo; auto.
  - split; cbn [fst snd]; [exact Hm|lia].
  - pose proof (IH e p rf (set_aux A st (act a (ps_aux A st))) He Hm Hp) as [H1 H2].
    destruct (run f e p rf (set_aux A st (act a (ps_aux A st)))) as [r st']; cbn [fst snd] in *.
    split; [exact H1|exact H2].
  - apply andb_true_iff in He as [He1 He2]. destruct (cond c (ps_aux A st)); apply IH; auto.
  - bsplit.
Qed.

(* the grammar-level check, as a boolean *)
End BoundPk.

Lemma pk_grammar peekers g : forallb (fun pr => pk peekers (p_body pr)) g = true ->
  forall n pr, nth_error g n = Some pr -> pk peekers (p_body pr) = true.
Proof.
  intros H n pr En. rewrite forallb_forall in H. apply H. eapply nth_error_In; eauto.
Qed.
