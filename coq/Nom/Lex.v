(* Word-level lexing: keyword(t) (utils.rs:73-85) and the identifier lexers (identifiers.rs), over
   Coq strings.  Character sets are parameters; the ones in use are regenerated (Gen/GenKeywords.v).
   Model and facts. *)
From Coq Require Export String Ascii List Bool.
From Coq Require Import Arith Lia.
Export ListNotations.
Open Scope string_scope.

Fixpoint in_set (c : ascii) (s : string) : bool :=
  match s with
  | EmptyString => false
  | String d r => Ascii.eqb c d || in_set c r
  end.

(* is_a(set): the longest prefix made of characters of the set *)
Fixpoint take_set (set : string) (s : string) : string :=
  match s with
  | EmptyString => EmptyString
  | String c r => if in_set c set then String c (take_set set r) else EmptyString
  end.

Fixpoint drop (n : nat) (s : string) : string :=
  match n, s with
  | O, _ => s
  | S k, String _ r => drop k r
  | S _, EmptyString => EmptyString
  end.

(* simple_identifier_impl, before the reserved-word test: is_a(first) then opt(is_a(tail)) *)
Definition ident_word (first tail : string) (s : string) : option string :=
  match take_set first s with
  | EmptyString => None
  | a => Some (a ++ take_set tail (drop (String.length a) s))
  end.

(* keyword(t): tag(t), then end of input or a character outside [boundary] *)
Definition keyword_match (boundary : string) (t s : string) : bool :=
  prefix t s &&
  match drop (String.length t) s with
  | EmptyString => true
  | String c _ => negb (in_set c boundary)
  end.

Definition subset_chars (a b : string) : bool :=
  (fix go (x : string) : bool := match x with EmptyString => true | String c r => in_set c b && go r end) a.

Definition all_in (set : string) (w : string) : bool := subset_chars w set.

Lemma take_set_all set w rest : all_in set w = true ->
  take_set set (w ++ rest) = w ++ take_set set rest.
Proof.
  induction w as [|c w IH]; cbn; [reflexivity|]. intros H. apply andb_true_iff in H as [H1 H2].
  rewrite H1. f_equal. now apply IH.
Qed.

Lemma prefix_split t s : prefix t s = true -> s = t ++ drop (String.length t) s.
Proof.
  revert s; induction t as [|c t IH]; intros s H; [reflexivity|].
  destruct s as [|d s]; [cbn in H; discriminate|]. cbn [prefix] in H.
  destruct (ascii_dec c d) as [E|N]; [subst d|discriminate H].
  cbn. f_equal. now apply IH.
Qed.

Lemma subset_in a b c : subset_chars a b = true -> in_set c a = true -> in_set c b = true.
Proof.
  induction a as [|d a IH]; cbn; [discriminate|]. intros H Hc. apply andb_true_iff in H as [H1 H2].
  apply orb_true_iff in Hc as [E|Hc]; [apply Ascii.eqb_eq in E; now subst|auto].
Qed.

Lemma take_set_stop set s : match s with EmptyString => True | String c _ => in_set c set = false end -> take_set set s = EmptyString.
Proof. destruct s; cbn; [reflexivity|]. now intros ->. Qed.

Lemma append_nil_r' s : s ++ EmptyString = s.
Proof. induction s as [|c r IH]; cbn; [reflexivity|now rewrite IH]. Qed.

(* the maximal run of identifier characters at s *)
Definition word_at (tail : string) (s : string) : string := take_set tail s.

(* A keyword never matches a proper prefix of a longer word: when keyword(t) succeeds at s and the
   boundary set contains every character an identifier may continue with, the maximal word at s is
   exactly t.  (So `end1`, `module_x`, `begin$x` are never split into a keyword and a rest.) *)
Theorem keyword_is_whole_word tail boundary t s :
  all_in tail t = true -> subset_chars tail boundary = true ->
  keyword_match boundary t s = true -> word_at tail s = t.
Proof.
  intros Ht Hb Hk. unfold keyword_match in Hk. apply andb_true_iff in Hk as [Hp Hn].
  rewrite (prefix_split _ _ Hp). unfold word_at. rewrite take_set_all by assumption.
  rewrite take_set_stop; [now rewrite append_nil_r'|].
  destruct (drop (String.length t) s) as [|c r]; [exact I|].
  destruct (in_set c tail) eqn:E; [|reflexivity].
  pose proof (subset_in _ _ _ Hb E) as E2. now rewrite E2 in Hn.
Qed.

(* conversely the keyword of a word followed by a non-identifier character is that word only *)
Corollary keyword_of_word tail boundary t w rest :
  all_in tail t = true -> all_in tail w = true -> subset_chars tail boundary = true ->
  match rest with EmptyString => True | String c _ => in_set c tail = false end ->
  keyword_match boundary t (w ++ rest) = true -> t = w.
Proof.
  intros Ht Hw Hb Hr Hk. pose proof (keyword_is_whole_word tail boundary t (w ++ rest) Ht Hb Hk) as E.
  unfold word_at in E. rewrite take_set_all in E by assumption. rewrite take_set_stop in E by assumption.
  now rewrite append_nil_r' in E.
Qed.

(* the identifier lexers read the whole word: is_a(first) then opt(is_a(tail)) = the maximal tail-run,
   because every first character is a tail character *)
Lemma first_then_tail first tail : subset_chars first tail = true -> forall s,
  take_set first s ++ take_set tail (drop (String.length (take_set first s)) s) = take_set tail s.
Proof.
  intros Hs. induction s as [|c r IH]; [reflexivity|]. cbn [take_set].
  destruct (in_set c first) eqn:E.
  - rewrite (subset_in _ _ _ Hs E). cbn. f_equal. exact IH.
  - cbn. reflexivity.
Qed.

Theorem identifier_is_whole_word first tail s c r :
  subset_chars first tail = true -> s = String c r -> in_set c first = true ->
  ident_word first tail s = Some (word_at tail s).
Proof.
  intros Hs -> Hc. unfold ident_word, word_at.
  pose proof (first_then_tail first tail Hs (String c r)) as E.
  destruct (take_set first (String c r)) as [|a0 ar] eqn:Ea.
  - cbn in Ea. rewrite Hc in Ea. discriminate.
  - now rewrite E.
Qed.
