(* run_tiles: for every grammar that passes the static check [wf_grammar], every oracle for the
   primitives and actions, every input, memo capacity and memo content satisfying the invariant:
   a successful run returns a forest whose leaves, in order, tile exactly what was consumed
   (start where the previous one ends, from the start position to the end position, with the
   line number of their offset).  Induction on fuel; the memo may evict anything.  Proofs only. *)
From SV Require Import Peg.
From Coq Require Import Arith Lia.
Local Open Scope nat_scope.

Section Facts.
Variable A : Type.
Variable prim : N -> A -> nat -> option nat.
Variable act : N -> A -> A.
Variable cond : N -> A -> bool.
Variable dirflag : A -> bool.
Variable inp : list N.
Variable g : list prod.

Notation run := (run A prim act cond dirflag inp g).
Notation pstate := (pstate A).

Inductive tiles_l : list loc -> nat -> nat -> Prop :=
| tl_nil p : tiles_l [] p p
| tl_cons l ls p q :
    l_off l = N.of_nat p -> l_line l = line_at inp p ->
    tiles_l ls (p + N.to_nat (l_len l)) q -> tiles_l (l :: ls) p q.

Definition tiles (f : list tree) (p q : nat) : Prop := tiles_l (flat_map leaves f) p q.

Lemma tiles_l_app a b p q r : tiles_l a p q -> tiles_l b q r -> tiles_l (a ++ b) p r.
Proof. induction 1; cbn; auto. intros. econstructor; eauto. Qed.

Lemma tiles_l_le a p q : tiles_l a p q -> p <= q.
Proof. induction 1; lia. Qed.

Lemma tiles_app a b p q r : tiles a p q -> tiles b q r -> tiles (a ++ b) p r.
Proof. unfold tiles. rewrite flat_map_app. apply tiles_l_app. Qed.

Lemma tiles_nil p : tiles [] p p.
Proof. constructor. Qed.

Lemma tiles_le f p q : tiles f p q -> p <= q.
Proof. apply tiles_l_le. Qed.

Lemma tiles_leaf p q : p <= q -> tiles [leaf_at inp p q] p q.
Proof.
  intros H. unfold tiles, leaf_at. cbn. econstructor; cbn; try reflexivity.
  rewrite Nat2N.id. replace (p + (q - p)) with q by lia. constructor.
Qed.

Lemma leaves_node k cs : leaves (Node k cs) = flat_map leaves cs.
Proof. cbn. induction cs as [|c cs IH]; cbn; [reflexivity|]. now rewrite IH. Qed.

Lemma tiles_node k cs p q : tiles cs p q -> tiles [Node k cs] p q.
Proof. unfold tiles. cbn [flat_map]. rewrite leaves_node, app_nil_r. auto. Qed.

(* the leaves of a construction are the leaves of the binds it mentions, in the order it mentions them *)
Definition pick (ks : list nat) (env : list (list tree)) : list tree := flat_map (fun i => nth i env []) ks.

Lemma build_leaves env : forall t, flat_map leaves (build t env) = flat_map leaves (pick (tmpl_order t) env).
Proof.
  fix IH 1. intros [i | ts | k ts].
  - cbn. now rewrite app_nil_r.
  - cbn [build tmpl_order]. induction ts as [|x r IHr]; [reflexivity|].
    unfold pick in *. rewrite !flat_map_app. rewrite IH, IHr. reflexivity.
  - cbn [build tmpl_order flat_map]. rewrite app_nil_r, leaves_node.
    induction ts as [|x r IHr]; [reflexivity|].
    unfold pick in *. rewrite !flat_map_app. rewrite IH, IHr. reflexivity.
Qed.

Lemma pick_app a b env : pick (a ++ b) env = pick a env ++ pick b env.
Proof. unfold pick. apply flat_map_app. Qed.

Lemma pick_grow ks env x : Forall (fun i => i < length env) ks -> pick ks (env ++ x) = pick ks env.
Proof.
  induction 1 as [|i ks Hi _ IH]; [reflexivity|]. unfold pick in *. cbn [flat_map]. rewrite IH.
  f_equal. now apply app_nth1.
Qed.

Lemma list_eqb_eq a : forall b, list_eqb a b = true -> a = b.
Proof.
  induction a as [|x a IH]; intros [|y b]; cbn; try discriminate; auto.
  intros H. apply andb_true_iff in H as [H1 H2]. apply Nat.eqb_eq in H1. f_equal; auto.
Qed.

(* ------------------------------------------------------------------ memo invariant *)
Definition memo_inv (st : pstate) : Prop :=
  forall n p d fo len, In ((n, p, d), Some (fo, len)) (ps_map A st) -> tiles fo p (p + len).

Lemma map_get_in m k v : map_get m k = Some v -> exists k', key_eqb k k' = true /\ In (k', v) m.
Proof.
  induction m as [|[k' v'] m IH]; cbn; [discriminate|].
  destruct (key_eqb k k') eqn:E.
  - intros [= ->]. eauto.
  - intros H. destruct (IH H) as (k2 & ? & ?). eauto.
Qed.

Lemma key_eqb_true a b : key_eqb a b = true -> a = b.
Proof.
  destruct a as [[n1 p1] d1], b as [[n2 p2] d2]. cbn. intros H.
  apply andb_true_iff in H as [H H3]. apply andb_true_iff in H as [H1 H2].
  apply Nat.eqb_eq in H1, H2. apply eqb_prop in H3. now subst.
Qed.

Lemma map_remove_in m k x : In x (map_remove m k) -> In x m.
Proof.
  induction m as [|[k' v'] m IH]; cbn; [auto|]. destruct (key_eqb k k'); cbn; intuition.
Qed.

Lemma memo_insert_inv st n p d v :
  memo_inv st -> (forall fo len, v = Some (fo, len) -> tiles fo p (p + len)) ->
  memo_inv (memo_insert A st (n, p, d) v).
Proof.
  intros H Hv. unfold memo_inv, memo_insert.
  destruct (ps_cap A st) as [size|].
  - destruct (Nat.ltb (size - 1) (length (ps_keys A st))).
    + destruct (ps_keys A st) as [|old rest]; cbn [ps_map].
      * intros n' p' d' fo len [E|Hin]; [injection E as -> -> -> ->; now apply Hv|].
        apply map_remove_in in Hin. eapply H; eauto.
      * intros n' p' d' fo len [E|Hin]; [injection E as -> -> -> ->; now apply Hv|].
        apply map_remove_in, map_remove_in in Hin. eapply H; eauto.
    + cbn [ps_map]. intros n' p' d' fo len [E|Hin]; [injection E as -> -> -> ->; now apply Hv|].
      apply map_remove_in in Hin. eapply H; eauto.
  - cbn [ps_map]. intros n' p' d' fo len [E|Hin]; [injection E as -> -> -> ->; now apply Hv|].
    apply map_remove_in in Hin. eapply H; eauto.
Qed.

Lemma set_aux_inv st a : memo_inv st -> memo_inv (set_aux A st a).
Proof. unfold memo_inv, set_aux. cbn. auto. Qed.

(* ------------------------------------------------------------------ the invariant of a run *)
(* forest position: the leaves tile what was consumed; span position: the position does not go back *)
Definition good (span : bool) (r : res * pstate) (p : nat) : Prop :=
  memo_inv (snd r) /\
  match fst r with
  | Ok f q => if span then p <= q else tiles f p q
  | _ => True
  end.

Lemma good_weaken r p : good false r p -> good true r p.
Proof. unfold good. destruct r as [[f q| |] st]; cbn; intuition. eapply tiles_le; eauto. Qed.

Lemma wf_list_in span (l : list fexp) :
  (fix go (l : list fexp) : bool := match l with [] => true | x :: r => wf_exp g span x && go r end) l = true ->
  forall x, In x l -> wf_exp g span x = true.
Proof.
  induction l as [|y l IH]; cbn; [contradiction|]. intros H x [<-|Hx].
  - now apply andb_true_iff in H as [H _].
  - apply andb_true_iff in H as [_ H]. auto.
Qed.

Lemma nocons_same f e p rf st :
  nocons e = true -> forall fo q, fst (run (S f) e p rf st) = Ok fo q -> fo = [] /\ q = p.
Proof.
  destruct e; cbn [nocons]; try discriminate; intros _ fo q; cbn [Peg.run].
  - destruct (run f e p rf st) as [[]]; cbn; try discriminate. intros [= <- <-]. auto.
  - destruct (run f e p rf st) as [[]]; cbn; try discriminate. intros [= <- <-]. auto.
  - destruct (Nat.leb _ _); cbn; try discriminate. intros [= <- <-]. auto.
  - cbn. intros [= <- <-]. auto.
Qed.

Lemma kept_lt es : forall i, Forall (fun j => i <= j < i + length es) (kept es i).
Proof.
  induction es as [|e r IH]; intros i; cbn [kept]; [constructor|].
  specialize (IH (S i)). destruct (nocons e).
  - eapply Forall_impl; [|exact IH]. cbn. intros; lia.
  - constructor; [cbn; lia|]. eapply Forall_impl; [|exact IH]. cbn. intros; lia.
Qed.

Ltac gsplit := split; cbn [fst snd]; try exact I; auto.

Theorem run_good : forall fuel span e p rf st,
  wf_grammar g = true -> wf_exp g span e = true -> memo_inv st -> good span (run fuel e p rf st) p.
Proof.
  intros fuel span e p rf st WG. revert span e p rf st.
  induction fuel as [|f IH]; intros span e p rf st We Hm.
  { split; [exact Hm|exact I]. }
  destruct e; cbn [Peg.run]; cbn [wf_exp] in We.
  - (* FCall: the callee is checked in forest mode *)
    assert (G : good false
      (match nth_error g n with
       | None => (Err, st)
       | Some pr =>
           if p_packrat pr then
             match map_get (ps_map A st) (n, p, dirflag (ps_aux A st)) with
             | Some (Some (fo, len)) => (Ok fo (p + len), st)
             | Some None => (Err, st)
             | None =>
                 let '(r, st') := (if p_rec pr then if existsb (Nat.eqb n) rf then (Err, st) else run f (p_body pr) p (n :: rf) st
                                   else run f (p_body pr) p rf st) in
                 match r with
                 | Ok fo p' => (r, memo_insert A st' (n, p, dirflag (ps_aux A st')) (Some (fo, p' - p)))
                 | Err => (r, memo_insert A st' (n, p, dirflag (ps_aux A st')) None)
                 | Fuel => (r, st')
                 end
             end
           else (if p_rec pr then if existsb (Nat.eqb n) rf then (Err, st) else run f (p_body pr) p (n :: rf) st
                 else run f (p_body pr) p rf st)
       end) p).
    { destruct (nth_error g n) as [pr|] eqn:En; [|gsplit].
      assert (Wb : wf_exp g false (p_body pr) = true).
      { unfold wf_grammar in WG. rewrite forallb_forall in WG. apply WG. eapply nth_error_In; eauto. }
      assert (Hbody : good false (if p_rec pr then if existsb (Nat.eqb n) rf then (Err, st) else run f (p_body pr) p (n :: rf) st
                                  else run f (p_body pr) p rf st) p).
      { destruct (p_rec pr); [destruct (existsb _ rf)|]; try (apply IH; assumption). gsplit. }
      destruct (p_packrat pr); [|exact Hbody].
      destruct (map_get (ps_map A st) (n, p, dirflag (ps_aux A st))) as [[[fo len]|]|] eqn:Eg.
      - apply map_get_in in Eg as (k' & Ek & Hin). apply key_eqb_true in Ek. subst k'.
        gsplit. eapply Hm; eauto.
      - gsplit.
      - destruct (if p_rec pr then _ else _) as [r st'] eqn:Er. destruct Hbody as [H1 H2]. cbn [fst snd] in *.
        destruct r as [fo q| |].
        + gsplit. apply memo_insert_inv; [exact H1|]. intros fo' len' [= <- <-].
          pose proof (tiles_le _ _ _ H2). replace (p + (q - p)) with q by lia. exact H2.
        + gsplit. apply memo_insert_inv; [exact H1|]. discriminate.
        + gsplit. }
    destruct span; [apply good_weaken|]; exact G.
  - (* FPrim: only in span position *)
    subst span. destruct (prim i (ps_aux A st) p); [|gsplit]. gsplit. lia.
  - (* FLeaf *)
    pose proof (IH true e p rf st We Hm) as [H1 H2].
    destruct (run f e p rf st) as [[fo q| |] st']; cbn [fst snd] in *; [|gsplit|gsplit].
    gsplit. destruct span; [exact H2|now apply tiles_leaf].
  - (* FSeq *)
    pose proof (wf_list_in span es We) as Wes. clear We.
    assert (Hgo : forall l q acc st0,
      (forall x, In x l -> wf_exp g span x = true) -> memo_inv st0 ->
      (if span then p <= q else tiles acc p q) ->
      good span ((fix go (l : list fexp) (q : nat) (acc : list tree) (st : pstate) : res * pstate :=
                    match l with
                    | [] => (Ok acc q, st)
                    | x :: r =>
                        let '(rx, st') := run f x q (rf_at p q rf) st in
                        match rx with
                        | Ok fo q' => go r q' (acc ++ fo) st'
                        | _ => (rx, st')
                        end
                    end) l q acc st0) p).
    { induction l as [|x r IHl]; intros q acc st0 Wl H0 Hacc; [gsplit|].
      pose proof (IH span x q (rf_at p q rf) st0 (Wl x (or_introl eq_refl)) H0) as [H1 H2].
      destruct (run f x q (rf_at p q rf) st0) as [[fo q'| |] st']; cbn [fst snd] in *; [|gsplit|gsplit].
      apply IHl; [intros; apply Wl; now right|exact H1|].
      destruct span; [lia|eapply tiles_app; eauto]. }
    apply Hgo; auto. destruct span; [lia|apply tiles_nil].
  - (* FAlt *)
    pose proof (wf_list_in span es We) as Wes. clear We.
    assert (Hgo : forall l st0, (forall x, In x l -> wf_exp g span x = true) -> memo_inv st0 ->
      good span ((fix go (l : list fexp) (st : pstate) : res * pstate :=
                    match l with
                    | [] => (Err, st)
                    | x :: r =>
                        let '(rx, st') := run f x p rf st in
                        match rx with
                        | Err => go r st'
                        | _ => (rx, st')
                        end
                    end) l st0) p).
    { induction l as [|x r IHl]; intros st0 Wl H0; [gsplit|].
      pose proof (IH span x p rf st0 (Wl x (or_introl eq_refl)) H0) as [H1 H2].
      destruct (run f x p rf st0) as [[fo q'| |] st']; cbn [fst snd] in *; [gsplit| |gsplit].
      apply IHl; [intros; apply Wl; now right|exact H1]. }
    apply Hgo; auto.
  - (* FOpt *)
    pose proof (IH span e p rf st We Hm) as [H1 H2].
    destruct (run f e p rf st) as [[fo q| |] st']; cbn [fst snd] in *; [gsplit| |gsplit].
    gsplit. destruct span; [lia|apply tiles_nil].
  - (* FMany0 *)
    pose proof (IH span e p rf st We Hm) as [H1 H2].
    destruct (run f e p rf st) as [[fo q| |] st']; cbn [fst snd] in *; [| |gsplit].
    + destruct (Nat.eqb q p); [gsplit|].
      pose proof (IH span (FMany0 e) q [] st' We H1) as [H3 H4].
      destruct (run f (FMany0 e) q [] st') as [[fo2 q2| |] st2]; cbn [fst snd] in *; [|gsplit|gsplit].
      gsplit. destruct span; [lia|eapply tiles_app; eauto].
    + gsplit. destruct span; [lia|apply tiles_nil].
  - (* FMany1 *)
    pose proof (IH span e p rf st We Hm) as [H1 H2].
    destruct (run f e p rf st) as [[fo q| |] st']; cbn [fst snd] in *; [|gsplit|gsplit].
    destruct (Nat.eqb q p); [gsplit|].
    pose proof (IH span (FMany0 e) q [] st' We H1) as [H3 H4].
    destruct (run f (FMany0 e) q [] st') as [[fo2 q2| |] st2]; cbn [fst snd] in *; [|gsplit|gsplit].
    gsplit. destruct span; [lia|eapply tiles_app; eauto].
  - (* FManyTill *)
    apply andb_true_iff in We as [We1 We2].
    pose proof (IH span e2 p rf st We2 Hm) as [H1 H2].
    destruct (run f e2 p rf st) as [[fo q| |] st']; cbn [fst snd] in *; [gsplit| |gsplit].
    pose proof (IH span e1 p rf st' We1 H1) as [H3 H4].
    destruct (run f e1 p rf st') as [[fo q| |] st1]; cbn [fst snd] in *; [|gsplit|gsplit].
    destruct (Nat.eqb q p); [gsplit|].
    assert (We : wf_exp g span (FManyTill e1 e2) = true) by (cbn [wf_exp]; now rewrite We1, We2).
    pose proof (IH span (FManyTill e1 e2) q [] st1 We H3) as [H5 H6].
    destruct (run f (FManyTill e1 e2) q [] st1) as [[fo2 q2| |] st2]; cbn [fst snd] in *; [|gsplit|gsplit].
    gsplit. destruct span; [lia|eapply tiles_app; eauto].
  - (* FPeek *)
    pose proof (IH true e p rf st We Hm) as [H1 H2].
    destruct (run f e p rf st) as [[fo q| |] st']; cbn [fst snd] in *; [|gsplit|gsplit].
    gsplit. destruct span; [lia|apply tiles_nil].
  - (* FNot *)
    pose proof (IH true e p rf st We Hm) as [H1 H2].
    destruct (run f e p rf st) as [[fo q| |] st']; cbn [fst snd] in *; [gsplit| |gsplit].
    gsplit. destruct span; [lia|apply tiles_nil].
  - (* FEof *)
    destruct (Nat.leb _ _); [|gsplit]. gsplit. destruct span; [lia|apply tiles_nil].
  - (* FTmpl *)
    apply andb_true_iff in We as [Wes Wo]. pose proof (wf_list_in false es Wes) as Wl0. apply list_eqb_eq in Wo.
    assert (Hgo : forall l i q env st0,
      (forall x, In x l -> wf_exp g false x = true) -> memo_inv st0 -> length env = i ->
      forall ks, Forall (fun j => j < i) ks -> tiles (pick ks env) p q ->
      let r := (fix go (l : list fexp) (q : nat) (env : list (list tree)) (st : pstate) : res * pstate :=
                  match l with
                  | [] => (Ok (build t env) q, st)
                  | x :: r =>
                      let '(rx, st') := run f x q (rf_at p q rf) st in
                      match rx with
                      | Ok fo q' => go r q' (env ++ [fo]) st'
                      | _ => (rx, st')
                      end
                  end) l q env st0 in
      memo_inv (snd r) /\
      match fst r with
      | Ok fo q' => exists env', fo = build t env' /\ tiles (pick (ks ++ kept l i) env') p q'
      | _ => True
      end).
    { induction l as [|x r IHl]; intros i q env st0 Wl H0 Hlen ks Hks Hacc.
      - cbn. split; [exact H0|]. exists env. rewrite app_nil_r. auto.
      - cbn zeta. cbn [kept].
        pose proof (IH false x q (rf_at p q rf) st0 (Wl x (or_introl eq_refl)) H0) as [H1 H2].
        destruct f as [|f'].
        { cbn in *. split; [exact H0|exact I]. }
        destruct (run (S f') x q (rf_at p q rf) st0) as [[fo q'| |] st'] eqn:Er; cbn [fst snd] in *; try (split; [exact H1|exact I]).
        destruct (nocons x) eqn:Enc.
        + (* a result that is left out of the construction: it holds nothing and the position stays *)
          assert (Efo : fst (run (S f') x q (rf_at p q rf) st0) = Ok fo q') by (rewrite Er; reflexivity).
          destruct (nocons_same f' x q (rf_at p q rf) st0 Enc fo q' Efo) as [-> ->].
          apply (IHl (S i) q (env ++ [[]]) st' (fun y Hy => Wl y (or_intror Hy)) H1).
          * rewrite app_length. cbn. lia.
          * eapply Forall_impl; [|exact Hks]. cbn. intros; lia.
          * rewrite pick_grow; [exact Hacc|]. rewrite Hlen. exact Hks.
        + specialize (IHl (S i) q' (env ++ [fo]) st' (fun y Hy => Wl y (or_intror Hy)) H1).
          assert (Hlen' : length (env ++ [fo]) = S i) by (rewrite app_length; cbn; lia).
          specialize (IHl Hlen' (ks ++ [i])).
          assert (Hks' : Forall (fun j => j < S i) (ks ++ [i])).
          { apply Forall_app. split; [eapply Forall_impl; [|exact Hks]; cbn; intros; lia|constructor; [lia|constructor]]. }
          specialize (IHl Hks').
          assert (Hacc' : tiles (pick (ks ++ [i]) (env ++ [fo])) p q').
          { rewrite pick_app. eapply tiles_app.
            - rewrite pick_grow; [exact Hacc|]. rewrite Hlen. exact Hks.
            - unfold pick. cbn [flat_map]. rewrite app_nil_r, app_nth2 by lia.
              replace (i - length env) with 0 by lia. exact H2. }
          specialize (IHl Hacc'). rewrite <- app_assoc in IHl. exact IHl. }
    specialize (Hgo es 0 p [] st Wl0 Hm eq_refl [] (Forall_nil _) (tiles_nil p)). cbn zeta in Hgo.
    destruct Hgo as [G1 G2]. split; [exact G1|].
    match goal with |- match fst ?r with _ => _ end => destruct r as [[fo q'| |] stf] end; cbn [fst snd] in *; auto.
    destruct G2 as (env' & -> & Ht). cbn [app] in Ht.
    assert (T : tiles (build t env') p q').
    { unfold tiles in *. rewrite build_leaves, Wo. exact Ht. }
    destruct span; [eapply tiles_le; eauto|exact T].
  - (* FAct *)
    split; cbn [fst snd]; [now apply set_aux_inv|destruct span; [lia|apply tiles_nil]].
  - (* FWrap *)
    pose proof (IH span e p rf (set_aux A st (act a (ps_aux A st))) We (set_aux_inv _ _ Hm)) as [H1 H2].
    destruct (run f e p rf (set_aux A st (act a (ps_aux A st)))) as [r st']; cbn [fst snd] in *.
    split; cbn [fst snd]; [now apply set_aux_inv|exact H2].
  - (* FIf *)
    apply andb_true_iff in We as [We1 We2]. destruct (cond c (ps_aux A st)); apply IH; auto.
  - discriminate.
Qed.

(* C01, engine part: from the empty memo, a successful run of a start production yields a forest that
   tiles the consumed prefix; with FEof after it, the whole text. *)
Definition st0 (cap : option nat) (a : A) : pstate := mkPst A [] [] cap a.

Theorem run_tiles : forall fuel n cap a fo q st',
  wf_grammar g = true -> n < length g ->
  run fuel (FCall n) 0 [] (st0 cap a) = (Ok fo q, st') -> tiles fo 0 q.
Proof.
  intros fuel n cap a fo q st' WG Hn E.
  assert (W : wf_exp g false (FCall n) = true) by (cbn; now apply Nat.ltb_lt).
  assert (M : memo_inv (st0 cap a)) by (intros ? ? ? ? ? []).
  pose proof (run_good fuel false (FCall n) 0 [] (st0 cap a) WG W M) as [_ H]. rewrite E in H. exact H.
Qed.
End Facts.
