(* What holds of the executable primitives (Nom/Exec.v) for EVERY text: a success stays inside the text, and a
   primitive whose description passes the non-nullability check consumes at least one byte.  These are the oracle
   hypotheses of the interpreter's theorems (C01 leaves non-empty, C15 progress, C14 positions) -- for the executable
   instance they are theorems.  Proofs only. *)
From SV Require Import Peg HandLex Exec.
From Coq Require Import Arith Lia.
Local Open Scope nat_scope.

(* ------------------------------------------------------------------ inside the text *)
Lemma prefix_len_le nocase t w n : prefix_len nocase t w = Some n -> n <= List.length w.
Proof. intros H. destruct (prefix_len_spec nocase t w n H) as (_ & H2 & _). exact H2. Qed.

Lemma prefix_len_length nocase t w n : prefix_len nocase t w = Some n -> n = List.length t.
Proof. intros H. destruct (prefix_len_spec nocase t w n H) as (H1 & _ & _). exact H1. Qed.

Lemma run_not_le set w : run_not set w <= List.length w.
Proof. induction w as [|c r IH]; cbn; [lia|]. destruct (HandLex.mem c set); cbn; lia. Qed.

Lemma take_chars_le : forall n w m, take_chars n w = Some m -> m <= List.length w.
Proof.
  induction n as [|n IH]; intros w m H; cbn [take_chars] in H.
  - injection H as <-. lia.
  - destruct w as [|c r]; [discriminate|].
    destruct (Nat.ltb (List.length (c :: r)) (char_len c)) eqn:E; [discriminate|].
    apply Nat.ltb_ge in E.
    destruct (take_chars n (skipn (char_len c) (c :: r))) as [k|] eqn:Ek; [|discriminate].
    injection H as <-. apply IH in Ek. rewrite skipn_length in Ek. lia.
Qed.

Lemma char_len_pos c : 1 <= char_len c.
Proof. unfold char_len. destruct (c <? 128)%N; [lia|]. destruct (c <? 224)%N; [lia|]. destruct (c <? 240)%N; lia. Qed.

Section Span.
Variable defs : list sexp.

Lemma srun_le : forall fuel e w n, srun defs fuel e w = Some n -> n <= List.length w.
Proof.
  induction fuel as [|f IH]; intros e w n H; [discriminate|].
  destruct e as [nocase t|set|set|set|set|k|es|es|e1|e1|e1|e1|e1|i]; cbn [srun] in H.
  - eapply prefix_len_le; eauto.
  - pose proof (run_len_le set w). destruct (run_len set w); [discriminate|]. injection H as <-. lia.
  - pose proof (run_not_le set w). destruct (run_not set w); [discriminate|]. injection H as <-. lia.
  - destruct w as [|c r]; [discriminate|]. destruct (HandLex.mem c set); [|discriminate]. injection H as <-. cbn. lia.
  - destruct w as [|c r]; [discriminate|]. destruct (HandLex.mem c set); [discriminate|]. injection H as <-. apply Nat.le_min_r.
  - eapply take_chars_le; eauto.
  - (* SSeq *)
    match type of H with ?F es w 0 = _ =>
      cut (forall l w acc n, F l w acc = Some n -> n <= acc + List.length w) end.
    { intros C. apply C in H. lia. }
    clear H. induction l as [|x r IHl]; intros w0 acc n0 H.
    + injection H as <-. lia.
    + destruct (srun defs f x w0) as [k|] eqn:E; [|discriminate].
      apply IH in E. apply IHl in H. rewrite skipn_length in H. lia.
  - (* SAlt *)
    induction es as [|x r IHl]; [discriminate|].
    destruct (srun defs f x w) as [k|] eqn:E; [injection H as <-; eapply IH; eauto|auto].
  - destruct (srun defs f e1 w) as [k|] eqn:E; injection H as <-; [eapply IH; eauto|lia].
  - (* SMany0 *)
    destruct (srun defs f e1 w) as [[|k]|] eqn:E; [discriminate| |injection H as <-; lia].
    destruct (srun defs f (SMany0 e1) (skipn (S k) w)) as [m|] eqn:E2; [|discriminate]. injection H as <-.
    apply IH in E, E2. rewrite skipn_length in E2. lia.
  - (* SMany1 *)
    destruct (srun defs f e1 w) as [k|] eqn:E; [|discriminate].
    destruct (srun defs f (SMany0 e1) (skipn k w)) as [m|] eqn:E2; [|discriminate]. injection H as <-.
    apply IH in E, E2. rewrite skipn_length in E2. lia.
  - destruct (srun defs f e1 w); [injection H as <-; lia|discriminate].
  - destruct (srun defs f e1 w); [discriminate|injection H as <-; lia].
  - destruct (nth_error defs i); [eapply IH; eauto|discriminate].
Qed.

(* ------------------------------------------------------------------ at least one byte *)
(* [cert]: which of the referenced lexers surely consume (a certificate, checked against their bodies below) *)
Variable cert : list bool.

Fixpoint snn (e : sexp) : bool :=
  match e with
  | STag _ t => negb (Nat.eqb (List.length t) 0)
  | SIsA _ | SIsNot _ | SOneOf _ | SNoneOf _ => true
  | STake n => negb (Nat.eqb n 0)
  | SSeq es => existsb snn es
  | SAlt es => forallb snn es
  | SMany1 e1 => snn e1
  | SRef i => nth i cert false
  | SOpt _ | SMany0 _ | SPeek _ | SNot _ => false
  end.

Definition cert_valid : bool :=
  (fix go (ds : list sexp) (cs : list bool) : bool :=
     match ds, cs with
     | d :: ds', c :: cs' => (negb c || snn d) && go ds' cs'
     | _, [] => true
     | [], _ :: _ => false
     end) defs cert.

Lemma cert_valid_nth : cert_valid = true -> forall i d, nth i cert false = true -> nth_error defs i = Some d -> snn d = true.
Proof.
  unfold cert_valid. generalize cert. generalize defs. intros ds0. induction ds0 as [|d0 ds IHd]; intros cs H i d Hc Hd.
  - destruct i; discriminate.
  - destruct cs as [|c cs]; [destruct i; discriminate|].
    apply andb_true_iff in H as [H1 H2].
    destruct i as [|i]; cbn in Hc, Hd.
    + injection Hd as <-. subst c. exact H1.
    + eapply IHd; eauto.
Qed.

Lemma take_chars_pos : forall n w m, n <> 0 -> take_chars n w = Some m -> 1 <= m.
Proof.
  intros [|n] w m Hn H; [contradiction|]. cbn [take_chars] in H.
  destruct w as [|c r]; [discriminate|]. destruct (Nat.ltb _ _); [discriminate|].
  destruct (take_chars n _); [|discriminate]. injection H as <-. pose proof (char_len_pos c). lia.
Qed.

Lemma srun_pos : cert_valid = true -> forall fuel e w n, srun defs fuel e w = Some n -> snn e = true -> 1 <= n.
Proof.
  intros CV. induction fuel as [|f IH]; intros e w n H Hn; [discriminate|].
  destruct e as [nocase t|set|set|set|set|k|es|es|e1|e1|e1|e1|e1|i]; cbn [srun] in H; cbn [snn] in Hn; try discriminate.
  - apply prefix_len_length in H. apply negb_true_iff, Nat.eqb_neq in Hn. lia.
  - destruct (run_len set w); [discriminate|]. injection H as <-. lia.
  - destruct (run_not set w); [discriminate|]. injection H as <-. lia.
  - destruct w as [|c r]; [discriminate|]. destruct (HandLex.mem c set); [|discriminate]. injection H as <-. lia.
  - destruct w as [|c r]; [discriminate|]. destruct (HandLex.mem c set); [discriminate|]. injection H as <-.
    pose proof (char_len_pos c). cbn [List.length]. lia.
  - apply negb_true_iff, Nat.eqb_neq in Hn. eapply take_chars_pos; eauto.
  - (* SSeq: one element surely consumes, the others consume >= 0 *)
    match type of H with ?F es w 0 = _ =>
      cut (forall l w acc n, F l w acc = Some n -> acc <= n /\ (existsb snn l = true -> acc + 1 <= n)) end.
    { intros C. apply C in H. destruct H as [_ H]. specialize (H Hn). lia. }
    clear H Hn. induction l as [|x r IHl]; intros w0 acc n0 H.
    + injection H as <-. split; [lia|discriminate].
    + destruct (srun defs f x w0) as [k|] eqn:E; [|discriminate].
      apply IHl in H. destruct H as [H1 H2]. split; [lia|].
      cbn [existsb]. intros Hx. apply orb_true_iff in Hx as [Hx|Hx].
      * apply IH in E; [lia|exact Hx].
      * specialize (H2 Hx). lia.
  - (* SAlt *)
    induction es as [|x r IHl]; [discriminate|].
    cbn [forallb] in Hn. apply andb_true_iff in Hn as [Hx Hr].
    destruct (srun defs f x w) as [k|] eqn:E; [injection H as <-; eapply IH; eauto|auto].
  - (* SMany1 *)
    destruct (srun defs f e1 w) as [k|] eqn:E; [|discriminate].
    destruct (srun defs f (SMany0 e1) (skipn k w)) as [m|]; [|discriminate]. injection H as <-.
    apply IH in E; [lia|exact Hn].
  - (* SRef *)
    destruct (nth_error defs i) as [d|] eqn:Ed; [|discriminate].
    eapply IH; eauto. eapply cert_valid_nth; eauto.
Qed.
End Span.

(* ------------------------------------------------------------------ the primitives *)
Definition pnn (cert : list bool) (d : pdesc) : bool :=
  match d with
  | PSpan e => snn cert e
  | PLex l => wf_head (lx_head l)
  | PKeyword t => negb (Nat.eqb (List.length t) 0)
  | PUnknown => true                                (* never succeeds *)
  end.

Section Prims.
Variable defs : list sexp.
Variable table : list pdesc.
Variable inp : bytes.
Variable sfuel : nat.
Variable cert : list bool.
Hypothesis CV : cert_valid defs cert = true.
Hypothesis TN : forallb (pnn cert) table = true.

Lemma table_nn i d : nth_error table i = Some d -> pnn cert d = true.
Proof. intros H. rewrite forallb_forall in TN. apply TN. eapply nth_error_In; eauto. Qed.

(* a success of any primitive, in any state, at any position inside the text: between 1 byte and the rest of the text *)
Theorem prim_exec_consumes i x p n : prim_exec defs table inp sfuel i x p = Some n -> 1 <= n /\ p + n <= List.length inp.
Proof.
  unfold prim_exec. intros H.
  destruct (nth_error table (N.to_nat i)) as [d|] eqn:Ed; [|discriminate].
  pose proof (table_nn _ _ Ed) as Hd.
  assert (L : forall m, 1 <= m -> m <= List.length (skipn p inp) -> p + m <= List.length inp) by (intros m; rewrite skipn_length; lia).
  destruct d as [e|l|t|]; cbn [pnn] in Hd; [| | |discriminate].
  - assert (P : 1 <= n) by (eapply srun_pos; eauto). split; [exact P|apply L; [exact P|eapply srun_le; eauto]].
  - destruct (lex_spec _ _ _ _ Hd H) as [[H1 H2] _]. split; [exact H1|apply L; assumption].
  - destruct (reserved_in_force x t); [|discriminate].
    assert (P : 1 <= n) by (pose proof (prefix_len_length _ _ _ _ H); apply negb_true_iff, Nat.eqb_neq in Hd; lia).
    split; [exact P|apply L; [exact P|eapply prefix_len_le; eauto]].
Qed.
End Prims.
