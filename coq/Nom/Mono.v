(* The fuel of the interpreter is only a device: once a run ends in Ok or Err, more fuel gives the
   same result and the same state.  Hence the result of a parse (when there is one) is unique and
   all the theorems stated "for every fuel" are about one object.  Proofs only. *)
From SV Require Import Peg.
From Coq Require Import Arith Lia.
Local Open Scope nat_scope.

Section Mono.
Variable A : Type.
Variable prim : N -> A -> nat -> option nat.
Variable act : N -> A -> A.
Variable cond : N -> A -> bool.
Variable dirflag : A -> bool.
Variable inp : list N.
Variable g : list prod.

Notation run := (run A prim act cond dirflag inp g).
Notation pstate := (pstate A).

Definition stable (f : nat) : Prop :=
  forall e p rf st r st', run f e p rf st = (r, st') -> r <> Fuel -> run (S f) e p rf st = (r, st').

(* use the induction hypothesis on one sub-run: either it ran out of fuel (then so did the whole) or
   the run with one more unit of fuel is the same *)
Ltac sub IH e p rf st :=
  let r0 := fresh "r0" in let s0 := fresh "s0" in let E := fresh "E" in
  destruct (run _ e p rf st) as [r0 s0] eqn:E;
  let H := fresh "HS" in
  assert (H : r0 <> Fuel -> run _ e p rf st = (r0, s0)) by (intros ?; apply IH; assumption).

Theorem run_mono : forall f, stable f.
Proof.
  induction f as [|f IH]; intros e p rf st r st' H Hr.
  { cbn in H. injection H as <- <-. congruence. }
  destruct e; cbn [Peg.run] in H; (remember (S f) as f1 eqn:Ef1; cbn [Peg.run]; subst f1).
  - (* FCall *)
    destruct (nth_error g n) as [pr|]; [|exact H].
    assert (Hb : forall st0 r0 s0,
      (if p_rec pr then if existsb (Nat.eqb n) rf then (Err, st0) else run f (p_body pr) p (n :: rf) st0
       else run f (p_body pr) p rf st0) = (r0, s0) -> r0 <> Fuel ->
      (if p_rec pr then if existsb (Nat.eqb n) rf then (Err, st0) else run (S f) (p_body pr) p (n :: rf) st0
       else run (S f) (p_body pr) p rf st0) = (r0, s0)).
    { intros st0 r0 s0 Hb0 Hn. destruct (p_rec pr); [destruct (existsb _ rf)|]; auto. }
    destruct (p_packrat pr).
    + destruct (map_get _ _) as [[[fo len]|]|]; try exact H.
      destruct (if p_rec pr then _ else _) as [r0 s0] eqn:E in H.
      destruct r0 as [fo q| |].
      * rewrite (Hb st _ _ E) by discriminate. exact H.
      * rewrite (Hb st _ _ E) by discriminate. exact H.
      * injection H as <- <-. congruence.
    + apply Hb; assumption.
  - (* FPrim *) exact H.
  - (* FLeaf *)
    destruct (run f e p rf st) as [r0 s0] eqn:E. destruct r0 as [fo q| |].
    + rewrite (IH _ _ _ _ _ _ E) by discriminate. exact H.
    + rewrite (IH _ _ _ _ _ _ E) by discriminate. exact H.
    + injection H as <- <-. congruence.
  - (* FSeq *)
    match goal with Hx : ?F es p [] st = (r, st') |- ?G es p [] st = (r, st') =>
      cut (forall l q acc st0, F l q acc st0 = (r, st') -> G l q acc st0 = (r, st')); [intros Hgo; apply Hgo; exact Hx|clear Hx]
    end.
    induction l as [|x l IHl]; intros q acc st0 H; [exact H|].
    cbv beta iota fix in H |- *.
    destruct (run f x q (rf_at p q rf) st0) as [r0 s0] eqn:E. destruct r0 as [fo q'| |].
    + rewrite (IH _ _ _ _ _ _ E) by discriminate. apply IHl. exact H.
    + rewrite (IH _ _ _ _ _ _ E) by discriminate. exact H.
    + injection H as <- <-. congruence.
  - (* FAlt *)
    match goal with Hx : ?F es st = (r, st') |- ?G es st = (r, st') =>
      cut (forall l st0, F l st0 = (r, st') -> G l st0 = (r, st')); [intros Hgo; apply Hgo; exact Hx|clear Hx]
    end.
    induction l as [|x l IHl]; intros st0 H; [exact H|].
    cbv beta iota fix in H |- *.
    destruct (run f x p rf st0) as [r0 s0] eqn:E. destruct r0 as [fo q'| |].
    + rewrite (IH _ _ _ _ _ _ E) by discriminate. exact H.
    + rewrite (IH _ _ _ _ _ _ E) by discriminate. apply IHl. exact H.
    + injection H as <- <-. congruence.
  - (* FOpt *)
    destruct (run f e p rf st) as [r0 s0] eqn:E. destruct r0 as [fo q| |].
    + rewrite (IH _ _ _ _ _ _ E) by discriminate. exact H.
    + rewrite (IH _ _ _ _ _ _ E) by discriminate. exact H.
    + injection H as <- <-. congruence.
  - (* FMany0 *)
    destruct (run f e p rf st) as [r0 s0] eqn:E. destruct r0 as [fo q| |].
    + rewrite (IH _ _ _ _ _ _ E) by discriminate.
      destruct (Nat.eqb q p); [exact H|].
      destruct (run f (FMany0 e) q [] s0) as [r1 s1] eqn:E1. destruct r1 as [fo2 q2| |].
      * rewrite (IH _ _ _ _ _ _ E1) by discriminate. exact H.
      * rewrite (IH _ _ _ _ _ _ E1) by discriminate. exact H.
      * injection H as <- <-. congruence.
    + rewrite (IH _ _ _ _ _ _ E) by discriminate. exact H.
    + injection H as <- <-. congruence.
  - (* FMany1 *)
    destruct (run f e p rf st) as [r0 s0] eqn:E. destruct r0 as [fo q| |].
    + rewrite (IH _ _ _ _ _ _ E) by discriminate.
      destruct (Nat.eqb q p); [exact H|].
      destruct (run f (FMany0 e) q [] s0) as [r1 s1] eqn:E1. destruct r1 as [fo2 q2| |].
      * rewrite (IH _ _ _ _ _ _ E1) by discriminate. exact H.
      * rewrite (IH _ _ _ _ _ _ E1) by discriminate. exact H.
      * injection H as <- <-. congruence.
    + rewrite (IH _ _ _ _ _ _ E) by discriminate. exact H.
    + injection H as <- <-. congruence.
  - (* FManyTill *)
    destruct (run f e2 p rf st) as [r0 s0] eqn:E. destruct r0 as [fo q| |].
    + rewrite (IH _ _ _ _ _ _ E) by discriminate. exact H.
    + rewrite (IH _ _ _ _ _ _ E) by discriminate.
      destruct (run f e1 p rf s0) as [r1 s1] eqn:E1. destruct r1 as [fo q| |].
      * rewrite (IH _ _ _ _ _ _ E1) by discriminate.
        destruct (Nat.eqb q p); [exact H|].
        destruct (run f (FManyTill e1 e2) q [] s1) as [r2 s2] eqn:E2. destruct r2 as [fo2 q2| |].
        -- rewrite (IH _ _ _ _ _ _ E2) by discriminate. exact H.
        -- rewrite (IH _ _ _ _ _ _ E2) by discriminate. exact H.
        -- injection H as <- <-. congruence.
      * rewrite (IH _ _ _ _ _ _ E1) by discriminate. exact H.
      * injection H as <- <-. congruence.
    + injection H as <- <-. congruence.
  - (* FPeek *)
    destruct (run f e p rf st) as [r0 s0] eqn:E. destruct r0 as [fo q| |].
    + rewrite (IH _ _ _ _ _ _ E) by discriminate. exact H.
    + rewrite (IH _ _ _ _ _ _ E) by discriminate. exact H.
    + injection H as <- <-. congruence.
  - (* FNot *)
    destruct (run f e p rf st) as [r0 s0] eqn:E. destruct r0 as [fo q| |].
    + rewrite (IH _ _ _ _ _ _ E) by discriminate. exact H.
    + rewrite (IH _ _ _ _ _ _ E) by discriminate. exact H.
    + injection H as <- <-. congruence.
  - (* FEof *) exact H.
  - (* FTmpl *)
    match goal with Hx : ?F es p [] st = (r, st') |- ?G es p [] st = (r, st') =>
      cut (forall l q env st0, F l q env st0 = (r, st') -> G l q env st0 = (r, st')); [intros Hgo; apply Hgo; exact Hx|clear Hx]
    end.
    induction l as [|x l IHl]; intros q env st0 H; [exact H|].
    cbv beta iota fix in H |- *.
    destruct (run f x q (rf_at p q rf) st0) as [r0 s0] eqn:E. destruct r0 as [fo q'| |].
    + rewrite (IH _ _ _ _ _ _ E) by discriminate. apply IHl. exact H.
    + rewrite (IH _ _ _ _ _ _ E) by discriminate. exact H.
    + injection H as <- <-. congruence.
  - (* FAct *) exact H.
  - (* FWrap *)
    destruct (run f e p rf (set_aux A st (act a (ps_aux A st)))) as [r0 s0] eqn:E.
    injection H as <- <-. rewrite (IH _ _ _ _ _ _ E) by assumption. reflexivity.
  - (* FIf *)
    destruct (cond c (ps_aux A st)); apply IH; assumption.
  - exact H.
Qed.

(* any larger fuel *)
Corollary run_mono_le f f' e p rf st r st' :
  f <= f' -> run f e p rf st = (r, st') -> r <> Fuel -> run f' e p rf st = (r, st').
Proof.
  induction 1 as [|m Hle IHm]; intros H Hr; [exact H|]. apply run_mono; auto.
Qed.

(* the result of a parse is unique: two runs that both end agree, whatever their fuel *)
Corollary run_unique f1 f2 e p rf st r1 s1 r2 s2 :
  run f1 e p rf st = (r1, s1) -> r1 <> Fuel -> run f2 e p rf st = (r2, s2) -> r2 <> Fuel -> r1 = r2 /\ s1 = s2.
Proof.
  intros H1 N1 H2 N2. destruct (Nat.le_ge_cases f1 f2) as [L|L].
  - rewrite (run_mono_le _ _ _ _ _ _ _ _ L H1 N1) in H2. now injection H2.
  - rewrite (run_mono_le _ _ _ _ _ _ _ _ L H2 N2) in H1. now injection H1.
Qed.
End Mono.
