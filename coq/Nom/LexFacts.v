(* The regenerated token lexers (Gen/GenLexers.v) meet what the interpreter's theorems assume of its
   primitives.  Proofs only. *)
From SV Require Import HandLex GenLexers.
From Coq Require Import List NArith Arith Bool Lia.
Import ListNotations.

Lemma token_lexers_all : length token_lexers = token_lexers_expected.
Proof. reflexivity. Qed.

Lemma token_lexers_wf : forallb (fun l => wf_head (lx_head l)) token_lexers = true.
Proof. vm_compute. reflexivity. Qed.

(* every byte of every alphabet is a printable ASCII character other than the blank *)
Lemma token_alphabets_printable :
  forallb (fun l => forallb (fun c => (N.ltb 32 c && N.ltb c 127)%bool) (alphabet l)) token_lexers = true.
Proof. vm_compute. reflexivity. Qed.

Lemma wf_of l : In l token_lexers -> wf_head (lx_head l) = true.
Proof. intros H. pose proof token_lexers_wf as W. rewrite forallb_forall in W. now apply W. Qed.

Theorem token_lexer_consumes veto l w n : In l token_lexers -> lex veto l w = Some n -> 1 <= n <= length w.
Proof. intros Hl H. destruct (lex_spec veto l w n (wf_of l Hl) H) as [H1 _]. exact H1. Qed.

(* control characters (tab and line breaks included), the blank, DEL and every byte of a non-ASCII
   character are outside all alphabets: a token lexer stops at or before such a byte *)
Theorem token_lexer_stops veto l w n k : In l token_lexers -> lex veto l w = Some n -> k < length w ->
  (nth k w 0 <= 32 \/ 127 <= nth k w 0)%N -> n <= k.
Proof.
  intros Hl H Hk Hc. eapply lex_stops; eauto using wf_of.
  destruct (mem (nth k w 0%N) (alphabet l)) eqn:E; [|reflexivity].
  apply mem_in in E. pose proof token_alphabets_printable as P. rewrite forallb_forall in P.
  specialize (P l Hl). rewrite forallb_forall in P. specialize (P _ E).
  apply andb_true_iff in P as [P1 P2]. apply N.ltb_lt in P1, P2. lia.
Qed.

(* the hypotheses are not vacuous: 12_3 is read whole, and the lexer stops in front of a control byte *)
Example lex_reads_a_number : lex (fun _ => false) lx_unsigned_number_impl [49; 50; 95; 51; 1; 52]%N = Some 4.
Proof. vm_compute. reflexivity. Qed.
Example lex_reads_a_base : lex (fun _ => false) lx_hex_base_impl [39; 83; 72; 102]%N = Some 3.
Proof. vm_compute. reflexivity. Qed.
