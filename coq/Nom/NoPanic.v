(* C08: Locate::try_from(&node) asserts that consecutive leaves are adjacent.  On every node of a
   forest whose leaves tile (what the parser returns, C01) the assertion holds.  Proofs only. *)
From SV Require Import Peg PegFacts Eval.
From Coq Require Import Arith Lia.
Local Open Scope nat_scope.

Section NoPanic.
Variable inp : list N.
Notation tiles_l := (tiles_l inp).
Notation tiles := (tiles inp).

Lemma tiles_l_split a : forall b p r, tiles_l (a ++ b) p r -> exists q, tiles_l a p q /\ tiles_l b q r.
Proof.
  induction a as [|l a IH]; intros b p r H; cbn in H.
  - exists p. split; [constructor|exact H].
  - inversion H as [|? ? ? ? H1 H2 H3]; subst. destruct (IH _ _ _ H3) as (q & Ha & Hb).
    exists q. split; [econstructor; eauto|exact Hb].
Qed.

(* join_locs walks the leaves exactly as the tiling does *)
Lemma join_tiles ls : forall acc p q,
  tiles_l ls p q -> (l_off acc + l_len acc = N.of_nat p)%N ->
  exists l, join_locs acc ls = Some l /\ l_off l = l_off acc /\ l_line l = l_line acc /\ (l_off l + l_len l = N.of_nat q)%N.
Proof.
  induction ls as [|x r IH]; intros acc p q H Hacc.
  - inversion H; subst. exists acc. cbn. auto.
  - inversion H as [|? ? ? ? H1 H2 H3]; subst. cbn [join_locs].
    assert (E : (l_off x =? l_off acc + l_len acc)%N = true) by (apply N.eqb_eq; congruence). rewrite E.
    destruct (IH (mkLoc (l_off acc) (l_len acc + l_len x) (l_line acc)) (p + N.to_nat (l_len x)) q H3) as (l & J & O & L & E2).
    + cbn [l_off l_len]. lia.
    + exists l. cbn [l_off l_line] in *. auto.
Qed.

Theorem node_locate_tiled t p q :
  tiles [t] p q -> leaves t <> [] ->
  exists l, node_locate t = ROk l /\ l_off l = N.of_nat p /\ (l_off l + l_len l = N.of_nat q)%N /\ l_line l = line_at inp p.
Proof.
  unfold tiles. cbn [flat_map]. rewrite app_nil_r. unfold node_locate.
  destruct (leaves t) as [|l0 r]; intros H Hne; [contradiction|].
  inversion H as [|? ? ? ? H1 H2 H3]; subst.
  destruct (join_tiles r l0 _ _ H3) as (l & J & O & L & E); [lia|].
  rewrite J. exists l. repeat split; congruence.
Qed.

(* every subtree of a tiled forest tiles its own stretch *)
Lemma forest_sub : forall (f : list tree) p q, tiles f p q ->
  forall t, In t f -> exists p' q', tiles [t] p' q'.
Proof.
  induction f as [|x f IH]; intros p q H t Hin; [contradiction|]. destruct Hin as [<-|Hin].
  - unfold tiles in *. cbn [flat_map] in H. apply tiles_l_split in H as (m & Hx & _).
    exists p, m. cbn [flat_map]. now rewrite app_nil_r.
  - unfold tiles in *. cbn [flat_map] in H. apply tiles_l_split in H as (m & _ & Hf). eapply IH; eauto.
Qed.

Fixpoint tsize (t : tree) : nat :=
  S match t with Leaf _ => 0 | Node _ cs => (fix go (l : list tree) : nat := match l with [] => 0 | x :: r => tsize x + go r end) cs end.

Lemma preorder_node k cs : preorder (Node k cs) = Node k cs :: flat_map preorder cs.
Proof. reflexivity. Qed.

Lemma subtree_tiles : forall n t p q, tsize t <= n -> tiles [t] p q ->
  forall u, In u (preorder t) -> exists p' q', tiles [u] p' q'.
Proof.
  induction n as [|n IH]; intros t p q Hs H u Hu; [destruct t; cbn in Hs; lia|].
  destruct t as [l|k cs].
  - cbn in Hu. destruct Hu as [<-|[]]. eauto.
  - rewrite preorder_node in Hu. destruct Hu as [<-|Hu]; [eauto|].
    apply in_flat_map in Hu as (c & Hc & Hu).
    assert (Hcs : tiles cs p q).
    { unfold tiles in *. cbn [flat_map] in H. rewrite app_nil_r in H. now rewrite leaves_node in H. }
    destruct (forest_sub cs p q Hcs c Hc) as (p1 & q1 & Hc1).
    assert (Hsz : tsize c <= n).
    { clear -Hs Hc. cbn in Hs. induction cs as [|x r IHr]; [contradiction|]. destruct Hc as [<-|Hc]; cbn in Hs; [lia|]. apply IHr; [|exact Hc]. lia. }
    eapply IH; eauto.
Qed.

(* the adjacency assert of Locate::try_from never fires on a node of a tiled forest; a node without
   any leaf makes try_from return Err(()), which is not a panic of try_from *)
Theorem try_from_never_asserts f p q t u :
  tiles f p q -> In t f -> In u (preorder t) -> node_locate u <> RPanic 1.
Proof.
  intros H Ht Hu. destruct (forest_sub f p q H t Ht) as (p1 & q1 & H1).
  destruct (subtree_tiles (tsize t) t p1 q1 (le_n _) H1 u Hu) as (p2 & q2 & H2).
  destruct (leaves u) as [|l0 r] eqn:El.
  - unfold node_locate. rewrite El. discriminate.
  - destruct (node_locate_tiled u p2 q2 H2) as (l & E & _); [rewrite El; discriminate|]. rewrite E. discriminate.
Qed.
End NoPanic.
