(* C14: where the parser looks.  [runT] is the interpreter of Peg.v with one more output: the
   greatest position at which any expression was applied so far (the high-water mark).  Every
   position that an error report of the implementation can carry is the position at which some
   parser was applied and failed (GreedyError records the input of the failing parser and keeps the
   greatest), so the mark bounds every reportable position.  Erasing the mark gives Peg.run back
   ([runT_erase]); with a barrier byte the mark never passes the barrier ([runT_bd]).  The
   instrumented interpreter is a definition, the rest are proofs. *)
From SV Require Import Peg Bound BoundPk.
From Coq Require Import Arith Lia.
Local Open Scope nat_scope.

Section Trace.
Variable A : Type.
Variable prim : N -> A -> nat -> option nat.
Variable act : N -> A -> A.
Variable cond : N -> A -> bool.
Variable dirflag : A -> bool.
Variable inp : list N.
Variable g : list prod.
Notation run := (run A prim act cond dirflag inp g).
Notation pstate := (pstate A).

Definition tres := (res * pstate * nat)%type.

Fixpoint runT (fuel : nat) (e : fexp) (p : nat) (rf : list nat) (st : pstate) (hw0 : nat) {struct fuel} : tres :=
  match fuel with
  | O => (Fuel, st, hw0)
  | S f =>
    let hw := Nat.max hw0 p in
    match e with
    | FCall n =>
        match nth_error g n with
        | None => (Err, st, hw)
        | Some pr =>
            let body (st : pstate) : tres :=
              if p_rec pr then
                if existsb (Nat.eqb n) rf then (Err, st, hw) else runT f (p_body pr) p (n :: rf) st hw
              else runT f (p_body pr) p rf st hw in
            if p_packrat pr then
              match map_get (ps_map A st) (n, p, dirflag (ps_aux A st)) with
              | Some (Some (fo, len)) => (Ok fo (p + len), st, hw)
              | Some None => (Err, st, hw)
              | None =>
                  let '(r, st', h) := body st in
                  match r with
                  | Ok fo p' => (r, memo_insert A st' (n, p, dirflag (ps_aux A st')) (Some (fo, p' - p)), h)
                  | Err => (r, memo_insert A st' (n, p, dirflag (ps_aux A st')) None, h)
                  | Fuel => (r, st', h)
                  end
              end
            else body st
        end
    | FPrim i =>
        match prim i (ps_aux A st) p with
        | Some n => (Ok [] (p + n), st, hw)
        | None => (Err, st, hw)
        end
    | FLeaf e1 =>
        let '(r, st', h) := runT f e1 p rf st hw in
        match r with
        | Ok _ p' => (Ok [leaf_at inp p p'] p', st', h)
        | _ => (r, st', h)
        end
    | FSeq es =>
        (fix go (l : list fexp) (q : nat) (acc : list tree) (st : pstate) (h : nat) : tres :=
           match l with
           | [] => (Ok acc q, st, h)
           | x :: r =>
               let '(rx, st', h') := runT f x q (rf_at p q rf) st h in
               match rx with
               | Ok fo q' => go r q' (acc ++ fo) st' h'
               | _ => (rx, st', h')
               end
           end) es p [] st hw
    | FAlt es =>
        (fix go (l : list fexp) (st : pstate) (h : nat) : tres :=
           match l with
           | [] => (Err, st, h)
           | x :: r =>
               let '(rx, st', h') := runT f x p rf st h in
               match rx with
               | Err => go r st' h'
               | _ => (rx, st', h')
               end
           end) es st hw
    | FOpt e1 =>
        let '(r, st', h) := runT f e1 p rf st hw in
        match r with
        | Err => (Ok [] p, st', h)
        | _ => (r, st', h)
        end
    | FMany0 e1 =>
        let '(r, st', h) := runT f e1 p rf st hw in
        match r with
        | Err => (Ok [] p, st', h)
        | Fuel => (Fuel, st', h)
        | Ok fo p' =>
            if Nat.eqb p' p then (Err, st', h)
            else
              let '(r2, st'', h2) := runT f (FMany0 e1) p' [] st' h in
              match r2 with
              | Ok fo2 p'' => (Ok (fo ++ fo2) p'', st'', h2)
              | _ => (r2, st'', h2)
              end
        end
    | FMany1 e1 =>
        let '(r, st', h) := runT f e1 p rf st hw in
        match r with
        | Ok fo p' =>
            if Nat.eqb p' p then (Err, st', h)
            else
              let '(r2, st'', h2) := runT f (FMany0 e1) p' [] st' h in
              match r2 with
              | Ok fo2 p'' => (Ok (fo ++ fo2) p'', st'', h2)
              | _ => (r2, st'', h2)
              end
        | _ => (r, st', h)
        end
    | FManyTill e1 e2 =>
        let '(r, st', h) := runT f e2 p rf st hw in
        match r with
        | Ok fo p' => (Ok fo p', st', h)
        | Fuel => (Fuel, st', h)
        | Err =>
            let '(r1, st1, h1) := runT f e1 p rf st' h in
            match r1 with
            | Ok fo p' =>
                if Nat.eqb p' p then (Err, st1, h1)
                else
                  let '(r2, st2, h2) := runT f (FManyTill e1 e2) p' [] st1 h1 in
                  match r2 with
                  | Ok fo2 p'' => (Ok (fo ++ fo2) p'', st2, h2)
                  | _ => (r2, st2, h2)
                  end
            | _ => (r1, st1, h1)
            end
        end
    | FPeek e1 =>
        let '(r, st', h) := runT f e1 p rf st hw in
        match r with
        | Ok _ _ => (Ok [] p, st', h)
        | _ => (r, st', h)
        end
    | FNot e1 =>
        let '(r, st', h) := runT f e1 p rf st hw in
        match r with
        | Ok _ _ => (Err, st', h)
        | Err => (Ok [] p, st', h)
        | Fuel => (Fuel, st', h)
        end
    | FEof => if Nat.leb (length inp) p then (Ok [] p, st, hw) else (Err, st, hw)
    | FTmpl es t =>
        (fix go (l : list fexp) (q : nat) (env : list (list tree)) (st : pstate) (h : nat) : tres :=
           match l with
           | [] => (Ok (build t env) q, st, h)
           | x :: r =>
               let '(rx, st', h') := runT f x q (rf_at p q rf) st h in
               match rx with
               | Ok fo q' => go r q' (env ++ [fo]) st' h'
               | _ => (rx, st', h')
               end
           end) es p [] st hw
    | FAct a => (Ok [] p, set_aux A st (act a (ps_aux A st)), hw)
    | FWrap a b e1 =>
        let '(r, st', h) := runT f e1 p rf (set_aux A st (act a (ps_aux A st))) hw in
        (r, set_aux A st' (act b (ps_aux A st')), h)
    | FIf c e1 e2 => if cond c (ps_aux A st) then runT f e1 p rf st hw else runT f e2 p rf st hw
    | FBad => (Err, st, hw)
    end
  end.

Definition erase (t : tres) : res * pstate := fst t.

(* the instrumented interpreter computes what the interpreter computes *)
Theorem runT_erase : forall fuel e p rf st hw, erase (runT fuel e p rf st hw) = run fuel e p rf st.
Proof.
  unfold erase.
  induction fuel as [|f IH]; intros e p rf st hw; [reflexivity|].
  destruct e; cbn [runT Peg.run].
  - destruct (nth_error g n) as [pr|]; [|reflexivity].
    assert (Hb : forall st0,
      fst (if p_rec pr then if existsb (Nat.eqb n) rf then (Err, st0, Nat.max hw p) else runT f (p_body pr) p (n :: rf) st0 (Nat.max hw p)
           else runT f (p_body pr) p rf st0 (Nat.max hw p)) =
      (if p_rec pr then if existsb (Nat.eqb n) rf then (Err, st0) else run f (p_body pr) p (n :: rf) st0
       else run f (p_body pr) p rf st0)).
    { intros st0. destruct (p_rec pr); [destruct (existsb _ rf)|]; auto. }
    destruct (p_packrat pr); [|apply Hb].
    destruct (map_get _ _) as [[[fo len]|]|]; try reflexivity.
    specialize (Hb st). destruct (if p_rec pr then _ else _) as [[r0 s0] h0] in Hb |- *.
    cbn [fst] in Hb. rewrite <- Hb. destruct r0; reflexivity.
  - destruct (prim i (ps_aux A st) p); reflexivity.
  - specialize (IH e p rf st (Nat.max hw p)). destruct (runT f e p rf st _) as [[r0 s0] h0]. cbn [fst] in IH. rewrite <- IH.
    destruct r0; reflexivity.
  - match goal with |- fst (?F es p [] st ?h0) = ?G es p [] st =>
      cut (forall l q acc st0 h, fst (F l q acc st0 h) = G l q acc st0); [intros Hgo; apply Hgo|] end.
    induction l as [|x l IHl]; intros q acc st0 h; [reflexivity|]. cbv beta iota fix.
    specialize (IH x q (rf_at p q rf) st0 h). destruct (runT f x q _ st0 h) as [[r0 s0] h0]. cbn [fst] in IH. rewrite <- IH.
    destruct r0; try reflexivity. apply IHl.
  - match goal with |- fst (?F es st ?h0) = ?G es st =>
      cut (forall l st0 h, fst (F l st0 h) = G l st0); [intros Hgo; apply Hgo|] end.
    induction l as [|x l IHl]; intros st0 h; [reflexivity|]. cbv beta iota fix.
    specialize (IH x p rf st0 h). destruct (runT f x p rf st0 h) as [[r0 s0] h0]. cbn [fst] in IH. rewrite <- IH.
    destruct r0; try reflexivity. apply IHl.
  - specialize (IH e p rf st (Nat.max hw p)). destruct (runT f e p rf st _) as [[r0 s0] h0]. cbn [fst] in IH. rewrite <- IH.
    destruct r0; reflexivity.
  - pose proof (IH e p rf st (Nat.max hw p)) as I1. destruct (runT f e p rf st _) as [[r0 s0] h0]. cbn [fst] in I1. rewrite <- I1.
    destruct r0 as [fo q| |]; try reflexivity. destruct (Nat.eqb q p); [reflexivity|].
    pose proof (IH (FMany0 e) q [] s0 h0) as I2. destruct (runT f (FMany0 e) q [] s0 h0) as [[r1 s1] h1]. cbn [fst] in I2. rewrite <- I2.
    destruct r1; reflexivity.
  - pose proof (IH e p rf st (Nat.max hw p)) as I1. destruct (runT f e p rf st _) as [[r0 s0] h0]. cbn [fst] in I1. rewrite <- I1.
    destruct r0 as [fo q| |]; try reflexivity. destruct (Nat.eqb q p); [reflexivity|].
    pose proof (IH (FMany0 e) q [] s0 h0) as I2. destruct (runT f (FMany0 e) q [] s0 h0) as [[r1 s1] h1]. cbn [fst] in I2. rewrite <- I2.
    destruct r1; reflexivity.
  - pose proof (IH e2 p rf st (Nat.max hw p)) as I1. destruct (runT f e2 p rf st _) as [[r0 s0] h0]. cbn [fst] in I1. rewrite <- I1.
    destruct r0 as [fo q| |]; try reflexivity.
    pose proof (IH e1 p rf s0 h0) as I2. destruct (runT f e1 p rf s0 h0) as [[r1 s1] h1]. cbn [fst] in I2. rewrite <- I2.
    destruct r1 as [fo q| |]; try reflexivity. destruct (Nat.eqb q p); [reflexivity|].
    pose proof (IH (FManyTill e1 e2) q [] s1 h1) as I3. destruct (runT f (FManyTill e1 e2) q [] s1 h1) as [[r2 s2] h2]. cbn [fst] in I3. rewrite <- I3.
    destruct r2; reflexivity.
  - specialize (IH e p rf st (Nat.max hw p)). destruct (runT f e p rf st _) as [[r0 s0] h0]. cbn [fst] in IH. rewrite <- IH.
    destruct r0; reflexivity.
  - specialize (IH e p rf st (Nat.max hw p)). destruct (runT f e p rf st _) as [[r0 s0] h0]. cbn [fst] in IH. rewrite <- IH.
    destruct r0; reflexivity.
  - destruct (Nat.leb _ _); reflexivity.
  - match goal with |- fst (?F es p [] st ?h0) = ?G es p [] st =>
      cut (forall l q env st0 h, fst (F l q env st0 h) = G l q env st0); [intros Hgo; apply Hgo|] end.
    induction l as [|x l IHl]; intros q env st0 h; [reflexivity|]. cbv beta iota fix.
    specialize (IH x q (rf_at p q rf) st0 h). destruct (runT f x q _ st0 h) as [[r0 s0] h0]. cbn [fst] in IH. rewrite <- IH.
    destruct r0; try reflexivity. apply IHl.
  - reflexivity.
  - specialize (IH e p rf (set_aux A st (act a (ps_aux A st))) (Nat.max hw p)).
    destruct (runT f e p rf _ _) as [[r0 s0] h0]. cbn [fst] in IH. rewrite <- IH. reflexivity.
  - destruct (cond c (ps_aux A st)); apply IH.
  - reflexivity.
Qed.

(* ------------------------------------------------------------------ the mark and the barrier *)
Variable bar : nat.
Variable peekers : list N.
Notation pk := (pk peekers).
Hypothesis prim_bound : forall i a p n, is_pk peekers i = false -> p <= bar -> prim i a p = Some n -> p + n <= bar.
Hypothesis GP : forall n pr, nth_error g n = Some pr -> pk (p_body pr) = true.

Notation memo_bd := (memo_bd A bar).

Lemma runT_ok_bd fuel e p rf st hw r st' h :
  runT fuel e p rf st hw = (r, st', h) -> pk e = true -> memo_bd st -> p <= bar ->
  memo_bd st' /\ match r with Ok _ q => p <= q <= bar | _ => True end.
Proof.
  intros E He Hm Hp. pose proof (runT_erase fuel e p rf st hw) as Er. rewrite E in Er. unfold erase in Er. cbn [fst] in Er.
  pose proof (run_bd_pk A prim act cond dirflag inp g bar peekers prim_bound GP fuel e p rf st He Hm Hp) as [B1 B2].
  rewrite <- Er in B1, B2. cbn [fst snd] in B1, B2. split; assumption.
Qed.

(* the mark only grows, and never passes the barrier when the run starts at or before it *)
Theorem runT_bd : forall fuel e p rf st hw r st' h,
  runT fuel e p rf st hw = (r, st', h) -> pk e = true -> memo_bd st -> p <= bar -> hw <= bar -> hw <= h <= bar.
Proof.
  induction fuel as [|f IH]; intros e p rf st hw r st' h E He Hm Hp Hh.
  { cbn in E. injection E as _ _ <-. lia. }
  assert (Hx : hw <= Nat.max hw p <= bar) by lia.
  destruct e; cbn [runT] in E; cbn [BoundPk.pk] in He.
  - destruct (nth_error g n) as [pr|] eqn:En; [|injection E as _ _ <-; exact Hx].
    pose proof (GP n pr En) as Hbp.
    assert (Hb : forall st0 r0 s0 h0, memo_bd st0 ->
      (if p_rec pr then if existsb (Nat.eqb n) rf then (Err, st0, Nat.max hw p) else runT f (p_body pr) p (n :: rf) st0 (Nat.max hw p)
       else runT f (p_body pr) p rf st0 (Nat.max hw p)) = (r0, s0, h0) -> hw <= h0 <= bar).
    { intros st0 r0 s0 h0 H0 Eb. destruct (p_rec pr); [destruct (existsb _ rf)|].
      - injection Eb as _ _ <-. exact Hx.
      - pose proof (IH _ _ _ _ _ _ _ _ Eb Hbp H0 Hp ltac:(lia)). lia.
      - pose proof (IH _ _ _ _ _ _ _ _ Eb Hbp H0 Hp ltac:(lia)). lia. }
    destruct (p_packrat pr); [|eapply Hb; eauto].
    destruct (map_get _ _) as [[[fo len]|]|]; try (injection E as _ _ <-; exact Hx).
    destruct (if p_rec pr then _ else _) as [[r0 s0] h0] eqn:Eb.
    pose proof (Hb _ _ _ _ Hm Eb). destruct r0; injection E as _ _ <-; assumption.
  - destruct (prim i (ps_aux A st) p); injection E as _ _ <-; exact Hx.
  - destruct (runT f e p rf st (Nat.max hw p)) as [[r0 s0] h0] eqn:E0.
    pose proof (IH _ _ _ _ _ _ _ _ E0 He Hm Hp ltac:(lia)). destruct r0; injection E as _ _ <-; lia.
  - assert (Hgo : forall l q acc st0 h1, (fix go (l : list fexp) : bool := match l with [] => true | x :: r => pk x && go r end) l = true ->
      memo_bd st0 -> p <= q <= bar -> hw <= h1 <= bar ->
      (fix go (l : list fexp) (q : nat) (acc : list tree) (st : pstate) (h : nat) : tres :=
         match l with
         | [] => (Ok acc q, st, h)
         | x :: r => let '(rx, st', h') := runT f x q (rf_at p q rf) st h in
                     match rx with Ok fo q' => go r q' (acc ++ fo) st' h' | _ => (rx, st', h') end
         end) l q acc st0 h1 = (r, st', h) -> hw <= h <= bar).
    { induction l as [|x l IHl]; intros q acc st0 h1 Hl H0 Hq H1 Eg; [injection Eg as _ _ <-; exact H1|].
      apply andb_true_iff in Hl as [Hpx Hpr].
      destruct (runT f x q (rf_at p q rf) st0 h1) as [[r0 s0] h0] eqn:E0.
      pose proof (IH _ _ _ _ _ _ _ _ E0 Hpx H0 ltac:(lia) ltac:(lia)) as I1.
      pose proof (runT_ok_bd _ _ _ _ _ _ _ _ _ E0 Hpx H0 ltac:(lia)) as [M1 P1].
      destruct r0 as [fo q'| |]; [|injection Eg as _ _ <-; lia|injection Eg as _ _ <-; lia].
      eapply IHl; [exact Hpr|exact M1| | |exact Eg]; lia. }
    eapply Hgo; [exact He|exact Hm| | |exact E]; lia.
  - assert (Hgo : forall l st0 h1, (fix go (l : list fexp) : bool := match l with [] => true | x :: r => pk x && go r end) l = true ->
      memo_bd st0 -> hw <= h1 <= bar ->
      (fix go (l : list fexp) (st : pstate) (h : nat) : tres :=
         match l with
         | [] => (Err, st, h)
         | x :: r => let '(rx, st', h') := runT f x p rf st h in
                     match rx with Err => go r st' h' | _ => (rx, st', h') end
         end) l st0 h1 = (r, st', h) -> hw <= h <= bar).
    { induction l as [|x l IHl]; intros st0 h1 Hl H0 H1 Eg; [injection Eg as _ _ <-; exact H1|].
      apply andb_true_iff in Hl as [Hpx Hpr].
      destruct (runT f x p rf st0 h1) as [[r0 s0] h0] eqn:E0.
      pose proof (IH _ _ _ _ _ _ _ _ E0 Hpx H0 Hp ltac:(lia)) as I1.
      pose proof (runT_ok_bd _ _ _ _ _ _ _ _ _ E0 Hpx H0 Hp) as [M1 P1].
      destruct r0 as [fo q'| |]; [injection Eg as _ _ <-; lia| |injection Eg as _ _ <-; lia].
      eapply IHl; [exact Hpr|exact M1| |exact Eg]; lia. }
    eapply Hgo; [exact He|exact Hm| |exact E]; lia.
  - destruct (runT f e p rf st (Nat.max hw p)) as [[r0 s0] h0] eqn:E0.
    pose proof (IH _ _ _ _ _ _ _ _ E0 He Hm Hp ltac:(lia)). destruct r0; injection E as _ _ <-; lia.
  - destruct (runT f e p rf st (Nat.max hw p)) as [[r0 s0] h0] eqn:E0.
    pose proof (IH _ _ _ _ _ _ _ _ E0 He Hm Hp ltac:(lia)) as I1.
    pose proof (runT_ok_bd _ _ _ _ _ _ _ _ _ E0 He Hm Hp) as [M1 P1].
    destruct r0 as [fo q| |]; [|injection E as _ _ <-; lia|injection E as _ _ <-; lia].
    destruct (Nat.eqb q p); [injection E as _ _ <-; lia|].
    destruct (runT f (FMany0 e) q [] s0 h0) as [[r1 s1] h1] eqn:E1.
    pose proof (IH _ _ _ _ _ _ _ _ E1 He M1 ltac:(lia) ltac:(lia)). destruct r1; injection E as _ _ <-; lia.
  - destruct (runT f e p rf st (Nat.max hw p)) as [[r0 s0] h0] eqn:E0.
    pose proof (IH _ _ _ _ _ _ _ _ E0 He Hm Hp ltac:(lia)) as I1.
    pose proof (runT_ok_bd _ _ _ _ _ _ _ _ _ E0 He Hm Hp) as [M1 P1].
    destruct r0 as [fo q| |]; [|injection E as _ _ <-; lia|injection E as _ _ <-; lia].
    destruct (Nat.eqb q p); [injection E as _ _ <-; lia|].
    destruct (runT f (FMany0 e) q [] s0 h0) as [[r1 s1] h1] eqn:E1.
    pose proof (IH _ _ _ _ _ _ _ _ E1 He M1 ltac:(lia) ltac:(lia)). destruct r1; injection E as _ _ <-; lia.
  - apply andb_true_iff in He as [He1 He2].
    destruct (runT f e2 p rf st (Nat.max hw p)) as [[r0 s0] h0] eqn:E0.
    pose proof (IH _ _ _ _ _ _ _ _ E0 He2 Hm Hp ltac:(lia)) as I1.
    pose proof (runT_ok_bd _ _ _ _ _ _ _ _ _ E0 He2 Hm Hp) as [M1 P1].
    destruct r0 as [fo q| |]; [injection E as _ _ <-; lia| |injection E as _ _ <-; lia].
    destruct (runT f e1 p rf s0 h0) as [[r1 s1] h1] eqn:E1.
    pose proof (IH _ _ _ _ _ _ _ _ E1 He1 M1 Hp ltac:(lia)) as I2.
    pose proof (runT_ok_bd _ _ _ _ _ _ _ _ _ E1 He1 M1 Hp) as [M2 P2].
    destruct r1 as [fo q| |]; [|injection E as _ _ <-; lia|injection E as _ _ <-; lia].
    destruct (Nat.eqb q p); [injection E as _ _ <-; lia|].
    destruct (runT f (FManyTill e1 e2) q [] s1 h1) as [[r2 s2] h2] eqn:E2.
    assert (He12 : pk (FManyTill e1 e2) = true) by (cbn [BoundPk.pk]; now rewrite He1, He2).
    pose proof (IH _ _ _ _ _ _ _ _ E2 He12 M2 ltac:(lia) ltac:(lia)). destruct r2; injection E as _ _ <-; lia.
  - (* FPeek *)
    destruct (runT f e p rf st (Nat.max hw p)) as [[r0 s0] h0] eqn:E0.
    assert (I1 : Nat.max hw p <= h0 <= bar).
    { destruct e; try (eapply IH; [exact E0|exact He|exact Hm|exact Hp|lia]).
      destruct f as [|f0]; cbn [runT] in E0; [injection E0 as _ _ <-; lia|].
      destruct (prim i (ps_aux A st) p); injection E0 as _ _ <-; lia. }
    destruct r0; injection E as _ _ <-; lia.
  - (* FNot *)
    destruct (runT f e p rf st (Nat.max hw p)) as [[r0 s0] h0] eqn:E0.
    assert (I1 : Nat.max hw p <= h0 <= bar).
    { destruct e; try (eapply IH; [exact E0|exact He|exact Hm|exact Hp|lia]).
      destruct f as [|f0]; cbn [runT] in E0; [injection E0 as _ _ <-; lia|].
      destruct (prim i (ps_aux A st) p); injection E0 as _ _ <-; lia. }
    destruct r0; injection E as _ _ <-; lia.
  - destruct (Nat.leb _ _); injection E as _ _ <-; exact Hx.
  - assert (Hgo : forall l q env st0 h1, (fix go (l : list fexp) : bool := match l with [] => true | x :: r => pk x && go r end) l = true ->
      memo_bd st0 -> p <= q <= bar -> hw <= h1 <= bar ->
      (fix go (l : list fexp) (q : nat) (env : list (list tree)) (st : pstate) (h : nat) : tres :=
         match l with
         | [] => (Ok (build t env) q, st, h)
         | x :: r => let '(rx, st', h') := runT f x q (rf_at p q rf) st h in
                     match rx with Ok fo q' => go r q' (env ++ [fo]) st' h' | _ => (rx, st', h') end
         end) l q env st0 h1 = (r, st', h) -> hw <= h <= bar).
    { induction l as [|x l IHl]; intros q env st0 h1 Hl H0 Hq H1 Eg; [injection Eg as _ _ <-; exact H1|].
      apply andb_true_iff in Hl as [Hpx Hpr].
      destruct (runT f x q (rf_at p q rf) st0 h1) as [[r0 s0] h0] eqn:E0.
      pose proof (IH _ _ _ _ _ _ _ _ E0 Hpx H0 ltac:(lia) ltac:(lia)) as I1.
      pose proof (runT_ok_bd _ _ _ _ _ _ _ _ _ E0 Hpx H0 ltac:(lia)) as [M1 P1].
      destruct r0 as [fo q'| |]; [|injection Eg as _ _ <-; lia|injection Eg as _ _ <-; lia].
      eapply IHl; [exact Hpr|exact M1| | |exact Eg]; lia. }
    eapply Hgo; [exact He|exact Hm| | |exact E]; lia.
  - injection E as _ _ <-. exact Hx.
  - destruct (runT f e p rf (set_aux A st (act a (ps_aux A st))) (Nat.max hw p)) as [[r0 s0] h0] eqn:E0.
    assert (Hm' : memo_bd (set_aux A st (act a (ps_aux A st)))) by exact Hm.
    pose proof (IH _ _ _ _ _ _ _ _ E0 He Hm' Hp ltac:(lia)). injection E as _ _ <-. lia.
  - apply andb_true_iff in He as [He1 He2].
    destruct (cond c (ps_aux A st)); [pose proof (IH _ _ _ _ _ _ _ _ E He1 Hm Hp ltac:(lia))|pose proof (IH _ _ _ _ _ _ _ _ E He2 Hm Hp ltac:(lia))]; lia.
  - injection E as _ _ <-. exact Hx.
Qed.
End Trace.
