(* C17: packrat correctness for the interpreter.  For a grammar without left-recursion guard and
   with state actions that change nothing, the memoised interpreter -- any capacity, any eviction,
   any sound starting content -- returns what the memo-free interpreter returns.  The two things the
   real parser has beyond that (the guard flags and the keyword-version stack, both outside the memo
   key) are therefore the only sources of the capacity dependence D12.  Proofs only. *)
From SV Require Import Peg NonNull.
From Coq Require Import Arith Lia.
Local Open Scope nat_scope.

Section Transp.
Variable A : Type.
Variable prim : N -> A -> nat -> option nat.
Variable act : N -> A -> A.
Variable cond : N -> A -> bool.
Variable dirflag : A -> bool.
Variable inp : list N.
Variable g : list prod.

Hypothesis act_id : forall a x, act a x = x.
Hypothesis no_rec : forall n pr, nth_error g n = Some pr -> p_rec pr = false.

Definition plain_prod (pr : prod) : prod := mkProd false false (p_body pr).
Definition g' : list prod := map plain_prod g.

Notation run := (Peg.run A prim act cond dirflag inp g).
Notation run' := (Peg.run A prim act cond dirflag inp g').
Notation pstate := (pstate A).

Definition ref_st (a : A) : pstate := mkPst A [] [] None a.
Definition res_of (p : nat) (v : mval) : res := match v with Some (fo, len) => Ok fo (p + len) | None => Err end.

(* e evaluates to r at p in the memo-free semantics: every large enough fuel, any guard flags *)
Definition evals (a : A) (e : fexp) (p : nat) (r : res) : Prop :=
  exists f0, forall fm rf2, f0 <= fm -> run' fm e p rf2 (ref_st a) = (r, ref_st a).

Definition msound (st : pstate) : Prop :=
  forall n p v, In ((n, p, dirflag (ps_aux A st)), v) (ps_map A st) -> evals (ps_aux A st) (FCall n) p (res_of p v).

Lemma set_aux_id st a : act a (ps_aux A st) = ps_aux A st -> set_aux A st (act a (ps_aux A st)) = st.
Proof. intros ->. destruct st; reflexivity. Qed.

Lemma ref_set_aux a b : set_aux A (ref_st a) (act b (ps_aux A (ref_st a))) = ref_st a.
Proof. apply set_aux_id. apply act_id. Qed.

Lemma map_remove_in2 m k x : In x (map_remove m k) -> In x m.
Proof. induction m as [|[k' v'] m IH]; cbn; [auto|]. destruct (key_eqb k k'); cbn; intuition. Qed.

Lemma insert_msound st n p v :
  msound st -> evals (ps_aux A st) (FCall n) p (res_of p v) ->
  msound (memo_insert A st (n, p, dirflag (ps_aux A st)) v) /\
  ps_aux A (memo_insert A st (n, p, dirflag (ps_aux A st)) v) = ps_aux A st.
Proof.
  intros H Hv. unfold msound, memo_insert.
  destruct (ps_cap A st) as [size|]; [destruct (Nat.ltb (size - 1) (length (ps_keys A st))); [destruct (ps_keys A st)|]|];
    cbn [ps_map ps_aux]; (split; [|reflexivity]); intros n' p' v' [E|Hin];
    try (injection E as <- <- <-; exact Hv);
    repeat (apply map_remove_in2 in Hin); apply H; exact Hin.
Qed.

Lemma map_get_in2 m k v : map_get m k = Some v -> exists k', key_eqb k k' = true /\ In (k', v) m.
Proof.
  induction m as [|[k' v'] m IH]; cbn; [discriminate|]. destruct (key_eqb k k') eqn:E.
  - intros [= ->]. eauto.
  - intros H. destruct (IH H) as (k2 & ? & ?). eauto.
Qed.

Lemma key_eqb_true2 a b : key_eqb a b = true -> a = b.
Proof.
  destruct a as [[n1 p1] d1], b as [[n2 p2] d2]. cbn. intros H.
  apply andb_true_iff in H as [H H3]. apply andb_true_iff in H as [H1 H2].
  apply Nat.eqb_eq in H1, H2. apply eqb_prop in H3. now subst.
Qed.

(* positions never go back (NonNull.run_adv with the empty certificate) *)
Lemma run_le f e p rf st fo q st' : run f e p rf st = (Ok fo q, st') -> p <= q.
Proof.
  intros H.
  assert (CO : cert_ok g [] [] = true) by reflexivity.
  assert (PP : forall i a p n, In i [] -> prim i a p = Some n -> 1 <= n) by (intros ? ? ? ? []).
  assert (MN : memo_nn A [] st) by (intros n0 p0 d fo0 len _ Hc; destruct n0; discriminate).
  pose proof (run_adv A prim act cond dirflag inp g [] [] PP CO f e p rf st MN) as [_ Hq].
  rewrite H in Hq. cbn in Hq. tauto.
Qed.

Lemma nth_g' n pr : nth_error g n = Some pr -> nth_error g' n = Some (plain_prod pr).
Proof. intros H. unfold g'. now apply map_nth_error. Qed.

Lemma nth_g'_none n : nth_error g n = None -> nth_error g' n = None.
Proof. intros H. unfold g'. apply nth_error_None. rewrite map_length. now apply nth_error_None. Qed.

(* the three list combinators, as the interpreter writes them *)
Definition seq_go (R : fexp -> nat -> list nat -> pstate -> res * pstate) (p : nat) (rf : list nat) :=
  fix go (l : list fexp) (q : nat) (acc : list tree) (st : pstate) : res * pstate :=
    match l with
    | [] => (Ok acc q, st)
    | x :: r =>
        let '(rx, st') := R x q (rf_at p q rf) st in
        match rx with
        | Ok fo q' => go r q' (acc ++ fo) st'
        | _ => (rx, st')
        end
    end.
Definition alt_go (R : fexp -> nat -> list nat -> pstate -> res * pstate) (p : nat) (rf : list nat) :=
  fix go (l : list fexp) (st : pstate) : res * pstate :=
    match l with
    | [] => (Err, st)
    | x :: r =>
        let '(rx, st') := R x p rf st in
        match rx with
        | Err => go r st'
        | _ => (rx, st')
        end
    end.
Definition tmpl_go (R : fexp -> nat -> list nat -> pstate -> res * pstate) (t : tmpl) (p : nat) (rf : list nat) :=
  fix go (l : list fexp) (q : nat) (env : list (list tree)) (st : pstate) : res * pstate :=
    match l with
    | [] => (Ok (build t env) q, st)
    | x :: r =>
        let '(rx, st') := R x q (rf_at p q rf) st in
        match rx with
        | Ok fo q' => go r q' (env ++ [fo]) st'
        | _ => (rx, st')
        end
    end.

Lemma run_seq f es p rf st : run (S f) (FSeq es) p rf st = seq_go (run f) p rf es p [] st.
Proof. reflexivity. Qed.
Lemma run'_seq f es p rf st : run' (S f) (FSeq es) p rf st = seq_go (run' f) p rf es p [] st.
Proof. reflexivity. Qed.
Lemma run_alt f es p rf st : run (S f) (FAlt es) p rf st = alt_go (run f) p rf es st.
Proof. reflexivity. Qed.
Lemma run'_alt f es p rf st : run' (S f) (FAlt es) p rf st = alt_go (run' f) p rf es st.
Proof. reflexivity. Qed.
Lemma run_tmpl f es t p rf st : run (S f) (FTmpl es t) p rf st = tmpl_go (run f) t p rf es p [] st.
Proof. reflexivity. Qed.
Lemma run'_tmpl f es t p rf st : run' (S f) (FTmpl es t) p rf st = tmpl_go (run' f) t p rf es p [] st.
Proof. reflexivity. Qed.

Definition good (a : A) (e : fexp) (p : nat) (r : res) (st' : pstate) : Prop :=
  evals a e p r /\ msound st' /\ ps_aux A st' = a.

(* helper: a fuel beyond the threshold is a successor *)
Lemma ge_S f0 fm : S f0 <= fm -> exists k, fm = S k /\ f0 <= k.
Proof. intros H. destruct fm as [|k]; [lia|]. exists k. split; [reflexivity|lia]. Qed.

Theorem memo_transparent : forall f e p rf st r st',
  run f e p rf st = (r, st') -> r <> Fuel -> msound st -> good (ps_aux A st) e p r st'.
Proof.
  induction f as [|f IH]; intros e p rf st r st' H Hr Hm.
  { cbn in H. injection H as <- <-. congruence. }
  set (a := ps_aux A st) in *.
  destruct e.
  - (* FCall *)
    cbn [Peg.run] in H.
    destruct (nth_error g n) as [pr|] eqn:En.
    2:{ injection H as <- <-. split; [|split; [exact Hm|reflexivity]].
        exists 1. intros fm rf2 Hf. destruct (ge_S _ _ Hf) as (k & -> & _). cbn [Peg.run]. now rewrite (nth_g'_none _ En). }
    rewrite (no_rec _ _ En) in H.
    assert (Hcall : forall r0, evals a (p_body pr) p r0 -> evals a (FCall n) p r0).
    { intros r0 (f0 & Hf0). exists (S f0). intros fm rf2 Hf. destruct (ge_S _ _ Hf) as (k & -> & Hk).
      cbn [Peg.run]. rewrite (nth_g' _ _ En). cbn [plain_prod p_packrat p_rec p_body]. now apply Hf0. }
    destruct (p_packrat pr).
    + destruct (map_get (ps_map A st) (n, p, dirflag (ps_aux A st))) as [v|] eqn:Eg.
      * apply map_get_in2 in Eg as (k' & Ek & Hin). apply key_eqb_true2 in Ek. subst k'.
        pose proof (Hm _ _ _ Hin) as Hv. fold a in Hv.
        destruct v as [[fo len]|]; injection H as <- <-; (split; [exact Hv|split; [exact Hm|reflexivity]]).
      * destruct (run f (p_body pr) p rf st) as [r0 s0] eqn:E.
        destruct r0 as [fo q| |].
        -- destruct (IH _ _ _ _ _ _ E ltac:(discriminate) Hm) as (Ev & Ms & Ax). fold a in Ev, Ax.
           injection H as <- <-.
           pose proof (run_le _ _ _ _ _ _ _ _ E) as Hle.
           assert (Ev2 : evals (ps_aux A s0) (FCall n) p (res_of p (Some (fo, q - p)))).
           { rewrite Ax. cbn [res_of]. replace (p + (q - p)) with q by lia. now apply Hcall. }
           destruct (insert_msound s0 n p (Some (fo, q - p)) Ms Ev2) as [M2 A2].
           split; [now apply Hcall|]. split; [exact M2|congruence].
        -- destruct (IH _ _ _ _ _ _ E ltac:(discriminate) Hm) as (Ev & Ms & Ax). fold a in Ev, Ax.
           injection H as <- <-.
           assert (Ev2 : evals (ps_aux A s0) (FCall n) p (res_of p None)) by (rewrite Ax; now apply Hcall).
           destruct (insert_msound s0 n p None Ms Ev2) as [M2 A2].
           split; [now apply Hcall|]. split; [exact M2|congruence].
        -- injection H as <- <-. congruence.
    + destruct (IH _ _ _ _ _ _ H Hr Hm) as (Ev & Ms & Ax). fold a in Ev, Ax. split; [now apply Hcall|auto].
  - (* FPrim *)
    cbn [Peg.run] in H. fold a in H.
    split; [|split; [destruct (prim i a p); injection H as <- <-; exact Hm|destruct (prim i a p); now injection H as <- <-]].
    exists 1. intros fm rf2 Hf. destruct (ge_S _ _ Hf) as (k & -> & _). cbn [Peg.run ref_st ps_aux].
    destruct (prim i a p); now injection H as <- <-.
  - (* FLeaf *)
    cbn [Peg.run] in H. destruct (run f e p rf st) as [r0 s0] eqn:E.
    assert (N0 : r0 <> Fuel) by (intros ->; injection H as <- <-; congruence).
    destruct (IH _ _ _ _ _ _ E N0 Hm) as ((f0 & Ev) & Ms & Ax). fold a in Ev, Ax.
    assert (Hst : st' = s0) by (destruct r0; now injection H).
    subst st'. split; [|auto].
    exists (S f0). intros fm rf2 Hf. destruct (ge_S _ _ Hf) as (k & -> & Hk). cbn [Peg.run]. rewrite (Ev k rf2 Hk).
    destruct r0; injection H as <-; reflexivity.
  - (* FSeq *)
    rewrite run_seq in H.
    assert (G : forall l q acc st0 , seq_go (run f) p rf l q acc st0 = (r, st') -> msound st0 -> ps_aux A st0 = a ->
                exists f0, (forall fm rf2, f0 <= fm -> seq_go (run' fm) p rf2 l q acc (ref_st a) = (r, ref_st a)) /\
                           msound st' /\ ps_aux A st' = a).
    { induction l as [|x l IHl]; intros q acc st0 Hg M0 A0; cbn [seq_go] in Hg.
      - injection Hg as <- <-. exists 0. split; [intros; reflexivity|auto].
      - destruct (run f x q (rf_at p q rf) st0) as [r0 s0] eqn:E.
        assert (N0 : r0 <> Fuel) by (intros ->; injection Hg as <- <-; congruence).
        destruct (IH _ _ _ _ _ _ E N0 M0) as ((f1 & Ev) & Ms & Ax). rewrite A0 in Ev, Ax.
        destruct r0 as [fo q'| |]; try congruence.
        + destruct (IHl _ _ _ Hg Ms Ax) as (f2 & G2 & M2 & A2).
          exists (max f1 f2). split; [|auto]. intros fm rf2 Hf. cbn [seq_go].
          rewrite (Ev fm (rf_at p q rf2)) by lia. apply G2. lia.
        + injection Hg as <- <-. exists f1. split; [|auto]. intros fm rf2 Hf. cbn [seq_go].
          now rewrite (Ev fm (rf_at p q rf2)) by lia. }
    destruct (G es p [] st H Hm eq_refl) as (f0 & G0 & M0 & A0). split; [|auto].
    exists (S f0). intros fm rf2 Hf. destruct (ge_S _ _ Hf) as (k & -> & Hk). rewrite run'_seq. now apply G0.
  - (* FAlt *)
    rewrite run_alt in H.
    assert (G : forall l st0, alt_go (run f) p rf l st0 = (r, st') -> msound st0 -> ps_aux A st0 = a ->
                exists f0, (forall fm rf2, f0 <= fm -> alt_go (run' fm) p rf2 l (ref_st a) = (r, ref_st a)) /\
                           msound st' /\ ps_aux A st' = a).
    { induction l as [|x l IHl]; intros st0 Hg M0 A0; cbn [alt_go] in Hg.
      - injection Hg as <- <-. exists 0. split; [intros; reflexivity|auto].
      - destruct (run f x p rf st0) as [r0 s0] eqn:E.
        assert (N0 : r0 <> Fuel) by (intros ->; injection Hg as <- <-; congruence).
        destruct (IH _ _ _ _ _ _ E N0 M0) as ((f1 & Ev) & Ms & Ax). rewrite A0 in Ev, Ax.
        destruct r0 as [fo q'| |]; try congruence.
        + injection Hg as <- <-. exists f1. split; [|auto]. intros fm rf2 Hf. cbn [alt_go].
          now rewrite (Ev fm rf2) by lia.
        + destruct (IHl _ Hg Ms Ax) as (f2 & G2 & M2 & A2).
          exists (max f1 f2). split; [|auto]. intros fm rf2 Hf. cbn [alt_go].
          rewrite (Ev fm rf2) by lia. apply G2. lia. }
    destruct (G es st H Hm eq_refl) as (f0 & G0 & M0 & A0). split; [|auto].
    exists (S f0). intros fm rf2 Hf. destruct (ge_S _ _ Hf) as (k & -> & Hk). rewrite run'_alt. now apply G0.
  - (* FOpt *)
    cbn [Peg.run] in H. destruct (run f e p rf st) as [r0 s0] eqn:E.
    assert (N0 : r0 <> Fuel) by (intros ->; injection H as <- <-; congruence).
    destruct (IH _ _ _ _ _ _ E N0 Hm) as ((f0 & Ev) & Ms & Ax). fold a in Ev, Ax.
    assert (Hst : st' = s0) by (destruct r0; now injection H).
    subst st'. split; [|auto].
    exists (S f0). intros fm rf2 Hf. destruct (ge_S _ _ Hf) as (k & -> & Hk). cbn [Peg.run]. rewrite (Ev k rf2 Hk).
    destruct r0; injection H as <-; reflexivity.
  - (* FMany0 *)
    cbn [Peg.run] in H. destruct (run f e p rf st) as [r0 s0] eqn:E.
    assert (N0 : r0 <> Fuel) by (intros ->; injection H as <- <-; congruence).
    destruct (IH _ _ _ _ _ _ E N0 Hm) as ((f0 & Ev) & Ms & Ax). fold a in Ev, Ax.
    destruct r0 as [fo q| |]; try congruence.
    + destruct (Nat.eqb q p) eqn:Eq.
      * injection H as <- <-. split; [|auto]. exists (S f0). intros fm rf2 Hf. destruct (ge_S _ _ Hf) as (k & -> & Hk).
        cbn [Peg.run]. rewrite (Ev k rf2 Hk), Eq. reflexivity.
      * destruct (run f (FMany0 e) q [] s0) as [r1 s1] eqn:E1.
        assert (N1 : r1 <> Fuel) by (intros ->; injection H as <- <-; congruence).
        destruct (IH _ _ _ _ _ _ E1 N1 Ms) as ((f1 & Ev1) & Ms1 & Ax1). rewrite Ax in Ev1, Ax1.
        assert (Hst : st' = s1) by (destruct r1; now injection H). subst st'.
        split; [|auto]. exists (S (max f0 f1)). intros fm rf2 Hf. destruct (ge_S _ _ Hf) as (k & -> & Hk).
        cbn [Peg.run]. rewrite (Ev k rf2) by lia. rewrite Eq. rewrite (Ev1 k []) by lia.
        destruct r1; injection H as <-; reflexivity.
    + injection H as <- <-. split; [|auto]. exists (S f0). intros fm rf2 Hf. destruct (ge_S _ _ Hf) as (k & -> & Hk).
      cbn [Peg.run]. now rewrite (Ev k rf2 Hk).
  - (* FMany1 *)
    cbn [Peg.run] in H. destruct (run f e p rf st) as [r0 s0] eqn:E.
    assert (N0 : r0 <> Fuel) by (intros ->; injection H as <- <-; congruence).
    destruct (IH _ _ _ _ _ _ E N0 Hm) as ((f0 & Ev) & Ms & Ax). fold a in Ev, Ax.
    destruct r0 as [fo q| |]; try congruence.
    + destruct (Nat.eqb q p) eqn:Eq.
      * injection H as <- <-. split; [|auto]. exists (S f0). intros fm rf2 Hf. destruct (ge_S _ _ Hf) as (k & -> & Hk).
        cbn [Peg.run]. rewrite (Ev k rf2 Hk), Eq. reflexivity.
      * destruct (run f (FMany0 e) q [] s0) as [r1 s1] eqn:E1.
        assert (N1 : r1 <> Fuel) by (intros ->; injection H as <- <-; congruence).
        destruct (IH _ _ _ _ _ _ E1 N1 Ms) as ((f1 & Ev1) & Ms1 & Ax1). rewrite Ax in Ev1, Ax1.
        assert (Hst : st' = s1) by (destruct r1; now injection H). subst st'.
        split; [|auto]. exists (S (max f0 f1)). intros fm rf2 Hf. destruct (ge_S _ _ Hf) as (k & -> & Hk).
        cbn [Peg.run]. rewrite (Ev k rf2) by lia. rewrite Eq. rewrite (Ev1 k []) by lia.
        destruct r1; injection H as <-; reflexivity.
    + injection H as <- <-. split; [|auto]. exists (S f0). intros fm rf2 Hf. destruct (ge_S _ _ Hf) as (k & -> & Hk).
      cbn [Peg.run]. now rewrite (Ev k rf2 Hk).
  - (* FManyTill *)
    cbn [Peg.run] in H. destruct (run f e2 p rf st) as [r0 s0] eqn:E.
    assert (N0 : r0 <> Fuel) by (intros ->; injection H as <- <-; congruence).
    destruct (IH _ _ _ _ _ _ E N0 Hm) as ((f0 & Ev) & Ms & Ax). fold a in Ev, Ax.
    destruct r0 as [fo q| |]; try congruence.
    + injection H as <- <-. split; [|auto]. exists (S f0). intros fm rf2 Hf. destruct (ge_S _ _ Hf) as (k & -> & Hk).
      cbn [Peg.run]. now rewrite (Ev k rf2 Hk).
    + destruct (run f e1 p rf s0) as [r1 s1] eqn:E1.
      assert (N1 : r1 <> Fuel) by (intros ->; injection H as <- <-; congruence).
      destruct (IH _ _ _ _ _ _ E1 N1 Ms) as ((f1 & Ev1) & Ms1 & Ax1). rewrite Ax in Ev1, Ax1.
      destruct r1 as [fo q| |]; try congruence.
      * destruct (Nat.eqb q p) eqn:Eq.
        -- injection H as <- <-. split; [|auto]. exists (S (max f0 f1)). intros fm rf2 Hf. destruct (ge_S _ _ Hf) as (k & -> & Hk).
           cbn [Peg.run]. rewrite (Ev k rf2) by lia. rewrite (Ev1 k rf2) by lia. rewrite Eq. reflexivity.
        -- destruct (run f (FManyTill e1 e2) q [] s1) as [r2 s2] eqn:E2.
           assert (N2 : r2 <> Fuel) by (intros ->; injection H as <- <-; congruence).
           destruct (IH _ _ _ _ _ _ E2 N2 Ms1) as ((f2 & Ev2) & Ms2 & Ax2). rewrite Ax1 in Ev2, Ax2.
           assert (Hst : st' = s2) by (destruct r2; now injection H). subst st'.
           split; [|auto]. exists (S (max f0 (max f1 f2))). intros fm rf2 Hf. destruct (ge_S _ _ Hf) as (k & -> & Hk).
           cbn [Peg.run]. rewrite (Ev k rf2) by lia. rewrite (Ev1 k rf2) by lia. rewrite Eq. rewrite (Ev2 k []) by lia.
           destruct r2; injection H as <-; reflexivity.
      * injection H as <- <-. split; [|auto]. exists (S (max f0 f1)). intros fm rf2 Hf. destruct (ge_S _ _ Hf) as (k & -> & Hk).
        cbn [Peg.run]. rewrite (Ev k rf2) by lia. now rewrite (Ev1 k rf2) by lia.
  - (* FPeek *)
    cbn [Peg.run] in H. destruct (run f e p rf st) as [r0 s0] eqn:E.
    assert (N0 : r0 <> Fuel) by (intros ->; injection H as <- <-; congruence).
    destruct (IH _ _ _ _ _ _ E N0 Hm) as ((f0 & Ev) & Ms & Ax). fold a in Ev, Ax.
    assert (Hst : st' = s0) by (destruct r0; now injection H).
    subst st'. split; [|auto].
    exists (S f0). intros fm rf2 Hf. destruct (ge_S _ _ Hf) as (k & -> & Hk). cbn [Peg.run]. rewrite (Ev k rf2 Hk).
    destruct r0; injection H as <-; reflexivity.
  - (* FNot *)
    cbn [Peg.run] in H. destruct (run f e p rf st) as [r0 s0] eqn:E.
    assert (N0 : r0 <> Fuel) by (intros ->; injection H as <- <-; congruence).
    destruct (IH _ _ _ _ _ _ E N0 Hm) as ((f0 & Ev) & Ms & Ax). fold a in Ev, Ax.
    assert (Hst : st' = s0) by (destruct r0; now injection H).
    subst st'. split; [|auto].
    exists (S f0). intros fm rf2 Hf. destruct (ge_S _ _ Hf) as (k & -> & Hk). cbn [Peg.run]. rewrite (Ev k rf2 Hk).
    destruct r0; injection H as <-; reflexivity.
  - (* FEof *)
    cbn [Peg.run] in H. split; [|destruct (Nat.leb _ _); injection H as <- <-; auto].
    exists 1. intros fm rf2 Hf. destruct (ge_S _ _ Hf) as (k & -> & _). cbn [Peg.run].
    destruct (Nat.leb _ _); now injection H as <- <-.
  - (* FTmpl *)
    rewrite run_tmpl in H.
    assert (G : forall l q env st0 , tmpl_go (run f) t p rf l q env st0 = (r, st') -> msound st0 -> ps_aux A st0 = a ->
                exists f0, (forall fm rf2, f0 <= fm -> tmpl_go (run' fm) t p rf2 l q env (ref_st a) = (r, ref_st a)) /\
                           msound st' /\ ps_aux A st' = a).
    { induction l as [|x l IHl]; intros q env st0 Hg M0 A0; cbn [tmpl_go] in Hg.
      - injection Hg as <- <-. exists 0. split; [intros; reflexivity|auto].
      - destruct (run f x q (rf_at p q rf) st0) as [r0 s0] eqn:E.
        assert (N0 : r0 <> Fuel) by (intros ->; injection Hg as <- <-; congruence).
        destruct (IH _ _ _ _ _ _ E N0 M0) as ((f1 & Ev) & Ms & Ax). rewrite A0 in Ev, Ax.
        destruct r0 as [fo q'| |]; try congruence.
        + destruct (IHl _ _ _ Hg Ms Ax) as (f2 & G2 & M2 & A2).
          exists (max f1 f2). split; [|auto]. intros fm rf2 Hf. cbn [tmpl_go].
          rewrite (Ev fm (rf_at p q rf2)) by lia. apply G2. lia.
        + injection Hg as <- <-. exists f1. split; [|auto]. intros fm rf2 Hf. cbn [tmpl_go].
          now rewrite (Ev fm (rf_at p q rf2)) by lia. }
    destruct (G es p [] st H Hm eq_refl) as (f0 & G0 & M0 & A0). split; [|auto].
    exists (S f0). intros fm rf2 Hf. destruct (ge_S _ _ Hf) as (k & -> & Hk). rewrite run'_tmpl. now apply G0.
  - (* FAct *)
    cbn [Peg.run] in H. rewrite set_aux_id in H by apply act_id. injection H as <- <-.
    split; [|auto]. exists 1. intros fm rf2 Hf. destruct (ge_S _ _ Hf) as (k & -> & _). cbn [Peg.run].
    now rewrite ref_set_aux.
  - (* FWrap *)
    cbn [Peg.run] in H. rewrite set_aux_id in H by apply act_id.
    destruct (run f e p rf st) as [r0 s0] eqn:E. rewrite set_aux_id in H by apply act_id. injection H as <- <-.
    destruct (IH _ _ _ _ _ _ E Hr Hm) as ((f0 & Ev) & Ms & Ax). fold a in Ev, Ax. split; [|auto].
    exists (S f0). intros fm rf2 Hf. destruct (ge_S _ _ Hf) as (k & -> & Hk). cbn [Peg.run].
    rewrite ref_set_aux, (Ev k rf2 Hk). now rewrite ref_set_aux.
  - (* FIf *)
    cbn [Peg.run] in H. fold a in H.
    destruct (cond c a) eqn:Ec.
    + destruct (IH _ _ _ _ _ _ H Hr Hm) as ((f0 & Ev) & Ms & Ax). fold a in Ev, Ax. split; [|auto].
      exists (S f0). intros fm rf2 Hf. destruct (ge_S _ _ Hf) as (k & -> & Hk). cbn [Peg.run ref_st ps_aux]. rewrite Ec. now apply Ev.
    + destruct (IH _ _ _ _ _ _ H Hr Hm) as ((f0 & Ev) & Ms & Ax). fold a in Ev, Ax. split; [|auto].
      exists (S f0). intros fm rf2 Hf. destruct (ge_S _ _ Hf) as (k & -> & Hk). cbn [Peg.run ref_st ps_aux]. rewrite Ec. now apply Ev.
  - (* FBad *)
    cbn [Peg.run] in H. injection H as <- <-. split; [|auto].
    exists 1. intros fm rf2 Hf. destruct (ge_S _ _ Hf) as (k & -> & _). reflexivity.
Qed.

(* the empty memo is sound *)
Lemma empty_msound cap a : msound (mkPst A [] [] cap a).
Proof. intros n p v []. Qed.

(* Packrat correctness: two memoised runs of the same expression from the same position -- whatever
   their capacities, fuels and guard flags -- that both finish return the same result, namely the
   result of the memo-free interpreter. *)
Corollary capacity_independent e p a f1 rf1 cap1 r1 s1 f2 rf2 cap2 r2 s2 :
  run f1 e p rf1 (mkPst A [] [] cap1 a) = (r1, s1) -> r1 <> Fuel ->
  run f2 e p rf2 (mkPst A [] [] cap2 a) = (r2, s2) -> r2 <> Fuel -> r1 = r2.
Proof.
  intros H1 N1 H2 N2.
  destruct (memo_transparent _ _ _ _ _ _ _ H1 N1 (empty_msound cap1 a)) as ((k1 & E1) & _).
  destruct (memo_transparent _ _ _ _ _ _ _ H2 N2 (empty_msound cap2 a)) as ((k2 & E2) & _).
  cbn [ps_aux] in E1, E2.
  pose proof (E1 (max k1 k2) [] ltac:(lia)) as X1. pose proof (E2 (max k1 k2) [] ltac:(lia)) as X2.
  rewrite X1 in X2. now injection X2.
Qed.
End Transp.
