(* Concrete syntax trees as the traversal code sees them: a node has a kind and an ordered
   list of children (what `next()` returns); a `Locate` is a leaf. *)
From Coq Require Export List NArith Bool.
Export ListNotations.
Open Scope N_scope.

Record loc := mkLoc { l_off : N; l_len : N; l_line : N }.

Inductive tree :=
| Leaf (l : loc)
| Node (k : N) (cs : list tree).

Definition children (t : tree) : list tree :=
  match t with Leaf _ => [] | Node _ cs => cs end.

(* kind 0 is reserved for Locate *)
Definition kind (t : tree) : N := match t with Leaf _ => 0 | Node k _ => k end.

Fixpoint preorder (t : tree) : list tree :=
  t :: match t with
       | Leaf _ => []
       | Node _ cs => (fix go (l : list tree) : list tree :=
                         match l with [] => [] | x :: r => preorder x ++ go r end) cs
       end.

Inductive ev := Enter (t : tree) | Leave (t : tree).

Fixpoint events (t : tree) : list ev :=
  Enter t :: match t with
             | Leaf _ => []
             | Node _ cs => (fix go (l : list tree) : list ev :=
                               match l with [] => [] | x :: r => events x ++ go r end) cs
             end ++ [Leave t].

Fixpoint size (t : tree) : nat :=
  S match t with
    | Leaf _ => O
    | Node _ cs => (fix go (l : list tree) : nat :=
                      match l with [] => O | x :: r => (size x + go r)%nat end) cs
    end.

Fixpoint leaves (t : tree) : list loc :=
  match t with
  | Leaf l => [l]
  | Node _ cs => (fix go (l : list tree) : list loc :=
                    match l with [] => [] | x :: r => leaves x ++ go r end) cs
  end.
