(* Proofs about the traversal model (Iter.v): for ALL trees (any arity, empty child lists). *)
From SV Require Import Iter.
From Coq Require Import Lia.

Lemma preorder_eq t : preorder t = t :: flat_map preorder (children t).
Proof.
  destruct t as [l|k cs]; reflexivity.
Qed.

Lemma events_eq t : events t = Enter t :: flat_map events (children t) ++ [Leave t].
Proof.
  destruct t as [l|k cs]; reflexivity.
Qed.

Definition fsize (s : list tree) : nat := list_sum (map size s).

Lemma size_eq t : size t = S (fsize (children t)).
Proof.
  destruct t as [l|k cs]; cbn [size children]; [reflexivity|].
  f_equal. unfold fsize. induction cs as [|x r IH]; cbn [map list_sum fold_right]; [reflexivity|]. now rewrite IH.
Qed.

Lemma fsize_app a b : fsize (a ++ b) = (fsize a + fsize b)%nat.
Proof. unfold fsize. rewrite map_app, list_sum_app. reflexivity. Qed.

Lemma fsize_cons x r : fsize (x :: r) = (size x + fsize r)%nat.
Proof. reflexivity. Qed.

Lemma vpop_rev {A} (x : A) r : vpop (rev (x :: r)) = Some (x, rev r).
Proof. unfold vpop. rewrite rev_involutive. reflexivity. Qed.

Lemma vpop_nil {A} : vpop (@nil A) = None.
Proof. reflexivity. Qed.

(* The Vec stack, read from its top, is the list of subtrees still to be visited. *)
Lemma iter_run_stack : forall fuel s,
  (fsize s < fuel)%nat -> iter_run fuel (rev s) = flat_map preorder s.
Proof.
  induction fuel as [|f IH]; intros s H; [lia|].
  destruct s as [|x r].
  - reflexivity.
  - cbn [iter_run]. unfold iter_next. rewrite vpop_rev.
    rewrite <- rev_app_distr. rewrite IH.
    + cbn [flat_map]. rewrite (preorder_eq x), flat_map_app. reflexivity.
    + rewrite fsize_app. rewrite fsize_cons, (size_eq x) in H. lia.
Qed.

Theorem iter_new_preorder nodes fuel :
  (fsize nodes < fuel)%nat -> iter_run fuel (iter_new nodes) = flat_map preorder nodes.
Proof. apply iter_run_stack. Qed.

Theorem node_iter_preorder t fuel :
  (size t < fuel)%nat -> iter_run fuel (node_into_iter t) = preorder t.
Proof.
  intros H. unfold node_into_iter. rewrite iter_run_stack.
  - cbn [flat_map]. now rewrite app_nil_r.
  - rewrite fsize_cons. unfold fsize; cbn. lia.
Qed.

(* the iterator is exhausted afterwards: more fuel yields nothing more (same lemma), and
   the run ends because the stack is empty *)

(* Event iterator *)
Definition ev_out (e : ev) : list ev :=
  match e with Enter x => events x | Leave x => [Leave x] end.

Definition esz (e : ev) : nat :=
  match e with Enter x => (2 * size x)%nat | Leave _ => 1%nat end.

Definition esum (s : list ev) : nat := list_sum (map esz s).

Lemma esum_cons e r : esum (e :: r) = (esz e + esum r)%nat.
Proof. reflexivity. Qed.

Lemma esum_app a b : esum (a ++ b) = (esum a + esum b)%nat.
Proof. unfold esum. rewrite map_app, list_sum_app. reflexivity. Qed.

Lemma esum_enter cs : esum (map Enter cs) = (2 * fsize cs)%nat.
Proof.
  induction cs as [|x r IH]; [reflexivity|].
  cbn [map]. rewrite esum_cons, fsize_cons, IH. cbn [esz]. lia.
Qed.

Lemma flat_map_ev_enter cs : flat_map ev_out (map Enter cs) = flat_map events cs.
Proof. induction cs as [|x r IH]; cbn [map flat_map ev_out]; congruence. Qed.

Lemma ev_run_stack : forall fuel s,
  (esum s < fuel)%nat -> ev_run fuel (rev s) = flat_map ev_out s.
Proof.
  induction fuel as [|f IH]; intros s H; [lia|].
  destruct s as [|e r].
  - reflexivity.
  - cbn [ev_run]. unfold ev_next. rewrite vpop_rev.
    destruct e as [x|x].
    + replace ((rev r ++ [Leave x]) ++ rev (map Enter (children x)))
        with (rev (map Enter (children x) ++ Leave x :: r)).
      2:{ rewrite rev_app_distr. cbn [rev]. reflexivity. }
      rewrite IH.
      * cbn [flat_map ev_out]. rewrite (events_eq x), flat_map_app, flat_map_ev_enter.
        cbn [flat_map ev_out app]. rewrite <- app_assoc. reflexivity.
      * rewrite esum_app, esum_enter, esum_cons. rewrite esum_cons in H. cbn [esz] in *.
        rewrite (size_eq x) in H. lia.
    + rewrite IH.
      * reflexivity.
      * rewrite esum_cons in H. cbn [esz] in H. lia.
Qed.

Theorem node_events t fuel :
  (2 * size t < fuel)%nat -> ev_run fuel (iter_event (node_into_iter t)) = events t.
Proof.
  intros H. unfold iter_event, node_into_iter. cbn [rev app map].
  change [Enter t] with (rev [Enter t]). rewrite ev_run_stack.
  - cbn [flat_map ev_out]. now rewrite app_nil_r.
  - rewrite esum_cons. cbn [esz]. unfold esum; cbn. lia.
Qed.

Theorem iter_events nodes fuel :
  (2 * fsize nodes < fuel)%nat ->
  ev_run fuel (iter_event (iter_new nodes)) = flat_map events nodes.
Proof.
  intros H. unfold iter_event, iter_new. rewrite map_rev, ev_run_stack.
  - apply flat_map_ev_enter.
  - rewrite esum_enter. lia.
Qed.

(* Induction principle for the nested inductive [tree]. *)
Section tree_ind2.
  Variable P : tree -> Prop.
  Hypothesis HL : forall l, P (Leaf l).
  Hypothesis HN : forall k cs, Forall P cs -> P (Node k cs).
  Fixpoint tree_ind2 (t : tree) : P t :=
    match t with
    | Leaf l => HL l
    | Node k cs =>
        HN k cs ((fix go (l : list tree) : Forall P l :=
                    match l with
                    | [] => Forall_nil _
                    | x :: r => Forall_cons _ (tree_ind2 x) (go r)
                    end) cs)
    end.
End tree_ind2.

(* The Enter subsequence of the event view is the plain iteration. *)
Definition enters (l : list ev) : list tree :=
  flat_map (fun e => match e with Enter x => [x] | Leave _ => [] end) l.

Lemma enters_app a b : enters (a ++ b) = enters a ++ enters b.
Proof. unfold enters. apply flat_map_app. Qed.

Theorem enters_events t : enters (events t) = preorder t.
Proof.
  induction t as [l|k cs IH] using tree_ind2.
  - reflexivity.
  - rewrite events_eq, preorder_eq. cbn [children].
    change (enters (Enter (Node k cs) :: ?x)) with (Node k cs :: enters x).
    cbn [enters flat_map app]. fold (enters (flat_map events cs ++ [Leave (Node k cs)])).
    rewrite enters_app. cbn [enters flat_map app]. rewrite app_nil_r. f_equal.
    induction IH as [|x r Hx _ IHr]; cbn [flat_map]; [reflexivity|].
    rewrite enters_app. congruence.
Qed.

(* Properly nested: every Enter has exactly one matching Leave, after its descendants. *)
Inductive nested : list ev -> Prop :=
| nested_nil : nested []
| nested_node t inner rest :
    nested inner -> nested rest -> nested (Enter t :: inner ++ Leave t :: rest).

Lemma nested_app a b : nested a -> nested b -> nested (a ++ b).
Proof.
  induction 1 as [|t inner rest Hi _ Hr IH]; intros Hb; cbn [app]; auto.
  rewrite <- app_assoc. cbn [app]. constructor; auto.
Qed.

Theorem nested_events t : nested (events t).
Proof.
  induction t as [l|k cs IH] using tree_ind2.
  - apply (nested_node (Leaf l) [] []); constructor.
  - rewrite events_eq. cbn [children].
    apply (nested_node (Node k cs) (flat_map events cs) []); [|constructor].
    induction IH as [|x r Hx _ IHr]; cbn [flat_map]; [constructor|].
    apply nested_app; auto.
Qed.

Theorem events_length t : length (events t) = (2 * size t)%nat.
Proof.
  induction t as [l|k cs IH] using tree_ind2.
  - reflexivity.
  - rewrite events_eq, size_eq. cbn [children length]. rewrite app_length. cbn [length].
    assert (H : length (flat_map events cs) = (2 * fsize cs)%nat).
    { induction IH as [|x r Hx _ IHr]; cbn [flat_map]; [reflexivity|].
      rewrite app_length, fsize_cons. lia. }
    lia.
Qed.

(* unwrap_node! over an iteration is `find` over the pre-order *)
Theorem unwrap_node_spec ks t fuel :
  (size t < fuel)%nat ->
  unwrap_node ks (iter_run fuel (node_into_iter t)) =
  find (fun n => existsb (N.eqb (kind n)) ks) (preorder t).
Proof. intros H. now rewrite node_iter_preorder. Qed.

(* get_str_trim *)
Definition ext (acc : option (N * N)) (l : loc) : option (N * N) :=
  match acc with
  | None => Some (l_off l, l_off l + l_len l)
  | Some (b, _) => Some (b, l_off l + l_len l)
  end.

Definition extend (acc : option (N * N)) (ls : list loc) : option (N * N) := fold_left ext ls acc.

Fixpoint nws_leaves (ws : N) (t : tree) : list loc :=
  match t with
  | Leaf l => [l]
  | Node k cs =>
      if k =? ws then []
      else (fix go (l : list tree) : list loc :=
              match l with [] => [] | x :: r => nws_leaves ws x ++ go r end) cs
  end.

Lemma nws_leaves_eq ws t :
  nws_leaves ws t = match t with
                    | Leaf l => [l]
                    | Node k cs => if k =? ws then [] else flat_map (nws_leaves ws) cs
                    end.
Proof.
  destruct t as [l|k cs]; cbn [nws_leaves]; [reflexivity|].
  destruct (k =? ws); reflexivity.
Qed.

Lemma extend_app acc a b : extend (extend acc a) b = extend acc (a ++ b).
Proof. unfold extend. now rewrite fold_left_app. Qed.

Definition trim_fold ws counter evs st := fold_left (trim_step ws counter) evs st.

Lemma trim_fold_app ws c a b st :
  trim_fold ws c (a ++ b) st = trim_fold ws c b (trim_fold ws c a st).
Proof. unfold trim_fold. apply fold_left_app. Qed.

(* counter version: exact for every tree *)
Lemma trim_counter ws t : forall n acc,
  trim_fold ws true (events t) (n, acc) =
  (n, match n with O => extend acc (nws_leaves ws t) | S _ => acc end).
Proof.
  induction t as [l|k cs IH] using tree_ind2; intros n acc.
  - cbn. destruct n; reflexivity.
  - rewrite events_eq, nws_leaves_eq. cbn [children].
    change (Enter (Node k cs) :: flat_map events cs ++ [Leave (Node k cs)])
      with ([Enter (Node k cs)] ++ flat_map events cs ++ [Leave (Node k cs)]).
    rewrite !trim_fold_app.
    assert (Hcs : forall m a, trim_fold ws true (flat_map events cs) (m, a) =
              (m, match m with O => extend a (flat_map (nws_leaves ws) cs) | S _ => a end)).
    { induction IH as [|x r Hx _ IHr]; intros m a; cbn [flat_map].
      - destruct m; reflexivity.
      - rewrite trim_fold_app, Hx, IHr. destruct m; [|reflexivity].
        now rewrite extend_app. }
    unfold trim_fold at 3. cbn [fold_left trim_step].
    destruct (N.eqb_spec k ws) as [->|Hk].
    + rewrite Hcs. unfold trim_fold; cbn [fold_left trim_step]. rewrite N.eqb_refl.
      cbn [pred]. destruct n; reflexivity.
    + rewrite Hcs. unfold trim_fold; cbn [fold_left trim_step].
      destruct (N.eqb_spec k ws); [contradiction|]. reflexivity.
Qed.

Theorem get_str_trim_counter_spec ws t :
  get_str_trim_range ws true (events t) = extend None (nws_leaves ws t).
Proof.
  unfold get_str_trim_range. change (fold_left (trim_step ws true)) with (trim_fold ws true).
  now rewrite trim_counter.
Qed.

(* flag version (the code as written): exact when WhiteSpace nodes do not nest *)
Fixpoint ws_free (ws : N) (t : tree) : Prop :=
  match t with
  | Leaf _ => True
  | Node k cs => k <> ws /\ (fix go (l : list tree) : Prop :=
                               match l with [] => True | x :: r => ws_free ws x /\ go r end) cs
  end.

Fixpoint ws_flat (ws : N) (t : tree) : Prop :=
  match t with
  | Leaf _ => True
  | Node k cs =>
      (fix go (l : list tree) : Prop :=
         match l with
         | [] => True
         | x :: r => (if k =? ws then ws_free ws x else ws_flat ws x) /\ go r
         end) cs
  end.

Lemma trim_flag_inside ws t : forall n acc,
  ws_free ws t -> trim_fold ws false (events t) (S n, acc) = (S n, acc).
Proof.
  induction t as [l|k cs IH] using tree_ind2; intros n acc Hf.
  - reflexivity.
  - rewrite events_eq. cbn [children].
    change (Enter (Node k cs) :: flat_map events cs ++ [Leave (Node k cs)])
      with ([Enter (Node k cs)] ++ flat_map events cs ++ [Leave (Node k cs)]).
    rewrite !trim_fold_app. cbn [ws_free] in Hf. destruct Hf as [Hk Hcs].
    unfold trim_fold at 3. cbn [fold_left trim_step].
    destruct (N.eqb_spec k ws); [contradiction|].
    assert (H : trim_fold ws false (flat_map events cs) (S n, acc) = (S n, acc)).
    { induction IH as [|x r Hx _ IHr]; cbn [flat_map]; [reflexivity|].
      destruct Hcs as [H1 H2]. rewrite trim_fold_app, Hx, IHr; auto. }
    rewrite H. unfold trim_fold; cbn [fold_left trim_step].
    destruct (N.eqb_spec k ws); [contradiction|]. reflexivity.
Qed.

Lemma trim_flag_outside ws t : forall acc,
  ws_flat ws t ->
  trim_fold ws false (events t) (O, acc) = (O, extend acc (nws_leaves ws t)).
Proof.
  induction t as [l|k cs IH] using tree_ind2; intros acc Hf.
  - reflexivity.
  - rewrite events_eq, nws_leaves_eq. cbn [children].
    change (Enter (Node k cs) :: flat_map events cs ++ [Leave (Node k cs)])
      with ([Enter (Node k cs)] ++ flat_map events cs ++ [Leave (Node k cs)]).
    rewrite !trim_fold_app. cbn [ws_flat] in Hf.
    unfold trim_fold at 3. cbn [fold_left trim_step].
    destruct (N.eqb_spec k ws) as [->|Hk].
    + assert (H : trim_fold ws false (flat_map events cs) (1%nat, acc) = (1%nat, acc)).
      { clear IH. induction cs as [|x r IHr]; cbn [flat_map]; [reflexivity|].
        destruct Hf as [H1 H2]. rewrite trim_fold_app, trim_flag_inside, IHr; auto. }
      rewrite H. unfold trim_fold; cbn [fold_left trim_step]. rewrite N.eqb_refl. reflexivity.
    + assert (H : forall a, trim_fold ws false (flat_map events cs) (O, a) =
                            (O, extend a (flat_map (nws_leaves ws) cs))).
      { induction IH as [|x r Hx _ IHr]; intros a; cbn [flat_map]; [reflexivity|].
        destruct Hf as [H1 H2]. rewrite trim_fold_app, Hx, IHr; auto.
        now rewrite extend_app. }
      rewrite H. unfold trim_fold; cbn [fold_left trim_step].
      destruct (N.eqb_spec k ws); [contradiction|]. reflexivity.
Qed.

Theorem get_str_trim_flag_spec ws t :
  ws_flat ws t ->
  get_str_trim_range ws false (events t) = extend None (nws_leaves ws t).
Proof.
  intros H. unfold get_str_trim_range.
  change (fold_left (trim_step ws false)) with (trim_fold ws false).
  now rewrite trim_flag_outside.
Qed.

(* "from the first to the last" *)
Lemma extend_first_last l ls :
  extend None (l :: ls) = Some (l_off l, l_off (last ls l) + l_len (last ls l)).
Proof.
  unfold extend. cbn [fold_left ext].
  assert (H : forall ls e, fold_left ext ls (Some (l_off l, e)) =
            Some (l_off l, match ls with [] => e | _ => l_off (last ls l) + l_len (last ls l) end)).
  { induction ls0 as [|x r IH]; intros e; cbn [fold_left ext]; [reflexivity|].
    rewrite IH. destruct r; reflexivity. }
  rewrite H. destruct ls; reflexivity.
Qed.
