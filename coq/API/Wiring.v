(* Hand model of the entry points' building blocks (sv-parser/src/lib.rs, sv-parser-pp/src/
   preprocess.rs:148-195): what each core function receives is a record whose field names are the
   Rust parameter names, so that the generated wiring (Gen/Wiring.v, written by gen/svx_wiring.py from
   the current sources) binds arguments BY NAME: a call that passes two booleans in the wrong order
   produces a different record and the C20 equalities stop holding by computation.
   The cores themselves are parameters of the section: C20 is about the wrappers only. *)
From SV Require Export Bytes.

Section Cores.
Variables D I T Tree Err : Type.   (* define table, include paths, preprocessed text, syntax tree, error *)

Record pp_str_args := mkPS {
  ps_s : bytes; ps_path : bytes; ps_pre_defines : D; ps_include_paths : I;
  ps_ignore_include : bool; ps_strip_comments : bool; ps_resolve_depth : N; ps_include_depth : N }.

Record pp_inner_args := mkPI {
  pi_path : bytes; pi_pre_defines : D; pi_include_paths : I;
  pi_strip_comments : bool; pi_ignore_include : bool; pi_include_depth : N }.

Record pp_args := mkPP {
  pp_path : bytes; pp_pre_defines : D; pp_include_paths : I; pp_strip_comments : bool; pp_ignore_include : bool }.

Record parse_args := mkPA {
  pa_path : bytes; pa_pre_defines : D; pa_include_paths : I; pa_ignore_include : bool; pa_allow_incomplete : bool }.

Record parse_str_args := mkPSA {
  psa_s : bytes; psa_path : bytes; psa_pre_defines : D; psa_include_paths : I;
  psa_ignore_include : bool; psa_allow_incomplete : bool }.

Record parse_pp_args := mkPPA { ppa_text : T; ppa_defines : D; ppa_allow_incomplete : bool }.

Inductive fread := FOk (s : bytes) | FMissing | FNotUtf8.

Record cores := mkCores {
  k_read : bytes -> fread;                          (* File::open + read_to_string *)
  k_err_file : bytes -> Err;                        (* Error::File{path} *)
  k_err_utf8 : bytes -> Err;                        (* Error::ReadUtf8(path) *)
  k_pp_str : pp_str_args -> (T * D) + Err;          (* the body of preprocess_str *)
  k_sv : bool -> T -> Tree + Err;                   (* sv_parser / sv_parser_incomplete + error mapping *)
  k_lib : bool -> T -> Tree + Err }.

Definition and_then {A B} (r : A + Err) (f : A -> B + Err) : B + Err :=
  match r with inl a => f a | inr e => inr e end.

(* preprocess_inner: open, read, hand over *)
Definition with_file {B} (k : cores) (p : bytes) (f : bytes -> B + Err) : B + Err :=
  match k_read k p with
  | FOk s => f s
  | FMissing => inr (k_err_file k p)
  | FNotUtf8 => inr (k_err_utf8 k p)
  end.
End Cores.

Arguments mkPS {D I}. Arguments mkPI {D I}. Arguments mkPP {D I}. Arguments mkPA {D I}.
Arguments mkPSA {D I}. Arguments mkPPA {D T}.
Arguments ps_s {D I}. Arguments ps_path {D I}. Arguments ps_pre_defines {D I}. Arguments ps_include_paths {D I}.
Arguments ps_ignore_include {D I}. Arguments ps_strip_comments {D I}. Arguments ps_resolve_depth {D I}.
Arguments ps_include_depth {D I}.
Arguments pi_path {D I}. Arguments pi_pre_defines {D I}. Arguments pi_include_paths {D I}.
Arguments pi_strip_comments {D I}. Arguments pi_ignore_include {D I}. Arguments pi_include_depth {D I}.
Arguments pp_path {D I}. Arguments pp_pre_defines {D I}. Arguments pp_include_paths {D I}.
Arguments pp_strip_comments {D I}. Arguments pp_ignore_include {D I}.
Arguments pa_path {D I}. Arguments pa_pre_defines {D I}. Arguments pa_include_paths {D I}.
Arguments pa_ignore_include {D I}. Arguments pa_allow_incomplete {D I}.
Arguments psa_s {D I}. Arguments psa_path {D I}. Arguments psa_pre_defines {D I}. Arguments psa_include_paths {D I}.
Arguments psa_ignore_include {D I}. Arguments psa_allow_incomplete {D I}.
Arguments ppa_text {D T}. Arguments ppa_defines {D T}. Arguments ppa_allow_incomplete {D T}.
Arguments k_read {D I T Tree Err}. Arguments k_err_file {D I T Tree Err}. Arguments k_err_utf8 {D I T Tree Err}.
Arguments k_pp_str {D I T Tree Err}. Arguments k_sv {D I T Tree Err}. Arguments k_lib {D I T Tree Err}.
Arguments and_then {Err A B}. Arguments with_file {D I T Tree Err B}.
