(* Per-thread state of the parser stack and the two facts C07 and C19 rest on.
   The list of state cells, the entry points and what init() clears are regenerated from the
   sources (Gen/GenStatics.v); this file holds the model and the checkers. *)
From Coq Require Export List NArith Bool String.
Export ListNotations.

Inductive cell_kind := ThreadLocal | GlobalStatic | GlobalStaticMut.
Record cell := mkCell { c_crate : string; c_name : string; c_kind : cell_kind; c_verif_only : bool }.

Definition is_tl (c : cell) : bool := match c_kind c with ThreadLocal => true | _ => false end.

(* C19's premise: no state cell is shared between threads *)
Definition all_thread_local (cs : list cell) : bool := forallb is_tl cs.

(* C07's premise: every entry starts with init(), and init() clears every cell except the ones
   listed as result-irrelevant:
     RECURSIVE_STORAGE  nom-recursive's parser-name -> bit-index table: it only grows, and a result
                        does not depend on which index a name got (assumption [ridx_irrelevant] below)
     TRACABLE_STORAGE   nom-tracable's formatting/histogram state (trace feature; never read by a parser)
     VERIF_PARSE_LOG    the verification hook's own log (feature verif) *)
Definition exempt : list string := ["RECURSIVE_STORAGE"; "TRACABLE_STORAGE"; "VERIF_PARSE_LOG"]%string.

Definition mem_str (s : string) (l : list string) : bool := existsb (String.eqb s) l.

Definition init_complete (cs : list cell) (clears : list string) : bool :=
  forallb (fun c => mem_str (c_name c) clears || mem_str (c_name c) exempt) cs.

Definition entries_init (es : list (string * bool)) : bool :=
  forallb (fun e => snd e) es && (5 <=? N.of_nat (List.length es))%N.

(* nom-recursive hands every #[recursive_parser] function met on a thread a bit of its flag word and
   never takes one back; the word has [cap] bits (64, or 128 / 256 with the cargo features tracer128 /
   tracer256 of the dependency): when all functions of the grammar fit, no history of calls can exhaust it *)
Definition recursive_fits (n cap : N) : bool := (n <=? cap)%N.

(* ------------------------------------------------------------------ C19: the frame rule *)
Section Threads.
Variables (Tid S R : Type).
Variable tid_eqb : Tid -> Tid -> bool.
Hypothesis tid_eqb_eq : forall a b, tid_eqb a b = true <-> a = b.

(* one atomic step of a call running on thread [o_tid]: it sees and changes that thread's state only
   -- which is what "every cell is thread_local" means *)
Record op := mkOp { o_tid : Tid; o_fun : S -> R * S }.

Definition gstate := Tid -> S.
Definition upd (g : gstate) (t : Tid) (s : S) : gstate := fun u => if tid_eqb u t then s else g u.

Fixpoint run (sched : list op) (g : gstate) : list (Tid * R) * gstate :=
  match sched with
  | [] => ([], g)
  | o :: r => let '(res, s') := o_fun o (g (o_tid o)) in
              let '(rs, g') := run r (upd g (o_tid o) s') in
              ((o_tid o, res) :: rs, g')
  end.

(* the same thread alone *)
Fixpoint run_solo (ops : list op) (s : S) : list R * S :=
  match ops with
  | [] => ([], s)
  | o :: r => let '(res, s') := o_fun o s in
              let '(rs, s'') := run_solo r s' in (res :: rs, s'')
  end.

Definition mine (t : Tid) (sched : list op) : list op := filter (fun o => tid_eqb (o_tid o) t) sched.
Definition results_of (t : Tid) (l : list (Tid * R)) : list R :=
  map snd (filter (fun x => tid_eqb (fst x) t) l).

Lemma tid_eqb_refl t : tid_eqb t t = true.
Proof. now apply tid_eqb_eq. Qed.

Theorem isolation : forall sched g t,
  results_of t (fst (run sched g)) = fst (run_solo (mine t sched) (g t)) /\
  snd (run sched g) t = snd (run_solo (mine t sched) (g t)).
Proof.
  induction sched as [|o r IH]; intros g t; cbn [run run_solo mine filter]; [split; reflexivity|].
  destruct (o_fun o (g (o_tid o))) as [res s'] eqn:E.
  specialize (IH (upd g (o_tid o) s') t).
  destruct (run r (upd g (o_tid o) s')) as [rs g'] eqn:ER.
  cbn [fst snd] in *. unfold results_of in *. cbn [filter fst].
  destruct (tid_eqb (o_tid o) t) eqn:ET.
  - apply tid_eqb_eq in ET. subst t. cbn [run_solo]. rewrite E.
    assert (U : upd g (o_tid o) s' (o_tid o) = s') by (unfold upd; now rewrite tid_eqb_refl).
    rewrite U in IH. unfold mine in IH.
    destruct (run_solo (filter (fun o0 : op => tid_eqb (o_tid o0) (o_tid o)) r) s') as [rs2 s2].
    cbn [fst snd map] in *. destruct IH as [I1 I2]. split; [now rewrite I1|exact I2].
  - assert (ET' : tid_eqb t (o_tid o) = false).
    { destruct (tid_eqb t (o_tid o)) eqn:X; [|reflexivity]. apply tid_eqb_eq in X. subst t.
      rewrite tid_eqb_refl in ET. discriminate. }
    assert (U : upd g (o_tid o) s' t = g t) by (unfold upd; now rewrite ET').
    rewrite U in IH. exact IH.
Qed.
End Threads.

(* ------------------------------------------------------------------ C07: entry = init ; body *)
Section History.
Variables (M Dir Ver RIdx In Out : Type).
Variables (m0 : M) (d0 : Dir) (v0 : Ver).

Definition pstate := (M * Dir * Ver * RIdx)%type.
Definition init (s : pstate) : pstate := let '(_, _, _, r) := s in (m0, d0, v0, r).

(* a parser body: arbitrary, except that its result does not depend on the recursion-index table *)
Definition body_t := In -> pstate -> Out * pstate.
Definition ridx_irrelevant (b : body_t) : Prop :=
  forall i m d v r r', fst (b i (m, d, v, r)) = fst (b i (m, d, v, r')).

Definition entry (b : body_t) (i : In) (s : pstate) : Out * pstate := b i (init s).

Fixpoint exec (h : list (body_t * In)) (s : pstate) : pstate :=
  match h with
  | [] => s
  | (b, i) :: r => exec r (snd (entry b i s))
  end.

Theorem history_independent : forall (h : list (body_t * In)) (b : body_t) (i : In) (s0 : pstate),
  ridx_irrelevant b -> fst (entry b i (exec h s0)) = fst (entry b i s0).
Proof.
  intros h b i s0 Hb. unfold entry.
  destruct (exec h s0) as [[[m d] v] r]. destruct s0 as [[[m' d'] v'] r']. cbn [init]. apply Hb.
Qed.

(* without the init() at the head of an entry the statement is false in general *)
Theorem repeat_call : forall (b : body_t) (i : In) (s0 : pstate),
  ridx_irrelevant b -> fst (entry b i (snd (entry b i s0))) = fst (entry b i s0).
Proof. intros b i s0 Hb. apply (history_independent [(b, i)] b i s0 Hb). Qed.
End History.
