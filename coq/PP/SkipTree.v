(* C04: the event loop is a tree walk that does not visit listed subtrees.  [run_tree] is that walk
   (reference semantics of the skip list: a listed node met with skip off is jumped over);
   under the hypothesis evaluated per case by SkipCheck.skip_hyp_ok the loop over the events of a
   tree equals it.  The walk is a definition, the rest are proofs. *)
From SV Require Import Eval EvalFacts FlatFacts IterFacts SkipCheck SkipFacts.
From Coq Require Import Lia.

Section SkipTree.
Variables (c : cfg) (rec : rec_t) (s : bytes) (p : path) (ignore strip : bool) (rdepth idepth : N).
Notation stp := (step c rec s p ignore strip rdepth idepth).

Definition jump (x : st) (t : tree) : bool := skip_contains x t && negb (s_skip x).

Fixpoint run_tree (t : tree) (x : st) : res st :=
  if jump x t then ROk x else
  do x1 <- stp (Enter t) x;
  do x2 <- match t with
           | Leaf _ => ROk x1
           | Node _ cs => (fix go (l : list tree) (y : st) : res st :=
                             match l with [] => ROk y | ch :: r => do z <- run_tree ch y; go r z end) cs x1
           end;
  stp (Leave t) x2.

Fixpoint run_forest (l : list tree) (y : st) : res st :=
  match l with [] => ROk y | ch :: r => do z <- run_tree ch y; run_forest r z end.

Lemma run_tree_eq t x :
  run_tree t x = if jump x t then ROk x else
                 do x1 <- stp (Enter t) x; do x2 <- run_forest (children t) x1; stp (Leave t) x2.
Proof.
  destruct t as [l|k cs]; cbn [run_tree children run_forest]; [reflexivity|].
  destruct (jump x (Node k cs)); [reflexivity|]. destruct (stp (Enter (Node k cs)) x) as [x1| | | |]; cbn [bind]; reflexivity.
Qed.

(* the hypothesis check over a concatenation *)
Lemma hyp_app f a : forall b x,
  fst (skip_hyp_ok f (a ++ b) x) = true ->
  fst (skip_hyp_ok f a x) = true /\
  (forall x', run_events f a x = ROk x' -> fst (skip_hyp_ok f b x') = true).
Proof.
  induction a as [|e a IH]; intros b x H; cbn [app] in H.
  - split; [reflexivity|]. cbn. intros x' [= <-]. exact H.
  - cbn [skip_hyp_ok run_events] in *.
    destruct (f e x) as [x1| | | |] eqn:E; cbn [bind].
    + destruct (skip_hyp_ok f (a ++ b) x1) as [bb nn] eqn:E1.
      destruct (skip_hyp_ok f a x1) as [b1 n1] eqn:E2.
      assert (Hbb : bb = true).
      { destruct (match e with Enter t => if skip_contains x t && negb (s_skip x) then Some (erasable x t) else None | Leave _ => None end);
          cbn [fst] in H; [apply andb_true_iff in H; tauto|exact H]. }
      subst bb. destruct (IH b x1) as [I1 I2]; [now rewrite E1|]. rewrite E2 in I1. cbn [fst] in I1. subst b1.
      split; [|exact I2].
      destruct (match e with Enter t => if skip_contains x t && negb (s_skip x) then Some (erasable x t) else None | Leave _ => None end);
        cbn [fst] in *; [apply andb_true_iff in H as [H _]; now rewrite H|reflexivity].
    + split; [exact H|discriminate].
    + split; [exact H|discriminate].
    + split; [exact H|discriminate].
    + split; [exact H|discriminate].
Qed.

Lemma hyp_head_jump t r x :
  jump x t = true -> fst (skip_hyp_ok stp (Enter t :: r) x) = true -> erasable x t = true.
Proof.
  unfold jump. intros J H. cbn [skip_hyp_ok] in H. rewrite J in H.
  destruct (stp (Enter t) x) as [y| | | |]; [destruct (skip_hyp_ok stp r y)|..]; cbn [fst] in H;
    try (apply andb_true_iff in H; tauto); exact H.
Qed.

Lemma hyp_tail e r x x1 :
  fst (skip_hyp_ok stp (e :: r) x) = true -> stp e x = ROk x1 -> fst (skip_hyp_ok stp r x1) = true.
Proof.
  intros H E. cbn [skip_hyp_ok] in H. rewrite E in H. destruct (skip_hyp_ok stp r x1) as [b n].
  destruct (match e with Enter t => if skip_contains x t && negb (s_skip x) then Some (erasable x t) else None | Leave _ => None end);
    cbn [fst] in *; [apply andb_true_iff in H; tauto|exact H].
Qed.

Theorem loop_is_tree_walk : forall t x,
  fst (skip_hyp_ok stp (events t) x) = true -> run_events stp (events t) x = run_tree t x.
Proof.
  induction t as [l|k cs IH] using tree_ind2; intros x H.
  - rewrite run_tree_eq. destruct (jump x (Leaf l)) eqn:J.
    + apply skipped_no_effect. change (events (Leaf l)) with (Enter (Leaf l) :: [Leave (Leaf l)]) in H. eapply hyp_head_jump; eauto.
    + cbn [events app run_events children run_forest]. destruct (stp (Enter (Leaf l)) x) as [y| | | |]; cbn [bind]; try reflexivity.
      destruct (stp (Leave (Leaf l)) y); reflexivity.
  - rewrite run_tree_eq. destruct (jump x (Node k cs)) eqn:J.
    + apply skipped_no_effect. rewrite events_eq in H. eapply hyp_head_jump; eauto.
    + rewrite events_eq in *. cbn [children] in *. cbn [run_events].
      destruct (stp (Enter (Node k cs)) x) as [x1| | | |] eqn:E; cbn [bind]; try reflexivity.
      pose proof (hyp_tail _ _ _ _ H E) as H1. clear H E J.
      rewrite run_events_app.
      assert (G : forall l y, Forall (fun t => forall x, fst (skip_hyp_ok stp (events t) x) = true ->
                                              run_events stp (events t) x = run_tree t x) l ->
                  forall rest, fst (skip_hyp_ok stp (flat_map events l ++ rest) y) = true ->
                  run_events stp (flat_map events l) y = run_forest l y /\
                  (forall y', run_forest l y = ROk y' -> fst (skip_hyp_ok stp rest y') = true)).
      { clear. induction l as [|ch r IHr]; intros y HF rest Hh; cbn [flat_map run_forest app] in *.
        - split; [reflexivity|]. intros y' [= <-]. exact Hh.
        - inversion HF as [|? ? Hc Hr]; subst. rewrite <- app_assoc in Hh.
          destruct (hyp_app stp (events ch) (flat_map events r ++ rest) y Hh) as [A1 A2].
          rewrite run_events_app, (Hc y A1).
          destruct (run_tree ch y) as [z| | | |] eqn:Ez; cbn [bind]; try (split; [reflexivity|discriminate]).
          rewrite <- (Hc y A1) in Ez. specialize (A2 z Ez).
          destruct (IHr z Hr rest A2) as [B1 B2]. split; assumption. }
      destruct (G cs x1 IH [Leave (Node k cs)] H1) as [G1 G2]. rewrite G1.
      destruct (run_forest cs x1) as [x2| | | |]; cbn [bind run_events]; try reflexivity.
      destruct (stp (Leave (Node k cs)) x2); reflexivity.
Qed.
End SkipTree.
