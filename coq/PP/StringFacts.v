(* C05: ordinary string literals in a macro body are left untouched.  A body made of plain stretches (no
   quote, slash, backslash, backtick) and string literals (no quote, backslash, backtick inside) is
   cut by split_text into the maximal identifier / non-identifier runs of each plain stretch and ONE
   piece per string literal, quotes included; substitution replaces whole words of the plain stretches
   that name a formal and copies every string literal as it stands -- whatever stands inside it, a
   formal's name included.  Proofs only. *)
From SV Require Import Eval SplitFacts.
From Coq Require Import Lia.

Definition str_ok (c : N) : bool := negb ((c =? 34) || (c =? 92) || (c =? 96)).

Inductive seg := SPlain (w : bytes) | SStr (s : bytes).
Definition seg_ok (g : seg) : bool := match g with SPlain w => forallb plain w | SStr s => forallb str_ok s end.
Definition seg_bytes (g : seg) : bytes := match g with SPlain w => w | SStr s => 34 :: s ++ [34] end.
Definition seg_pieces (g : seg) : list bytes := match g with SPlain w => runs w | SStr s => [[]; 34 :: s ++ [34]] end.

Lemma str_ok_neq c : str_ok c = true -> (c =? 34) = false /\ (c =? 92) = false /\ (c =? 96) = false.
Proof.
  unfold str_ok. intros H. apply negb_true_iff in H.
  apply orb_false_iff in H as [H H3]. apply orb_false_iff in H as [H1 H2]. auto.
Qed.

(* the opening quote, read in a calm state *)
Lemma sp_main_open pk t : calm t ->
  let t' := sp_main 34 pk t in
  sp_string t' = true /\ sp_comment t' = false /\ sp_bq t' = false /\ sp_lead t' = false /\ sp_block t' = false /\
  sp_esc t' = false /\ sp_x t' = [34] /\ sp_ret t' = rev (sp_x t) :: sp_ret t.
Proof.
  intros (C1 & C2 & C3 & C4 & C5).
  destruct t as [str idn cmt bq lead bs blk blen star esc x ret]. cbn in C1, C2, C3, C4, C5. subst.
  unfold sp_main. cbn. auto 10.
Qed.

(* inside a string literal *)
Definition instr (t : sp) : Prop :=
  sp_string t = true /\ sp_comment t = false /\ sp_bq t = false /\ sp_lead t = false /\ sp_block t = false /\ sp_esc t = false.

Lemma sp_main_instr c pk t : str_ok c = true -> instr t ->
  let t' := sp_main c pk t in instr t' /\ sp_x t' = c :: sp_x t /\ sp_ret t' = sp_ret t.
Proof.
  intros Hc (C1 & C2 & C3 & C4 & C5 & C6). destruct (str_ok_neq c Hc) as (N1 & N2 & N3).
  destruct t as [str idn cmt bq lead bs blk blen star esc x ret]. cbn in C1, C2, C3, C4, C5, C6. subst.
  unfold sp_main. cbn [sp_block sp_string sp_comment sp_bq sp_ident sp_star sp_esc sp_blen sp_x sp_ret sp_lead sp_bs].
  rewrite N1. cbn [andb negb]. rewrite ?andb_false_r. cbn [andb negb].
  unfold instr, sp_pushc. cbn. rewrite N2, N3. cbn. auto 10.
Qed.

Lemma sp_main_close pk t : instr t ->
  let t' := sp_main 34 pk t in
  calm t' /\ sp_ident t' = false /\ sp_x t' = [] /\ sp_ret t' = rev (34 :: sp_x t) :: sp_ret t.
Proof.
  intros (C1 & C2 & C3 & C4 & C5 & C6).
  destruct t as [str idn cmt bq lead bs blk blen star esc x ret]. cbn in C1, C2, C3, C4, C5, C6. subst.
  unfold sp_main, calm. cbn. auto 10.
Qed.

Lemma sp_step_nolead c pk t : sp_lead t = false -> sp_step c pk t = sp_main c pk t.
Proof. intros L. unfold sp_step. now rewrite L. Qed.

(* the inside of a literal and its closing quote, whatever follows *)
Lemma sp_run_instr s : forall rest t, forallb str_ok s = true -> instr t ->
  exists t', sp_run (s ++ 34 :: rest) t = sp_run rest t' /\
             calm t' /\ sp_ident t' = false /\ sp_x t' = [] /\ sp_ret t' = rev (34 :: rev s ++ sp_x t) :: sp_ret t.
Proof.
  induction s as [|c r IH]; intros rest t Hs Hi.
  - cbn [app sp_run]. rewrite sp_step_nolead by (destruct Hi as (_ & _ & _ & L & _); exact L).
    destruct (sp_main_close (match rest with [] => None | p :: _ => Some p end) t Hi) as (A & B & C & D).
    eexists. split; [reflexivity|]. cbn [rev app]. split; [exact A|split; [exact B|split; [exact C|exact D]]].
  - cbn [forallb] in Hs. apply andb_true_iff in Hs as [Hc Hr]. cbn [app sp_run].
    rewrite sp_step_nolead by (destruct Hi as (_ & _ & _ & L & _); exact L).
    destruct (sp_main_instr c (match r ++ 34 :: rest with [] => None | p :: _ => Some p end) t Hc Hi) as (A & B & C).
    destruct (IH rest _ Hr A) as (t' & E & Q1 & Q2 & Q3 & Q4).
    exists t'. split; [exact E|]. rewrite B, C in Q4. split; [exact Q1|split; [exact Q2|split; [exact Q3|]]].
    rewrite Q4. cbn [rev]. now rewrite <- !app_assoc.
Qed.

(* a whole literal read in a calm state *)
Lemma sp_run_literal s rest t : forallb str_ok s = true -> calm t ->
  exists t', sp_run (34 :: s ++ 34 :: rest) t = sp_run rest t' /\
             calm t' /\ sp_ident t' = false /\ sp_x t' = [] /\
             sp_ret t' = (34 :: s ++ [34]) :: rev (sp_x t) :: sp_ret t.
Proof.
  intros Hs Hc. cbn [sp_run]. rewrite sp_step_calm by assumption.
  destruct (sp_main_open (match s ++ 34 :: rest with [] => None | p :: _ => Some p end) t Hc) as (A1 & A2 & A3 & A4 & A5 & A6 & A7 & A8).
  destruct (sp_run_instr s rest _ Hs (conj A1 (conj A2 (conj A3 (conj A4 (conj A5 A6)))))) as (t' & E & Q1 & Q2 & Q3 & Q4).
  exists t'. split; [exact E|]. split; [exact Q1|split; [exact Q2|split; [exact Q3|]]].
  rewrite Q4, A7, A8. f_equal. cbn [rev]. rewrite rev_app_distr, rev_involutive. reflexivity.
Qed.

(* a plain stretch read in a calm state, whatever follows: the last run stays open *)
Lemma sp_main_peek_plain c pk pk' t : plain c = true -> sp_main c pk t = sp_main c pk' t.
Proof.
  intros Hp. destruct (plain_neq c Hp) as (_ & N2 & _ & _). unfold sp_main. now rewrite N2.
Qed.

Lemma sp_run_plain_app w : forall rest t, forallb plain w = true -> calm t ->
  sp_run (w ++ rest) t = sp_run rest (sp_run w t) /\ calm (sp_run w t).
Proof.
  induction w as [|c r IH]; intros rest t Hw Hc; [split; [reflexivity|exact Hc]|].
  cbn [forallb] in Hw. apply andb_true_iff in Hw as [H1 H2]. cbn [app sp_run].
  rewrite !sp_step_calm by assumption.
  rewrite (sp_main_peek_plain c (match r ++ rest with [] => None | p :: _ => Some p end) (match r with [] => None | p :: _ => Some p end) t H1).
  destruct (sp_main_plain c (match r with [] => None | p :: _ => Some p end) t H1 Hc) as (Hc' & _).
  apply IH; assumption.
Qed.

(* the pieces of a list of segments, read in a calm state *)
Fixpoint segs_bytes (l : list seg) : bytes := match l with [] => [] | g :: r => seg_bytes g ++ segs_bytes r end.

(* what the machine holds after the segments: finished pieces, and the open run *)
Fixpoint pieces_from (cur : bytes) (cls : bool) (l : list seg) : list bytes :=
  match l with
  | [] => [rev cur]
  | SPlain w :: r =>
      (* the runs of w continue the open run; the last one stays open *)
      let rs := runs_aux cur cls w in
      removelast rs ++ pieces_from (rev (last rs [])) (match rev w with c :: _ => is_ident c | [] => cls end) r
  | SStr s :: r => rev cur :: (34 :: s ++ [34]) :: pieces_from [] false r
  end.

Lemma runs_aux_nonempty cur cls w : runs_aux cur cls w <> [].
Proof. revert cur cls; induction w as [|c r IH]; intros cur cls; cbn; [discriminate|]. destruct (Bool.eqb _ _); [apply IH|discriminate]. Qed.

Lemma removelast_cons {A} (a : A) l : l <> [] -> removelast (a :: l) = a :: removelast l.
Proof. destruct l; [contradiction|reflexivity]. Qed.
Lemma last_cons {A} (a : A) l d : l <> [] -> last (a :: l) d = last l d.
Proof. destruct l; [contradiction|reflexivity]. Qed.

(* the state after a plain stretch, in terms of runs_aux: finished runs and the open one *)
Lemma sp_run_plain_state w : forall t, forallb plain w = true -> calm t ->
  let t' := sp_run w t in
  let rs := runs_aux (sp_x t) (sp_ident t) w in
  rev (sp_ret t') = rev (sp_ret t) ++ removelast rs /\ rev (sp_x t') = last rs [] /\
  sp_ident t' = (match rev w with c :: _ => is_ident c | [] => sp_ident t end).
Proof.
  induction w as [|c r IH]; intros t Hw Hc; cbn [sp_run runs_aux].
  - cbn. rewrite app_nil_r. auto.
  - cbn [forallb] in Hw. apply andb_true_iff in Hw as [H1 H2].
    rewrite sp_step_calm by assumption.
    destruct (sp_main_plain c (match r with [] => None | p :: _ => Some p end) t H1 Hc) as (Hc' & Hi & Hx).
    specialize (IH _ H2 Hc'). cbv zeta in IH. destruct IH as (I1 & I2 & I3). rewrite Hi in I1, I2, I3.
    assert (Hid : (match rev (c :: r) with c0 :: _ => is_ident c0 | [] => sp_ident t end) =
                  (match rev r with c0 :: _ => is_ident c0 | [] => is_ident c end)).
    { cbn [rev]. destruct (rev r); reflexivity. }
    rewrite Hid.
    destruct (Bool.eqb (is_ident c) (sp_ident t)) eqn:E.
    + destruct Hx as [Ex Er]. rewrite Ex, Er in *. apply Bool.eqb_prop in E. rewrite E in *. auto.
    + destruct Hx as [Ex Er]. rewrite Ex, Er in *. cbn [rev] in I1.
      pose proof (runs_aux_nonempty [c] (is_ident c) r) as NE.
      rewrite (removelast_cons _ _ NE), (last_cons _ _ [] NE).
      split; [|split; assumption]. rewrite I1. now rewrite <- app_assoc.
Qed.

Theorem sp_run_segs : forall l t, forallb seg_ok l = true -> calm t ->
  let t' := sp_run (segs_bytes l) t in
  rev (rev (sp_x t') :: sp_ret t') = rev (sp_ret t) ++ pieces_from (sp_x t) (sp_ident t) l.
Proof.
  induction l as [|g r IH]; intros t Hl Hc; cbn [segs_bytes pieces_from].
  - cbn. reflexivity.
  - cbn [forallb] in Hl. apply andb_true_iff in Hl as [Hg Hr]. destruct g as [w|s]; cbn [seg_ok seg_bytes] in *.
    + destruct (sp_run_plain_app w (segs_bytes r) t Hg Hc) as [E Hc'].
      rewrite E. specialize (IH _ Hr Hc'). cbv zeta in IH. rewrite IH.
      destruct (sp_run_plain_state w t Hg Hc) as (S1 & S2 & S3). cbv zeta in S1, S2, S3.
      rewrite S1, S3. rewrite <- (rev_involutive (sp_x (sp_run w t))), S2. now rewrite <- app_assoc.
    + change ((34 :: s ++ [34]) ++ segs_bytes r) with (34 :: (s ++ [34]) ++ segs_bytes r).
      rewrite <- app_assoc. cbn [app].
      destruct (sp_run_literal s (segs_bytes r) t Hg Hc) as (t' & E & Q1 & Q2 & Q3 & Q4).
      rewrite E. specialize (IH _ Hr Q1). cbv zeta in IH. rewrite IH, Q2, Q3, Q4.
      cbn [rev]. now rewrite <- !app_assoc.
Qed.

(* substitution piece by piece *)
Definition piece_out (m : list (bytes * bytes)) (w : bytes) : bytes :=
  match amap_get m w with Some v => v | None => six_replaces w end.

Lemma six_replaces_str w : forallb (fun c => negb (c =? 92) && negb (c =? 96)) w = true -> six_replaces w = w.
Proof.
  intros H.
  assert (H92 : forallb (fun c => negb (c =? 92)) w = true).
  { rewrite forallb_forall in *. intros c Hc. specialize (H c Hc). apply andb_true_iff in H. tauto. }
  assert (H96 : forallb (fun c => negb (c =? 96)) w = true).
  { rewrite forallb_forall in *. intros c Hc. specialize (H c Hc). apply andb_true_iff in H. tauto. }
  unfold six_replaces.
  rewrite (replace_all_absent 96 [96] [] w H96).
  rewrite (replace_all_absent 96 [92; 96; 34] [92; 34] w H96).
  rewrite (replace_all_absent 96 [34] [34] w H96).
  rewrite (replace_all_absent 92 [10] [10] w H92).
  rewrite (replace_all_absent 92 [13; 10] [13; 10] w H92).
  now rewrite (replace_all_absent 92 [13] [13] w H92).
Qed.

(* a string literal is copied as it stands: it is one piece, no formal is spelled with a quote, and the
   six textual replacements find nothing in it *)
Theorem literal_untouched m s :
  forallb str_ok s = true -> amap_get m (34 :: s ++ [34]) = None ->
  piece_out m (34 :: s ++ [34]) = 34 :: s ++ [34].
Proof.
  intros Hs Hm. unfold piece_out. rewrite Hm. apply six_replaces_str.
  cbn [forallb]. rewrite forallb_app. cbn [forallb].
  change (34 =? 92) with false. change (34 =? 96) with false. cbn [negb andb]. rewrite andb_true_r.
  rewrite forallb_forall in *. intros c Hc. destruct (str_ok_neq c (Hs c Hc)) as (_ & A & B). now rewrite A, B.
Qed.

(* the pieces of a body that starts in the leading state with a character that is no blank and no backslash *)
Theorem split_text_segs l c0 rest :
  forallb seg_ok l = true -> segs_bytes l = c0 :: rest -> is_ascii_ws c0 = false -> (c0 =? 92) = false ->
  split_text (segs_bytes l) = pieces_from [] false l.
Proof.
  intros Hl E W B. unfold split_text.
  set (t0 := mkSp false false false false true false false 0 false false [] []).
  set (t1 := mkSp false false false false false false false 0 false false [] []).
  assert (E0 : sp_run (segs_bytes l) t0 = sp_run (segs_bytes l) t1).
  { rewrite E. cbn [sp_run]. f_equal. unfold sp_step. cbn [sp_lead t0 t1]. rewrite B, W. cbn [negb andb]. reflexivity. }
  rewrite E0. pose proof (sp_run_segs l t1 Hl) as H. cbv zeta in H. rewrite H; [reflexivity|].
  unfold calm, t1. cbn. auto.
Qed.
