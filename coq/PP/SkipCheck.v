(* C04: the executable form of the hypothesis of SkipFacts.skipped_no_effect, evaluated beside the
   model on the trees of every correspondence case.  Definitions only. *)
From SV Require Import Eval.

(* proper descendants *)
Definition desc (t : tree) : list tree := flat_map preorder (children t).

(* kinds for which the `Leave` arms of the second and third match do nothing *)
Definition leave_inert (k : N) : bool :=
  negb (k =? K_SourceDescriptionNotDirective) && negb (k =? K_CompilerDirective) &&
  negb (is_kept_kind k || (k =? K_UndefineCompilerDirective) || (k =? K_UndefineallCompilerDirective)).

(* what makes the walk over t a no-op in state x *)
Definition erasable (x : st) (t : tree) : bool :=
  skip_contains x t && negb (s_skip x) && leave_inert (kind t) &&
  forallb (fun u => negb (skip_contains x u)) (desc t).

Definition ev_node (e : ev) : tree := match e with Enter t => t | Leave t => t end.

(* the checker run beside the model: every listed node met with skip off is erasable *)
Fixpoint skip_hyp_ok (f : ev -> st -> res st) (evs : list ev) (x : st) : bool * nat :=
  match evs with
  | [] => (true, O)
  | e :: r =>
      let here := match e with
                  | Enter t => if skip_contains x t && negb (s_skip x) then Some (erasable x t) else None
                  | Leave _ => None
                  end in
      match f e x with
      | ROk x' => let '(b, n) := skip_hyp_ok f r x' in
                  match here with Some h => (h && b, S n) | None => (b, n) end
      | _ => match here with Some h => (h, 1%nat) | None => (true, O) end
      end
  end.


(* the checker on one file of a case, as if it were the entry file *)
Definition skip_hyp_file (fuel : nat) (c : cfg) (s : bytes) (p : path) (pre : defines) (ignore strip : bool) : bool * nat :=
  match assoc s (cfg_parse c) with
  | Some (inl t) => skip_hyp_ok (step c (pp_str fuel c) s p ignore strip 0 0) (events t) (st0 (seed_defines pre))
  | _ => (true, O)
  end.
