(* C18: the OUTPUT with strip_comments is the output without it, with the texts of some Comment nodes
   replaced by nothing, one blank or one newline -- for whole runs, through includes and macro
   expansion.  Two ingredients: (1) every arm of the loop only ever appends to the output (it never reads
   it back): [wo]; so two runs in the same control state append the same chunks; (2) the three arms that
   look at the flag -- Comment, macro usage, `include -- are treated by hand.  Proofs only. *)
From SV Require Import Eval EvalFacts IgnoreFacts StripFacts.
From Coq Require Import Lia PeanoNat Arith Wf_nat.

(* ------------------------------------------------------------------ the relation between the two texts *)
Section Rel.
Variable P : bytes -> Prop.        (* "is the text of a Comment node" *)

Definition filler (f : bytes) : Prop := f = [] \/ f = [32] \/ f = [10].

Inductive brel : bytes -> bytes -> Prop :=
| br_nil : brel [] []
| br_same c a b : brel a b -> brel (a ++ c) (b ++ c)
| br_cmt c f a b : brel a b -> P c -> filler f -> brel (a ++ c) (b ++ f).

Lemma brel_refl a : brel a a.
Proof. change a with ([] ++ a). apply br_same. constructor. Qed.

Lemma brel_app a b : brel a b -> forall t1 t2, brel t1 t2 -> brel (a ++ t1) (b ++ t2).
Proof.
  intros Hab t1 t2 Ht. induction Ht as [|c u v _ IH|c f u v _ IH Hc Hf].
  - now rewrite !app_nil_r.
  - rewrite !app_assoc. now apply br_same.
  - rewrite !app_assoc. now apply br_cmt.
Qed.
End Rel.

Lemma brel_mono (P Q : bytes -> Prop) : (forall w, P w -> Q w) -> forall a b, brel P a b -> brel Q a b.
Proof. intros H a b R. induction R; [constructor|now apply br_same|apply br_cmt; auto]. Qed.

Lemma concat_bytes_app a b : concat_bytes (a ++ b) = concat_bytes a ++ concat_bytes b.
Proof. induction a as [|x a IH]; cbn; [reflexivity|]. now rewrite IH, app_assoc. Qed.

Lemma out_text_app cs o : concat_bytes (rev (cs ++ o)) = concat_bytes (rev o) ++ concat_bytes (rev cs).
Proof. now rewrite rev_app_distr, concat_bytes_app. Qed.

(* ------------------------------------------------------------------ write-only *)
(* the same state with an older history underneath *)
Definition hist (o : list bytes) (q : list op) (x : st) : st :=
  mkSt (s_skip x) (s_skipws x) (s_nodes x) (s_defs x) (s_item x) (s_inc x) (s_out x ++ o) (s_ops x ++ q).

Definition clear (x : st) : st :=
  mkSt (s_skip x) (s_skipws x) (s_nodes x) (s_defs x) (s_item x) (s_inc x) [] [].

Definition rmap {A B} (f : A -> B) (r : res A) : res B :=
  match r with ROk x => ROk (f x) | RErr e => RErr e | RPanic k => RPanic k | RFuel => RFuel | RNeedParse t => RNeedParse t end.

Definition wo (f : st -> res st) : Prop := forall o q x, f (hist o q x) = rmap (hist o q) (f x).
Definition wo1 (g : st -> st) : Prop := forall o q x, g (hist o q x) = hist o q (g x).

Lemma hist_clear x : hist (s_out x) (s_ops x) (clear x) = x.
Proof. destruct x; reflexivity. Qed.

Lemma clear_same x y : same_ctl x y -> clear x = clear y.
Proof. intros (H1 & H2 & H3 & H4 & H5 & H6). unfold clear. now rewrite H1, H2, H3, H4, H5, H6. Qed.

(* two runs of a write-only step from states with the same control append the same chunks *)
Lemma wo_two f x y x' y' : wo f -> same_ctl x y -> f x = ROk x' -> f y = ROk y' ->
  exists cs, s_out x' = cs ++ s_out x /\ s_out y' = cs ++ s_out y.
Proof.
  intros W H Hx Hy. rewrite <- (hist_clear x), W in Hx. rewrite <- (hist_clear y), W in Hy.
  rewrite <- (clear_same x y H) in Hy.
  destruct (f (clear x)) as [z| | | |]; try discriminate. cbn in Hx, Hy.
  injection Hx as <-. injection Hy as <-. exists (s_out z). split; reflexivity.
Qed.

Lemma wo_ret g : wo1 g -> wo (fun x => ROk (g x)).
Proof. intros H o q x. cbn. now rewrite H. Qed.

Lemma wo_bind f g : wo f -> wo g -> wo (fun x => bind (f x) g).
Proof. intros Hf Hg o q x. rewrite Hf. destruct (f x); cbn; auto. Qed.

Lemma wo_id : wo (fun x => ROk x).
Proof. intros o q x. reflexivity. Qed.

Lemma emit_wo1 t src : wo1 (emit t src).            Proof. intros o q x. reflexivity. Qed.
Lemma emit_merge_wo1 t ops : wo1 (emit_merge t ops). Proof. intros o q x. reflexivity. Qed.
Lemma set_skip_wo1 b : wo1 (set_skip b).             Proof. intros o q x. reflexivity. Qed.
Lemma set_skipws_wo1 b : wo1 (set_skipws b).         Proof. intros o q x. reflexivity. Qed.
Lemma set_defs_wo1 d : wo1 (set_defs d).             Proof. intros o q x. reflexivity. Qed.
Lemma set_item_wo1 v : wo1 (set_item v).             Proof. intros o q x. reflexivity. Qed.
Lemma set_inc_wo1 v : wo1 (set_inc v).               Proof. intros o q x. reflexivity. Qed.
Lemma skip_push_wo1 t : wo1 (skip_push t).
Proof. intros o q x. unfold skip_push. destruct (leaves t); reflexivity. Qed.

Lemma emit_node_wo s p t : wo (emit_node s p t).
Proof. intros o q x. unfold emit_node. destruct (node_locate t); reflexivity. Qed.

Lemma cond_rest_wo s d ifid : forall cs hit, wo (cond_rest s d ifid hit cs).
Proof.
  intros cs. remember (length cs) as n eqn:Hn. revert cs Hn.
  induction n as [n IH] using lt_wf_ind. intros cs Hn hit o q x.
  destruct cs as [|a [|b [|t r]]]; cbn [cond_rest]; try reflexivity.
  destruct (kind t =? K_TextMacroIdentifier).
  - destruct r as [|body r']; [reflexivity|].
    destruct (unwrap_id t s); cbn [bind]; try reflexivity.
    cbn in Hn.
    destruct hit; [|destruct (def_contains d a0 || is_predefined ifid)];
      rewrite ?skip_push_wo1; (eapply IH; [|reflexivity]; subst n; cbn; repeat constructor).
  - destruct (kind t =? K_ElseGroupOfLines); [|reflexivity].
    cbn. destruct hit; now rewrite ?skip_push_wo1.
Qed.

Lemma cond_enter_wo neg s t : wo (cond_enter neg s t).
Proof.
  intros o q x. unfold cond_enter.
  destruct (children t) as [|a [|b [|i [|body rest]]]]; try reflexivity.
  destruct (unwrap_id i s); cbn [bind]; try reflexivity.
  rewrite !skip_push_defs. change (s_defs (hist o q x)) with (s_defs x).
  match goal with |- cond_rest _ _ _ _ _ (if ?b then _ else _) = _ => destruct b end;
    rewrite ?skip_push_wo1; apply cond_rest_wo.
Qed.

Lemma define_enter_wo s p t : wo (define_enter s p t).
Proof.
  intros o q x. unfold define_enter.
  destruct (children t) as [|a [|b [|proto text]]]; try reflexivity.
  destruct (children proto) as [|name args]; [reflexivity|].
  destruct (unwrap_id name s) as [id| | | |]; cbn [bind]; try reflexivity.
  rewrite skip_push_wo1, set_skip_wo1.
  destruct (is_predefined id).
  - cbn [bind]. apply emit_node_wo.
  - destruct (match args with _ :: lofa :: _ => formals_of s (children lofa) | _ => ROk [] end) as [fs| | | |];
      cbn [bind]; try reflexivity.
    destruct (match text with mt :: _ => _ | [] => ROk None end) as [dt| | | |]; cbn [bind]; try reflexivity.
    change (s_defs (hist o q (set_skip true (skip_push t x)))) with (s_defs (set_skip true (skip_push t x))).
    rewrite set_defs_wo1. apply emit_node_wo.
Qed.

Lemma position_enter_wo s p t : wo (position_enter s p t).
Proof.
  intros o q x. unfold position_enter. rewrite skip_push_wo1, set_skip_wo1.
  destruct (children t) as [|a [|kw [|? ?]]]; try reflexivity.
  destruct (node_locate kw); cbn [bind]; try reflexivity.
  repeat match goal with |- (if ?b then _ else _) = _ => destruct b end; reflexivity.
Qed.

Lemma emit_ws_under_wo s p t : wo (emit_ws_under s p t).
Proof.
  intros o q x. unfold emit_ws_under.
  assert (H0 : (ROk (hist o q x) : res st) = rmap (hist o q) (ROk x)) by reflexivity. revert H0.
  generalize (ROk (hist o q x) : res st) (ROk x : res st). generalize (preorder t).
  induction l as [|n l IH]; intros a b Hab; cbn [fold_left]; [exact Hab|].
  apply IH. subst a. destruct b as [z| | | |]; cbn; try reflexivity.
  destruct (is_ws_kind (kind n)); [apply emit_node_wo|reflexivity].
Qed.

Lemma step2_wo s e : wo (step2 s e).
Proof.
  intros o q x. unfold step2. change (s_inc (hist o q x)) with (s_inc x).
  destruct e as [t|t].
  - destruct (kind t =? K_SourceDescriptionNotDirective).
    { destruct (node_locate t); cbn [bind]; try reflexivity.
      match goal with |- (if ?b then _ else _) = _ => destruct b end; reflexivity. }
    destruct (kind t =? K_CompilerDirective).
    { destruct (node_locate t); cbn [bind]; try reflexivity.
      match goal with |- (if ?b then _ else _) = _ => destruct b end; reflexivity. }
    destruct (str_or_esc t) as [ch|]; [|reflexivity].
    destruct (first_leaf ch); [|reflexivity].
    match goal with |- (if ?b then _ else _) = _ => destruct b end; reflexivity.
  - destruct (kind t =? K_SourceDescriptionNotDirective).
    { destruct (node_locate t); cbn [bind]; try reflexivity. destruct (trim _); reflexivity. }
    destruct (kind t =? K_CompilerDirective).
    { destruct (node_locate t); cbn [bind]; reflexivity. }
    reflexivity.
Qed.

Lemma kept_wo s p t : wo (fun x => bind (emit_node s p t x) (fun x => ROk (set_skipws true x))).
Proof. apply wo_bind; [apply emit_node_wo|apply wo_ret, set_skipws_wo1]. Qed.

Lemma undef_wo s p t id :
  wo (fun x => bind (emit_node s p t (set_defs (def_remove (s_defs x) id) x)) (fun x => ROk (set_skipws true x))).
Proof.
  intros o q z. change (s_defs (hist o q z)) with (s_defs z). rewrite set_defs_wo1, emit_node_wo.
  destruct (emit_node s p t (set_defs (def_remove (s_defs z) id) z)); reflexivity.
Qed.

Lemma undefall_wo s p t : wo (fun x => bind (emit_node s p t (set_defs [] x)) (fun x => ROk (set_skipws true x))).
Proof.
  intros o q z. rewrite set_defs_wo1, emit_node_wo. destruct (emit_node s p t (set_defs [] z)); reflexivity.
Qed.

(* ------------------------------------------------------------------ the invariant on outputs *)
Section Strip.
Variables (c : cfg) (rec : rec_t) (P : bytes -> Prop).

Definition out_rel (x y : st) : Prop := brel P (out_text x) (out_text y).

(* results of the recursive entry: same table, related texts *)
Definition same_out (a b : bytes * list op * defines) : Prop :=
  snd a = snd b /\ brel P (fst (fst a)) (fst (fst b)).

Hypothesis Hrec : forall s p d ig rd idp,
  rel_res same_out (rec s p d ig false rd idp) (rec s p d ig true rd idp).

Lemma Hrec_defs : forall s p d ig rd idp,
  rel_res same_defs (rec s p d ig false rd idp) (rec s p d ig true rd idp).
Proof.
  intros. specialize (Hrec s p d ig rd idp).
  destruct (rec s p d ig false rd idp), (rec s p d ig true rd idp); cbn in *; auto. now destruct Hrec.
Qed.

Lemma out_rel_append cs x y x' y' :
  out_rel x y -> s_out x' = cs ++ s_out x -> s_out y' = cs ++ s_out y -> out_rel x' y'.
Proof.
  unfold out_rel, out_text. intros R -> ->. rewrite !out_text_app. now apply br_same.
Qed.

Lemma out_rel_same x y x' y' : out_rel x y -> s_out x' = s_out x -> s_out y' = s_out y -> out_rel x' y'.
Proof. intros R E1 E2. apply (out_rel_append [] x y); auto. Qed.

(* a step that does not look at the flag *)
Lemma wo_out f x y x' y' : wo f -> same_ctl x y -> out_rel x y -> f x = ROk x' -> f y = ROk y' -> out_rel x' y'.
Proof.
  intros W H R Hx Hy. destruct (wo_two f x y x' y' W H Hx Hy) as (cs & E1 & E2). eapply out_rel_append; eauto.
Qed.

Lemma out_text_emit t src x : out_text (emit t src x) = out_text x ++ t.
Proof. unfold out_text. cbn [emit s_out rev]. rewrite concat_bytes_app. cbn. now rewrite app_nil_r. Qed.

Lemma out_text_emit_merge t ops x : out_text (emit_merge t ops x) = out_text x ++ t.
Proof. unfold out_text. cbn [emit_merge s_out rev]. rewrite concat_bytes_app. cbn. now rewrite app_nil_r. Qed.

(* what a resolved usage hands back *)
Definition same_usage_out (a b : option (bytes * option (path * range) * defines)) : Prop :=
  match a, b with
  | None, None => True
  | Some (t1, o1, d1), Some (t2, o2, d2) => o1 = o2 /\ d1 = d2 /\ brel P t1 t2
  | _, _ => False
  end.

Lemma resolve_usage_out x s p d ig rd idp :
  rel_res same_usage_out (resolve_usage c rec x s p d ig false rd idp) (resolve_usage c rec x s p d ig true rd idp).
Proof.
  unfold resolve_usage.
  destruct (children x) as [|sym [|name rest]]; try (cbn; reflexivity).
  destruct (unwrap_id name s) as [id| | | |]; cbn [bind]; try (cbn; reflexivity).
  destruct (cfg_limit c <? rd); [cbn; reflexivity|].
  destruct (def_get d id) as [[df|]|]; try (cbn; auto; reflexivity).
  destruct (negb _ && _); [cbn; reflexivity|].
  destruct (bind_args _ _); [cbn; reflexivity|].
  destruct (d_text df) as [[body org]|]; [|cbn; auto].
  eapply rel_bind; [apply Hrec|]. intros [[t1 o1] d1] [[t2 o2] d2] [E1 E2]. cbn in E1, E2. cbn. auto.
Qed.

Definition ok_ev2 (s : bytes) (e : ev) : Prop :=
  match e with
  | Enter t => (kind t = K_IncludeCompilerDirective -> literal_include t) /\
               (kind t = K_Comment -> forall l, node_locate t = ROk l -> P (lstr s l))
  | Leave _ => True
  end.

Lemma usage_enter_out s p ig rd idp t x y x' y' :
  same_ctl x y -> out_rel x y ->
  usage_enter c rec s p ig false rd idp t x = ROk x' -> usage_enter c rec s p ig true rd idp t y = ROk y' ->
  out_rel x' y'.
Proof.
  intros H R Hx Hy. unfold usage_enter in Hx, Hy.
  assert (H' : same_ctl (set_skip true (skip_push t x)) (set_skip true (skip_push t y)))
    by (apply set_skip_ctl, skip_push_ctl, H).
  assert (R' : out_rel (set_skip true (skip_push t x)) (set_skip true (skip_push t y))).
  { eapply out_rel_same; [exact R| |]; unfold skip_push; destruct (leaves t); reflexivity. }
  pose proof H' as (_ & _ & _ & E4 & _ & _). rewrite E4 in Hx.
  pose proof (resolve_usage_out t s p (s_defs (set_skip true (skip_push t y))) ig (rd + 1) idp) as RU.
  destruct (resolve_usage c rec t s p _ ig false (rd + 1) idp) as [r1| | | |]; cbn [bind] in Hx; try discriminate.
  destruct (resolve_usage c rec t s p _ ig true (rd + 1) idp) as [r2| | | |]; cbn [bind] in Hy; try discriminate.
  cbn in RU.
  set (X := match r1 with Some (text, org, nd) => set_defs nd (emit text org (set_skip true (skip_push t x))) | None => set_skip true (skip_push t x) end) in Hx.
  set (Y := match r2 with Some (text, org, nd) => set_defs nd (emit text org (set_skip true (skip_push t y))) | None => set_skip true (skip_push t y) end) in Hy.
  assert (HXY : same_ctl X Y /\ out_rel X Y).
  { unfold X, Y. destruct r1 as [[[t1 o1] d1]|], r2 as [[[t2 o2] d2]|]; cbn in RU; try contradiction.
    - destruct RU as (-> & -> & RT). split; [apply set_defs_ctl, emit_ctl, H'|].
      unfold out_rel. change (out_text (set_defs d2 (emit t1 o2 (set_skip true (skip_push t x)))))
        with (out_text (emit t1 o2 (set_skip true (skip_push t x)))).
      change (out_text (set_defs d2 (emit t2 o2 (set_skip true (skip_push t y)))))
        with (out_text (emit t2 o2 (set_skip true (skip_push t y)))).
      rewrite !out_text_emit. apply brel_app; assumption.
    - split; assumption. }
  destruct HXY as [HC HR].
  destruct (children t) as [|a [|b [|c0 [|d0 [|e0 [|? ?]]]]]]; try discriminate;
    eapply (wo_out (emit_ws_under s p _)); eauto using emit_ws_under_wo.
Qed.

Lemma pp_file_out f d ig idp :
  rel_res same_out (pp_file c rec f d ig false idp) (pp_file c rec f d ig true idp).
Proof. unfold pp_file. destruct (assoc f (cfg_fs c)) as [[b|]|]; try (cbn; reflexivity). apply Hrec. Qed.

Lemma include_enter_out s p rd idp t x y x' y' :
  literal_include t -> same_ctl x y -> out_rel x y ->
  include_enter c rec s p false rd idp t x = ROk x' -> include_enter c rec s p true rd idp t y = ROk y' ->
  out_rel x' y'.
Proof.
  intros HL H R Hx Hy. unfold include_enter in Hx, Hy.
  assert (H' : same_ctl (set_skip true (skip_push t x)) (set_skip true (skip_push t y)))
    by (apply set_skip_ctl, skip_push_ctl, H).
  destruct (node_locate t) as [l| | | |]; cbn [bind] in Hx, Hy; try discriminate.
  pose proof (set_inc_ctl (Some (l_line l)) _ _ H') as H2.
  destruct (match s_item (set_inc (Some (l_line l)) (set_skip true (skip_push t x))) with Some i => i =? l_line l | None => false end); [discriminate|].
  destruct (match s_item (set_inc (Some (l_line l)) (set_skip true (skip_push t y))) with Some i => i =? l_line l | None => false end); [discriminate|].
  destruct (children t) as [|inner [|? ?]] eqn:EC; try discriminate.
  specialize (HL inner EC).
  destruct (children inner) as [|sym [|kw [|third [|? ?]]]]; try discriminate.
  pose proof (skip_push_ctl kw _ _ H2) as H3.
  pose proof H3 as (_ & _ & _ & E4 & _ & _).
  assert (R3 : out_rel (skip_push kw (set_inc (Some (l_line l)) (set_skip true (skip_push t x))))
                       (skip_push kw (set_inc (Some (l_line l)) (set_skip true (skip_push t y))))).
  { eapply out_rel_same; [exact R| |]; unfold skip_push; destruct (leaves kw), (leaves t); reflexivity. }
  assert (Hfin : forall name,
    match pp_file c rec (resolve_path c name) (s_defs (skip_push kw (set_inc (Some (l_line l)) (set_skip true (skip_push t x))))) false false (idp + 1) with
    | ROk (text, ops, nd) => ROk (emit_merge text ops (set_defs nd (skip_push kw (set_inc (Some (l_line l)) (set_skip true (skip_push t x))))))
    | RErr e => RErr (EInclude e) | RPanic k => RPanic k | RFuel => RFuel | RNeedParse u => RNeedParse u end = ROk x' ->
    match pp_file c rec (resolve_path c name) (s_defs (skip_push kw (set_inc (Some (l_line l)) (set_skip true (skip_push t y))))) false true (idp + 1) with
    | ROk (text, ops, nd) => ROk (emit_merge text ops (set_defs nd (skip_push kw (set_inc (Some (l_line l)) (set_skip true (skip_push t y))))))
    | RErr e => RErr (EInclude e) | RPanic k => RPanic k | RFuel => RFuel | RNeedParse u => RNeedParse u end = ROk y' ->
    out_rel x' y').
  { intros name Ex Ey. rewrite E4 in Ex.
    pose proof (pp_file_out (resolve_path c name) (s_defs (skip_push kw (set_inc (Some (l_line l)) (set_skip true (skip_push t y))))) false (idp + 1)) as PF.
    destruct (pp_file c rec _ _ false false (idp + 1)) as [[[t1 o1] d1]| | | |]; try discriminate.
    destruct (pp_file c rec _ _ false true (idp + 1)) as [[[t2 o2] d2]| | | |]; try discriminate.
    destruct PF as [_ RT]. cbn in RT. injection Ex as <-. injection Ey as <-.
    unfold out_rel. rewrite !out_text_emit_merge. apply brel_app; [exact R3|exact RT]. }
  destruct (kind inner =? K_IncludeCompilerDirectiveDoubleQuote) eqn:EDQ.
  - destruct (first_leaf third) as [fl|]; cbn [bind] in Hx, Hy; [|discriminate]. eapply Hfin; eauto.
  - destruct (kind inner =? K_IncludeCompilerDirectiveAngleBracket) eqn:EAB; [|discriminate].
    destruct (first_leaf third) as [fl|]; cbn [bind] in Hx, Hy; [|discriminate]. eapply Hfin; eauto.
Qed.

Lemma step3_out s p ig rd idp e x y x' y' :
  ok_ev2 s e -> same_ctl x y -> out_rel x y ->
  step3 c rec s p ig false rd idp e x = ROk x' -> step3 c rec s p ig true rd idp e y = ROk y' -> out_rel x' y'.
Proof.
  intros Hok H R Hx Hy. unfold step3 in Hx, Hy. destruct e as [t|t].
  - pose proof H as (E1 & E2 & E3 & E4 & E5 & E6).
    destruct (kind t =? K_SourceDescriptionNotDirective); [eapply (wo_out (emit_node s p t)); eauto using emit_node_wo|].
    destruct (kind t =? K_SourceDescription).
    { destruct (children t) as [|ch [|? ?]]; try (injection Hx as <-; injection Hy as <-; exact R).
      destruct (_ || _); [eapply (wo_out (emit_node s p ch)); eauto using emit_node_wo|injection Hx as <-; injection Hy as <-; exact R]. }
    destruct (is_kept_kind (kind t)).
    { eapply (wo_out (fun x => bind (emit_node s p t x) (fun x => ROk (set_skipws true x)))); eauto using kept_wo. }
    destruct (kind t =? K_UndefineCompilerDirective).
    { destruct (children t) as [|a [|b [|name [|? ?]]]]; try discriminate.
      destruct (match children name with i :: _ => unwrap_id i s | [] => RPanic 3 end) as [id| | | |]; cbn [bind] in Hx, Hy; try discriminate.
      eapply (wo_out (fun x => bind (emit_node s p t (set_defs (def_remove (s_defs x) id) x)) (fun x => ROk (set_skipws true x)))); eauto using undef_wo. }
    destruct (kind t =? K_UndefineallCompilerDirective).
    { eapply (wo_out (fun x => bind (emit_node s p t (set_defs [] x)) (fun x => ROk (set_skipws true x)))); eauto using undefall_wo. }
    destruct (kind t =? K_IfdefDirective); [eapply (wo_out (cond_enter false s t)); eauto using cond_enter_wo|].
    destruct (kind t =? K_IfndefDirective); [eapply (wo_out (cond_enter true s t)); eauto using cond_enter_wo|].
    destruct (is_ws_kind (kind t)).
    { rewrite E2 in Hx. destruct (_ && _); [eapply (wo_out (emit_node s p t)); eauto using emit_node_wo|injection Hx as <-; injection Hy as <-; exact R]. }
    destruct (kind t =? K_Comment) eqn:EK.
    { cbn [negb] in Hx, Hy. destruct Hok as [_ Hc]. apply N.eqb_eq in EK. specialize (Hc EK).
      destruct (node_locate t) as [l| | | |]; cbn [bind] in Hx, Hy; try discriminate.
      specialize (Hc l eq_refl). unfold out_rel in *.
      destruct (starts_with [47; 42] (lstr s l)) eqn:EB.
      - (* block comment: one blank *)
        assert (EL : starts_with [47; 47] (lstr s l) = false).
        { destruct (lstr s l) as [|a [|b r]]; cbn [starts_with] in EB |- *; try discriminate.
          - now rewrite andb_false_r.
          - apply andb_true_iff in EB as [_ EB]. apply andb_true_iff in EB as [EB _]. apply N.eqb_eq in EB. subst b.
            now rewrite andb_false_r. }
        rewrite EL, andb_false_r in Hx. cbn [andb] in Hx. injection Hx as <-. injection Hy as <-.
        rewrite !out_text_emit. apply br_cmt; [exact R|exact Hc|right; left; reflexivity].
      - destruct (ends_with [10] (lstr s l) || (0 <? rd)) eqn:EN; injection Hy as <-.
        + rewrite out_text_emit.
          destruct ((0 <? rd) && starts_with [47; 47] (lstr s l) && negb (ends_with [10] (lstr s l))); injection Hx as <-; rewrite !out_text_emit.
          * apply br_same. replace (out_text y) with (out_text y ++ []) by apply app_nil_r.
            apply br_cmt; [exact R|exact Hc|left; reflexivity].
          * apply br_cmt; [exact R|exact Hc|right; right; reflexivity].
        + apply orb_false_iff in EN as [EN1 EN2]. rewrite EN2 in Hx. cbn [andb] in Hx. injection Hx as <-.
          rewrite out_text_emit. replace (out_text y) with (out_text y ++ []) by apply app_nil_r.
          apply br_cmt; [exact R|exact Hc|left; reflexivity]. }
    destruct (kind t =? K_TextMacroDefinition); [eapply (wo_out (define_enter s p t)); eauto using define_enter_wo|].
    destruct (kind t =? K_IncludeCompilerDirective) eqn:EKI.
    { cbn [andb] in Hx, Hy. destruct (negb ig).
      - eapply include_enter_out; eauto. destruct Hok as [Hi _]. apply Hi. now apply N.eqb_eq.
      - destruct (kind t =? K_TextMacroUsage); [eapply usage_enter_out; eauto|].
        destruct (kind t =? K_PositionCompilerDirective); [eapply (wo_out (position_enter s p t)); eauto using position_enter_wo|].
        injection Hx as <-; injection Hy as <-; exact R. }
    cbn [andb] in Hx, Hy.
    destruct (kind t =? K_TextMacroUsage); [eapply usage_enter_out; eauto|].
    destruct (kind t =? K_PositionCompilerDirective); [eapply (wo_out (position_enter s p t)); eauto using position_enter_wo|].
    injection Hx as <-; injection Hy as <-; exact R.
  - destruct (_ || _); injection Hx as <-; injection Hy as <-; exact R.
Qed.

Lemma step_out s p ig rd idp e x y x' y' :
  ok_ev2 s e -> same_ctl x y -> out_rel x y ->
  step c rec s p ig false rd idp e x = ROk x' -> step c rec s p ig true rd idp e y = ROk y' -> out_rel x' y'.
Proof.
  intros Hok H R Hx Hy. unfold step in Hx, Hy. pose proof H as (E1 & E2 & E3 & E4 & E5 & E6).
  unfold skip_contains in Hx, Hy. rewrite E1, E3 in Hx.
  match type of Hy with (if ?b then _ else _) = _ => destruct b eqn:EB end.
  - injection Hx as <-. injection Hy as <-. eapply out_rel_same; [exact R| |]; reflexivity.
  - match type of Hx with context [step2 s e ?X] => set (X0 := X) in Hx end.
    match type of Hy with context [step2 s e ?Y] => set (Y0 := Y) in Hy end.
    assert (H0 : same_ctl X0 Y0) by (apply set_skip_ctl, H).
    assert (R0 : out_rel X0 Y0) by (eapply out_rel_same; [exact R| |]; reflexivity).
    pose proof (step2_ctl s e X0 Y0 H0) as S2.
    destruct (step2 s e X0) as [x1| | | |] eqn:S1; cbn [bind] in Hx; try discriminate.
    destruct (step2 s e Y0) as [y1| | | |] eqn:S1'; cbn [bind] in Hy; try discriminate.
    cbn in S2.
    eapply step3_out; [exact Hok|exact S2| |exact Hx|exact Hy].
    exact (wo_out (step2 s e) X0 Y0 x1 y1 (step2_wo s e) H0 R0 S1 S1').
Qed.

Lemma ok_ev2_ok s e : ok_ev2 s e -> ok_ev e.
Proof. destruct e; cbn; [tauto|auto]. Qed.

Lemma run_events_out s p ig rd idp evs : forall x y x' y',
  Forall (ok_ev2 s) evs -> same_ctl x y -> out_rel x y ->
  run_events (step c rec s p ig false rd idp) evs x = ROk x' ->
  run_events (step c rec s p ig true rd idp) evs y = ROk y' -> out_rel x' y'.
Proof.
  induction evs as [|e r IH]; intros x y x' y' Hok H R Hx Hy; cbn [run_events] in Hx, Hy.
  - injection Hx as <-. injection Hy as <-. exact R.
  - inversion Hok as [|? ? He Hr]; subst.
    pose proof (step_strip c rec Hrec_defs s p ig rd idp e x y (ok_ev2_ok s e He) H) as SC.
    destruct (step c rec s p ig false rd idp e x) as [x1| | | |] eqn:S1; cbn [bind] in Hx; try discriminate.
    destruct (step c rec s p ig true rd idp e y) as [y1| | | |] eqn:S2; cbn [bind] in Hy; try discriminate.
    cbn in SC. eapply IH; [exact Hr|exact SC| |exact Hx|exact Hy].
    exact (step_out s p ig rd idp e x y x1 y1 He H R S1 S2).
Qed.
End Strip.

(* ------------------------------------------------------------------ whole runs *)
(* the text of a Comment node of one of the trees the parser returned during the run *)
Definition cmt (c : cfg) (w : bytes) : Prop :=
  exists txt t n l, In (txt, inl t) (cfg_parse c) /\ In (Enter n) (events t) /\ kind n = K_Comment /\
                    node_locate n = ROk l /\ w = lstr txt l.

Lemma assoc_in_eq {A} k (l : list (bytes * A)) v : assoc k l = Some v -> In (k, v) l.
Proof.
  induction l as [|[k' v'] l IH]; cbn; [discriminate|].
  destruct (bytes_eqb k k') eqn:E; [|auto]. intros [= ->]. apply bytes_eqb_eq in E. subst. now left.
Qed.

Theorem pp_str_out : forall fuel c s p pre ig rd idp,
  literal_includes c ->
  rel_res (same_out (cmt c)) (pp_str fuel c s p pre ig false rd idp) (pp_str fuel c s p pre ig true rd idp).
Proof.
  induction fuel as [|f IH]; intros c s p pre ig rd idp HL; [exact I|].
  cbn [pp_str]. unfold pp_str_body.
  destruct (cfg_limit c <? idp); [cbn; reflexivity|].
  destruct (assoc s (cfg_parse c)) as [[t|pos]|] eqn:EA; try (cbn; reflexivity).
  pose proof (assoc_in_eq _ _ _ EA) as Hin.
  assert (Hrec : forall s0 p0 d ig0 rd0 idp0,
            rel_res (same_out (cmt c)) (pp_str f c s0 p0 d ig0 false rd0 idp0) (pp_str f c s0 p0 d ig0 true rd0 idp0))
    by (intros; now apply IH).
  assert (Hok : Forall (ok_ev2 (cmt c) s) (events t)).
  { apply Forall_forall. intros e He. destruct e as [n|n]; cbn; [|exact I]. split.
    - pose proof (HL s t Hin) as F. rewrite Forall_forall in F. exact (F _ He).
    - intros Hk l Hl. exists s, t, n, l. auto. }
  pose proof (run_events_strip c (pp_str f c) (Hrec_defs (pp_str f c) (cmt c) Hrec) s p ig rd idp (events t)
                (st0 (seed_defines pre)) (st0 (seed_defines pre))
                (proj2 (Forall_forall _ _) (fun e He => ok_ev2_ok (cmt c) s e (proj1 (Forall_forall _ _) Hok e He)))
                (same_ctl_refl _)) as SC.
  destruct (run_events (step c (pp_str f c) s p ig false rd idp) (events t) (st0 (seed_defines pre))) as [x| | | |] eqn:Ex;
    destruct (run_events (step c (pp_str f c) s p ig true rd idp) (events t) (st0 (seed_defines pre))) as [y| | | |] eqn:Ey;
    cbn in SC |- *; try contradiction; try exact SC; try exact I.
  split.
  - destruct SC as (_ & _ & _ & E4 & _ & _). exact E4.
  - cbn. eapply (run_events_out c (pp_str f c) (cmt c) Hrec); [exact Hok|apply same_ctl_refl| |exact Ex|exact Ey].
    unfold out_rel. cbn. constructor.
Qed.
