(* C10: what an `include "file" does in the event loop -- the named file is preprocessed with the
   table in force, one include level deeper; its output is spliced in at this point, the table it
   returns is the table from here on; its failure is wrapped once.  Proofs only. *)
From SV Require Import Eval EvalFacts.

Lemma skip_push_fields t x :
  s_item (skip_push t x) = s_item x /\ s_out (skip_push t x) = s_out x /\ s_ops (skip_push t x) = s_ops x /\
  s_inc (skip_push t x) = s_inc x /\ s_skipws (skip_push t x) = s_skipws x /\ s_skip (skip_push t x) = s_skip x.
Proof. unfold skip_push. destruct (leaves t); cbn; auto 10. Qed.

Section Include.
Variables (c : cfg) (rec : rec_t) (s : bytes) (p : path) (strip : bool) (rdepth idepth : N).

(* the state in which the included file's output is appended: only bookkeeping differs from x *)
Definition inc_state (t kw : tree) (line : N) (x : st) : st :=
  skip_push kw (set_inc (Some line) (set_skip true (skip_push t x))).

Lemma inc_state_fields t kw line x :
  s_defs (inc_state t kw line x) = s_defs x /\ s_out (inc_state t kw line x) = s_out x /\
  s_ops (inc_state t kw line x) = s_ops x /\ s_item (inc_state t kw line x) = s_item x.
Proof.
  unfold inc_state.
  destruct (skip_push_fields kw (set_inc (Some line) (set_skip true (skip_push t x)))) as (A1 & A2 & A3 & _).
  destruct (skip_push_fields t x) as (B1 & B2 & B3 & _).
  rewrite skip_push_defs, A1, A2, A3. cbn. rewrite skip_push_defs. auto.
Qed.

Theorem include_literal t inner sym kw lit l fl x :
  children t = [inner] -> kind inner = K_IncludeCompilerDirectiveDoubleQuote -> children inner = [sym; kw; lit] ->
  node_locate t = ROk l -> first_leaf lit = Some fl ->
  (match s_item x with Some i => i =? l_line l | None => false end) = false ->
  let file := resolve_path c (trim_matches 34 (lstr s fl)) in
  include_enter c rec s p strip rdepth idepth t x =
  match pp_file c rec file (s_defs x) false strip (idepth + 1) with
  | ROk (text, ops, nd) => ROk (emit_merge text ops (set_defs nd (inc_state t kw (l_line l) x)))
  | RErr e => RErr (EInclude e)
  | RPanic k => RPanic k
  | RFuel => RFuel
  | RNeedParse u => RNeedParse u
  end.
Proof.
  intros Ht Hk Hi Hl Hf Hline file. unfold include_enter. rewrite Hl. cbn [bind].
  destruct (skip_push_fields t x) as (B1 & _).
  cbn [s_item set_inc set_skip]. rewrite B1, Hline. rewrite Ht, Hi, Hk, N.eqb_refl, Hf. cbn [bind].
  fold (inc_state t kw (l_line l) x).
  destruct (inc_state_fields t kw (l_line l) x) as (D & _). rewrite D. reflexivity.
Qed.

(* the splice: output so far is kept, the included text comes next; the returned table takes over *)
Corollary include_literal_ok t inner sym kw lit l fl x text ops nd :
  children t = [inner] -> kind inner = K_IncludeCompilerDirectiveDoubleQuote -> children inner = [sym; kw; lit] ->
  node_locate t = ROk l -> first_leaf lit = Some fl ->
  (match s_item x with Some i => i =? l_line l | None => false end) = false ->
  pp_file c rec (resolve_path c (trim_matches 34 (lstr s fl))) (s_defs x) false strip (idepth + 1) = ROk (text, ops, nd) ->
  exists x', include_enter c rec s p strip rdepth idepth t x = ROk x' /\
             s_out x' = text :: s_out x /\ s_ops x' = Merge ops :: s_ops x /\ s_defs x' = nd.
Proof.
  intros Ht Hk Hi Hl Hf Hline Hp. rewrite (include_literal t inner sym kw lit l fl x Ht Hk Hi Hl Hf Hline). rewrite Hp.
  eexists. split; [reflexivity|]. destruct (inc_state_fields t kw (l_line l) x) as (_ & O & P & _).
  cbn. rewrite O, P. auto.
Qed.
End Include.

(* C11 / C05: a macro usage hands the table returned by the expansion of its body on to the text
   that follows (definitions and undefinitions made by the body included) *)
Section Usage.
Variables (c : cfg) (rec : rec_t) (s : bytes) (p : path) (ignore strip : bool) (rdepth idepth : N).

Lemma fold_ws_defs l : forall (acc : res st) x',
  fold_left (fun acc n => bind acc (fun a => if is_ws_kind (kind n) then emit_node s p n a else ROk a)) l acc = ROk x' ->
  exists x0, acc = ROk x0 /\ s_defs x' = s_defs x0.
Proof.
  induction l as [|n l IH]; intros acc x' H; cbn [fold_left] in H.
  - exists x'. auto.
  - destruct (IH _ _ H) as (x1 & E & D). destruct acc as [x0| | | |]; cbn [bind] in E; try discriminate.
    exists x0. split; [reflexivity|]. rewrite D.
    destruct (is_ws_kind (kind n)); [|now injection E as <-].
    unfold emit_node in E. destruct (node_locate n); cbn [bind] in E; try discriminate. now injection E as <-.
Qed.

Lemma emit_ws_under_defs t x x' : emit_ws_under s p t x = ROk x' -> s_defs x' = s_defs x.
Proof.
  unfold emit_ws_under. intros H. destruct (fold_ws_defs _ _ _ H) as (x0 & E & D). injection E as <-. exact D.
Qed.

Theorem usage_adopts_table t x x' text org nd :
  resolve_usage c rec t s p (s_defs x) ignore strip (rdepth + 1) idepth = ROk (Some (text, org, nd)) ->
  usage_enter c rec s p ignore strip rdepth idepth t x = ROk x' -> s_defs x' = nd.
Proof.
  intros Hr H. unfold usage_enter in H. cbn [s_defs set_skip] in H. rewrite skip_push_defs in H.
  rewrite Hr in H. cbn [bind] in H.
  destruct (children t) as [|a [|b [|c0 [|d [|e [|f r]]]]]]; try discriminate;
    apply emit_ws_under_defs in H; rewrite H; reflexivity.
Qed.

Theorem usage_without_body_keeps_table t x x' :
  resolve_usage c rec t s p (s_defs x) ignore strip (rdepth + 1) idepth = ROk None ->
  usage_enter c rec s p ignore strip rdepth idepth t x = ROk x' -> s_defs x' = s_defs x.
Proof.
  intros Hr H. unfold usage_enter in H. cbn [s_defs set_skip] in H. rewrite skip_push_defs in H.
  rewrite Hr in H. cbn [bind] in H.
  destruct (children t) as [|a [|b [|c0 [|d [|e [|f r]]]]]]; try discriminate;
    apply emit_ws_under_defs in H; rewrite H; cbn; now rewrite skip_push_defs.
Qed.
End Usage.
