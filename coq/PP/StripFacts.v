(* C18: strip_comments is read by one arm of the loop (the Comment arm) and handed down to the
   recursive calls; everything else the loop does -- skip list, define table, line bookkeeping,
   errors -- is the same with the flag on and off.  Proofs only. *)
From SV Require Import Eval EvalFacts IgnoreFacts.
From Coq Require Import Lia PeanoNat Arith Wf_nat.

(* two states that differ at most in what has been written to the output *)
Definition same_ctl (x y : st) : Prop :=
  s_skip x = s_skip y /\ s_skipws x = s_skipws y /\ s_nodes x = s_nodes y /\
  s_defs x = s_defs y /\ s_item x = s_item y /\ s_inc x = s_inc y.

Definition rel_res {A} (R : A -> A -> Prop) (a b : res A) : Prop :=
  match a, b with
  | ROk x, ROk y => R x y
  | RErr e, RErr e' => e = e'
  | RPanic k, RPanic k' => k = k'
  | RFuel, RFuel => True
  | RNeedParse t, RNeedParse t' => t = t'
  | _, _ => False
  end.

(* results of preprocess_str: same error, or both succeed with the same define table *)
Definition same_defs (a b : bytes * list op * defines) : Prop := snd a = snd b.

Lemma same_ctl_refl x : same_ctl x x.
Proof. unfold same_ctl; auto 10. Qed.

Lemma rel_bind {A B} (RA : A -> A -> Prop) (RB : B -> B -> Prop) (a a' : res A) (k k' : A -> res B) :
  rel_res RA a a' -> (forall x y, RA x y -> rel_res RB (k x) (k' y)) -> rel_res RB (bind a k) (bind a' k').
Proof. destruct a, a'; cbn; auto; try contradiction; intros; subst; cbn; auto. Qed.

Lemma rel_res_eq {A} (R : A -> A -> Prop) (a : res A) : (forall x, R x x) -> rel_res R a a.
Proof. destruct a; cbn; auto. Qed.

Ltac ctl := unfold same_ctl in *; cbn [s_skip s_skipws s_nodes s_defs s_item s_inc
                                     emit emit_merge set_skip set_skipws set_defs set_item set_inc] in *; intuition congruence.

Lemma emit_ctl t1 s1 t2 s2 x y : same_ctl x y -> same_ctl (emit t1 s1 x) (emit t2 s2 y).
Proof. intros; ctl. Qed.
Lemma emit_ctl_l t1 s1 x y : same_ctl x y -> same_ctl (emit t1 s1 x) y.
Proof. intros; ctl. Qed.
Lemma emit_ctl_r t1 s1 x y : same_ctl x y -> same_ctl x (emit t1 s1 y).
Proof. intros; ctl. Qed.
Lemma emit_merge_ctl t1 o1 t2 o2 x y : same_ctl x y -> same_ctl (emit_merge t1 o1 x) (emit_merge t2 o2 y).
Proof. intros; ctl. Qed.
Lemma set_skip_ctl b x y : same_ctl x y -> same_ctl (set_skip b x) (set_skip b y).
Proof. intros; ctl. Qed.
Lemma set_skipws_ctl b x y : same_ctl x y -> same_ctl (set_skipws b x) (set_skipws b y).
Proof. intros; ctl. Qed.
Lemma set_defs_ctl d x y : same_ctl x y -> same_ctl (set_defs d x) (set_defs d y).
Proof. intros; ctl. Qed.
Lemma set_item_ctl v x y : same_ctl x y -> same_ctl (set_item v x) (set_item v y).
Proof. intros; ctl. Qed.
Lemma set_inc_ctl v x y : same_ctl x y -> same_ctl (set_inc v x) (set_inc v y).
Proof. intros; ctl. Qed.
Lemma skip_push_ctl t x y : same_ctl x y -> same_ctl (skip_push t x) (skip_push t y).
Proof. intros H. unfold skip_push. destruct (leaves t); [exact H|]. unfold same_ctl in *; cbn; intuition congruence. Qed.

Lemma emit_node_ctl s p t x y : same_ctl x y -> rel_res same_ctl (emit_node s p t x) (emit_node s p t y).
Proof. intros H. unfold emit_node. destruct (node_locate t); cbn; auto; try (now apply emit_ctl). Qed.

Lemma cond_rest_ctl s d ifid : forall cs hit x y, same_ctl x y ->
  rel_res same_ctl (cond_rest s d ifid hit cs x) (cond_rest s d ifid hit cs y).
Proof.
  intros cs. remember (length cs) as n eqn:Hn. revert cs Hn.
  induction n as [n IH] using lt_wf_ind. intros cs Hn hit x y H.
  destruct cs as [|a [|b [|t r]]]; cbn [cond_rest]; try (cbn; exact H).
  destruct (kind t =? K_TextMacroIdentifier).
  - destruct r as [|body r']; [cbn; reflexivity|].
    destruct (unwrap_id t s); cbn [bind]; try (cbn; reflexivity).
    cbn in Hn.
    destruct hit; [|destruct (def_contains d a0 || is_predefined ifid)];
      (eapply IH; [| reflexivity |]; [subst n; cbn; repeat constructor | repeat apply skip_push_ctl; exact H]).
  - destruct (kind t =? K_ElseGroupOfLines); [|cbn; reflexivity].
    cbn. destruct hit; repeat apply skip_push_ctl; exact H.
Qed.

Lemma cond_enter_ctl neg s t x y : same_ctl x y ->
  rel_res same_ctl (cond_enter neg s t x) (cond_enter neg s t y).
Proof.
  intros H. unfold cond_enter.
  destruct (children t) as [|a [|b [|i [|body rest]]]]; try (cbn; reflexivity).
  destruct (unwrap_id i s); cbn [bind]; try (cbn; reflexivity).
  rewrite !skip_push_defs. destruct H as (H1 & H2 & H3 & H4 & H5 & H6). rewrite H4.
  apply cond_rest_ctl.
  match goal with |- same_ctl (if ?b then _ else _) _ => destruct b end;
    repeat apply skip_push_ctl; unfold same_ctl; auto 10.
Qed.

Lemma formals_ctl_irrelevant : True. Proof. exact I. Qed.

Lemma define_enter_ctl s p t x y : same_ctl x y ->
  rel_res same_ctl (define_enter s p t x) (define_enter s p t y).
Proof.
  intros H. unfold define_enter.
  destruct (children t) as [|a [|b [|proto text]]]; try (cbn; reflexivity).
  destruct (children proto) as [|name args]; [cbn; reflexivity|].
  destruct (unwrap_id name s) as [id| | | |]; cbn [bind]; try (cbn; reflexivity).
  assert (H' : same_ctl (set_skip true (skip_push t x)) (set_skip true (skip_push t y)))
    by (apply set_skip_ctl, skip_push_ctl, H).
  destruct (is_predefined id).
  - cbn [bind]. now apply emit_node_ctl.
  - destruct (match args with _ :: lofa :: _ => formals_of s (children lofa) | _ => ROk [] end) as [fs| | | |];
      cbn [bind]; try (cbn; reflexivity).
    destruct (match text with mt :: _ => _ | [] => ROk None end) as [dt| | | |]; cbn [bind]; try (cbn; reflexivity).
    apply emit_node_ctl.
    destruct H' as (H1 & H2 & H3 & H4 & H5 & H6).
    unfold same_ctl; cbn [set_defs s_skip s_skipws s_nodes s_defs s_item s_inc]. rewrite H4. auto 10.
Qed.

Lemma position_enter_ctl s p t x y : same_ctl x y ->
  rel_res same_ctl (position_enter s p t x) (position_enter s p t y).
Proof.
  intros H. unfold position_enter.
  assert (H' : same_ctl (set_skip true (skip_push t x)) (set_skip true (skip_push t y)))
    by (apply set_skip_ctl, skip_push_ctl, H).
  destruct (children t) as [|a [|kw [|? ?]]]; try (cbn; reflexivity).
  destruct (node_locate kw); cbn [bind]; try (cbn; reflexivity).
  repeat match goal with |- rel_res _ (if ?b then _ else _) _ => destruct b end; cbn; auto using emit_ctl.
Qed.

Lemma emit_ws_under_ctl s p t x y : same_ctl x y ->
  rel_res same_ctl (emit_ws_under s p t x) (emit_ws_under s p t y).
Proof.
  intros H. unfold emit_ws_under.
  assert (H0 : rel_res same_ctl (ROk x) (ROk y)) by exact H. revert H0.
  generalize (ROk x : res st) (ROk y : res st). generalize (preorder t).
  induction l as [|n l IH]; intros a b Hab; cbn [fold_left]; [exact Hab|].
  apply IH. eapply rel_bind; [exact Hab|]. intros x' y' Hxy.
  destruct (is_ws_kind (kind n)); [now apply emit_node_ctl|exact Hxy].
Qed.

Lemma step2_ctl s e x y : same_ctl x y -> rel_res same_ctl (step2 s e x) (step2 s e y).
Proof.
  intros H. pose proof H as (H1 & H2 & H3 & H4 & H5 & H6). unfold step2. rewrite H6.
  destruct e as [t|t].
  - destruct (kind t =? K_SourceDescriptionNotDirective).
    { destruct (node_locate t); cbn [bind]; try (cbn; reflexivity).
      match goal with |- rel_res _ (if ?b then _ else _) _ => destruct b end; cbn; auto. }
    destruct (kind t =? K_CompilerDirective).
    { destruct (node_locate t); cbn [bind]; try (cbn; reflexivity).
      match goal with |- rel_res _ (if ?b then _ else _) _ => destruct b end; cbn; auto. }
    destruct (str_or_esc t) as [ch|]; [|cbn; exact H].
    destruct (first_leaf ch); [|cbn; reflexivity].
    match goal with |- rel_res _ (if ?b then _ else _) _ => destruct b end; cbn; auto using set_item_ctl.
  - destruct (kind t =? K_SourceDescriptionNotDirective).
    { destruct (node_locate t); cbn [bind]; try (cbn; reflexivity).
      destruct (trim _); cbn; auto using set_item_ctl. }
    destruct (kind t =? K_CompilerDirective).
    { destruct (node_locate t); cbn [bind]; try (cbn; reflexivity). cbn. auto using set_item_ctl. }
    cbn. exact H.
Qed.

Section Strip.
Variables (c : cfg) (rec : rec_t).
Hypothesis Hrec : forall s p d ig rd idp,
  rel_res same_defs (rec s p d ig false rd idp) (rec s p d ig true rd idp).

(* what a resolved usage hands back: the text may differ, origin and table may not *)
Definition same_usage (a b : option (bytes * option (path * range) * defines)) : Prop :=
  match a, b with
  | None, None => True
  | Some (_, o1, d1), Some (_, o2, d2) => o1 = o2 /\ d1 = d2
  | _, _ => False
  end.

Lemma resolve_usage_strip x s p d ig rd idp :
  rel_res same_usage (resolve_usage c rec x s p d ig false rd idp) (resolve_usage c rec x s p d ig true rd idp).
Proof.
  unfold resolve_usage.
  destruct (children x) as [|sym [|name rest]]; try (cbn; reflexivity).
  destruct (unwrap_id name s) as [id| | | |]; cbn [bind]; try (cbn; reflexivity).
  destruct (cfg_limit c <? rd); [cbn; reflexivity|].
  destruct (def_get d id) as [[df|]|]; try (cbn; auto; reflexivity).
  destruct (negb _ && _); [cbn; reflexivity|].
  destruct (bind_args _ _); [cbn; reflexivity|].
  destruct (d_text df) as [[body org]|]; [|cbn; auto].
  eapply rel_bind; [apply Hrec|]. intros [[t1 o1] d1] [[t2 o2] d2] E. cbn in E. cbn. auto.
Qed.

Lemma pp_file_strip f d ig idp :
  rel_res same_defs (pp_file c rec f d ig false idp) (pp_file c rec f d ig true idp).
Proof. unfold pp_file. destruct (assoc f (cfg_fs c)) as [[b|]|]; try (cbn; reflexivity). apply Hrec. Qed.

(* an `include whose file name is literal (not produced by a macro) *)
Definition literal_include (t : tree) : Prop :=
  forall inner, children t = [inner] ->
    (kind inner =? K_IncludeCompilerDirectiveDoubleQuote) || (kind inner =? K_IncludeCompilerDirectiveAngleBracket) = true.

Lemma include_enter_strip s p rd idp t x y :
  literal_include t -> same_ctl x y ->
  rel_res same_ctl (include_enter c rec s p false rd idp t x) (include_enter c rec s p true rd idp t y).
Proof.
  intros HL H. unfold include_enter.
  assert (H' : same_ctl (set_skip true (skip_push t x)) (set_skip true (skip_push t y)))
    by (apply set_skip_ctl, skip_push_ctl, H).
  destruct (node_locate t) as [l| | | |]; cbn [bind]; try (cbn; reflexivity).
  pose proof (set_inc_ctl (Some (l_line l)) _ _ H') as H2.
  pose proof H2 as (_ & _ & _ & _ & E5 & _). cbn [set_inc s_item] in E5. cbn [set_inc s_item]. rewrite E5.
  match goal with |- rel_res _ (if ?b then _ else _) _ => destruct b end; [cbn; reflexivity|].
  destruct (children t) as [|inner [|? ?]] eqn:EC; try (cbn; reflexivity).
  specialize (HL inner EC).
  destruct (children inner) as [|sym [|kw [|third [|? ?]]]]; try (cbn; reflexivity).
  pose proof (skip_push_ctl kw _ _ H2) as H3.
  destruct (kind inner =? K_IncludeCompilerDirectiveDoubleQuote) eqn:EDQ;
    [|destruct (kind inner =? K_IncludeCompilerDirectiveAngleBracket) eqn:EAB; [|discriminate]];
  (destruct (first_leaf third) as [fl|]; cbn [bind]; [|cbn; reflexivity];
   pose proof H3 as (_ & _ & _ & E4 & _ & _); rewrite E4;
   pose proof (pp_file_strip (resolve_path c (trim_matches 34 (lstr s fl))) (s_defs (skip_push kw (set_inc (Some (l_line l)) (set_skip true (skip_push t y))))) false (idp + 1)) as PF1;
   pose proof (pp_file_strip (resolve_path c (trim_end_by (N.eqb 62) (trim_start_by (N.eqb 60) (lstr s fl)))) (s_defs (skip_push kw (set_inc (Some (l_line l)) (set_skip true (skip_push t y))))) false (idp + 1)) as PF2;
   repeat match goal with
   | H : rel_res same_defs ?a ?b |- context[match ?a with _ => _ end] => destruct a as [[[? ?] ?]| | | |], b as [[[? ?] ?]| | | |]; cbn in H; try contradiction; subst
   end; cbn; auto; try (unfold same_defs in *; cbn [snd] in *; subst; apply emit_merge_ctl, set_defs_ctl, H3)).
Qed.

Lemma usage_enter_strip s p ig rd idp t x y :
  same_ctl x y ->
  rel_res same_ctl (usage_enter c rec s p ig false rd idp t x) (usage_enter c rec s p ig true rd idp t y).
Proof.
  intros H. unfold usage_enter.
  assert (H' : same_ctl (set_skip true (skip_push t x)) (set_skip true (skip_push t y)))
    by (apply set_skip_ctl, skip_push_ctl, H).
  pose proof H' as (_ & _ & _ & E4 & _ & _). rewrite E4.
  eapply rel_bind; [apply resolve_usage_strip|].
  intros [[[t1 o1] d1]|] [[[t2 o2] d2]|] E; cbn in E; try contradiction.
  - destruct E as [-> ->].
    assert (H2 : same_ctl (set_defs d2 (emit t1 o2 (set_skip true (skip_push t x))))
                          (set_defs d2 (emit t2 o2 (set_skip true (skip_push t y)))))
      by (apply set_defs_ctl, emit_ctl, H').
    destruct (children t) as [|a [|b [|c0 [|d0 [|e0 [|? ?]]]]]]; try (cbn; reflexivity); now apply emit_ws_under_ctl.
  - destruct (children t) as [|a [|b [|c0 [|d0 [|e0 [|? ?]]]]]]; try (cbn; reflexivity); now apply emit_ws_under_ctl.
Qed.

Definition ok_ev (e : ev) : Prop :=
  match e with Enter t => kind t = K_IncludeCompilerDirective -> literal_include t | Leave _ => True end.

Lemma step3_strip s p ig rd idp e x y :
  ok_ev e -> same_ctl x y ->
  rel_res same_ctl (step3 c rec s p ig false rd idp e x) (step3 c rec s p ig true rd idp e y).
Proof.
  intros Hok H. unfold step3. destruct e as [t|t].
  - pose proof H as (E1 & E2 & E3 & E4 & E5 & E6).
    destruct (kind t =? K_SourceDescriptionNotDirective); [now apply emit_node_ctl|].
    destruct (kind t =? K_SourceDescription).
    { destruct (children t) as [|ch [|? ?]]; try (cbn; exact H).
      destruct (_ || _); [now apply emit_node_ctl|cbn; exact H]. }
    destruct (is_kept_kind (kind t)).
    { eapply rel_bind; [now apply emit_node_ctl|]. intros; cbn; now apply set_skipws_ctl. }
    destruct (kind t =? K_UndefineCompilerDirective).
    { destruct (children t) as [|a [|b [|name [|? ?]]]]; try (cbn; reflexivity).
      destruct (match children name with i :: _ => unwrap_id i s | [] => RPanic 3 end); cbn [bind]; try (cbn; reflexivity).
      rewrite E4. eapply rel_bind; [apply emit_node_ctl, set_defs_ctl, H|]. intros; cbn; now apply set_skipws_ctl. }
    destruct (kind t =? K_UndefineallCompilerDirective).
    { eapply rel_bind; [apply emit_node_ctl, set_defs_ctl, H|]. intros; cbn; now apply set_skipws_ctl. }
    destruct (kind t =? K_IfdefDirective); [now apply cond_enter_ctl|].
    destruct (kind t =? K_IfndefDirective); [now apply cond_enter_ctl|].
    destruct (is_ws_kind (kind t)).
    { rewrite E2. destruct (_ && _); [now apply emit_node_ctl|cbn; exact H]. }
    destruct (kind t =? K_Comment).
    { cbn [negb]. unfold emit_node. destruct (node_locate t) as [l| | | |]; cbn [bind]; try (cbn; reflexivity).
      repeat match goal with |- context [if ?b then _ else _] => destruct b end; cbn;
        auto 8 using emit_ctl, emit_ctl_l. }
    destruct (kind t =? K_TextMacroDefinition); [now apply define_enter_ctl|].
    destruct (kind t =? K_IncludeCompilerDirective) eqn:EK.
    { cbn [andb]. destruct (negb ig); [|
        destruct (kind t =? K_TextMacroUsage); [now apply usage_enter_strip|];
        destruct (kind t =? K_PositionCompilerDirective); [now apply position_enter_ctl|cbn; exact H]].
      apply include_enter_strip; [|exact H]. apply Hok. now apply N.eqb_eq. }
    cbn [andb].
    destruct (kind t =? K_TextMacroUsage); [now apply usage_enter_strip|].
    destruct (kind t =? K_PositionCompilerDirective); [now apply position_enter_ctl|cbn; exact H].
  - destruct (_ || _); cbn; [now apply set_skipws_ctl|exact H].
Qed.

Lemma step_strip s p ig rd idp e x y :
  ok_ev e -> same_ctl x y ->
  rel_res same_ctl (step c rec s p ig false rd idp e x) (step c rec s p ig true rd idp e y).
Proof.
  intros Hok H. unfold step. pose proof H as (E1 & E2 & E3 & E4 & E5 & E6).
  unfold skip_contains. rewrite E1, E3.
  match goal with |- rel_res _ (if ?b then _ else _) _ => destruct b eqn:EB end.
  - cbn. now apply set_skip_ctl.
  - eapply rel_bind; [apply step2_ctl, set_skip_ctl, H|]. intros. now apply step3_strip.
Qed.

Lemma run_events_strip s p ig rd idp evs : forall x y,
  Forall ok_ev evs -> same_ctl x y ->
  rel_res same_ctl (run_events (step c rec s p ig false rd idp) evs x)
                   (run_events (step c rec s p ig true rd idp) evs y).
Proof.
  induction evs as [|e r IH]; intros x y Hok H; cbn [run_events]; [exact H|].
  inversion Hok; subst. eapply rel_bind; [now apply step_strip|]. intros. now apply IH.
Qed.
End Strip.

(* every tree the run may parse names its include files literally *)
Definition literal_includes (c : cfg) : Prop :=
  forall txt t, In (txt, inl t) (cfg_parse c) -> Forall ok_ev (events t).

Lemma assoc_in {A} k (l : list (bytes * A)) v : assoc k l = Some v -> exists k', In (k', v) l.
Proof.
  induction l as [|[k' v'] l IH]; cbn; [discriminate|].
  destruct (bytes_eqb k k'); [intros [= ->]; eauto|]. intros H. destruct (IH H) as [k2 ?]. eauto.
Qed.

Theorem pp_str_strip : forall fuel c s p pre ig rd idp,
  literal_includes c ->
  rel_res same_defs (pp_str fuel c s p pre ig false rd idp) (pp_str fuel c s p pre ig true rd idp).
Proof.
  induction fuel as [|f IH]; intros c s p pre ig rd idp HL; [exact I|].
  cbn [pp_str]. unfold pp_str_body.
  destruct (cfg_limit c <? idp); [cbn; reflexivity|].
  destruct (assoc s (cfg_parse c)) as [[t|pos]|] eqn:EA; try (cbn; reflexivity).
  destruct (assoc_in _ _ _ EA) as [k' Hin].
  eapply rel_bind.
  - apply run_events_strip; [intros; now apply IH|eapply HL; exact Hin|apply same_ctl_refl].
  - intros x y (E1 & E2 & E3 & E4 & E5 & E6). cbn. exact E4.
Qed.

(* With strip_comments a Comment node never contributes its text: at most one blank or one newline
   stands in its place, whatever the comment holds. *)
Lemma comment_stripped c rec s p ig rd idp t x x' :
  kind t = K_Comment -> step3 c rec s p ig true rd idp (Enter t) x = ROk x' ->
  s_out x' = s_out x \/ s_out x' = [32] :: s_out x \/ s_out x' = [10] :: s_out x.
Proof.
  intros Hk H. unfold step3 in H. rewrite Hk in H.
  change (K_Comment =? K_SourceDescriptionNotDirective) with false in H.
  change (K_Comment =? K_SourceDescription) with false in H.
  change (is_kept_kind K_Comment) with false in H.
  change (K_Comment =? K_UndefineCompilerDirective) with false in H.
  change (K_Comment =? K_UndefineallCompilerDirective) with false in H.
  change (K_Comment =? K_IfdefDirective) with false in H.
  change (K_Comment =? K_IfndefDirective) with false in H.
  change (is_ws_kind K_Comment) with false in H.
  change (K_Comment =? K_Comment) with true in H. cbn [negb] in H.
  destruct (node_locate t) as [l| | | |]; cbn [bind] in H; try discriminate.
  destruct (starts_with [47; 42] (lstr s l)); [injection H as <-; cbn; auto|].
  destruct (ends_with [10] (lstr s l) || (0 <? rd)); injection H as <-; cbn; auto.
Qed.
