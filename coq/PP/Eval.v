(* Executable model of sv-parser-pp/src/preprocess.rs: preprocess, preprocess_inner,
   preprocess_str (the event loop over the pp tree), identifier, split_text,
   resolve_text_macro_usage.  It is a transliteration: one `match` arm of the Rust loop = one
   branch of [step3].  The pp *parser* is not modelled here: [cfg_parse] is the table of the
   parses the implementation performed (texts logged by the `verif` hook, re-parsed by the
   harness with the real pp_parser); a text that is not in the table makes the model stop with
   [RNeedParse], which the correspondence check reports as a difference.
   Model only; theorems are in EvalFacts.v and Props/. *)
From SV Require Export Bytes Tree Origin.

(* ------------------------------------------------------------------ node kinds
   The numbers are private to the model; gen/ppmodel.py reads the names from these lines
   (K_<RefNode variant name>; the four WhiteSpace variants get a kind each because the loop
   distinguishes WhiteSpace::Space). *)
Definition K_WhiteSpace_Space : N := 1.
Definition K_WhiteSpace_Newline : N := 2.
Definition K_WhiteSpace_Comment : N := 3.
Definition K_WhiteSpace_CompilerDirective : N := 4.
Definition K_Comment : N := 5.
Definition K_SourceDescription : N := 6.
Definition K_SourceDescriptionNotDirective : N := 7.
Definition K_StringLiteral : N := 8.
Definition K_EscapedIdentifier : N := 9.
Definition K_SimpleIdentifier : N := 10.
Definition K_CompilerDirective : N := 11.
Definition K_ResetallCompilerDirective : N := 12.
Definition K_TimescaleCompilerDirective : N := 13.
Definition K_DefaultNettypeCompilerDirective : N := 14.
Definition K_UnconnectedDriveCompilerDirective : N := 15.
Definition K_NounconnectedDriveCompilerDirective : N := 16.
Definition K_CelldefineDriveCompilerDirective : N := 17.
Definition K_EndcelldefineDriveCompilerDirective : N := 18.
Definition K_Pragma : N := 19.
Definition K_LineCompilerDirective : N := 20.
Definition K_KeywordsDirective : N := 21.
Definition K_EndkeywordsDirective : N := 22.
Definition K_UndefineCompilerDirective : N := 23.
Definition K_UndefineallCompilerDirective : N := 24.
Definition K_IfdefDirective : N := 25.
Definition K_IfndefDirective : N := 26.
Definition K_TextMacroDefinition : N := 27.
Definition K_IncludeCompilerDirective : N := 28.
Definition K_IncludeCompilerDirectiveDoubleQuote : N := 29.
Definition K_IncludeCompilerDirectiveAngleBracket : N := 30.
Definition K_IncludeCompilerDirectiveTextMacroUsage : N := 31.
Definition K_TextMacroUsage : N := 32.
Definition K_PositionCompilerDirective : N := 33.
Definition K_Keyword : N := 34.
Definition K_Symbol : N := 35.
Definition K_TextMacroIdentifier : N := 36.
Definition K_IfdefGroupOfLines : N := 37.
Definition K_IfndefGroupOfLines : N := 38.
Definition K_ElsifGroupOfLines : N := 39.
Definition K_ElseGroupOfLines : N := 40.
Definition K_TextMacroName : N := 41.
Definition K_MacroText : N := 42.
Definition K_ListOfFormalArguments : N := 43.
Definition K_FormalArgument : N := 44.
Definition K_DefaultText : N := 45.
Definition K_ListOfActualArguments : N := 46.
Definition K_ActualArgument : N := 47.
Definition K_AngleBracketLiteral : N := 48.

Definition is_ws_kind (k : N) : bool := (1 <=? k) && (k <=? 4).

(* the eleven directives that are copied to the output unchanged *)
Definition is_kept_kind (k : N) : bool := (12 <=? k) && (k <=? 22).

(* ------------------------------------------------------------------ results *)
Inductive perr :=
| EPreprocess (at_ : option (path * N))
| EIncludeLine
| EExceed
| EDefineNotFound (name : bytes)
| EDefineNoArgs (name : bytes)
| EDefineArgNotFound (name : bytes)
| EFile (p : path)
| EReadUtf8 (p : path)
| EInclude (e : perr).

Inductive res (A : Type) :=
| ROk (a : A)
| RErr (e : perr)
| RPanic (site : N)          (* an unwrap / assert of the Rust code would fire *)
| RFuel                      (* model fuel exhausted: never on the inputs the theorems cover *)
| RNeedParse (t : bytes).    (* text not in the parse table *)
Arguments ROk {A}. Arguments RErr {A}. Arguments RPanic {A}. Arguments RFuel {A}.
Arguments RNeedParse {A}.

Definition bind {A B} (r : res A) (f : A -> res B) : res B :=
  match r with
  | ROk a => f a
  | RErr e => RErr e
  | RPanic s => RPanic s
  | RFuel => RFuel
  | RNeedParse t => RNeedParse t
  end.
Notation "'do' x <- r ; k" := (bind r (fun x => k)) (at level 200, x pattern, r at level 100, k at level 200).

(* ------------------------------------------------------------------ defines *)
Record define := mkDef {
  d_id : bytes;
  d_args : list (bytes * option bytes);
  d_text : option (bytes * option (path * range)) }.

Definition defines := list (bytes * option define).   (* HashMap<String, Option<Define>> *)

Fixpoint def_get (d : defines) (k : bytes) : option (option define) :=
  match d with
  | [] => None
  | (k', v) :: r => if bytes_eqb k k' then Some v else def_get r k
  end.

Fixpoint def_remove (d : defines) (k : bytes) : defines :=
  match d with
  | [] => []
  | (k', v) :: r => if bytes_eqb k k' then def_remove r k else (k', v) :: def_remove r k
  end.

Definition def_insert (d : defines) (k : bytes) (v : option define) : defines :=
  (k, v) :: def_remove d k.

Definition def_contains (d : defines) (k : bytes) : bool :=
  match def_get d k with Some _ => true | None => false end.

Definition str (l : list nat) : bytes := map N.of_nat l.

(* "__LINE__" | "__FILE__" *)
Definition s_LINE : bytes := [95;95;76;73;78;69;95;95].
Definition s_FILE : bytes := [95;95;70;73;76;69;95;95].
Definition is_predefined (s : bytes) : bool := bytes_eqb s s_LINE || bytes_eqb s s_FILE.

(* IEEE 1800-2017 40.3.1 coverage constants, (name, body) *)
Definition sv_cov : list (bytes * bytes) :=
  [ ([83;86;95;67;79;86;95;83;84;65;82;84], [48]);
    ([83;86;95;67;79;86;95;83;84;79;80], [49]);
    ([83;86;95;67;79;86;95;82;69;83;69;84], [50]);
    ([83;86;95;67;79;86;95;67;72;69;67;75], [51]);
    ([83;86;95;67;79;86;95;77;79;68;85;76;69], [49;48]);
    ([83;86;95;67;79;86;95;72;73;69;82], [49;49]);
    ([83;86;95;67;79;86;95;65;83;83;69;82;84;73;79;78], [50;48]);
    ([83;86;95;67;79;86;95;70;83;77;95;83;84;65;84;69], [50;49]);
    ([83;86;95;67;79;86;95;83;84;65;84;69;77;69;78;84], [50;50]);
    ([83;86;95;67;79;86;95;84;79;71;71;76;69], [50;51]);
    ([83;86;95;67;79;86;95;79;86;69;82;70;76;79;87], [45;50]);
    ([83;86;95;67;79;86;95;69;82;82;79;82], [45;49]);
    ([83;86;95;67;79;86;95;78;79;67;79;86], [48]);
    ([83;86;95;67;79;86;95;79;75], [49]);
    ([83;86;95;67;79;86;95;80;65;82;84;73;65;76], [50]) ].

Definition seed_defines (pre : defines) : defines :=
  let d0 := fold_left (fun d kv => def_insert d (fst kv)
                         (Some (mkDef (fst kv) [] (Some (snd kv, None))))) sv_cov [] in
  (* `for (k, v) in pre_defines { defines.insert(k, v) }` -- a HashMap has unique keys *)
  fold_left (fun d kv => def_insert d (fst kv) (snd kv)) pre d0.

(* ------------------------------------------------------------------ tree helpers *)
Definition loc_eqb (a b : loc) : bool :=
  (l_off a =? l_off b) && (l_len a =? l_len b) && (l_line a =? l_line b).

(* derived PartialEq of RefNode: same variant, equal referents *)
Fixpoint tree_eqb (a b : tree) : bool :=
  match a, b with
  | Leaf l1, Leaf l2 => loc_eqb l1 l2
  | Node k1 c1, Node k2 c2 =>
      (k1 =? k2) &&
      (fix go (l1 l2 : list tree) : bool :=
         match l1, l2 with
         | [], [] => true
         | x :: r1, y :: r2 => tree_eqb x y && go r1 r2
         | _, _ => false
         end) c1 c2
  | _, _ => false
  end.

(* Locate::try_from(&node) (derive): join the leaves; the adjacency assert is site 1, a node
   without leaves (`.unwrap()` of Err) is site 2 *)
Fixpoint join_locs (acc : loc) (ls : list loc) : option loc :=
  match ls with
  | [] => Some acc
  | x :: r => if l_off x =? l_off acc + l_len acc
              then join_locs (mkLoc (l_off acc) (l_len acc + l_len x) (l_line acc)) r
              else None
  end.

Definition node_locate (t : tree) : res loc :=
  match leaves t with
  | [] => RPanic 2
  | l :: r => match join_locs l r with Some x => ROk x | None => RPanic 1 end
  end.

Definition lstr (s : bytes) (l : loc) : bytes := slice s (l_off l) (l_len l).
Definition lrange (l : loc) : range := mkR (l_off l) (l_off l + l_len l).

Definition first_leaf (t : tree) : option loc :=
  match leaves t with [] => None | l :: _ => Some l end.

(* fn identifier(node, s) *)
Definition identifier (t : tree) (s : bytes) : option bytes :=
  match find (fun n => (kind n =? K_SimpleIdentifier) || (kind n =? K_EscapedIdentifier)) (preorder t) with
  | Some (Node k (Leaf l :: _)) =>
      if k =? K_SimpleIdentifier then Some (lstr s l) else Some (tl (lstr s l))
  | _ => None
  end.

Definition unwrap_id (t : tree) (s : bytes) : res bytes :=
  match identifier t s with Some x => ROk x | None => RPanic 3 end.

(* fn get_str(node, s): every Locate under the node, concatenated *)
Definition get_str_all (ts : list tree) (s : bytes) : bytes :=
  concat_bytes (map (lstr s) (flat_map leaves ts)).

(* ------------------------------------------------------------------ split_text *)
Record sp := mkSp {
  sp_string : bool; sp_ident : bool; sp_comment : bool; sp_bq : bool;
  sp_lead : bool; sp_bs : bool;
  sp_block : bool; sp_blen : N; sp_star : bool;      (* inside a block comment; its length so far; previous char was '*' *)
  sp_esc : bool;                                       (* inside a string literal the previous char was an unescaped backslash *)
  sp_x : bytes (* reversed *); sp_ret : list bytes (* reversed *) }.

Definition sp_flush (st : sp) : sp :=
  mkSp (sp_string st) (sp_ident st) (sp_comment st) (sp_bq st) (sp_lead st) (sp_bs st)
       (sp_block st) (sp_blen st) (sp_star st) (sp_esc st) [] (rev (sp_x st) :: sp_ret st).
Definition sp_pushc (c : N) (st : sp) : sp :=
  mkSp (sp_string st) (sp_ident st) (sp_comment st) (sp_bq st) (sp_lead st) (sp_bs st)
       (sp_block st) (sp_blen st) (sp_star st) (sp_esc st) (c :: sp_x st) (sp_ret st).
Definition sp_set_string (b : bool) (t : sp) : sp :=
  mkSp b (sp_ident t) (sp_comment t) (sp_bq t) (sp_lead t) (sp_bs t) (sp_block t) (sp_blen t) (sp_star t) (sp_esc t) (sp_x t) (sp_ret t).
Definition sp_set_comment (b : bool) (t : sp) : sp :=
  mkSp (sp_string t) (sp_ident t) b (sp_bq t) (sp_lead t) (sp_bs t) (sp_block t) (sp_blen t) (sp_star t) (sp_esc t) (sp_x t) (sp_ret t).

Definition sp_main (c : N) (peek : option N) (st : sp) : sp :=
  let ident_prev := sp_ident st in
  let ident := is_alnum c || (c =? 95) in
  let in_block := sp_block st in
  (* block-comment bookkeeping happens first; [in_block] is the state in which this character is read *)
  let '(blk, blen) :=
    if sp_block st then
      (if (c =? 47) && sp_star st && (4 <=? sp_blen st + 1) then false else true, sp_blen st + 1)
    else if (c =? 47) && (match peek with Some 42 => true | _ => false end) && negb (sp_string st) && negb (sp_comment st)
    then (true, 1) else (false, sp_blen st) in
  let st := mkSp (sp_string st) ident (sp_comment st) (sp_bq st) false (sp_bs st) blk blen (sp_star st) (sp_esc st) (sp_x st) (sp_ret st) in
  (* the tail of the loop body: is_backquote_prev / is_star_prev (skipped by the `continue` inside a // comment) *)
  let fin (t : sp) := mkSp (sp_string t) (sp_ident t) (sp_comment t) (c =? 96) (sp_lead t) (sp_bs t)
                           (sp_block t) (sp_blen t) (c =? 42)
                           (sp_string t && (c =? 92) && negb (sp_esc t)) (sp_x t) (sp_ret t) in
  if (c =? 10) && sp_comment st then fin (sp_pushc c (sp_set_comment false st))
  else if sp_comment st then st                                   (* `continue` *)
  else if (c =? 34) && sp_bq st then fin (sp_flush (sp_pushc c st))
  else if (c =? 34) && negb (sp_string st) then fin (sp_set_string true (sp_pushc c (sp_flush st)))
  else if (c =? 34) && sp_string st && negb (sp_esc st) then fin (sp_set_string false (sp_flush (sp_pushc c st)))
  else if (c =? 47) && (match peek with Some 47 => true | _ => false end) && negb (sp_string st) && negb in_block then
    fin (sp_set_comment true st)
  else if negb (sp_string st) then
    fin (sp_pushc c (if Bool.eqb ident ident_prev then st else sp_flush st))
  else fin (sp_pushc c st).

Definition sp_step (c : N) (peek : option N) (st : sp) : sp :=
  if sp_lead st then
    if negb (c =? 92) && negb (is_ascii_ws c) then sp_main c peek st
    else if sp_bs st && (c =? 10) then
      mkSp (sp_string st) (sp_ident st) (sp_comment st) (sp_bq st) false (sp_bs st) (sp_block st) (sp_blen st) (sp_star st) (sp_esc st) (sp_x st) (sp_ret st)
    else mkSp (sp_string st) (sp_ident st) (sp_comment st) (sp_bq st) true (c =? 92) (sp_block st) (sp_blen st) (sp_star st) (sp_esc st) (sp_x st) (sp_ret st)
  else sp_main c peek st.

Fixpoint sp_run (s : bytes) (st : sp) : sp :=
  match s with
  | [] => st
  | c :: r => sp_run r (sp_step c (match r with [] => None | p :: _ => Some p end) st)
  end.

Definition split_text (s : bytes) : list bytes :=
  let st := sp_run s (mkSp false false false false true false false 0 false false [] []) in
  rev (rev (sp_x st) :: sp_ret st).

(* ------------------------------------------------------------------ configuration *)
Inductive fentry := FText (b : bytes) | FUnreadable.   (* unreadable: not UTF-8, a directory, ... *)

Record cfg := mkCfg {
  cfg_parse : list (bytes * (tree + N));   (* text -> pp tree | all_consuming error offset *)
  cfg_fs : list (path * fentry);           (* what exists, by the path as it is spelt *)
  cfg_incs : list path;                    (* include_paths *)
  cfg_limit : N }.                         (* RECURSIVE_LIMIT *)

Fixpoint assoc {A} (k : bytes) (l : list (bytes * A)) : option A :=
  match l with
  | [] => None
  | (k', v) :: r => if bytes_eqb k k' then Some v else assoc k r
  end.

(* Path::is_relative on Unix *)
Definition is_relative (p : path) : bool := match p with 47 :: _ => false | _ => true end.

(* Path::join for a relative second component *)
Definition path_join (a b : path) : path :=
  match a with
  | [] => b
  | _ => if ends_with [47] a then a ++ b else a ++ 47 :: b
  end.

Definition fs_exists (c : cfg) (p : path) : bool :=
  match assoc p (cfg_fs c) with Some _ => true | None => false end.

Definition resolve_path (c : cfg) (p : path) : path :=
  if is_relative p && negb (fs_exists c p) then
    match find (fun i => fs_exists c (path_join i p)) (cfg_incs c) with
    | Some i => path_join i p
    | None => p
    end
  else p.

(* ------------------------------------------------------------------ the event loop state *)
Record st := mkSt {
  s_skip : bool; s_skipws : bool; s_nodes : list tree; s_defs : defines;
  s_item : option N; s_inc : option N;
  s_out : list bytes;   (* pushed strings, reversed *)
  s_ops : list op }.    (* the same pushes / merges as origin-map operations, reversed *)

Definition set_skip (b : bool) (x : st) : st :=
  mkSt b (s_skipws x) (s_nodes x) (s_defs x) (s_item x) (s_inc x) (s_out x) (s_ops x).
Definition set_skipws (b : bool) (x : st) : st :=
  mkSt (s_skip x) b (s_nodes x) (s_defs x) (s_item x) (s_inc x) (s_out x) (s_ops x).
Definition set_defs (d : defines) (x : st) : st :=
  mkSt (s_skip x) (s_skipws x) (s_nodes x) d (s_item x) (s_inc x) (s_out x) (s_ops x).
Definition set_item (v : option N) (x : st) : st :=
  mkSt (s_skip x) (s_skipws x) (s_nodes x) (s_defs x) v (s_inc x) (s_out x) (s_ops x).
Definition set_inc (v : option N) (x : st) : st :=
  mkSt (s_skip x) (s_skipws x) (s_nodes x) (s_defs x) (s_item x) v (s_out x) (s_ops x).

(* SkipNodes::push: only nodes that contain a Locate *)
Definition skip_push (t : tree) (x : st) : st :=
  match leaves t with
  | [] => x
  | _ => mkSt (s_skip x) (s_skipws x) (s_nodes x ++ [t]) (s_defs x) (s_item x) (s_inc x) (s_out x) (s_ops x)
  end.

Definition skip_contains (x : st) (t : tree) : bool := existsb (tree_eqb t) (s_nodes x).

(* PreprocessedText::push *)
Definition emit (text : bytes) (src : option (path * range)) (x : st) : st :=
  mkSt (s_skip x) (s_skipws x) (s_nodes x) (s_defs x) (s_item x) (s_inc x)
       (text :: s_out x) (Push (blen text) src :: s_ops x).

(* PreprocessedText::merge *)
Definition emit_merge (text : bytes) (ops : list op) (x : st) : st :=
  mkSt (s_skip x) (s_skipws x) (s_nodes x) (s_defs x) (s_item x) (s_inc x)
       (text :: s_out x) (Merge ops :: s_ops x).

Definition emit_node (s : bytes) (p : path) (t : tree) (x : st) : res st :=
  do l <- node_locate t; ROk (emit (lstr s l) (Some (p, lrange l)) x).

Definition out_text (x : st) : bytes := concat_bytes (rev (s_out x)).
Definition out_ops (x : st) : list op := rev (s_ops x).

(* the recursive entry (preprocess_str at one fuel less):
   s path defines ignore_include strip resolve_depth include_depth *)
Definition rec_t := bytes -> path -> defines -> bool -> bool -> N -> N -> res (bytes * list op * defines).

(* preprocess_inner: open, read, preprocess_str with resolve_depth 0 *)
Definition pp_file (c : cfg) (rec : rec_t) (p : path) (d : defines) (ignore strip : bool) (idepth : N)
  : res (bytes * list op * defines) :=
  match assoc p (cfg_fs c) with
  | None => RErr (EFile p)
  | Some FUnreadable => RErr (EReadUtf8 p)
  | Some (FText b) => rec b p d ignore strip 0 idepth
  end.

(* ------------------------------------------------------------------ resolve_text_macro_usage *)
(* List<Symbol, Option<ActualArgument>>::contents() from the flattened children *)
Fixpoint actual_args (s : bytes) (cs : list tree) (cur : option bytes) : list (option bytes) :=
  match cs with
  | [] => [cur]
  | t :: r =>
      if kind t =? K_ActualArgument then
        actual_args s r (match first_leaf t with Some l => Some (trim_end (lstr s l)) | None => cur end)
      else if kind t =? K_Symbol then cur :: actual_args s r None
      else actual_args s r cur
  end.

Fixpoint bind_args (formals : list (bytes * option bytes)) (actuals : list (option bytes))
  : bytes + list (bytes * bytes) :=
  match formals with
  | [] => inr []
  | (name, dflt) :: fr =>
      let v := match actuals with
               | Some a :: _ => Some a
               | None :: _ => Some (match dflt with Some d => d | None => [] end)
               | [] => dflt
               end in
      match v with
      | None => inl name
      | Some v =>
          match bind_args fr (tl actuals) with
          | inl e => inl e
          | inr m => inr ((name, v) :: m)
          end
      end
  end.

(* HashMap::get after sequential inserts: the last binding of a name wins *)
Definition amap_get (m : list (bytes * bytes)) (k : bytes) : option bytes := assoc k (rev m).

Definition six_replaces (t : bytes) : bytes :=
  replace_all [92;13] [13]
   (replace_all [92;13;10] [13;10]
     (replace_all [92;10] [10]
       (replace_all [96;34] [34]
         (replace_all [96;92;96;34] [92;34]
           (replace_all [96;96] [] t))))).

Definition substitute (m : list (bytes * bytes)) (body : bytes) : bytes :=
  concat_bytes (map (fun piece => match amap_get m piece with
                                  | Some v => v
                                  | None => six_replaces piece
                                  end) (split_text body)).

(* x : the TextMacroUsage node.  Result: None | Some (text, origin, new defines) *)
Definition resolve_usage (c : cfg) (rec : rec_t) (x : tree) (s : bytes) (p : path) (d : defines)
           (ignore strip : bool) (rdepth idepth : N)
  : res (option (bytes * option (path * range) * defines)) :=
  match children x with
  | _sym :: name :: rest =>
      do id <- unwrap_id name s;
      if cfg_limit c <? rdepth then RErr EExceed else
      let no_args := match rest with [] => true | _ => false end in
      let args_str := get_str_all rest s in
      let actuals := match rest with
                     | _ :: loaa :: _ => actual_args s (children loaa) None
                     | _ => []
                     end in
      match def_get d id with
      | Some (Some df) =>
          if negb (match d_args df with [] => true | _ => false end) && no_args
          then RErr (EDefineNoArgs (d_id df)) else
          match bind_args (d_args df) actuals with
          | inl a => RErr (EDefineArgNotFound a)
          | inr m =>
              match d_text df with
              | Some (body, org) =>
                  let replaced := substitute m body ++
                                  (match d_args df with [] => args_str | _ => [] end) in
                  do r <- rec replaced p d ignore strip rdepth idepth;
                  let '(text, _, nd) := r in
                  ROk (Some (text, org, nd))
              | None => ROk None
              end
          end
      | Some None => ROk None
      | None => RErr (EDefineNotFound id)
      end
  | _ => RPanic 4
  end.

(* ------------------------------------------------------------------ the three matches *)
(* `ifdef / `ifndef: which bodies go on the skip list *)
Fixpoint cond_rest (s : bytes) (d : defines) (ifid : bytes) (hit : bool) (cs : list tree) (x : st) : res st :=
  match cs with
  | _sym :: kw :: third :: r =>
      if kind third =? K_TextMacroIdentifier then
        match r with
        | body :: r' =>
            let x := skip_push third (skip_push kw x) in
            do eid <- unwrap_id third s;
            if hit then cond_rest s d ifid true r' (skip_push body x)
            else if def_contains d eid || is_predefined ifid     (* sic: `ifid`, not `elsifid` *)
            then cond_rest s d ifid true r' x
            else cond_rest s d ifid false r' (skip_push body x)
        | [] => RPanic 5
        end
      else if kind third =? K_ElseGroupOfLines then
        let x := skip_push kw x in
        ROk (if hit then skip_push third x else x)
      else RPanic 5
  | _ => ROk x       (* ` endif *)
  end.

Definition cond_enter (neg : bool) (s : bytes) (t : tree) (x : st) : res st :=
  match children t with
  | _sym :: kw :: ifid_n :: body :: rest =>
      let x := skip_push ifid_n (skip_push kw x) in
      do ifid <- unwrap_id ifid_n s;
      let defd := def_contains (s_defs x) ifid || is_predefined ifid in
      let hit := if neg then negb defd else defd in
      cond_rest s (s_defs x) ifid hit rest (if hit then x else skip_push body x)
  | _ => RPanic 5
  end.

(* formal arguments of a `define *)
Definition formal_of (s : bytes) (fa : tree) : res (bytes * option bytes) :=
  match children fa with
  | Node _ (Leaf l :: _) :: r =>
      match r with
      | _eq :: dt :: _ => do dl <- node_locate dt; ROk (lstr s l, Some (lstr s dl))
      | _ => ROk (lstr s l, None)
      end
  | _ => RPanic 6
  end.

Fixpoint formals_of (s : bytes) (cs : list tree) : res (list (bytes * option bytes)) :=
  match cs with
  | [] => ROk []
  | t :: r => if kind t =? K_FormalArgument
              then do a <- formal_of s t; do m <- formals_of s r; ROk (a :: m)
              else formals_of s r
  end.

Definition define_enter (s : bytes) (p : path) (t : tree) (x : st) : res st :=
  let x := set_skip true (skip_push t x) in
  match children t with
  | _sym :: _kw :: proto :: text =>
      match children proto with
      | name :: args =>
          do id <- unwrap_id name s;
          do x <- (if is_predefined id then ROk x else
                     do fs <- (match args with
                               | _ :: lofa :: _ => formals_of s (children lofa)
                               | _ => ROk []
                               end);
                     do dt <- (match text with
                               | mt :: _ => do l <- node_locate mt; ROk (Some (lstr s l, Some (p, lrange l)))
                               | [] => ROk None
                               end);
                     ROk (set_defs (def_insert (s_defs x) id (Some (mkDef id fs dt))) x));
          emit_node s p t x
      | [] => RPanic 7
      end
  | _ => RPanic 7
  end.

Definition include_enter (c : cfg) (rec : rec_t) (s : bytes) (p : path) (strip : bool) (rdepth idepth : N)
           (t : tree) (x : st) : res st :=
  let x := set_skip true (skip_push t x) in
  do l <- node_locate t;
  let x := set_inc (Some (l_line l)) x in
  if (match s_item x with Some i => i =? l_line l | None => false end) then RErr EIncludeLine else
  match children t with
  | [inner] =>
      match children inner with
      | [_sym; kw; third] =>
          let x := skip_push kw x in
          do nx <- (if kind inner =? K_IncludeCompilerDirectiveDoubleQuote then
                      match first_leaf third with
                      | Some fl => ROk (trim_matches 34 (lstr s fl), x)
                      | None => RPanic 8
                      end
                    else if kind inner =? K_IncludeCompilerDirectiveAngleBracket then
                      match first_leaf third with
                      | Some fl => ROk (trim_end_by (N.eqb 62) (trim_start_by (N.eqb 60) (lstr s fl)), x)
                      | None => RPanic 8
                      end
                    else
                      let x := skip_push third x in
                      do r <- resolve_usage c rec third s p (s_defs x) false strip (rdepth + 1) idepth;
                      match r with
                      | Some (text, _, _) => ROk (trim_matches 34 (trim text), x)
                      | None => ROk ([], x)
                      end);
          let '(name, x) := nx in
          let file := resolve_path c name in
          match pp_file c rec file (s_defs x) false strip (idepth + 1) with
          | ROk (text, ops, nd) => ROk (emit_merge text ops (set_defs nd x))
          | RErr e => RErr (EInclude e)
          | RPanic k => RPanic k
          | RFuel => RFuel
          | RNeedParse u => RNeedParse u
          end
      | _ => RPanic 8
      end
  | _ => RPanic 8
  end.

(* white space attached to the usage's last token is pushed after the expansion *)
Definition emit_ws_under (s : bytes) (p : path) (t : tree) (x : st) : res st :=
  fold_left (fun acc n => do a <- acc;
                          if is_ws_kind (kind n) then emit_node s p n a else ROk a)
            (preorder t) (ROk x).

Definition usage_enter (c : cfg) (rec : rec_t) (s : bytes) (p : path) (ignore strip : bool) (rdepth idepth : N)
           (t : tree) (x : st) : res st :=
  let x := set_skip true (skip_push t x) in
  do r <- resolve_usage c rec t s p (s_defs x) ignore strip (rdepth + 1) idepth;
  let x := match r with
           | Some (text, org, nd) => set_defs nd (emit text org x)
           | None => x
           end in
  match children t with
  | [_sym; id] => emit_ws_under s p id x
  | [_sym; _id; _open; _args; close] => emit_ws_under s p close x
  | _ => RPanic 9
  end.

Definition position_enter (s : bytes) (p : path) (t : tree) (x : st) : res st :=
  let x := set_skip true (skip_push t x) in
  match children t with
  | [_sym; kw] =>
      do l <- node_locate kw;
      let w := lstr s l in
      if starts_with s_FILE w then
        ROk (emit (replace_all s_FILE (34 :: p ++ [34]) w) None x)
      else if starts_with s_LINE w then
        ROk (emit (replace_all s_LINE (decimal (l_line l)) w) None x)
      else ROk x
  | _ => RPanic 10
  end.

(* str.matches('\n').count() *)
Definition count_nl (b : bytes) : N := N.of_nat (length (filter (N.eqb 10) b)).

(* str.split('\n').next() *)
Fixpoint first_line (b : bytes) : bytes :=
  match b with
  | [] => []
  | c :: r => if c =? 10 then [] else c :: first_line r
  end.

(* SourceDescription::StringLiteral(x) / ::EscapedIdentifier(x): the inner node *)
Definition str_or_esc (t : tree) : option tree :=
  if kind t =? K_SourceDescription then
    match children t with
    | [ch] => if (kind ch =? K_StringLiteral) || (kind ch =? K_EscapedIdentifier) then Some ch else None
    | _ => None
    end
  else None.

(* second `match`: line bookkeeping for the IncludeLine rule *)
Definition step2 (s : bytes) (e : ev) (x : st) : res st :=
  match e with
  | Enter t =>
      if kind t =? K_SourceDescriptionNotDirective then
        do l <- node_locate t;
        if (match s_inc x with Some i => i =? l_line l | None => false end) &&
           negb (match trim (first_line (lstr s l)) with [] => true | _ => false end)
        then RErr EIncludeLine else ROk x
      else if kind t =? K_CompilerDirective then
        do l <- node_locate t;
        if (match s_inc x with Some i => i =? l_line l | None => false end)
        then RErr EIncludeLine else ROk x
      else match str_or_esc t with
           | Some ch =>
               match first_leaf ch with
               | Some l =>
                   if (match s_inc x with Some i => i =? l_line l | None => false end)
                   then RErr EIncludeLine
                   else ROk (set_item (Some (l_line l + count_nl (lstr s l))) x)
               | None => RPanic 12
               end
           | None => ROk x
           end
  | Leave t =>
      if kind t =? K_SourceDescriptionNotDirective then
        do l <- node_locate t;
        ROk (match trim (lstr s l) with
             | [] => x
             | _ => set_item (Some (l_line l + count_nl (trim_end (lstr s l)))) x
             end)
      else if kind t =? K_CompilerDirective then
        do l <- node_locate t; ROk (set_item (Some (l_line l + count_nl (trim_end (lstr s l)))) x)
      else ROk x
  end.

(* third `match` *)
Definition step3 (c : cfg) (rec : rec_t) (s : bytes) (p : path) (ignore strip : bool) (rdepth idepth : N)
           (e : ev) (x : st) : res st :=
  match e with
  | Enter t =>
      let k := kind t in
      if k =? K_SourceDescriptionNotDirective then emit_node s p t x
      else if k =? K_SourceDescription then
        match children t with
        | [ch] => if (kind ch =? K_StringLiteral) || (kind ch =? K_EscapedIdentifier)
                  then emit_node s p ch x else ROk x
        | _ => ROk x
        end
      else if is_kept_kind k then do x <- emit_node s p t x; ROk (set_skipws true x)
      else if k =? K_UndefineCompilerDirective then
        match children t with
        | [_; _; name] =>
            do id <- (match children name with i :: _ => unwrap_id i s | [] => RPanic 3 end);
            do x <- emit_node s p t (set_defs (def_remove (s_defs x) id) x);
            ROk (set_skipws true x)
        | _ => RPanic 11
        end
      else if k =? K_UndefineallCompilerDirective then
        do x <- emit_node s p t (set_defs [] x); ROk (set_skipws true x)
      else if k =? K_IfdefDirective then cond_enter false s t x
      else if k =? K_IfndefDirective then cond_enter true s t x
      else if is_ws_kind k then
        if negb (s_skipws x) && (k =? K_WhiteSpace_Space) then emit_node s p t x else ROk x
      else if k =? K_Comment then
        if negb strip then
          do l <- node_locate t;
          let w := lstr s l in
          let x1 := emit w (Some (p, lrange l)) x in
          (* a one-line comment that runs to the end of a macro expansion is closed by a newline *)
          if (0 <? rdepth) && starts_with [47;47] w && negb (ends_with [10] w)
          then ROk (emit [10] (Some (p, mkR (l_off l + l_len l - 1) (l_off l + l_len l))) x1)
          else ROk x1
        else
          do l <- node_locate t;
          let w := lstr s l in
          if starts_with [47;42] w then ROk (emit [32] (Some (p, mkR (l_off l) (l_off l + 1))) x)
          else if ends_with [10] w || (0 <? rdepth) then
            ROk (emit [10] (Some (p, mkR (l_off l + l_len l - 1) (l_off l + l_len l))) x)
          else ROk x
      else if k =? K_TextMacroDefinition then define_enter s p t x
      else if (k =? K_IncludeCompilerDirective) && negb ignore then
        include_enter c rec s p strip rdepth idepth t x
      else if k =? K_TextMacroUsage then usage_enter c rec s p ignore strip rdepth idepth t x
      else if k =? K_PositionCompilerDirective then position_enter s p t x
      else ROk x
  | Leave t =>
      let k := kind t in
      if is_kept_kind k || (k =? K_UndefineCompilerDirective) || (k =? K_UndefineallCompilerDirective)
      then ROk (set_skipws false x) else ROk x
  end.

Definition step (c : cfg) (rec : rec_t) (s : bytes) (p : path) (ignore strip : bool) (rdepth idepth : N)
           (e : ev) (x : st) : res st :=
  let skip' := match e with
               | Enter t => if skip_contains x t then true else s_skip x
               | Leave t => if skip_contains x t then false else s_skip x
               end in
  let x := set_skip skip' x in
  if skip' then ROk x else
  do x <- step2 s e x;
  step3 c rec s p ignore strip rdepth idepth e x.

Fixpoint run_events (f : ev -> st -> res st) (evs : list ev) (x : st) : res st :=
  match evs with
  | [] => ROk x
  | e :: r => do x' <- f e x; run_events f r x'
  end.

Definition st0 (d : defines) : st := mkSt false false [] d None None [] [].

(* preprocess_str, one level; [rec] is the same function with less fuel *)
Definition pp_str_body (c : cfg) (rec : rec_t) (s : bytes) (p : path) (pre : defines)
           (ignore strip : bool) (rdepth idepth : N) : res (bytes * list op * defines) :=
  if cfg_limit c <? idepth then RErr EExceed else
  match assoc s (cfg_parse c) with
  | None => RNeedParse s
  | Some (inr pos) => RErr (EPreprocess (Some (p, pos)))
  | Some (inl t) =>
      do x <- run_events (step c rec s p ignore strip rdepth idepth) (events t) (st0 (seed_defines pre));
      ROk (out_text x, out_ops x, s_defs x)
  end.

Fixpoint pp_str (fuel : nat) (c : cfg) : rec_t :=
  fun s p pre ignore strip rdepth idepth =>
    match fuel with
    | O => RFuel
    | S f => pp_str_body c (pp_str f c) s p pre ignore strip rdepth idepth
    end.

(* pub fn preprocess(path, pre_defines, include_paths, strip_comments, ignore_include) *)
Definition preprocess (fuel : nat) (c : cfg) (p : path) (pre : defines) (strip ignore : bool)
  : res (bytes * list op * defines) :=
  pp_file c (pp_str fuel c) p pre ignore strip 0.
