(* Model of sv-parser-pp/src/range.rs : `Range` with its overlap-as-equality order.
   Model only; lemmas are in RangeFacts.v. *)
From Coq Require Export List NArith Bool.
Export ListNotations.
Open Scope N_scope.

Record range := mkR { rb : N; re : N }.

(* impl PartialEq for Range *)
Definition req (a b : range) : bool :=
  if rb a <=? rb b then rb b <? re a else rb a <? re b.

(* impl Ord for Range *)
Definition rcmp (a b : range) : comparison :=
  if req a b then Eq else N.compare (rb a) (rb b).

(* Range::offset *)
Definition roffset (r : range) (d : N) : range := mkR (rb r + d) (re r + d).

(* Range::new asserts begin <= end; the model makes the assertion visible. *)
Definition rnew_ok (b e : N) : bool := b <=? e.

Definition rlen (r : range) : N := re r - rb r.
Definition rnonempty (r : range) : bool := rb r <? re r.
Definition rin (p : N) (r : range) : bool := (rb r <=? p) && (p <? re r).
