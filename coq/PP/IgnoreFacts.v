(* C10: with ignore_include the evaluator never consults the file system nor the include paths:
   its result is the same for every cfg_fs / cfg_incs.  Proofs only. *)
From SV Require Import Eval EvalFacts.

Lemma run_events_ext f g : (forall e x, f e x = g e x) -> forall evs x, run_events f evs x = run_events g evs x.
Proof.
  intros H evs. induction evs as [|e r IH]; intros x; cbn [run_events]; [reflexivity|].
  rewrite H. destruct (g e x); cbn [bind]; auto.
Qed.

Section Ignore.
Variables (c1 c2 : cfg) (rec1 rec2 : rec_t).
Hypothesis Hparse : cfg_parse c1 = cfg_parse c2.
Hypothesis Hlimit : cfg_limit c1 = cfg_limit c2.
Hypothesis Hrec : forall s p d st rd idp, rec1 s p d true st rd idp = rec2 s p d true st rd idp.

Lemma resolve_usage_ignore x s p d st rd idp :
  resolve_usage c1 rec1 x s p d true st rd idp = resolve_usage c2 rec2 x s p d true st rd idp.
Proof.
  unfold resolve_usage. rewrite Hlimit.
  destruct (children x) as [|sym [|name rest]]; try reflexivity.
  destruct (unwrap_id name s); cbn [bind]; try reflexivity.
  destruct (cfg_limit c2 <? rd); [reflexivity|].
  destruct (def_get d a) as [[df|]|]; try reflexivity.
  destruct (negb _ && _); [reflexivity|].
  destruct (bind_args _ _); [reflexivity|].
  destruct (d_text df) as [[body org]|]; [|reflexivity].
  now rewrite Hrec.
Qed.

Lemma usage_enter_ignore s p st rd idp t x :
  usage_enter c1 rec1 s p true st rd idp t x = usage_enter c2 rec2 s p true st rd idp t x.
Proof. unfold usage_enter. now rewrite resolve_usage_ignore. Qed.

Lemma step_ignore s p st rd idp e x :
  step c1 rec1 s p true st rd idp e x = step c2 rec2 s p true st rd idp e x.
Proof.
  unfold step. destruct (match e with Enter t => _ | Leave t => _ end); [reflexivity|].
  destruct (step2 s e (set_skip false x)); cbn [bind]; try reflexivity.
  unfold step3. destruct e as [t|t]; [|reflexivity].
  cbn [negb]. rewrite !andb_false_r. now rewrite usage_enter_ignore.
Qed.

Lemma pp_str_body_ignore s p pre st rd idp :
  pp_str_body c1 rec1 s p pre true st rd idp = pp_str_body c2 rec2 s p pre true st rd idp.
Proof.
  unfold pp_str_body. rewrite Hlimit, Hparse.
  destruct (cfg_limit c2 <? idp); [reflexivity|].
  destruct (assoc s (cfg_parse c2)) as [[t|pos]|]; try reflexivity.
  now rewrite (run_events_ext _ _ (step_ignore s p st rd idp)).
Qed.
End Ignore.

Theorem pp_str_ignore_fs : forall fuel c1 c2 s p pre st rd idp,
  cfg_parse c1 = cfg_parse c2 -> cfg_limit c1 = cfg_limit c2 ->
  pp_str fuel c1 s p pre true st rd idp = pp_str fuel c2 s p pre true st rd idp.
Proof.
  induction fuel as [|f IH]; intros c1 c2 s p pre st rd idp Hp Hl; [reflexivity|].
  cbn [pp_str]. apply pp_str_body_ignore; auto.
Qed.
