(* Model of `PreprocessedText` (sv-parser-pp/src/preprocess.rs:20-83): the origin map.
   The `BTreeMap<Range, Origin>` is modelled as the key-ordered association list that a
   B-tree represents, searched with the key's own `cmp` (bt_get / bt_insert below).
   That is exact whenever `cmp` is a consistent order on the keys present plus the probe
   (proved in OriginFacts.v under SegsOk); it is the documented assumption on std. *)
From SV Require Export Range.

Definition path := list N.            (* bytes of the path as given *)

Record origin := mkO { o_range : range; o_src : option (path * range) }.

Definition bmap := list (range * origin).

Fixpoint bt_insert (k : range) (v : origin) (m : bmap) : bmap :=
  match m with
  | [] => [(k, v)]
  | (k', v') :: m' =>
      match rcmp k k' with
      | Lt => (k, v) :: m
      | Eq => (k', v) :: m'            (* BTreeMap::insert keeps the old key *)
      | Gt => (k', v') :: bt_insert k v m'
      end
  end.

Fixpoint bt_get (k : range) (m : bmap) : option origin :=
  match m with
  | [] => None
  | (k', v') :: m' =>
      match rcmp k k' with
      | Lt => None
      | Eq => Some v'
      | Gt => bt_get k m'
      end
  end.

(* text is abstracted to its byte length here; Engine Q carries the bytes. *)
Record ptext := mkPT { pt_len : N; pt_map : bmap }.

Definition pt_new : ptext := mkPT 0 [].

(* PreprocessedText::push (with the fix: an empty string adds no map entry). *)
Definition pt_push (skip_empty : bool) (pt : ptext) (n : N) (src : option (path * range)) : ptext :=
  if skip_empty && (n =? 0) then pt else
  let base := pt_len pt in
  let r := mkR base (base + n) in
  mkPT (base + n) (bt_insert r (mkO r src) (pt_map pt)).

(* PreprocessedText::merge *)
Definition pt_merge (pt other : ptext) : ptext :=
  let base := pt_len pt in
  mkPT (base + pt_len other)
       (fold_left (fun m kv =>
                     let '(k, o) := kv in
                     bt_insert (roffset k base) (mkO (roffset (o_range o) base) (o_src o)) m)
                  (pt_map other) (pt_map pt)).

Inductive oresult :=
| ONone                      (* no origin *)
| OSome (p : path) (off : N)
| OPanic.                    (* `pos - origin.range.begin` would underflow *)

(* PreprocessedText::origin *)
Definition pt_origin (pt : ptext) (pos : N) : oresult :=
  match bt_get (mkR pos (pos + 1)) (pt_map pt) with
  | None => ONone
  | Some o =>
      match o_src o with
      | None => ONone
      | Some (p, r) =>
          if pos <? rb (o_range o) then OPanic
          else OSome p (pos - rb (o_range o) + rb r)
      end
  end.

(* Operation trees: what the preprocessor does to one PreprocessedText.
   `Merge ops` = a nested run (an `include`) whose result is merged in. *)
Inductive op :=
| Push (n : N) (src : option (path * range))
| Merge (ops : list op).

Fixpoint run_op (se : bool) (pt : ptext) (o : op) : ptext :=
  match o with
  | Push n src => pt_push se pt n src
  | Merge ops =>
      pt_merge pt
        ((fix go (l : list op) (acc : ptext) : ptext :=
            match l with
            | [] => acc
            | x :: r => go r (run_op se acc x)
            end) ops pt_new)
  end.

Definition run_ops (se : bool) (ops : list op) : ptext :=
  fold_left (run_op se) ops pt_new.

(* Abstract specification: the output is an array of bytes, each with a provenance. *)
Fixpoint oplen (o : op) : N :=
  match o with
  | Push n _ => n
  | Merge ops => (fix go (l : list op) : N :=
                    match l with [] => 0 | x :: r => oplen x + go r end) ops
  end.

Fixpoint prov_at (o : op) (i : N) : oresult :=
  match o with
  | Push _ None => ONone
  | Push _ (Some (p, r)) => OSome p (i + rb r)
  | Merge ops =>
      (fix go (l : list op) (i : N) : oresult :=
         match l with
         | [] => ONone
         | x :: r => if i <? oplen x then prov_at x i else go r (i - oplen x)
         end) ops i
  end.

Definition prov_at_ops (ops : list op) (i : N) : oresult := prov_at (Merge ops) i.
